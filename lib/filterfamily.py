"""Shared driver code of the stream filter properties C15 / C16 / C17.

G: TLC enumerates the cases of spec/FilterGen.tla (C15, C16).  R: harness/cmd/filter runs them through the real
pdfcpu filters / StreamDict / file reader+writer and writes one record per observation.  V: TLC judges every record with
spec/FilterTrace.tla (operators of spec/Filter.tla); records it does not accept come back as BAD payloads."""
import json, os
import vlib

WORKERS = min(8, vlib.NCPU)


def summary(p):
    lines = [l for l in p.stdout.splitlines() if l.startswith("SUMMARY ")]
    if not lines:
        raise vlib.HarnessError("harness command printed no SUMMARY:\n" + p.stdout[-2000:])
    return json.loads(lines[-1][8:])


def gen_cases(ctx, prop, out):
    """TLC enumerates every case of FilterGen for (prop, tier) into `out` (ndjson)."""
    res = vlib.run_tlc("FilterGen", "FilterGen.cfg", workers=2, timeout=1500, payloads={"CASE": out},
                       consts={"Prop": '"%s"' % prop, "Tier": '"%s"' % ctx.tier})
    if res.violated or not res.ok:
        raise vlib.HarnessError("FilterGen violates its own well-formedness invariant %s:\n%s" % (res.violated, res.error_state))
    n = res.payload_counts.get("CASE", 0)
    if n == 0 or n != res.distinct:
        raise vlib.HarnessError("FilterGen: %d cases printed for %d states" % (n, res.distinct))
    ctx.ev.tlc(res, "FilterGen %s %s" % (prop, ctx.tier))
    return n


def judge(ctx, prop, records, d):
    """TLC judges the records; returns (rows, [(row, why list)], note payloads [{i, id, tags}])."""
    rows = vlib.read_ndjson(records)
    if not rows:
        raise vlib.HarnessError("no records to judge")
    bad = os.path.join(d, "bad.ndjson")
    note = os.path.join(d, "note.ndjson")
    for f in (bad, note):
        if os.path.exists(f):
            os.unlink(f)
    res = vlib.run_tlc("FilterTrace", "FilterTrace_%s.cfg" % prop, files=[(records, "records.ndjson")], workers=WORKERS,
                       timeout=2400, payloads={"BAD": bad, "NOTE": note}, heap="4g")
    if res.violated or not res.ok:
        raise vlib.HarnessError("FilterTrace did not judge all %d records (%s):\n%s" % (len(rows), res.violated, res.out[-1500:]))
    if res.distinct != len(rows):
        raise vlib.HarnessError("FilterTrace judged %d of %d records" % (res.distinct, len(rows)))
    ctx.ev.tlc(res, "FilterTrace %s" % prop)
    out = []
    if os.path.exists(bad):
        for b in vlib.read_ndjson(bad):
            r = rows[b["i"] - 1]
            if r["id"] != b["id"]:
                raise vlib.HarnessError("BAD payload does not match its record: %s" % b)
            out.append((r, b["why"]))
    out.sort(key=lambda t: t[0]["id"])
    notes = vlib.read_ndjson(note) if os.path.exists(note) else []
    return rows, out, notes


def stage_sig(s):
    t = s["f"]
    if s.get("ec", -1) != -1:
        t += "/ec%d" % s["ec"]
    if s["pred"] != -1:
        t += "/p%d" % s["pred"]
    if (s["colors"], s["bpc"], s["cols"]) != (-1, -1, -1):
        t += "/c%db%dw%d" % (s["colors"], s["bpc"], s["cols"])
    return t


def pipe_sig(pipe):
    return ",".join(stage_sig(s) for s in pipe)


def inp_sig(i):
    return "%s(%d,%d,%d)" % (i["kind"], i["n"], i["a"], i["b"])


def dflt(v, d):
    return d if v == -1 else v


def row_size(s):
    return (dflt(s["colors"], 1) * dflt(s["bpc"], 8) * dflt(s["cols"], 1) + 7) // 8


def report_grouped(ctx, groups):
    """groups: key -> [what, example, count]; one report per key (the first example is the replay object)."""
    for key in sorted(groups):
        what, ex, n = groups[key]
        ctx.report(key, "%s [%d record(s) of this run]" % (what, n), ex)
