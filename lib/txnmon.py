"""Inclusion of recorded os-call traces of batch installs in the behaviours of spec/Txn.tla (via spec/TxnTrace.tla).

project() reduces every trace of harness/cmd/txn whose operation follows the staged-batch scheme (hidden staging directory,
hidden backup directory) to the events of the protocol; validate() runs TLC once per (N, Pre) group."""
import json, os, re, shutil, collections
import vlib

STAGE_PAT = re.compile(r"/\.pdfcpu-(ttc|font)-install-#\d+$")
BACKUP_PAT = re.compile(r"/\.pdfcpu-font-backup-#\d+$")


def _r(c):
    return "ok" if c["r"] in ("ok", "ENOENT", "EEXIST") and not c["inj"] else "err"


def project_one(tr):
    b, e = tr[0], tr[-1]
    outs = b["outs"]
    if len(outs) < 2:
        return None, "not-a-batch"
    initial = {x["p"] for x in b["init"]}
    calls = tr[1:-1]
    stage = backup = None
    for c in calls:
        if c["op"] == "mkdir" and STAGE_PAT.search("/" + c["a"]):
            stage = c["a"]
            break
    if stage is None:
        return None, "no-staging-directory"
    fontdir = os.path.dirname(stage)
    kind = "collection" if "-ttc-install-" in stage else "files"
    member = {}          # target path -> index in commit order (the order of the lstat calls), staging order until then
    staged = 0
    ev = []
    phase = "pre"        # pre, staging, commit
    failed = False
    src_h = None
    sync_run = None      # result of the current run of directory-sync calls
    dirh = {}
    pending = None       # member renamed into the staging dir, waiting for the directory sync

    def flush_sync():
        nonlocal sync_run, pending
        if sync_run is None:
            return
        if phase == "staging":
            if pending is not None and sync_run == "ok":
                ev.append({"ev": "Stage", "r": "ok", "f": pending})
                pending = None
            elif sync_run == "err":
                ev.append({"ev": "Stage", "r": "err", "f": 0})
        else:
            ev.append({"ev": "Sync", "r": sync_run, "f": 0})
        sync_run = None

    for c in calls:
        op, a, bb = c["op"], c["a"], c["b"]
        r = _r(c)
        is_dir_sync = (op == "openfile" and (a == fontdir or a == stage or a == backup) and not c["creat"]) or \
                      (op in ("fsync", "close") and c["h"] in dirh)
        if is_dir_sync and phase != "pre":
            if op == "openfile" and r == "ok":
                dirh[c["h"]] = a
            if op == "close":
                dirh.pop(c["h"], None)
            sync_run = "err" if (r == "err" or sync_run == "err") else "ok"
            continue
        flush_sync()
        if phase == "pre":
            if op == "openfile" and r == "ok" and src_h is None and not a.startswith(fontdir + "/"):
                src_h = c["h"]
            if op == "mkdir" and a == stage:
                ev.append({"ev": "MkStage", "r": r, "f": 0})
                if r == "ok":
                    phase = "staging"
                else:
                    failed = True
            continue
        if phase == "staging":
            if op == "rename" and bb.startswith(stage + "/") and not os.path.basename(bb).startswith("."):
                if r == "ok" and os.path.dirname(bb) != stage:
                    pass        # a batch of files stages every input in its own sub directory first
                elif r == "ok":
                    staged += 1
                    if kind == "collection":
                        pending = staged          # durable after the directory sync that follows
                    else:
                        ev.append({"ev": "Stage", "r": "ok", "f": staged})
                else:
                    ev.append({"ev": "Stage", "r": "err", "f": 0})
                    failed = True
            elif op == "close" and kind == "collection" and c["h"] == src_h and not failed and pending is None and staged == len(outs):
                ev.append({"ev": "CloseIn", "r": r, "f": 0})
                failed = failed or r == "err"
            elif op == "mkdir" and BACKUP_PAT.search("/" + a):
                backup = a
                ev.append({"ev": "MkBackup", "r": r, "f": 0})
                if r == "ok":
                    phase = "commit"
                else:
                    failed = True
            elif op == "removeall" and a == stage:
                ev.append({"ev": "RmStage", "r": r, "f": 0})
            elif r == "err" and not failed:
                ev.append({"ev": "Stage", "r": "err", "f": 0})
                failed = True
            continue
        # commit / rollback
        if op == "lstat" and a in outs and a not in member:
            member[a] = len(member) + 1
        if op == "lstat" and a in member:
            ev.append({"ev": "Lstat", "r": r, "f": member[a]})
        elif op == "rename" and a in member and backup and bb.startswith(backup + "/"):
            ev.append({"ev": "Backup", "r": r, "f": member[a]})
        elif op == "rename" and a.startswith(stage + "/") and bb in member:
            ev.append({"ev": "Publish", "r": r, "f": member[bb]})
        elif op == "remove" and a in member:
            ev.append({"ev": "RbRemove", "r": r, "f": member[a]})
        elif op == "rename" and backup and a.startswith(backup + "/") and bb in member:
            ev.append({"ev": "RbRestore", "r": r, "f": member[bb]})
        elif op == "removeall" and a == backup:
            ev.append({"ev": "RmBackup", "r": r, "f": 0})
        elif op == "removeall" and a == stage:
            ev.append({"ev": "RmStage", "r": r, "f": 0})
        elif r == "err":
            return None, "unmodelled-failing-call:" + op
    flush_sync()
    if e["outcome"] not in ("ok", "err"):
        return None, "outcome-" + e["outcome"]
    if e["outcome"] == "ok" and len(member) != len(outs):
        return None, "member-count"
    # members that were never staged keep the order of outs
    order = sorted(member, key=member.get) + [o for o in outs if o not in member]
    fin = {f["p"]: f for f in e["final"]}
    final = []
    for t in order:
        f = fin.get(t)
        final.append("absent" if f is None else ("old" if f["cid"].startswith("init:") else "new"))
    n = len(outs)
    pre = tuple(k + 1 for k, t in enumerate(order) if t in initial)
    ev.append({"ev": "end", "r": "ok", "f": 0, "outcome": e["outcome"], "final": final,
               "stage": "present" if stage in fin else "none", "backup": "present" if (backup and backup in fin) else "none"})
    return (kind, n, pre), ev


def project(trace_path, names=("font.InstallTrueTypeCollection", "api.InstallFonts")):
    groups = collections.defaultdict(list)
    skipped = {}
    cur = []
    for line in open(trace_path):
        j = json.loads(line)
        cur.append(j)
        if j["ev"] == "end":
            if cur[0]["name"].split("/")[0] in names:
                g, ev = project_one(cur)
                if g is None:
                    skipped[ev] = skipped.get(ev, 0) + 1
                else:
                    for x in ev:
                        x.setdefault("outcome", "")
                        x.setdefault("final", [])
                        x.setdefault("stage", "")
                        x.setdefault("backup", "")
                        x["t"] = cur[0]["t"]
                        x["name"] = cur[0]["name"]
                    groups[g].append(ev)
            cur = []
    return groups, skipped


def validate(trace_path, max_rounds=8):
    groups, skipped = project(trace_path)
    drift, stats = [], {"skipped": skipped, "groups": {}, "events": 0, "states": 0}
    d = vlib.scratch_dir()
    try:
        for (kind, n, pre), trs in sorted(groups.items()):
            stats["groups"]["%s N=%d Pre=%s" % (kind, n, list(pre))] = len(trs)
            rounds = 0
            while trs and rounds < max_rounds:
                rounds += 1
                lines = [x for tr in trs for x in tr]
                p = os.path.join(d, "ttrace.ndjson")
                vlib.write_ndjson(p, lines)
                res = vlib.run_tlc("TxnTrace", "TxnTrace.cfg", files=[p], workers=1, timeout=900,
                                   consts={"N": str(n), "Pre": "{%s}" % ", ".join(map(str, pre)),
                                           "HasCloseIn": "TRUE" if kind == "collection" else "FALSE"})
                stats["states"] += res.distinct
                if rounds == 1:
                    stats["events"] += len(lines)
                if res.ok:
                    break
                m = re.findall(r'<<"HIGHWATER", (\d+), (\d+)>>', res.out)
                if res.violated not in ("postcondition", None) or not m:
                    raise vlib.HarnessError("TxnTrace (N=%d Pre=%s): %s\n%s" % (n, pre, res.violated, res.out[-2000:]))
                hw = int(m[-1][0])
                bad = lines[min(hw, len(lines)) - 1]
                drift.append({"t": bad["t"], "name": bad["name"], "at": bad["ev"], "r": bad["r"]})
                trs = [tr for tr in trs if tr[0]["t"] != bad["t"]]
        return drift, stats
    finally:
        shutil.rmtree(d, ignore_errors=True)


def design(tier="quick"):
    """Exhaustive TLC check of the batch protocol: today's scheme keeps its invariants for 2 and 3 members with every subset of
    pre-existing targets and up to 3 failing calls; two plausible slips must violate them."""
    out = {}
    mf = "3" if tier == "quick" else "30"     # 30 exceeds the number of calls of any run: every set of failing calls
    cases = ((2, "{}"), (2, "{1}"), (2, "{2}"), (2, "{1, 2}"), (3, "{1, 3}"))
    if tier != "quick":
        cases += ((3, "{}"), (3, "{2}"), (3, "{1, 2, 3}"))
    for n, pre in cases:
        r = vlib.run_tlc("Txn", "Txn.cfg", workers=2, timeout=600, consts={"N": str(n), "Pre": pre, "MaxFaults": mf, "Variant": '"asis"'})
        out["asis N=%d Pre=%s" % (n, pre)] = {"holds": r.ok, "violated": r.violated, "distinct_states": r.distinct}
        if not r.ok:
            raise vlib.HarnessError("Txn.tla design check fails for N=%d Pre=%s: %s" % (n, pre, r.violated))
    for v in ("nobackup", "listlate"):
        r = vlib.run_tlc("Txn", "Txn.cfg", workers=2, timeout=600, consts={"N": "2", "Pre": "{1}", "MaxFaults": "3", "Variant": '"%s"' % v})
        out["%s N=2 Pre={1}" % v] = {"holds": r.ok, "violated": r.violated, "distinct_states": r.distinct}
        if r.ok:
            raise vlib.HarnessError("Txn.tla: the slip %s does not violate any invariant (vacuous design check)" % v)
    return out
