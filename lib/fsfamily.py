"""Common driver for the file-system properties served by harness/cmd/fsops + spec/FSTrace.tla."""
import json, os, shutil, collections
import vlib, fsmon, stagedmon, txnmon


def run_mode(ctx, mode, extra_args=(), binary="fsops"):
    """Runs `fsops <mode>`, reports violations found on real snapshots and by the TLC monitor.
    Returns (rows, summary, monitor_stats, trace_sample)."""
    binp = vlib.build_bin(binary)
    d = vlib.scratch_dir()
    try:
        runs, trace = os.path.join(d, "runs.ndjson"), os.path.join(d, "trace.ndjson")
        p = vlib.sh([binp, mode, "--runs", runs, "--trace", trace, "--tier", ctx.tier, "--seed", str(ctx.seed)] + list(extra_args),
                    timeout=3400, env=dict(os.environ, VERIF_SANDBOX_BASE=d))
        summ = json.loads([l for l in p.stdout.splitlines() if l.startswith("SUMMARY ")][-1][8:])
        rows = vlib.read_ndjson(runs)
        if not rows:
            raise vlib.HarnessError("%s %s produced no runs" % (binary, mode))
        by_t = {}
        for r in rows:
            by_t[r["t"]] = r
            if r["verdict"] in ("violation", "finding"):
                ctx.report(r["key"], "%s [%s] %s" % (r["op"], r["cfg"], r["why"]), r)
        res, st = fsmon.validate(trace)
        drift = []
        for x in res:
            r = by_t.get(x["t"], {})
            if x["inv"] in fsmon.BINDING:
                drift.append(x)
                continue
            if r.get("verdict") in ("violation", "finding"):
                continue
            ctx.report("%s|%s|monitor:%s" % (r.get("op"), r.get("cfg"), x["inv"]),
                       "FSTrace invariant %s fails on the real trace of %s" % (x["inv"], x["name"]), {"run": r, "line": x["line"]})
        if drift and not ctx.violations:
            raise vlib.HarnessError("FSTrace model disagrees with the real file system (%s) on trace %s" % (drift[0]["inv"], drift[0]["name"]))
        st["drift"] = len(drift)
        # protocol inclusion: are the recorded runs behaviours of spec/Staged.tla? (not a verdict: a drifting run is
        # reported in the evidence and on stderr; the verdicts stay with the snapshots and the FSTrace monitor)
        if binary == "fsops":
            sdrift, sst = stagedmon.validate(trace)
            st["staged"] = dict(sst, design=stagedmon.design(ctx.tier) if mode == "c01" else "see C01", drift=[dict(x, at=x["at"]["ev"]) for x in sdrift[:20]], drift_count=len(sdrift))
            for x in sdrift[:5]:
                vlib.log("PROTOCOL-DRIFT %s: the real run %s (t=%d) is not a behaviour of Staged.tla at event %s" % (mode, x["name"], x["t"], x["at"]))
        if binary == "txn" and mode == "c06":
            # batch protocol inclusion (spec/Txn.tla): evidence only, like the Staged inclusion
            tdrift, tst = txnmon.validate(trace)
            st["txn"] = dict(tst, design=txnmon.design(ctx.tier), drift=tdrift[:20], drift_count=len(tdrift))
            for x in tdrift[:5]:
                vlib.log("PROTOCOL-DRIFT %s: the real run %s (t=%d) is not a behaviour of Txn.tla at event %s" % (mode, x["name"], x["t"], x["at"]))
        tl = vlib.read_ndjson(trace)
        return rows, summ, st, tl[1] if len(tl) > 1 else {}
    finally:
        shutil.rmtree(d, ignore_errors=True)
