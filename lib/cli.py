"""Driving the REAL pdfcpu CLI binary (built with the instrumented os package) in sandboxes: catalog of commands with an
explicit output file / output directory, snapshots, runs. Used by C04 (force matrix) and C41 (streams, JSON, exit status)."""
import hashlib, json, os, re, shutil, stat, subprocess, tempfile
import vlib

TD = os.path.join(vlib.REPO, "pkg", "testdata")
SAMPLES = os.path.join(vlib.REPO, "pkg", "samples")

INPUTS = {
    "small": os.path.join(TD, "zineTest.pdf"),
    "rot": os.path.join(TD, "testRot.pdf"),
    "form": os.path.join(SAMPLES, "form", "demo", "english.pdf"),
    "signed": os.path.join(SAMPLES, "signatures", "adbe.pkcs7.detached", "sample1.pdf"),
    "image": os.path.join(TD, "testImage.pdf"),
    "text": os.path.join(TD, "testWithText.pdf"),
}
AUX = {
    "logo.png": os.path.join(TD, "resources", "logoSmall.png"),
    "fill.json": os.path.join(SAMPLES, "form", "fill", "english.json"),
    "multi.json": os.path.join(SAMPLES, "form", "multifill", "json", "english.json"),
    "create.json": os.path.join(TD, "json", "create", "textAndAlignment.json"),
    "att.txt": os.path.join(TD, "fonts", "LICENSE.txt"),
    "in2.pdf": os.path.join(TD, "testRot.pdf"),
    "vp.json": os.path.join(TD, "json", "viewerPreferences.json"),
}

# kind: "file" (explicit outFile), "json" (explicit outFileJSON), "dir" (outDir)
# argv placeholders: {in} {out} {outdir} and aux file names {aux:<name>}
# inplace: the command accepts omitting the output (in-place update)
# stream: the command accepts "-" for input and output
# prep: list of argv run beforehand on {in} (in place) so that the command has something to do
CATALOG = [
    dict(id="optimize", argv=["optimize", "{in}", "{out}"], kind="file", input="small", inplace=True, stream=True),
    dict(id="trim", argv=["trim", "-p", "1-2", "{in}", "{out}"], kind="file", input="small", inplace=True, stream=True),
    dict(id="rotate", argv=["rotate", "{in}", "90", "{out}"], kind="file", input="small", inplace=True, stream=True),
    dict(id="collect", argv=["collect", "-p", "2,1", "{in}", "{out}"], kind="file", input="small", inplace=True, stream=True),
    dict(id="pages insert", argv=["pages", "insert", "-p", "2", "{in}", "{out}"], kind="file", input="small", inplace=True, stream=True),
    dict(id="pages remove", argv=["pages", "remove", "-p", "2", "{in}", "{out}"], kind="file", input="small", inplace=True, stream=True),
    dict(id="encrypt", argv=["encrypt", "--opw", "o", "{in}", "{out}"], kind="file", input="small", inplace=True, stream=True),
    dict(id="decrypt", argv=["decrypt", "--opw", "o", "{in}", "{out}"], kind="file", input="small", inplace=True, stream=True,
         prep=[["encrypt", "--opw", "o", "{in}"]]),
    dict(id="changeopw", argv=["changeopw", "--upw", "u", "{in}", "o", "o2", "{out}"], kind="file", input="small", inplace=True,
         prep=[["encrypt", "--upw", "u", "--opw", "o", "{in}"]]),
    dict(id="changeupw", argv=["changeupw", "--opw", "o", "{in}", "u", "u2", "{out}"], kind="file", input="small", inplace=True,
         prep=[["encrypt", "--upw", "u", "--opw", "o", "{in}"]]),
    dict(id="permissions set", argv=["permissions", "set", "--perm", "print", "--opw", "o", "{in}", "{out}"], kind="file", input="small", inplace=True,
         prep=[["encrypt", "--opw", "o", "{in}"]]),
    dict(id="stamp update", argv=["stamp", "update", "-m", "text", "--", "Final", "scale:0.5", "{in}", "{out}"], kind="file", input="small", inplace=True,
         prep=[["stamp", "add", "-m", "text", "--", "Draft", "scale:0.5", "{in}"]]),
    dict(id="watermark update", argv=["watermark", "update", "-m", "text", "--", "Final", "scale:0.5", "{in}", "{out}"], kind="file", input="small", inplace=True,
         prep=[["watermark", "add", "-m", "text", "--", "Draft", "scale:0.5", "{in}"]]),
    dict(id="keywords add", argv=["keywords", "add", "{in}", "{out}", "alpha", "beta"], kind="file", input="small", inplace=False, stream=False),
    dict(id="keywords remove", argv=["keywords", "remove", "{in}", "{out}"], kind="file", input="small", inplace=True, stream=True,
         prep=[["keywords", "add", "{in}", "alpha"]]),
    dict(id="properties add", argv=["properties", "add", "{in}", "{out}", "k1 = v1"], kind="file", input="small", inplace=False),
    dict(id="properties remove", argv=["properties", "remove", "{in}", "{out}"], kind="file", input="small", inplace=True, stream=True,
         prep=[["properties", "add", "{in}", "k1 = v1"]]),
    dict(id="pagelayout set", argv=["pagelayout", "set", "{in}", "TwoColumnLeft", "{out}"], kind="file", input="small", inplace=True),
    dict(id="pagelayout reset", argv=["pagelayout", "reset", "{in}", "{out}"], kind="file", input="small", inplace=True, stream=True),
    dict(id="pagemode set", argv=["pagemode", "set", "{in}", "UseOutlines", "{out}"], kind="file", input="small", inplace=True),
    dict(id="pagemode reset", argv=["pagemode", "reset", "{in}", "{out}"], kind="file", input="small", inplace=True, stream=True),
    dict(id="viewerpref set", argv=["viewerpref", "set", "{in}", "{aux:vp.json}", "{out}"], kind="file", input="small", inplace=True),
    dict(id="viewerpref reset", argv=["viewerpref", "reset", "{in}", "{out}"], kind="file", input="small", inplace=True, stream=True),
    dict(id="stamp add", argv=["stamp", "add", "-m", "text", "--", "Draft", "scale:0.5", "{in}", "{out}"], kind="file", input="small", inplace=True, stream=True),
    dict(id="stamp remove", argv=["stamp", "remove", "{in}", "{out}"], kind="file", input="small", inplace=True, stream=True,
         prep=[["stamp", "add", "-m", "text", "--", "Draft", "scale:0.5", "{in}"]]),
    dict(id="watermark add", argv=["watermark", "add", "-m", "text", "--", "Draft", "scale:0.5", "{in}", "{out}"], kind="file", input="small", inplace=True, stream=True),
    dict(id="watermark remove", argv=["watermark", "remove", "{in}", "{out}"], kind="file", input="small", inplace=True, stream=True,
         prep=[["watermark", "add", "-m", "text", "--", "Draft", "scale:0.5", "{in}"]]),
    dict(id="bookmarks import", argv=["bookmarks", "import", "{in}", "{aux:bm.json}", "{out}"], kind="file", input="small", inplace=True),
    dict(id="bookmarks remove", argv=["bookmarks", "remove", "{in}", "{out}"], kind="file", input="small", inplace=True, stream=True,
         prep=[["bookmarks", "import", "{in}", "{aux:bm.json}"]]),
    dict(id="bookmarks export", argv=["bookmarks", "export", "{in}", "{out}"], kind="json", input="small",
         prep=[["bookmarks", "import", "{in}", "{aux:bm.json}"]]),
    dict(id="boxes add", argv=["boxes", "add", "crop:[10 10 200 200]", "{in}", "{out}"], kind="file", input="small", inplace=True, stream=True),
    dict(id="boxes remove", argv=["boxes", "remove", "crop", "{in}", "{out}"], kind="file", input="small", inplace=True, stream=True,
         prep=[["boxes", "add", "crop:[10 10 200 200]", "{in}"]]),
    dict(id="crop", argv=["crop", "[10 10 200 200]", "{in}", "{out}"], kind="file", input="small", inplace=True, stream=True),
    dict(id="resize", argv=["resize", "scale:0.5", "{in}", "{out}"], kind="file", input="small", inplace=True, stream=True),
    dict(id="zoom", argv=["zoom", "factor:0.5", "{in}", "{out}"], kind="file", input="small", inplace=True, stream=True),
    dict(id="annotations remove", argv=["annotations", "remove", "{in}", "{out}"], kind="file", input="annot", inplace=True, stream=True),
    dict(id="attachments add", argv=["attachments", "add", "{in}", "{aux:att.txt}"], kind="none", input="small"),
    dict(id="attachments extract", argv=["attachments", "extract", "{in}", "{outdir}"], kind="dir", input="small",
         prep=[["attachments", "add", "{in}", "{aux:att.txt}"]]),
    dict(id="portfolio extract", argv=["portfolio", "extract", "{in}", "{outdir}"], kind="dir", input="small",
         prep=[["portfolio", "add", "{in}", "{aux:att.txt}"]]),
    dict(id="form remove", argv=["form", "remove", "{in}", "{out}", "firstName1"], kind="file", input="form", inplace=False),
    dict(id="form export", argv=["form", "export", "{in}", "{out}"], kind="json", input="form"),
    dict(id="form fill", argv=["form", "fill", "{in}", "{aux:fill.json}", "{out}"], kind="file", input="form", inplace=True),
    dict(id="form multifill", argv=["form", "multifill", "{in}", "{aux:multi.json}", "{outdir}"], kind="dir", input="form"),
    dict(id="signatures remove", argv=["signatures", "remove", "{in}", "{out}"], kind="file", input="signed", inplace=True, stream=True),
    dict(id="merge", argv=["merge", "{out}", "{in}", "{aux:in2.pdf}"], kind="file", input="small"),
    dict(id="merge zip", argv=["merge", "-m", "zip", "{out}", "{in}", "{aux:in2.pdf}"], kind="file", input="small"),
    # abbreviated / alternative spellings of mode flags (completion by unique prefix)
    dict(id="merge -m c", argv=["merge", "-m", "c", "{out}", "{in}", "{aux:in2.pdf}"], kind="file", input="small"),
    dict(id="merge --mode=z", argv=["merge", "--mode=z", "{out}", "{in}", "{aux:in2.pdf}"], kind="file", input="small"),
    dict(id="merge -m a", argv=["merge", "-m", "a", "{out}", "{in}", "{aux:in2.pdf}"], kind="mergeappend", input="small"),
    dict(id="extract -m p", argv=["extract", "-m", "p", "-p", "1-2", "{in}", "{outdir}"], kind="dir", input="small"),
    dict(id="import", argv=["import", "{out}", "{aux:logo.png}"], kind="file", input=None),
    dict(id="create", argv=["create", "{aux:create.json}", "{out}"], kind="file", input=None),
    dict(id="nup", argv=["nup", "{out}", "4", "{in}"], kind="file", input="small"),
    dict(id="grid", argv=["grid", "{out}", "1", "2", "{in}"], kind="file", input="small"),
    dict(id="booklet", argv=["booklet", "{out}", "4", "{in}"], kind="file", input="small"),
    dict(id="split", argv=["split", "{in}", "{outdir}", "3"], kind="dir", input="small"),
    dict(id="extract pages", argv=["extract", "-m", "page", "-p", "1-2", "{in}", "{outdir}"], kind="dir", input="small"),
    dict(id="extract content", argv=["extract", "-m", "content", "-p", "1-2", "{in}", "{outdir}"], kind="dir", input="small"),
    dict(id="extract images", argv=["extract", "-m", "image", "{in}", "{outdir}"], kind="dir", input="image"),
    dict(id="extract fonts", argv=["extract", "-m", "font", "{in}", "{outdir}"], kind="dir", input="text"),
    dict(id="extract meta", argv=["extract", "-m", "meta", "{in}", "{outdir}"], kind="dir", input="text"),
    dict(id="images extract", argv=["images", "extract", "{in}", "{outdir}"], kind="dir", input="image"),
    dict(id="cut", argv=["cut", "hor:.5", "{in}", "{outdir}"], kind="dir", input="rot"),
    dict(id="ndown", argv=["ndown", "2", "{in}", "{outdir}"], kind="dir", input="rot"),
    dict(id="poster", argv=["poster", "f:A5", "{in}", "{outdir}"], kind="dir", input="rot"),
]

# leaf commands with an output that are deliberately not driven, with the reason
EXCLUDED = {
    "form lock": "needs the Roboto user font (unavailable with -c disable)",
    "form unlock": "needs the Roboto user font (unavailable with -c disable)",
    "form reset": "needs the Roboto user font (unavailable with -c disable)",
    "images update": "needs a replacement image with exactly the dimensions of an embedded image; none is available in the test data",
    "extract": "driven as 'extract pages/content/images/fonts/meta' (mode flag)",
    "merge": "driven as 'merge' and 'merge zip'",
}

BM_JSON = json.dumps({"bookmarks": [{"title": "One", "page": 1}, {"title": "Two", "page": 2}]})


def build():
    return vlib.build_cli()


def snapshot(root):
    snap = {}
    for d, dirs, files in os.walk(root):
        for n in dirs + files:
            p = os.path.join(d, n)
            rel = os.path.relpath(p, root)
            st = os.lstat(p)
            if stat.S_ISDIR(st.st_mode):
                snap[rel] = ("d", "", stat.S_IMODE(st.st_mode))
            elif stat.S_ISLNK(st.st_mode):
                snap[rel] = ("l", os.readlink(p), 0)
            else:
                with open(p, "rb") as fh:
                    snap[rel] = ("f", hashlib.sha256(fh.read()).hexdigest()[:16], stat.S_IMODE(st.st_mode))
    return snap


def diff(a, b):
    out = []
    for k in sorted(set(a) | set(b)):
        if k not in a:
            out.append("+" + k)
        elif k not in b:
            out.append("-" + k)
        elif a[k] != b[k]:
            out.append("~" + k)
    return out


class Sandbox:
    def __init__(self, base=None):
        self.root = tempfile.mkdtemp(prefix="vcli", dir=base)
        for d in ("in", "out", "aux", "home", "tmp"):
            os.makedirs(os.path.join(self.root, d))
        self.extra_aux()

    def extra_aux(self):
        for n, src in AUX.items():
            if os.path.exists(src):
                shutil.copy(src, os.path.join(self.root, "aux", n))
        open(os.path.join(self.root, "aux", "bm.json"), "w").write(BM_JSON)

    def p(self, rel):
        return os.path.join(self.root, rel)

    def close(self):
        shutil.rmtree(self.root, ignore_errors=True)


def annot_input(sb, binp):
    """a small document with an annotation (for 'annotations remove'): made with the CLI itself is not possible (no add), use testdata"""
    return os.path.join(TD, "annotTest.pdf")


def env_for(sb, conf="disable", extra=None):
    e = {"PATH": os.environ.get("PATH", ""), "HOME": sb.p("home"), "XDG_CONFIG_HOME": sb.p("home/.config"), "TMPDIR": sb.p("tmp")}
    if extra:
        e.update(extra)
    return e


def fill(argv, sb, inp, out, outdir):
    res = []
    for a in argv:
        if a == "{in}":
            res.append(inp)
        elif a == "{out}":
            if out is None:
                continue
            res.append(out)
        elif a == "{outdir}":
            res.append(outdir)
        elif a.startswith("{aux:"):
            res.append(sb.p("aux/" + a[5:-1]))
        else:
            res.append(a)
    return res


def run(binp, sb, args, conf="disable", stdin=None, timeout=120, extra_env=None, force=False):
    cmd = [binp] + args[:]
    # global flags go right after the sub command path so that "--" separated positional args stay intact
    flags = ["-c", conf] if conf else []
    if force:
        flags.append("--force")
    # insert flags before the first positional "--" or at the end
    if "--" in cmd:
        i = cmd.index("--")
        cmd = cmd[:i] + flags + cmd[i:]
    else:
        cmd += flags
    p = subprocess.run(cmd, cwd=sb.root, env=env_for(sb, conf, extra_env), input=stdin, stdout=subprocess.PIPE, stderr=subprocess.PIPE, timeout=timeout)
    return p


def prepare_input(binp, sb, entry):
    """copies the input and applies the prep commands in place; returns the input path (or None)"""
    if entry.get("input") is None:
        return None
    src = annot_input(sb, binp) if entry["input"] == "annot" else INPUTS[entry["input"]]
    inp = sb.p("in/in.pdf")
    shutil.copy(src, inp)
    os.chmod(inp, 0o644)
    for pa in entry.get("prep", []):
        p = run(binp, sb, fill(pa, sb, inp, None, None))
        if p.returncode != 0:
            raise vlib.HarnessError("CLI catalog prep failed for %s: %s" % (entry["id"], p.stderr.decode()[:300]))
    return inp


def leaf_commands(binp):
    """walks the cobra tree through --help; returns {command path: usage line}"""
    out = {}

    def walk(path):
        p = subprocess.run([binp] + path + ["--help"], stdout=subprocess.PIPE, stderr=subprocess.STDOUT, text=True, timeout=60)
        txt = p.stdout
        m = re.search(r"Available Commands:\n((?:  \S.*\n)+)", txt)
        subs = []
        if m:
            for line in m.group(1).splitlines():
                name = line.split()[0]
                if name not in ("help", "completion"):
                    subs.append(name)
        if subs:
            for s in subs:
                walk(path + [s])
        else:
            u = re.search(r"Usage:\n\s+(.*)", txt)
            out[" ".join(path)] = u.group(1) if u else ""
    walk([])
    return out
