"""Helpers shared by the C32 / C33 / C35 checks (harness/cmd/pageops, spec/Doc*.tla)."""
import json, os, re, subprocess
import vlib

# TLC prints non-ASCII strings of the specs (keywords, property values, attachment names) only with a UTF-8 stdout
os.environ.setdefault("JAVA_TOOL_OPTIONS", "-Dfile.encoding=UTF-8 -Dstdout.encoding=UTF-8 -Dsun.stdout.encoding=UTF-8")

NPROC = max(1, min(8, vlib.NCPU))


BASE_JTO = os.environ["JAVA_TOOL_OPTIONS"]
# short runs are dominated by JVM start-up / parsing: C1 compiler only, few GC and compiler threads
SHORT_JTO = BASE_JTO + " -XX:TieredStopAtLevel=1 -XX:CICompilerCount=2 -XX:ParallelGCThreads=4"


def tlc(ctx, module, cfg, out, simulate=None, depth=None, consts=None, timeout=1500, workers=None):
    """Run TLC, stream the CASE payloads to `out`, account states in the evidence. Returns (res, ncases)."""
    os.environ["JAVA_TOOL_OPTIONS"] = BASE_JTO if simulate else SHORT_JTO
    try:
        res = vlib.run_tlc(module, cfg, workers=workers or NPROC, timeout=timeout, seed=ctx.seed, simulate=simulate, depth=depth,
                           consts=consts, payloads={"CASE": out}, heap="6g")
    finally:
        os.environ["JAVA_TOOL_OPTIONS"] = BASE_JTO
    if res.violated:
        raise vlib.HarnessError("design model %s/%s violates its own invariant %s:\n%s" % (module, cfg, res.violated, res.error_state))
    if simulate:
        m = re.search(r"The number of states generated: (\d+)", res.out)
        if m:
            res.generated = res.distinct = int(m.group(1))
    ctx.ev.tlc(res, cfg + (" -simulate " + simulate if simulate else ""))
    n = res.payload_counts.get("CASE", 0)
    if n == 0:
        raise vlib.HarnessError("TLC produced no cases for %s/%s" % (module, cfg))
    return res, n


def replay(binp, sub, cases, workdir, tag, extra=(), timeout=3000):
    """Run `pageops <sub>` on K shards of `cases` in parallel processes.
    Returns (summary dict with summed integer fields, list of mismatch records, set of non-trivial keys)."""
    procs = []
    for i in range(NPROC):
        out = os.path.join(workdir, "%s-mism-%d.ndjson" % (tag, i))
        nt = os.path.join(workdir, "%s-nt-%d.txt" % (tag, i))
        cmd = [binp, sub, "--in", cases, "--out", out, "--nt", nt, "--shard", str(i), "--of", str(NPROC)] + list(extra)
        env = dict(os.environ, GOMAXPROCS="1", GOGC="200")
        procs.append((subprocess.Popen(cmd, stdout=subprocess.PIPE, stderr=subprocess.STDOUT, text=True, env=env), out, nt, cmd))
    total, mism, nontriv = {}, [], set()
    for p, out, nt, cmd in procs:
        try:
            so, _ = p.communicate(timeout=timeout)
        except subprocess.TimeoutExpired:
            for q, _, _, _ in procs:
                q.kill()
            raise vlib.HarnessError("replayer timeout: " + " ".join(cmd))
        if p.returncode != 0:
            for q, _, _, _ in procs:
                q.kill()
            raise vlib.HarnessError("replayer failed (%d): %s\n%s" % (p.returncode, " ".join(cmd), so[-3000:]))
        lines = [l for l in so.splitlines() if l.startswith("SUMMARY ")]
        if not lines:
            raise vlib.HarnessError("replayer printed no summary: %s\n%s" % (" ".join(cmd), so[-2000:]))
        s = json.loads(lines[-1][8:])
        for k, v in s.items():
            if isinstance(v, int) and k != "lines":
                total[k] = total.get(k, 0) + v
            elif isinstance(v, dict):
                d = total.setdefault(k, {})
                for kk, vv in v.items():
                    d[kk] = d.get(kk, 0) + vv
            elif k == "lines":
                total[k] = v
        mism += vlib.read_ndjson(out)
        if os.path.exists(nt):
            with open(nt) as fh:
                nontriv.update(l.rstrip("\n") for l in fh if l.strip())
    return total, mism, nontriv


def report_by_key(ctx, mism, fmt, limit=25):
    """One violation per distinct key (the first record), so that a defect that shows in thousands of cases is one line."""
    seen = {}
    for m in mism:
        seen.setdefault(m["key"], []).append(m)
    for k in sorted(seen)[:limit]:
        m = seen[k][0]
        ctx.report(k, fmt(m) + " [%d cases]" % len(seen[k]), m)
    return {k: len(v) for k, v in seen.items()}


def first_lines(path, n):
    out = []
    with open(path) as fh:
        for _ in range(n):
            l = fh.readline()
            if not l:
                break
            out.append(json.loads(l))
    return out
