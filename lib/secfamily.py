"""Helpers shared by the Sec.tla family of checks (C22 C23 C25 C26): sharded runs of harness/cmd/sec."""
import json, os, subprocess
import vlib

NPROC = max(2, min(16, vlib.NCPU))


def summary(text):
    ls = [l for l in text.splitlines() if l.startswith("SUMMARY ")]
    if not ls:
        raise vlib.HarnessError("no SUMMARY line in harness output:\n" + text[-2000:])
    return json.loads(ls[-1][8:])


def run_shards(binp, sub, inputs, outdir, timeout=3000, extra=()):
    """Run `sec <sub> --in inputs[i] --out outdir/out<i>.ndjson --shard i --of n` for all i in parallel.
    Returns (list of summaries, list of output rows)."""
    n = len(inputs)
    env = dict(os.environ, GOMAXPROCS="2", GOGC="400")
    procs = []
    for i, inp in enumerate(inputs):
        out = os.path.join(outdir, "out%d.ndjson" % i)
        log = open(os.path.join(outdir, "log%d.txt" % i), "w")
        cmd = [binp, sub, "--in", inp, "--out", out, "--shard", str(i), "--of", str(n)] + list(extra)
        procs.append((subprocess.Popen(cmd, stdout=log, stderr=subprocess.STDOUT, env=env), log, out, i))
    summs, rows = [], []
    failed = None
    for p, log, out, i in procs:
        try:
            rc = p.wait(timeout=timeout)
        except subprocess.TimeoutExpired:
            p.kill()
            rc = -9
        log.close()
        text = open(log.name).read()
        if rc != 0:
            failed = failed or "sec %s shard %d failed (rc=%s):\n%s" % (sub, i, rc, text[-3000:])
            continue
        summs.append(summary(text))
        rows += vlib.read_ndjson(out)
    if failed:
        for p, _, _, _ in procs:
            if p.poll() is None:
                p.kill()
        raise vlib.HarnessError(failed)
    return summs, rows


def total(summs, key):
    return sum(s.get(key, 0) for s in summs)
