"""Shared orchestration for the lexical properties C11-C14 (spec/Lex.tla family).

Pipeline per job:  TLC generates cases (spec/Lex<X>.tla)  ->  the Go side runs the real pdfcpu code on every case and
writes one record per case  ->  TLC judges every record (spec/Lex<X>Trace.tla, one state per record).  The judge never
stops at the first bad record: it prints a BAD payload (failed requirement names + the record) for each one, so a single
pass yields all failures; they are grouped into classes (stable keys) and reported once per class."""
import collections, concurrent.futures, json, os, shutil
import vlib

PAR = max(2, min(8, (vlib.NCPU or 4) // 2))


def build_async(name):
    """Start building harness/cmd/<name> in the background (overlaps with TLC case generation); .result() gives the path."""
    ex = concurrent.futures.ThreadPoolExecutor(max_workers=1)
    fut = ex.submit(vlib.build_bin, name)
    ex.shutdown(wait=False)
    return fut


def summary(stdout, tag="SUMMARY "):
    ls = [l for l in stdout.splitlines() if l.startswith(tag)]
    if not ls:
        raise vlib.HarnessError("no %sline in Go output:\n%s" % (tag, stdout[-1500:]))
    return json.loads(ls[-1][len(tag):])


def gen(module, cfg, out, consts=None, seed=1, workers=2, timeout=2400, heap=None):
    """TLC case generation; the generation specs carry design invariants of the reference operators - a violation of
    those is a defect of the model, never a verdict about pdfcpu."""
    res = vlib.run_tlc(module, cfg, workers=workers, seed=seed, timeout=timeout, consts=consts, payloads={"CASE": out}, heap=heap)
    if res.violated or not res.ok:
        raise vlib.HarnessError("design model %s/%s violates its own invariant %s:\n%s" % (module, cfg, res.violated, res.error_state))
    n = res.payload_counts.get("CASE", 0)
    if n == 0:
        raise vlib.HarnessError("TLC produced no cases for %s/%s %s" % (module, cfg, consts))
    return res, n


def judge(module, cfg, records, consts=None, timeout=2400):
    """TLC validation of a records file. Returns (TLCResult, bad payloads, info payloads)."""
    d = vlib.scratch_dir()
    try:
        bad, info = os.path.join(d, "bad.ndjson"), os.path.join(d, "info.ndjson")
        res = vlib.run_tlc(module, cfg, files=[(records, "records.ndjson")], workers=1, timeout=timeout, consts=consts,
                           payloads={"BAD": bad, "INFO": info})
        if res.violated or not res.ok:
            raise vlib.HarnessError("%s did not accept the record file (%s):\n%s\n%s" % (module, res.violated, res.error_state, res.out[-1500:]))
        return res, (vlib.read_ndjson(bad) if os.path.exists(bad) else []), (vlib.read_ndjson(info) if os.path.exists(info) else [])
    finally:
        shutil.rmtree(d, ignore_errors=True)


def count_lines(path):
    n = 0
    with open(path, "rb") as fh:
        for _ in fh:
            n += 1
    return n


def split(path, per, d, stem):
    """Split an ndjson file into chunks of at most `per` lines; returns [(chunk path, first line index)]."""
    out, fh, n = [], None, 0
    with open(path) as src:
        for line in src:
            if n % per == 0:
                if fh:
                    fh.close()
                p = os.path.join(d, "%s-%d.ndjson" % (stem, len(out)))
                out.append((p, n))
                fh = open(p, "w")
            fh.write(line)
            n += 1
    if fh:
        fh.close()
    return out


def parallel(fn, jobs, par=None):
    """Run fn(job) for all jobs on a thread pool (the work is in subprocesses); first exception wins."""
    par = par or PAR
    if len(jobs) <= 1 or par <= 1:
        return [fn(j) for j in jobs]
    with concurrent.futures.ThreadPoolExecutor(max_workers=par) as ex:
        return list(ex.map(fn, jobs))


class Classes:
    """Failing records grouped by a stable class key; one report per class."""

    def __init__(self):
        self.n = collections.Counter()
        self.ex = collections.defaultdict(list)

    def add(self, key, what, obj, short=""):
        self.n[key] += 1
        if len(self.ex[key]) < 3:
            self.ex[key].append((what, obj, short))

    def report(self, ctx):
        for key in sorted(self.n):
            what, obj, _ = self.ex[key][0]
            more = ", ".join(s for _, _, s in self.ex[key][1:] if s)
            ctx.report(key, "%s  [%d failing record(s) in this class%s]" % (what[:400], self.n[key], ("; e.g. also " + more) if more else ""),
                       {"class": key, "count": self.n[key], "examples": [o for _, o, _ in self.ex[key]]})


def b2s(ints):
    """byte sequence (list of ints) -> printable text"""
    return "".join(chr(c) if 32 <= c < 127 and c != 92 else "\\x%02x" % c for c in ints)
