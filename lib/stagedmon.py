"""Inclusion of recorded os-call traces in the behaviours of spec/Staged.tla (via spec/StagedTrace.tla).

project() reduces every trace of harness/cmd/fsops to the events of the publication protocol; validate() runs TLC once
per variant (new / replace / inplace) over the concatenated traces and returns the traces TLC could not follow."""
import json, os, re
import vlib

VARIANTS = ("new", "replace", "inplace")


def _res(c):
    if c["inj"] == "panic":
        return "panic"
    return "ok" if c["r"] in ("ok", "EEXIST") else "err"


def project_one(tr):
    """tr: list of trace lines begin..end. Returns (variant, events) or (None, reason)."""
    b, e = tr[0], tr[-1]
    if len(b["outs"]) != 1:
        return None, "not-single-output"
    dest = b["outs"][0]
    d, base = os.path.dirname(dest), os.path.basename(dest)
    tmpprefix = (d + "/" if d else "") + "." + base + ".tmp-"
    initial = {i["p"] for i in b["init"]}
    ev = []
    started, variant, out_h, tmp_path, stat_done, pending_stat, out_path = False, None, None, None, False, False, None

    def add(name, c):
        ev.append({"ev": name, "r": _res(c)})

    for c in tr[1:-1]:
        op, a = c["op"], c["a"]
        excl_dest = op == "openfile" and c["excl"] and c["creat"] and a == dest
        tmp_create = op == "openfile" and c["excl"] and a.startswith(tmpprefix)
        if not started:
            if excl_dest:
                started = True
                variant = "replace" if dest in initial else "new"
                add("OpenExcl", c)
                if c["r"] == "ok":
                    out_h, out_path = c["h"], dest
            elif op == "stat" and a == dest and c["r"] == "ok":
                pending_stat = True
            elif tmp_create and pending_stat:
                started, variant, stat_done = True, "inplace", True
                ev.append({"ev": "Stat", "r": "ok"})
                add("CreateTemp", c)
                if c["r"] == "ok":
                    out_h, tmp_path, out_path = c["h"], a, a
            elif op not in ("stat",):
                pending_stat = False
            continue
        if op == "stat" and a == dest and variant == "replace" and not stat_done:
            stat_done = True
            add("Stat", c)
        elif tmp_create:
            add("CreateTemp", c)
            if c["r"] == "ok":
                out_h, tmp_path, out_path = c["h"], a, a
        elif op in ("fchmod", "chmod") and out_h is not None and c["h"] == out_h:
            add("Fchmod", c)
        elif op in ("write", "readfrom") and out_h is not None and (c["h"] == out_h or (c["h"] == 0 and a == out_path)):
            add("Write", c)
        elif op == "close" and out_h is not None and c["h"] == out_h:
            add("CloseOut", c)
        elif op == "rename" and tmp_path is not None and a == tmp_path and c["b"] == dest:
            add("Rename", c)
        elif op == "remove" and (a == tmp_path or (variant == "new" and a == dest)):
            add("Remove", c)
        elif c["inj"]:
            ev.append({"ev": "Other", "r": "err"})
    if not started:
        return None, "protocol-not-reached"
    if e["outcome"] not in ("ok", "err", "panic"):
        return None, "outcome-" + e["outcome"]
    fin = {f["p"]: f for f in e["final"]}
    f = fin.get(dest)
    fout = "absent" if f is None else ("old" if f["cid"].startswith("init:") else "new")
    ftmp = "some" if any(p.startswith(tmpprefix) for p in fin) else "none"
    ev.append({"ev": "end", "r": "ok", "outcome": e["outcome"], "fout": fout, "ftmp": ftmp})
    return variant, ev


def project(trace_path):
    per = {v: [] for v in VARIANTS}
    skipped = {}
    cur = []
    for line in open(trace_path):
        j = json.loads(line)
        cur.append(j)
        if j["ev"] == "end":
            v, ev = project_one(cur)
            if v is None:
                skipped[ev] = skipped.get(ev, 0) + 1
            else:
                for x in ev:
                    x.setdefault("outcome", "")
                    x.setdefault("fout", "")
                    x.setdefault("ftmp", "")
                    x["t"] = cur[0]["t"]
                    x["name"] = cur[0]["name"]
                per[v].append(ev)
            cur = []
    return per, skipped


def validate(trace_path, max_rounds=10):
    """Returns (drift, stats): drift = traces (dict t, name, variant, at) that are not behaviours of Staged.tla."""
    per, skipped = project(trace_path)
    drift, stats = [], {"skipped": skipped, "traces": {}, "events": 0, "states": 0}
    d = vlib.scratch_dir()
    try:
        for v in VARIANTS:
            trs = per[v]
            stats["traces"][v] = len(trs)
            rounds = 0
            while trs and rounds < max_rounds:
                rounds += 1
                lines = [x for tr in trs for x in tr]
                p = os.path.join(d, "strace.ndjson")
                vlib.write_ndjson(p, lines)
                res = vlib.run_tlc("StagedTrace", "StagedTrace.cfg", files=[p], workers=1, timeout=900,
                                   consts={"Variant": '"%s"' % v})
                stats["states"] += res.distinct
                if rounds == 1:
                    stats["events"] += len(lines)
                if res.ok:
                    break
                m = re.findall(r'<<"HIGHWATER", (\d+), (\d+)>>', res.out)
                if res.violated not in ("postcondition", None) or not m:
                    # an invariant of Staged fails on a real trace, or TLC broke
                    raise vlib.HarnessError("StagedTrace (%s): %s\n%s" % (v, res.violated, res.out[-2000:]))
                hw = int(m[-1][0])                    # index of the first line no branch could consume
                bad = lines[min(hw, len(lines)) - 1]
                drift.append({"t": bad["t"], "name": bad["name"], "variant": v, "at": {k: bad[k] for k in ("ev", "r", "outcome", "fout", "ftmp")}})
                trs = [tr for tr in trs if tr[0]["t"] != bad["t"]]
        return drift, stats
    finally:
        import shutil
        shutil.rmtree(d, ignore_errors=True)


def design(tier="quick"):
    """Exhaustive TLC check of the protocol design itself: today's decision rule keeps Atomic/CleanFailure/Publishes/Terminates under
    every combination of up to MaxFaults failing calls (thorough: of any number of failing calls) and a panic; the two historic decision rules must violate them (the
    invariants are not vacuous)."""
    out = {}
    mf = "3" if tier == "quick" else "14"   # 14 exceeds the number of calls of any run: every set of failing calls
    for v in VARIANTS:
        for dec, want_ok in (("okflag", True), ("errkeyed", False), ("nodefer", False)):
            r = vlib.run_tlc("Staged", "Staged.cfg", workers=2, timeout=600,
                             consts={"Variant": '"%s"' % v, "Decision": '"%s"' % dec, "MaxFaults": mf})
            out["%s/%s" % (v, dec)] = {"holds": r.ok, "violated": r.violated, "distinct_states": r.distinct}
            if r.ok != want_ok:
                raise vlib.HarnessError("Staged.tla design check: variant %s decision %s: expected holds=%s, got %s (%s)" % (v, dec, want_ok, r.ok, r.violated))
    return out
