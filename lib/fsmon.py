"""Driving spec/FSTrace.tla over recorded os-call traces of real executions."""
import json, os, re
import vlib

BINDING = ("BindingOK", "FinalAgrees")


def validate(trace_path, max_rounds=12):
    """Returns (results, stats): results = list of dict(inv=, t=, name=, line=) for every trace on which an invariant
    of the monitor failed (one per trace, first failing invariant); stats = dict(states, transitions, traces, lines)."""
    lines = open(trace_path).read().splitlines()
    total_lines = len(lines)
    ntr = sum(1 for x in lines if x.startswith('{"ev":"begin"'))
    out = []
    states = trans = 0
    rounds = 0
    while True:
        rounds += 1
        res = vlib.run_tlc("FSTrace", "FSTrace.cfg", files=[(trace_path, "trace.ndjson")], workers=1, timeout=1800, heap="8g")
        states += res.distinct
        trans += res.generated
        if res.ok:
            break
        if res.violated in (None, "postcondition", "deadlock"):
            raise vlib.HarnessError("FSTrace did not consume the trace (%s):\n%s" % (res.violated, res.out[-3000:]))
        m = re.search(r"/\\ l = (\d+)", res.error_state or "")
        if not m:
            raise vlib.HarnessError("cannot locate the failing line of FSTrace:\n" + res.out[-3000:])
        k = int(m.group(1)) - 1          # the line just consumed (1-based)
        cur = json.loads(lines[k - 1])
        t = cur["t"]
        name = ""
        for x in lines:
            if x.startswith('{"ev":"begin"'):
                j = json.loads(x)
                if j["t"] == t:
                    name = j["name"]
                    break
        out.append({"inv": res.violated, "t": t, "name": name, "line": cur})
        lines = [x for x in lines if '"t":%d,' % t not in x[:40]]
        if not lines or rounds >= max_rounds:
            break
        tmp = trace_path + ".rest"
        open(tmp, "w").write("\n".join(lines) + "\n")
        trace_path = tmp
    return out, {"states": states, "transitions": trans, "traces": ntr, "lines": total_lines}
