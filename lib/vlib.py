"""Shared machinery for /verif/check: build helpers, TLC runner, evidence writer, verdict policy.

Exit codes of a check: 0 = property held on everything explored; 1 = VIOLATION line printed;
2 = machinery failure (build error, TLC crash, timeout, unreproduced counterexample) - never a verdict.
"""
import json, os, re, shutil, subprocess, sys, tempfile, time, hashlib

ROOT = os.path.dirname(os.path.dirname(os.path.abspath(__file__)))
REPO = os.environ.get("VERIF_REPO", "/repo")
BUILD = os.environ.get("VERIF_BUILD", os.path.join(ROOT, "build"))
GOBIN = os.environ.get("VERIF_GO", "go1.26.8")
GOROOT = "/opt/veriftools/go1.26.8"
SPEC = os.path.join(ROOT, "spec")
HARNESS = os.path.join(ROOT, "harness")
NCPU = os.cpu_count() or 4


class HarnessError(Exception):
    """Machinery failure: exit 2, never a violation."""


class Violation(Exception):
    def __init__(self, prop, what, replay=None, detail=None):
        super().__init__(what)
        self.prop, self.what, self.replay, self.detail = prop, what, replay, detail


def goenv(extra=None):
    e = dict(os.environ)
    e.update({"GOFLAGS": "-mod=mod", "GOPROXY": "off", "GOSUMDB": "off", "GOTOOLCHAIN": "local",
              "CGO_ENABLED": e.get("CGO_ENABLED", "0")})
    e.setdefault("GOCACHE", os.path.join(os.path.expanduser("~"), ".cache", "go-build"))
    if extra:
        e.update(extra)
    return e


def log(*a):
    print("[verif]", *a, file=sys.stderr, flush=True)


def sh(cmd, cwd=None, env=None, timeout=None, check=True, input=None):
    p = subprocess.run(cmd, cwd=cwd, env=env, timeout=timeout, input=input,
                       stdout=subprocess.PIPE, stderr=subprocess.STDOUT, text=True)
    if check and p.returncode != 0:
        raise HarnessError("command failed (%d): %s\n%s" % (p.returncode, " ".join(map(str, cmd)), p.stdout[-4000:]))
    return p


# ------------------------------------------------------------------------------------------ build

def ensure_overlay():
    out = os.path.join(BUILD, "osovl")
    ov = os.path.join(out, "overlay.json")
    gen = os.path.join(ROOT, "tools", "osovl", "gen.py")
    hook = os.path.join(ROOT, "tools", "osovl", "verif_hook.go.txt")
    if (not os.path.exists(ov)) or os.path.getmtime(ov) < max(os.path.getmtime(gen), os.path.getmtime(hook)):
        os.makedirs(out, exist_ok=True)
        sh([sys.executable, gen, out])
    return ov


def _modfile():
    """go.mod for the harness with the replace directive pointing at REPO (VERIF_REPO)."""
    os.makedirs(BUILD, exist_ok=True)
    mod = os.path.join(BUILD, "harness.mod")
    src = open(os.path.join(HARNESS, "go.mod")).read().replace("=> /repo", "=> " + REPO)
    if not os.path.exists(mod) or open(mod).read() != src:
        open(mod, "w").write(src)
    shutil.copyfile(os.path.join(REPO, "go.sum"), os.path.join(BUILD, "harness.sum"))
    return mod


def build_bin(name, race=False):
    """Build harness/cmd/<name> against REPO's working tree with the os overlay. Returns the binary path."""
    ov = ensure_overlay()
    os.makedirs(os.path.join(BUILD, "bin"), exist_ok=True)
    out = os.path.join(BUILD, "bin", name + ("-race" if race else ""))
    cmd = [GOBIN, "build", "-modfile=" + _modfile(), "-overlay", ov, "-o", out]
    env = goenv()
    if race:
        cmd.insert(2, "-race")
        env["CGO_ENABLED"] = "1"
    cmd.append("./cmd/" + name)
    t = time.time()
    sh(cmd, cwd=HARNESS, env=env, timeout=1800)
    log("built %s in %.1fs" % (name, time.time() - t))
    return out


def build_cli():
    """Build the real CLI (REPO/cmd/pdfcpu) with the instrumented os package."""
    ov = ensure_overlay()
    os.makedirs(os.path.join(BUILD, "bin"), exist_ok=True)
    out = os.path.join(BUILD, "bin", "pdfcpu-cli")
    sh([GOBIN, "build", "-overlay", ov, "-o", out, "./cmd/pdfcpu"], cwd=REPO, env=goenv(), timeout=1800)
    return out


def inpkg_test(pkg, shim_dir, run=".", env=None, timeout=1800, race=False, extra_args=None):
    """Run in-package shim tests: every *_test.go in shim_dir is added (by overlay) to REPO/<pkg>.
    Returns the CompletedProcess (stdout contains whatever the shim printed)."""
    ov = json.load(open(ensure_overlay()))
    rep = dict(ov["Replace"])
    for f in sorted(os.listdir(shim_dir)):
        if f.endswith(".go"):
            rep[os.path.join(REPO, pkg, f)] = os.path.join(shim_dir, f)
    os.makedirs(BUILD, exist_ok=True)
    fd, path = tempfile.mkstemp(prefix="ovl-", suffix=".json", dir=BUILD)
    with os.fdopen(fd, "w") as fh:
        json.dump({"Replace": rep}, fh)
    try:
        cmd = [GOBIN, "test", "-overlay", path, "-vet=off", "-count=1", "-run", run, "-timeout", "%ds" % timeout]
        e = goenv(env)
        if race:
            cmd.insert(2, "-race")
            e["CGO_ENABLED"] = "1"
        if extra_args:
            cmd += extra_args
        cmd.append("./" + pkg)
        return sh(cmd, cwd=REPO, env=e, timeout=timeout + 60, check=False)
    finally:
        os.unlink(path)


# -------------------------------------------------------------------------------------------- TLC

class TLCResult:
    def __init__(self):
        self.ok = False            # completed without error
        self.out = ""
        self.generated = 0
        self.distinct = 0
        self.violated = None       # name of violated invariant / property / "deadlock" / "postcondition"
        self.error_state = None    # text of the last state of the error trace
        self.printed = []          # PrintT payloads (raw text lines)
        self.depth = 0
        self.wall = 0.0
        self.coverage = {}


_state_re = re.compile(r"^(\d+) states generated, (\d+) distinct states found", re.M)


def run_tlc(module, cfg, files=(), workers="auto", simulate=None, depth=None, seed=None, timeout=900,
            deadlock=False, coverage=False, extra=(), keep=None, heap=None, dfs=False, consts=None, payloads=None):
    """Run TLC on spec/<module>.tla with spec/<cfg> in a scratch copy. `files` are extra data files
    (abs paths) copied next to the spec. Returns TLCResult; raises HarnessError on TLC crash/timeout."""
    scratch = tempfile.mkdtemp(prefix="verif-tlc-")
    try:
        for f in os.listdir(SPEC):
            if f.endswith(".tla"):
                shutil.copy(os.path.join(SPEC, f), scratch)
        cfgtxt = open(os.path.join(SPEC, cfg)).read()
        if consts:
            for k, v in consts.items():
                cfgtxt = re.sub(r"(?m)^(\s*)%s\s*=.*$" % re.escape(k), r"\g<1>%s = %s" % (k, v), cfgtxt)
        open(os.path.join(scratch, "run.cfg"), "w").write(cfgtxt)
        for f in files:
            if isinstance(f, tuple):
                shutil.copy(f[0], os.path.join(scratch, f[1]))
            else:
                shutil.copy(f, scratch)
        os.makedirs(os.path.join(scratch, "jtmp"), exist_ok=True)     # TLC leaves a tlc-* directory per run in java.io.tmpdir
        cmd = ["java", "-XX:+UseParallelGC", "-Xss512m", "-Djava.io.tmpdir=" + os.path.join(scratch, "jtmp")]
        if heap:
            cmd.append("-Xmx" + heap)
        if dfs:
            cmd.append("-Dtlc2.tool.queue.IStateQueue=StateDeque")
        cmd += ["-cp", "/opt/veriftools/tla/tla2tools.jar:/opt/veriftools/tla/CommunityModules-deps.jar", "tlc2.TLC",
                "-config", "run.cfg", "-metadir", os.path.join(scratch, "meta"), "-workers", str(workers), "-noGenerateSpecTE"]
        if not deadlock:
            cmd.append("-deadlock")
        if simulate:
            cmd += ["-simulate", simulate]
        if depth:
            cmd += ["-depth", str(depth)]
        if seed is not None:
            cmd += ["-seed", str(seed)]
        if coverage:
            cmd += ["-coverage", "1"]
        cmd += list(extra)
        cmd.append(module + ".tla")
        t = time.time()
        r = TLCResult()
        outpath = os.path.join(scratch, "tlc.out")
        try:
            with open(outpath, "w") as ofh:
                p = subprocess.run(cmd, cwd=scratch, stdout=ofh, stderr=subprocess.STDOUT, text=True, timeout=timeout)
        except subprocess.TimeoutExpired:
            subprocess.run(["pkill", "-f", scratch], check=False)
            raise HarnessError("TLC timeout after %ds on %s/%s" % (timeout, module, cfg))
        r.wall = time.time() - t
        # stream the output: payload lines (PrintT(<<tag, ToJson(x)>>)) go to files, the rest is kept
        keepl = []
        outs = {}
        r.payload_counts = {}
        with open(outpath) as ifh:
            for line in ifh:
                if payloads and line.startswith('<<"'):
                    q = line.find('", ')
                    tag = line[3:q]
                    if tag in payloads:
                        if tag not in outs:
                            outs[tag] = open(payloads[tag], "w")
                            r.payload_counts[tag] = 0
                        try:
                            outs[tag].write(json.loads(line.rstrip()[q + 3:-2]) + "\n")
                        except Exception:
                            raise HarnessError("cannot decode TLC payload: " + line[:200])
                        r.payload_counts[tag] += 1
                        continue
                keepl.append(line)
        for fh in outs.values():
            fh.close()

        class _P:
            pass
        pp = _P()
        pp.stdout = "".join(keepl)
        pp.returncode = p.returncode
        p = pp
        r.out = p.stdout
        m = _state_re.findall(p.stdout)
        if m:
            r.generated, r.distinct = int(m[-1][0]), int(m[-1][1])
        m = re.search(r"The depth of the complete state graph search is (\d+)", p.stdout)
        if m:
            r.depth = int(m.group(1))
        for line in p.stdout.splitlines():
            if line.startswith('"') or line.startswith("<<"):
                r.printed.append(line)
        m = re.search(r"Error: Invariant (\S+) is violated", p.stdout)
        if m:
            r.violated = m.group(1)
        elif re.search(r"Error: Action property (\S+) is violated", p.stdout):
            r.violated = re.search(r"Error: Action property (\S+) is violated", p.stdout).group(1)
        elif "Temporal properties were violated" in p.stdout:
            r.violated = "temporal"
        elif "Deadlock reached" in p.stdout:
            r.violated = "deadlock"
        elif re.search(r"Error: .*[Pp]ost ?condition", p.stdout) or "POSTCONDITION" in p.stdout and "violated" in p.stdout:
            r.violated = "postcondition"
        if r.violated:
            st = re.findall(r"(?s)State \d+:.*?(?=\n\n|\nState \d+:|\Z)", p.stdout)
            if st:
                r.error_state = st[-1]
        r.ok = (r.violated is None) and ("Model checking completed. No error has been found." in p.stdout
                                         or (simulate and p.returncode == 0)
                                         or "Finished in" in p.stdout and "Error:" not in p.stdout)
        if not r.ok and r.violated is None:
            i = p.stdout.find("Error:")
            raise HarnessError("TLC failed on %s/%s (rc=%d):\n%s\n...\n%s" % (module, cfg, p.returncode, p.stdout[max(0, i - 200):i + 2500] if i >= 0 else "", p.stdout[-1500:]))
        if keep:
            os.makedirs(os.path.dirname(keep), exist_ok=True)
            open(keep, "w").write(p.stdout)
        return r
    finally:
        shutil.rmtree(scratch, ignore_errors=True)


def tlc_json_payloads(res, tag):
    """PrintT(<<tag, ToJson(x)>>) lines -> list of decoded JSON values."""
    out = []
    pre = '<<"%s", ' % tag
    for line in res.printed:
        if line.startswith(pre) and line.endswith(">>"):
            s = line[len(pre):-2]
            try:
                out.append(json.loads(json.loads(s)))
            except Exception:
                raise HarnessError("cannot decode TLC payload: " + line[:200])
    return out


def sany(module):
    p = sh(["java", "-cp", "/opt/veriftools/tla/tla2tools.jar:/opt/veriftools/tla/CommunityModules-deps.jar",
            "tla2sany.SANY", module + ".tla"], cwd=SPEC, check=False)
    if p.returncode != 0 or "Semantic errors" in p.stdout or "***Parse Error***" in p.stdout or "*** Errors" in p.stdout:
        raise HarnessError("SANY failed on %s:\n%s" % (module, p.stdout[-3000:]))


# ---------------------------------------------------------------------------------- known findings

def known_findings():
    p = os.path.join(ROOT, "known_findings.json")
    if not os.path.exists(p):
        return []
    return json.load(open(p)).get("findings", [])


def is_known(prop, key):
    """A finding is suppressed only if listed with status 'open' and the same property and key."""
    for f in known_findings():
        if f.get("property") == prop and f.get("status") == "open" and f.get("key") == key:
            return f
    return None


# ----------------------------------------------------------------------------------------- evidence
# evidence/ and replays/ live in /verif; trial runs against a scratch tree (tools/try_*.sh) redirect them with VERIF_OUT
OUT = os.environ.get("VERIF_OUT") or ROOT


class Evidence:
    def __init__(self, prop, tier, seed, level):
        self.d = {"property_id": prop, "tier": tier, "seed": int(seed), "level": level,
                  "coverage": {"samples": []}, "assumptions": [], "wall_s": 0.0, "violations": 0}
        self.t0 = time.time()

    def cov(self, **kw):
        self.d["coverage"].update(kw)

    def add(self, key, n):
        self.d["coverage"][key] = self.d["coverage"].get(key, 0) + n

    def sample(self, s, limit=6):
        if len(self.d["coverage"]["samples"]) < limit:
            self.d["coverage"]["samples"].append(s)

    def assume(self, *a):
        for x in a:
            if x not in self.d["assumptions"]:
                self.d["assumptions"].append(x)

    def tlc(self, res, label=None):
        self.add("states", res.distinct)
        self.add("transitions", res.generated)
        if label:
            self.d["coverage"].setdefault("tlc_runs", []).append(
                {"cfg": label, "generated": res.generated, "distinct": res.distinct, "wall_s": round(res.wall, 2)})

    def write(self):
        self.d["wall_s"] = round(time.time() - self.t0, 2)
        os.makedirs(os.path.join(OUT, "evidence"), exist_ok=True)
        p = os.path.join(OUT, "evidence", self.d["property_id"] + ".json")
        tmp = p + ".tmp"
        json.dump(self.d, open(tmp, "w"), indent=1, ensure_ascii=False)
        os.replace(tmp, p)
        return p


def replay_dir(prop):
    d = os.path.join(OUT, "replays", prop)
    os.makedirs(d, exist_ok=True)
    return d


def write_replay(prop, name, obj):
    p = os.path.join(replay_dir(prop), name)
    if isinstance(obj, (dict, list)):
        json.dump(obj, open(p, "w"), indent=1, ensure_ascii=False)
    else:
        open(p, "w").write(str(obj))
    return p


def read_ndjson(path):
    out = []
    with open(path) as fh:
        for line in fh:
            line = line.strip()
            if line:
                out.append(json.loads(line))
    return out


def write_ndjson(path, rows):
    with open(path, "w") as fh:
        for r in rows:
            fh.write(json.dumps(r, ensure_ascii=False, separators=(",", ":")) + "\n")


def scratch_dir(prefix="verif-run-"):
    return tempfile.mkdtemp(prefix=prefix)


def digest(x):
    return hashlib.sha256(json.dumps(x, sort_keys=True).encode()).hexdigest()[:16]
