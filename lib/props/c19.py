"""C19 - writing then reading a document preserves its content.
G: TLC draws document shapes x writer configurations from spec/DocRT.tla (simulation mode, seeded) and prints each with the
   expected abstract document (inheritance resolved by the spec).  R: harness/cmd/cstruct roundtrip concretises each shape
   with the raw emitter, runs real read -> write -> read and compares abstract pages (against the spec's expectation, before
   and after), page projections, the info dictionary and the canonical (renumbering-invariant) object graph."""
import json, os, re, shutil, subprocess
import vlib

META = {
    "level": "exploration",
    "text": "TLC generates small documents (page tree with inherited Rotate/MediaBox/Resources, shared/split/filtered content "
            "streams, indirect lengths, free objects, and private object graphs that are shared, cyclic, self-referencing, contain "
            "streams, delimiter-laden strings and names, or references to free objects) x writer configurations (xref stream, "
            "object streams, LF/CR/CRLF, none/AES/RC4) x {plain read-validate-write, api.OptimizeFile/EncryptFile}; each is "
            "replayed through the real reader and writer and compared with the spec's abstract document and a canonical graph "
            "form. The same write-read step is applied to small corpus files under all configurations.",
    "note": "Trusted: the Go canonical-form computation on pdfcpu's parsed objects (graph isomorphism is decided in Go), the "
            "projection lib/proj, the raw emitter. In api mode the page tree itself is compared only through the page projection "
            "(optimization legitimately pushes inherited resources down); the private graph, metadata and info are compared exactly.",
    "technique": "TLA+ shape/configuration generator with expected abstract state (DocRT.tla, TLC simulation) replayed into the real "
                 "read/write code; canonical-form graph comparison",
    "design_ref": "DESIGN.md §5 C19",
}


def _summary(out):
    return json.loads([l for l in out.splitlines() if l.startswith("SUMMARY ")][-1][8:])


def classify(r):
    """Stable key for a mismatch: one key per mechanism that can be told apart from the case."""
    cfg = r["cfg"]
    enc = cfg["enc"] != "none"
    what = r["what"]
    if r.get("case"):
        s = r["case"]["shape"]
        if what.startswith("error at read-output") and s["extra"] == "nullref" and enc:
            return "encrypt-unreadable|ref-to-free-object"
        if s.get("inenc", "none") != "none" and s.get("rewrite", "none") != "none" and s["mode"] == "plain" and "(second write)" in what:
            # WriteContext encrypts the strings of the context's own objects in place; a second write encrypts them again
            return "rewrite-encrypted-context|strings-encrypted-twice"
        if s["inobjstm"]:
            # objects met inside an input object stream and never parsed are copied raw: children not written, strings not encrypted
            return "lazy-objstm|" + ("not-encrypted" if enc else "children-lost")
        if cfg["eol"] == "CR" and (enc or (s["extra"] == "stream" and s["filter"] == "none")) and not what.startswith("error at write"):
            return "stream-shift|eol=CR"
        return "gen|%s|extra=%s|mode=%s|enc=%s|eol=%s|inenc=%s|rewrite=%s" % (
            what[:32] + ("(2nd)" if "(second write)" in what else ""), s["extra"], s["mode"], cfg["enc"], cfg["eol"],
            s.get("inenc", "none"), s.get("rewrite", "none"))
    if cfg["eol"] == "CR" and not what.startswith("error at write") and (
            enc or re.search(r"data:(\d+):\w+  =/=  \d+: .*data:\1:", r.get("detail", ""))):
        return "stream-shift|eol=CR"
    return "corpus|%s|%s" % (what[:40], r.get("input"))


def nontrivial(s):
    inh = any(r == -1 for r in s["pagerot"]) and (s["rootrot"] != -1 or s["midrot"] != -1)
    return inh or s["extra"] != "none" or s["res"] == "inherited" or s["sharedcontent"] or s["tree"] == "mid" or s["inobjstm"] or s.get("inenc", "none") != "none" or s.get("rewrite", "none") != "none"


def run(ctx):
    ev = ctx.ev
    binp = vlib.build_bin("cstruct")
    d = vlib.scratch_dir()
    try:
        cases = os.path.join(d, "cases.ndjson")
        workers = 4
        num = 220 if ctx.quick else 6000
        res = vlib.run_tlc("DocRT", "DocRT_sim.cfg", workers=workers, simulate="num=%d" % num, depth=25, seed=ctx.seed, timeout=1500,
                           payloads={"CASE": cases})
        if res.violated or not res.ok:
            raise vlib.HarnessError("DocRT generator failed: %s\n%s" % (res.violated, res.out[-1500:]))
        n = res.payload_counts.get("CASE", 0)
        if n == 0:
            raise vlib.HarnessError("TLC produced no cases")
        # dedupe, split for parallel replay
        seen = set()
        uniq = []
        with open(cases) as fh:
            for line in fh:
                if line not in seen:
                    seen.add(line)
                    uniq.append(line)
        nt = sum(1 for l in uniq if nontrivial(json.loads(l)["shape"]))
        for l in uniq[:3]:
            ev.sample(json.loads(l))
        par = 1 if ctx.quick else 6
        procs = []
        for i in range(par):
            part = os.path.join(d, "part%d.ndjson" % i)
            with open(part, "w") as fh:
                fh.writelines(uniq[i::par])
            cmd = [binp, "roundtrip", "--in", part, "--out", os.path.join(d, "res%d.ndjson" % i), "--work", os.path.join(d, "w%d" % i)]
            if i == 0:
                cmd += ["--corpus", ctx.tier]
            procs.append(subprocess.Popen(cmd, stdout=subprocess.PIPE, stderr=subprocess.STDOUT, text=True))
        tot = {}
        results = []
        for i, p in enumerate(procs):
            out, _ = p.communicate(timeout=3000)
            if p.returncode != 0:
                raise vlib.HarnessError("roundtrip replayer failed (%d): %s" % (p.returncode, out[-2000:]))
            for k, v in _summary(out).items():
                tot[k] = tot.get(k, 0) + v
            results += vlib.read_ndjson(os.path.join(d, "res%d.ndjson" % i))
        if tot.get("cases", 0) != len(uniq):
            raise vlib.HarnessError("replayer consumed %d of %d cases" % (tot.get("cases", 0), len(uniq)))
        harness = [r for r in results if r["kind"] == "harness"]
        if harness:
            raise vlib.HarnessError("concretisation disagrees with the model before writing: %s" % json.dumps(harness[0])[:1500])
        groups = {}
        for r in results:
            groups.setdefault(classify(r), []).append(r)
        for key, rs in sorted(groups.items()):
            r = rs[0]
            ctx.report(key, "write+read changed the document (%d case(s)): %s; %s; cfg %s%s" % (
                len(rs), r["what"], r.get("detail", "")[:300], r["cfg"],
                (" shape " + json.dumps(r["case"]["shape"])) if r.get("case") else (" input " + str(r.get("input")))), r)
        ncorp = tot.get("corpus_cases", 0)
        ev.sample({"corpus_cases": ncorp, "corpus_ok": tot.get("corpus_ok", 0), "corpus_graph_nodes_compared": tot.get("corpus_nodes", 0)})
        ev.cov(evaluations=len(uniq) + ncorp, distinct_nontrivial=nt,
               rule="TLC simulation (seed %d) of DocRT.tla draws shape x configuration behaviours; duplicates removed; every distinct "
                    "case is concretised and replayed (read, write, read); non-trivial = distinct cases with an inherited page "
                    "attribute, an intermediate page-tree node, shared content or a private object graph; plus %d corpus file x "
                    "configuration write-read steps" % (ctx.seed, ncorp),
               exhaustive=False, generated=n, distinct_cases=len(uniq), replay=tot,
               violation_groups={k: len(v) for k, v in groups.items()})
        ev.assume("expected abstract pages come from DocRT!Abs (inheritance resolved in the spec); graph isomorphism is computed in Go "
                  "(canonical form on pdfcpu's parsed objects, first-visit numbering, decoded stream data)",
                  "in api mode (OptimizeFile/EncryptFile) the page tree is compared through the page projection only")
    finally:
        shutil.rmtree(d, ignore_errors=True)
