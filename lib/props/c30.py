"""C30 - network fetches never reach private or local addresses.

G: TLC explores the design model spec/Net.tla (Fetch -> ValidateURL -> Dial -> Resolve -> ValidateIPs -> Connect ->
   Response in {body, redirect} -> ...), checks its invariant Safe (every connect attempt of the design is permitted by
   the property) and prints every terminal state as a case: URL classes x resolver answers x allow-list spelling x
   redirect chain, with the set `may` of addresses the property permits a connect to at every request.
R: harness/cmd/net expands the cases to URL strings; in-package shims (harness/inpkg/pkg/pdfcpu/{sign,primitives})
   replay them into the REAL guards: real client constructor (inspected), real fetch path, real dial guard, real
   redirect policy, with a fake in-process name server and dialers that record and abort every connect attempt.
H: history cases (Net_hist*.cfg, variable `hist` of Net.tla): sequences of fetches, each with its own allow-list, that ONE
   process performs; replayed in fresh processes through the guard inside the client object the real constructor
   returns; every fetch is judged on its own configuration, whatever the process did before.
V: the records (requests that reached the transport, connect attempts, inspected client objects; decisions of the
   dial guard installed in the real client objects) are judged by TLC with spec/NetTrace.tla, which recomputes
   Public / AllowListed from the logged bytes."""
import json, os, re, shutil, threading, time
import vlib

META = {
    "level": "model_checking",
    "text": "TLC exhaustively explores the fetch state machine Net.tla within the cfg bounds (URL class x resolver answer sequences over "
            "25 address representatives x allow-list spelling x redirect chains), checks the design invariant, and every behaviour is "
            "replayed into the real revocation and image-box guards (real client objects, fetch paths, dial guards, redirect policies); "
            "every connect attempt the real code makes is judged by TLC (NetTrace.tla) from the logged address/host bytes. Histories of 2-3 "
            "fetches with different allow-lists in one fresh process are explored too, each fetch judged on its own configuration.",
    "note": "Trusted: Net.tla/NetAddr.tla as the meaning of the property; the shims' fakes (in-process name server behind net.Resolver, "
            "recording dialers that abort before connect, synthesized HTTP responses) and Go's net/http client+transport; the flows use "
            "the real dial-guard constructors re-wired with recording fakes, the guard instances inside the real client objects are "
            "covered by decision probes and by the history cases (real guard, unknown network name, attempts = first k resolved addresses); go1.26.8 instead of go1.25.0.",
    "technique": "TLA+ design model checked by TLC, behaviours replayed into the real guards, recorded connect attempts validated by TLC",
    "design_ref": "DESIGN.md §5 C30",
}

SIGN = ("pkg/pdfcpu/sign", os.path.join(vlib.HARNESS, "inpkg/pkg/pdfcpu/sign"), "TestVerifNetRevocation")
PRIM = ("pkg/pdfcpu/primitives", os.path.join(vlib.HARNESS, "inpkg/pkg/pdfcpu/primitives"), "TestVerifNetImageBox")
MAX_TLC_RUNS = 8
CHUNK = 64


def _check_copies():
    a = open(os.path.join(SIGN[1], "verif_netcommon_test.go")).read()
    b = open(os.path.join(PRIM[1], "verif_netcommon_test.go")).read()
    if a.replace("package sign", "package primitives", 1) != b:
        raise vlib.HarnessError("the two copies of verif_netcommon_test.go (sign / primitives) differ")


def _hop_key(hp):
    return "%s/%s/%s%s[%s]" % (hp["scheme"], hp["user"], hp["host"] or "-", (":" + hp["port"]) if hp.get("port") else "",
                              ",".join(_ip(a) for a in hp["answers"]))


def _case_key(c):
    return "%s|%s|%s" % (c["kind"], c["allowform"], ">".join(_hop_key(h) for h in c["hops"]))


def _ip(b):
    import ipaddress
    try:
        return str(ipaddress.ip_address(bytes(b)))
    except Exception:
        return str(b)


def _slim_file(path, rows):
    """records.json for NetTrace.tla: only what the judge reads (TLC's cost is proportional to the number of JSON values), host
    names and allow-list entries through a string table in element 1"""
    tab = {}

    def ix(b):
        return tab.setdefault(tuple(b), len(tab) + 1)
    out = []
    for r in rows:
        if r["t"] == "flow":
            out.append({"t": "flow", "kind": r["kind"], "allow": [ix(a) for a in r["allow"]], "client": r["client"],
                        "hops": [{"scheme": h["scheme"], "cred": h["cred"], "auth": h["auth"], "host": ix(h["host"])} for h in r["hops"]],
                        "conns": [{"hop": c["hop"], "dialhost": ix(c["dialhost"]), "ip": c["ip"]} for c in r["conns"]]})
        else:
            out.append({"t": "probe", "kind": r["kind"], "allow": [ix(a) for a in r["allow"]], "host": ix(r["host"]),
                        "resolved": r["resolved"], "permit": r["permit"], "tried": r["tried"]})
    strs = [list(k) for k, _ in sorted(tab.items(), key=lambda kv: kv[1])]
    with open(path, "w") as fh:
        json.dump([{"t": "tab", "strs": strs}] + out, fh, separators=(",", ":"))


def _hist_text(case, r):
    """for a fetch of a history: what the same process did before it"""
    k = r.get("step", 0)
    if k <= 1:
        return ""
    before = (case["prev"] + [case])[:k - 1]
    return "[after, in the same process: %s] " % "; ".join(
        "%s fetch %s with allow-list %s" % (f["kind"], f["hops"][0]["url"], f["allow"]) for f in before)


def _run_shim(spec, env, out, errs):
    try:
        p = vlib.inpkg_test(spec[0], spec[1], run=spec[2], env=env, timeout=3000, extra_args=["-v"])
        if p.returncode != 0 or "SUMMARY " not in p.stdout:
            raise vlib.HarnessError("shim %s failed (rc=%d):\n%s" % (spec[2], p.returncode, p.stdout[-3000:]))
        out[spec[2]] = json.loads([l for l in p.stdout.splitlines() if l.startswith("SUMMARY ")][-1][8:])
    except Exception as e:       # re-raised by the caller
        errs.append(e)


def _warm(errs):
    """compile the two shim test binaries (cached by go) while TLC generates the cases"""
    ths = [threading.Thread(target=lambda s=s: vlib.inpkg_test(s[0], s[1], run="^$", timeout=1800)) for s in (SIGN, PRIM)]
    for t in ths:
        t.start()
    return ths


def _fetch_of(c, r):
    """the fetch a flow record belongs to: the case itself, or (history cases) fetch number r['step'] of its history"""
    k = r.get("step", 0)
    if k == 0 or k == len(c["prev"]) + 1:
        return c
    return c["prev"][k - 1]


def _flow_key(c, r):
    if not c["prev"]:
        return _case_key(c)
    return "hist|%s|fetch%d" % ("=>".join(_case_key(f) for f in c["prev"] + [c]), r["step"])


def _batch(ctx, d0, binp, label, cfg, consts, stats, warm=None, hist=False):
    """one TLC exploration -> replay -> TLC judgement; fills its own `stats` (batches may run concurrently)"""
    t0 = time.time()
    d = os.path.join(d0, re.sub(r"\W+", "_", label))
    os.makedirs(d)
    cases_abs = os.path.join(d, "abs.ndjson")
    res = vlib.run_tlc("Net", cfg, workers=min(8, vlib.NCPU), timeout=3000, heap="8g", payloads={"CASE": cases_abs}, consts=consts)
    if res.violated:
        raise vlib.HarnessError("design model Net.tla violates %s (%s):\n%s" % (res.violated, label, res.error_state))
    stats["tlc"].append((res, label))
    n = res.payload_counts.get("CASE", 0)
    if n == 0:
        raise vlib.HarnessError("TLC produced no cases for " + label)
    cases_con = os.path.join(d, "cases.ndjson")
    p = vlib.sh([binp, "expand", "--in", cases_abs, "--out", cases_con], timeout=1200)
    summ = json.loads([l for l in p.stdout.splitlines() if l.startswith("SUMMARY ")][-1][8:])
    if summ["cases"] != n:
        raise vlib.HarnessError("expand consumed %d of %d cases" % (summ["cases"], n))
    nfetch = summ["fetches"]
    t1 = time.time()
    if warm:
        for t in warm:
            t.join()
    t2 = time.time()
    # replay into the real guards (both packages in parallel)
    outs, errs, ths = {}, [], []
    files = {}
    for spec, tag in ((SIGN, "sign"), (PRIM, "prim")):
        files[tag] = (os.path.join(d, "flows-%s.ndjson" % tag), os.path.join(d, "probes-%s.ndjson" % tag))
        for f in files[tag]:
            if os.path.exists(f):
                os.unlink(f)
        env = {"VERIF_NET_CASES": cases_con, "VERIF_NET_FLOWS": files[tag][0], "VERIF_NET_PROBES": files[tag][1],
               "VERIF_NET_MODE": "hist" if hist else "single"}
        t = threading.Thread(target=_run_shim, args=(spec, env, outs, errs))
        t.start()
        ths.append(t)
    for t in ths:
        t.join()
    if errs:
        raise errs[0]
    t3 = time.time()
    cases = {}
    for c in vlib.read_ndjson(cases_con):
        cases[c["id"]] = c
    rows = []
    for tag in ("sign", "prim"):
        for f in files[tag]:
            rows += vlib.read_ndjson(f)
    flows = [r for r in rows if r["t"] == "flow"]
    probes = [r for r in rows if r["t"] == "probe"]
    if len(flows) != nfetch:
        raise vlib.HarnessError("%d fetches in %d cases but %d flow records (%s)" % (nfetch, n, len(flows), label))

    # replay verdict: connect attempts outside the model's permission set
    replay_viol = {}
    for r in flows:
        c = _fetch_of(cases[r["id"]], r)
        key = _flow_key(cases[r["id"]], r)
        stats["keys_all"].add(key)
        if r["hops"]:
            stats["keys_nontrivial"].add(key)
        if r["conns"]:
            stats["flows_with_connects"] += 1
        if any(h["pred"] for h in c["hops"]):
            stats["cases_with_predicted_connects"] += 1
        stats["connects"] += len(r["conns"])
        stats["requests"] += len(r["hops"])
        stats["max_requests_" + r["kind"]] = max(stats.get("max_requests_" + r["kind"], 0), len(r["hops"]))
        if r["diverged"]:
            stats["design_divergences"] += 1
            if len(stats["divergence_samples"]) < 3:
                stats["divergence_samples"].append({"case": key, "what": r["diverged"][:2]})
        for cn in r["conns"]:
            stats["connect_targets"].add(_ip(cn["ip"]))
        if r["replay_viol"]:
            replay_viol[(r["id"], r.get("step", 0))] = (key, "%s%s fetch %s (allow-list %s): %s" % (
                _hist_text(cases[r["id"]], r), c["kind"], " -> ".join(h["url"] for h in c["hops"]), c["allow"], "; ".join(r["replay_viol"][:3])),
                {"case": cases[r["id"]], "record": r})
    if not stats["samples_done"]:
        stats["samples_done"] = True
        picks = [c for c in cases.values() if len(c["hops"]) == 1 and len(c["hops"][0]["answers"]) == 2][:1] + \
                [c for c in cases.values() if len(c["hops"]) == 3 and c["hops"][2]["st"] == "blocked"][:1]
        if hist:
            picks = [c for c in cases.values() if c["prev"] and c["prev"][0]["allow"] and not c["allow"] and c["hops"][0]["st"] == "blocked"][:1]
        for c in picks:
            stats["samples"].append({"case": c, "records": [r for r in flows if r["id"] == c["id"]]})
        if probes:
            stats["samples"].append({"probe": probes[len(probes) // 2]})

    # TLC judges every record (chunks of CHUNK records per step; a rejected chunk is re-judged record by record)
    t4 = time.time()
    rec = os.path.join(d, "records.json")
    invs = ("FlowAddrOK", "FlowURLOK", "FlowClientOK", "ProbeOK")

    def tlc(part, chunk):
        _slim_file(rec, part)
        res = vlib.run_tlc("NetTrace", "NetTrace.cfg", files=[rec], workers=1, timeout=3000, heap="8g", consts={"Chunk": str(chunk)})
        if res.violated in invs:
            m = re.search(r"\bl = (\d+)", res.error_state or res.out[res.out.find("is violated"):])
            if not m:
                raise vlib.HarnessError("cannot locate the rejected record:\n" + res.out[-1500:])
            return res, int(m.group(1))
        if not res.ok:
            raise vlib.HarnessError("NetTrace did not accept the records: %s\n%s" % (res.violated, res.out[-2000:]))
        return res, 0

    pending, validated, runs, rejected = rows, 0, 0, []
    while pending and runs < MAX_TLC_RUNS:
        res, l = tlc(pending, CHUNK)
        runs += 1
        if l == 0:
            validated += len(pending)
            pending = []
            stats["tlc"].append((res, "NetTrace:" + label))
            break
        base = (l - 1) * CHUNK
        validated += base
        sub, pending = pending[base:base + CHUNK], pending[base + CHUNK:]
        while sub and runs < MAX_TLC_RUNS:
            res, k = tlc(sub, 1)
            runs += 1
            if k == 0:
                validated += len(sub)
                sub = []
                break
            rejected.append((sub[k - 1], res.violated))
            validated += k - 1
            sub = sub[k:]
        stats["tlc_unjudged_after_cap"] += len(sub)
    stats["tlc_unjudged_after_cap"] += len(pending)
    for r, inv in rejected:
        c = _fetch_of(cases[r["id"]], r)
        if r["t"] == "flow":
            key = _flow_key(cases[r["id"]], r)
            what = "NetTrace!%s rejects the recorded %s%s fetch %s (allow-list %s): requests %s, connect attempts %s, client %s" % (
                inv, _hist_text(cases[r["id"]], r), c["kind"], " -> ".join(h["url"] for h in c["hops"]), c["allow"],
                [h["url"] for h in r["hops"]], [cn["target"] for cn in r["conns"]], r["client"])
        else:
            key = "probe|%s|%s|%s|%s" % (r["kind"], ",".join(r["allowstr"]), r["hoststr"], ",".join(_ip(a) for a in r["resolved"]))
            what = "NetTrace!ProbeOK rejects the decision of the dial guard inside the real %s client: host %r resolving to %s was let through (%d dial attempts), allow-list %s" % (
                r["kind"], r["hoststr"], [_ip(a) for a in r["resolved"]], r["tried"], r["allowstr"])
        if r["t"] == "flow" and (r["id"], r.get("step", 0)) in replay_viol:
            what += " [replay: %s]" % replay_viol.pop((r["id"], r.get("step", 0)))[1]
        ctx.report(key, what, {"case": cases[r["id"]], "record": r})
        stats["tlc_rejected"] += 1
    for key, what, obj in replay_viol.values():
        ctx.report(key, what + " [not among the records TLC was asked to pinpoint]", obj)
    stats["replay_rejected"] += len(replay_viol)
    vlib.log("C30 %s: %d cases; TLC+expand %.0fs, wait for shim builds %.0fs, replay %.0fs, compare %.0fs, TLC judge %.0fs" % (
        label, n, t1 - t0, t2 - t1, t3 - t2, t4 - t3, time.time() - t4))
    stats["cases"] += n
    stats["fetches"] += nfetch
    stats["processes"] += sum(o.get("processes", 0) for o in outs.values())
    stats["probes"] += len(probes)
    stats["probe_permits"] += sum(1 for r in probes if r["permit"])
    stats["validated"] += validated
    stats["dns_queries"] += sum(o.get("dns_queries", 0) for o in outs.values())
    stats["dns_rebinds"] += sum(o.get("dns_rebinds", 0) for o in outs.values())


def _new_stats():
    return {"keys_all": set(), "keys_nontrivial": set(), "flows_with_connects": 0, "cases_with_predicted_connects": 0, "connects": 0,
            "requests": 0, "design_divergences": 0, "divergence_samples": [], "connect_targets": set(), "samples_done": False,
            "tlc_rejected": 0, "replay_rejected": 0, "tlc_unjudged_after_cap": 0, "cases": 0, "fetches": 0, "probes": 0, "probe_permits": 0,
            "validated": 0, "dns_queries": 0, "dns_rebinds": 0, "tlc": [], "samples": [], "processes": 0}


def _merge(stats, st):
    for k, v in st.items():
        if isinstance(v, set):
            stats[k] |= v
        elif isinstance(v, bool):
            pass
        elif isinstance(v, int):
            stats[k] = max(stats.get(k, 0), v) if k.startswith("max_requests_") else stats.get(k, 0) + v
        elif isinstance(v, list):
            stats[k] = stats.get(k, []) + v


def run(ctx):
    ev = ctx.ev
    _check_copies()
    d = vlib.scratch_dir()
    try:
        errs = []
        warm = _warm(errs)
        binp = vlib.build_bin("net")
        v = 1 + (ctx.seed - 1) % 3
        # (label, cfg, constants, history batch?)
        if ctx.quick:
            batches = [("Net_quick.cfg variant=%d" % v, "Net_quick.cfg", {"Variant": str(v)}, False),
                       ("Net_hist.cfg variant=%d" % v, "Net_hist.cfg", {"Variant": str(v)}, True)]
        else:
            batches = [("Net_thorough.cfg variant=%d" % k, "Net_thorough.cfg", {"Variant": str(k)}, False) for k in (1, 2, 3)]
            batches.append(("Net_ans3.cfg variant=%d" % v, "Net_ans3.cfg", {"Variant": str(v)}, False))
            batches.append(("Net_hist.cfg wide variant=%d" % v, "Net_hist.cfg", {
                "Variant": str(v), "AllowForms": '{"none", "exact", "case", "dot", "ip", "parent"}',
                "PoolClasses": '{"pub4", "p10", "loop4", "mpriv", "ula6"}'}, True))
            batches.append(("Net_hist3.cfg variant=%d" % v, "Net_hist3.cfg", {"Variant": str(v)}, True))
        stats = _new_stats()
        complete = True
        # the history batches run next to the single-fetch batches (independent scratch directories and statistics)
        lanes = [[b for b in batches if not b[3]], [b for b in batches if b[3]]]
        lane_errs, lane_stats = [], []

        def lane(bs):
            try:
                for i, (label, cfg, consts, hist) in enumerate(bs):
                    st = _new_stats()
                    lane_stats.append(st)
                    _batch(ctx, d, binp, label, cfg, consts, st, warm if i == 0 else None, hist)
                    if len(ctx.violations) > 40:
                        break
            except Exception as e:
                lane_errs.append(e)
        ths = [threading.Thread(target=lane, args=(bs,)) for bs in lanes if bs]
        for t in ths:
            t.start()
        for t in ths:
            t.join()
        if lane_errs:
            raise lane_errs[0]
        if len(lane_stats) < len(batches):
            complete = False
        for st in lane_stats:
            _merge(stats, st)
        for res, label in stats["tlc"]:
            ev.tlc(res, label)
        for smp in stats["samples"][:6]:
            ev.sample(smp)
        # observation only (outside the fetches the property enumerates): the opt-in link check of `validate -links`
        try:
            p = vlib.sh([binp, "linkprobe"], timeout=60, check=False)
            obs = json.loads([l for l in p.stdout.splitlines() if l.startswith("SUMMARY ")][-1][8:])
        except Exception as e:
            obs = {"available": False, "why": str(e)[:200]}
        if not ctx.violations and stats["cases_with_predicted_connects"] and stats["flows_with_connects"] * 2 < stats["cases_with_predicted_connects"]:
            raise vlib.HarnessError("vacuous run: the model predicts connect attempts in %d cases, the real code made some in only %d" % (
                stats["cases_with_predicted_connects"], stats["flows_with_connects"]))
        if stats["design_divergences"]:
            vlib.log("NOTE C30: %d cases where the real code's connect attempts differ from the design model's prediction (not a verdict): %s" % (
                stats["design_divergences"], stats["divergence_samples"][:1]))
        ev.cov(evaluations=stats["fetches"] + stats["probes"],
               distinct_nontrivial=len(stats["keys_nontrivial"]),
               traces_validated_against_impl=stats["validated"],
               rule="every terminal state of Net.tla within the cfg bounds is one case (kind x allow-list spelling x chain of URL classes, each "
                    "with its resolver answer sequence over the address representatives of the chosen variant); each case is replayed into "
                    "the real fetch path and its record judged by TLC, plus one probe of the real client's dial guard per distinct (allow-list, "
                    "host, answers); history cases (Net_hist*.cfg) are sequences of fetches with their own allow-lists performed in ONE fresh "
                    "process each through the guard inside the client object the real constructor returns, every fetch judged on its own "
                    "configuration; distinct = distinct (kind, allow form, per-hop scheme/userinfo/host/answer addresses); non-trivial = "
                    "at least one request of the case got past URL validation to the transport, so a dial guard was consulted",
               exhaustive=complete and stats["tlc_unjudged_after_cap"] == 0,
               replayed_cases=stats["cases"], replayed_fetches=stats["fetches"], history_processes=stats["processes"],
               distinct_cases=len(stats["keys_all"]), guard_probes=stats["probes"],
               guard_probe_permits=stats["probe_permits"], requests_reaching_transport=stats["requests"],
               connect_attempts_recorded=stats["connects"], flows_with_connect_attempts=stats["flows_with_connects"],
               distinct_connect_targets=len(stats["connect_targets"]), fake_dns_queries=stats["dns_queries"], rebinding_answers_served=stats["dns_rebinds"],
               design_divergences=stats["design_divergences"], divergence_samples=stats["divergence_samples"],
               tlc_rejected_records=stats["tlc_rejected"], replay_only_rejected_flows=stats["replay_rejected"], records_not_judged_after_rerun_cap=stats["tlc_unjudged_after_cap"],
               max_requests_followed={k[13:]: v for k, v in stats.items() if k.startswith("max_requests_")},
               address_variant=v if ctx.quick else "1,2,3",
               observation_link_check_not_in_scope=obs)
        ev.assume("Public(ip) is exactly the property's list: not loopback, private (10/8, 172.16/12, 192.168/16, fc00::/7), link-local (169.254/16, "
                  "fe80::/10), multicast or unspecified, after unwrapping IPv4-mapped IPv6; CGNAT 100.64/10, 0/8, broadcast, NAT64/6to4/"
                  "v4-compatible embeddings of private IPv4 addresses and fec0::/10 count as public because the property does not name them",
                  "dial attempts are aborted before connect(2), so every address a guard would fall back to is attempted and judged; "
                  "HTTP responses are synthesized from the model's script (no TLS, no real HTTP framing)",
                  "all-numeric host names (2130706433, 0177.0.0.1, 127.1) are refused by Go's resolver without a query; with a libc resolver "
                  "they resolve like the literal they spell, which is the literal-host case after resolution",
                  "the image-box client has no redirect bound of its own (only the overall timeout); the property does not demand one",
                  "harness built with go1.26.8 (std overlays are refused for the baseline toolchain inside GOMODCACHE)")
    finally:
        shutil.rmtree(d, ignore_errors=True)
