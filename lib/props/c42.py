"""C42 - checked integer arithmetic is exact or reports overflow.
P: TLAPS proves (spec/SafeMath_proofs.tla) that the transcription of safemath.AddInt/MultiplyInt/MultiplyInt64
   (spec/SafeMath.tla; ideal integers and Go machine arithmetic with wrap-around) equals the mathematical
   definition for every M >= 1 and all operands.
G: TLC checks the same operators exhaustively for M in {1,2,7,100,127,255} (spec/SafeMathMC.tla) and
   enumerates the case classes of the small-width model.
V: harness/cmd/c42 runs the REAL functions at their real width on instances of every case class plus seeded
   random pairs; operands/results are logged as base-4096 limbs and TLC (spec/SafeMathTrace.tla + Limbs.tla)
   judges every record against the mathematical definition and classifies it; all classes of the small
   model must be covered."""
import concurrent.futures, json, os, re, shutil, subprocess, time
import vlib

META = {
    "level": "proof",
    "text": "TLAPS proves for every M >= 1 and all integer operands that the TLA+ transcription of AddInt/MultiplyInt/MultiplyInt64 "
            "(also with Go's wrapping machine arithmetic) returns the exact result iff both operands are non-negative and the result "
            "fits, and overflow otherwise. TLC re-checks the transcription exhaustively for six small widths, and the real functions "
            "are run at 64 bits on instances of every case class of the small model plus random pairs; TLC validates each recorded "
            "result against the mathematical definition with limb arithmetic.",
    "note": "Trusted: tlapm and its backends (Z3, Zenon, Isabelle), the hand transcription of int.go into SafeMath.tla (pinned to the "
            "source text and bound by the validated 64-bit records), Limbs.tla, the limb encoding in the Go command, go1.26.8.",
    "technique": "TLAPS proof of the transcription + TLC exhaustive small-width check + TLC validation of recorded real executions (limb arithmetic)",
    "design_ref": "DESIGN.md §5 C42",
}

# the source text the transcription in spec/SafeMath.tla was made from (whitespace-normalised function bodies)
PINNED = {
    "AddInt": "if a < 0 || b < 0 || a > math.MaxInt-b { return 0, errIntegerOverflow } return a + b, nil",
    "MultiplyInt": "if a < 0 || b < 0 || a != 0 && b > math.MaxInt/a { return 0, errIntegerOverflow } return a * b, nil",
    "MultiplyInt64": "if a < 0 || b < 0 || a != 0 && b > math.MaxInt64/a { return 0, errIntegerOverflow } return a * b, nil",
}


def source_bodies():
    src = open(os.path.join(vlib.REPO, "pkg/pdfcpu/safemath/int.go")).read()
    src = re.sub(r"//[^\n]*", "", src)
    out = {}
    for m in re.finditer(r"func (\w+)\(([^)]*)\) \(([^)]*)\) \{\n(.*?)\n\}\n", src, re.S):
        out[m.group(1)] = " ".join(m.group(4).split())
    return out


def run_tlapm(d, stretch):
    cmd = ["timeout", "600", "tlapm", "--threads", "16", "--stretch", str(stretch), "--cleanfp", "SafeMath_proofs.tla"]
    t = time.time()
    p = subprocess.run(cmd, cwd=d, stdout=subprocess.PIPE, stderr=subprocess.STDOUT, text=True)
    out = p.stdout
    m = re.search(r"All (\d+) obligations? proved", out)
    if m:
        return int(m.group(1)), int(m.group(1)), " ".join(cmd), out, time.time() - t
    m = re.search(r"(\d+)/(\d+) obligations? failed", out)
    if m:
        return int(m.group(2)), int(m.group(2)) - int(m.group(1)), " ".join(cmd), out, time.time() - t
    raise vlib.HarnessError("tlapm produced no obligation count (rc=%d):\n%s" % (p.returncode, out[-3000:]))


def prove(d):
    for f in ("SafeMath.tla", "SafeMath_proofs.tla"):
        shutil.copy(os.path.join(vlib.SPEC, f), d)
    obl, dis, cmd, out, wall = run_tlapm(d, 3)
    if dis != obl:
        obl, dis, cmd, out, wall = run_tlapm(d, 12)
    if dis != obl:
        raise vlib.HarnessError("TLAPS proof of SafeMath_proofs incomplete: %d of %d obligations\n%s" % (dis, obl, out[-3000:]))
    return obl, dis, cmd, wall


def small_model(d):
    clsf, pairsf = os.path.join(d, "cls_small.ndjson"), os.path.join(d, "pairs.ndjson")
    res = vlib.run_tlc("SafeMathMC", "SafeMathMC.cfg", workers=min(8, vlib.NCPU), timeout=900, payloads={"CLS": clsf, "PAIRS": pairsf})
    if res.violated:
        raise vlib.HarnessError("design model SafeMathMC violates %s:\n%s" % (res.violated, res.error_state))
    small = set()
    for row in vlib.read_ndjson(clsf):
        for c in row:
            small.add(tuple(c))
    small_pairs = sum(vlib.read_ndjson(pairsf))
    if not small or not small_pairs:
        raise vlib.HarnessError("SafeMathMC emitted no classes")
    return res, small, small_pairs


def run(ctx):
    ev = ctx.ev
    d = vlib.scratch_dir()
    pool = concurrent.futures.ThreadPoolExecutor(3)
    try:
        os.makedirs(os.path.join(d, "proof"))
        fut_proof = pool.submit(prove, os.path.join(d, "proof"))      # P: the proof
        fut_small = pool.submit(small_model, d)                       # G: small widths, exhaustive

        # ---- V: real functions at real width
        binp = vlib.build_bin("c42")
        rec = os.path.join(d, "records.ndjson")
        args = ["--n", "1800", "--kstep", "5", "--gridrand", "8"] if ctx.quick else ["--n", "30000", "--kstep", "1", "--gridrand", "60"]
        p = vlib.sh([binp, "run", "--out", rec, "--seed", str(ctx.seed)] + args, timeout=600)
        summ = json.loads([l for l in p.stdout.splitlines() if l.startswith("SUMMARY ")][-1][8:])
        rows = vlib.read_ndjson(rec)
        if len(rows) != summ["records"] or not rows:
            raise vlib.HarnessError("record count mismatch")
        nrec = len(rows)
        rec_samples = rows[:1] + rows[len(rows) // 2:len(rows) // 2 + 1]
        big = set()
        validated = 0
        clsb = os.path.join(d, "cls_big.ndjson")
        trace_res = None
        while rows:
            if os.path.exists(clsb):
                os.unlink(clsb)
            res = vlib.run_tlc("SafeMathTrace", "SafeMathTrace.cfg", files=[rec], workers=1, timeout=1800, payloads={"CLS": clsb})
            if os.path.exists(clsb):
                for c in vlib.read_ndjson(clsb):
                    big.add(tuple(c))
            if res.violated == "RecordOK":
                k = int(re.search(r"l = (\d+)", res.error_state or res.out[res.out.find("RecordOK"):]).group(1))
                r = rows[k - 1]
                ctx.report("%s|%s|%s" % (r["fn"], r["as"], r["bs"]),
                           "safemath.%s(%s, %s) returned (%s, %s) but the exact result %s" % (
                               r["fn"], r["as"], r["bs"], r["rs"], "nil" if r["ok"] else "overflow error",
                               _expected(r)), r)
                validated += k
                rows = rows[k:]
                if len(ctx.violations) > 30:
                    break
                vlib.write_ndjson(rec, rows)
                continue
            if not res.ok:
                raise vlib.HarnessError("SafeMathTrace did not accept the records: %s\n%s" % (res.violated, res.out[-2000:]))
            validated += len(rows)
            trace_res = res
            break

        obl, dis, cmd, wall = fut_proof.result()
        thms = re.findall(r"(?m)^(?:THEOREM|LEMMA) (\w+) ==", open(os.path.join(vlib.SPEC, "SafeMath_proofs.tla")).read())
        ver = vlib.sh(["tlapm", "--version"]).stdout.strip()
        ev.cov(obligations=obl, discharged=dis, checker_cmd=cmd, proof_wall_s=round(wall, 2), theorems=thms,
               trusted_base=["tlapm " + ver + " with backends Z3 / Zenon / Isabelle (SMT encoding of TLA+ \\div and %)",
                             "hand transcription of pkg/pdfcpu/safemath/int.go into spec/SafeMath.tla (Add/Mul/MAdd/MMul)",
                             "Go int/int64 arithmetic is two's complement wrap-around with truncated division (SafeMath!Wrap, TDiv)",
                             "spec/Limbs.tla and the limb encoding of harness/cmd/c42 for the 64-bit binding"])
        ev.sample({"theorem": "MMulExact", "statement": "\\A M \\in Nat \\ {0} : \\A a, b \\in Word(M) : MMul(M, a, b) = ExactMul(M, a, b)"})
        ev.sample({"lemma": "DivLe", "statement": "M, a, b \\in Nat, a > 0 |- (b <= M \\div a) <=> (a * b <= M)"})
        res_small, small, small_pairs = fut_small.result()
        ev.tlc(res_small, "SafeMathMC.cfg")
        if trace_res:
            ev.tlc(trace_res, "SafeMathTrace.cfg")
        for r in rec_samples:
            ev.sample(r)
        missing = sorted(small - big)
        if missing and not ctx.violations:
            raise vlib.HarnessError("case classes of the small-width model not instantiated at the real width: %s" % missing[:10])
        ev.sample({"case_class": list(sorted(small)[len(small) // 2])})
        ev.cov(evaluations=small_pairs * 2 + nrec, distinct_nontrivial=len(small & big),
               traces_validated_against_impl=validated,
               rule="proof: all obligations of SafeMath_proofs.tla; TLC: every pair (a, b) of the word -M-1..M for M in {1,2,7,100,127,255}, "
                    "both operations (%d pairs); binding: %d records of the real AddInt/MultiplyInt/MultiplyInt64 at width %d (grid of "
                    "sign/extreme/power-of-two operands, a = Max-b+d and a = Max/b+d for d in -2..2, divisor pairs of Max, seeded random "
                    "bit-length pairs), each judged by TLC with limb arithmetic; non-trivial = distinct case classes <<kind, sign a, sign b, "
                    "result vs Max, b vs Max/a, wrapped sign bit>> of the small model that were instantiated at the real width" % (
                        small_pairs, nrec, summ["intsize"]),
               small_width_pairs=small_pairs, records=nrec, classes_small_model=len(small), classes_at_real_width=len(big),
               exhaustive=False)
        ev.assume("the 2^128 operand pairs are covered by the TLAPS proof of the transcription, not by enumeration; the binding of the "
                  "transcription to the compiled code is by %d validated executions covering all %d case classes" % (nrec, len(small)),
                  "a failing overflow result is only required to carry an error (its numeric value is not constrained)")
        # the proof is about the transcription: it only covers the source it was transcribed from
        bodies = source_bodies()
        drift = [k for k, v in PINNED.items() if bodies.get(k) != v]
        ev.cov(transcription_matches_source=not drift)
        if drift and not ctx.violations:
            raise vlib.HarnessError("pkg/pdfcpu/safemath/int.go no longer has the text SafeMath.tla was transcribed from (%s): "
                                    "the proof does not cover it; re-transcribe and update PINNED" % ", ".join(drift))
    finally:
        pool.shutdown(wait=True)
        shutil.rmtree(d, ignore_errors=True)


def _expected(r):
    def val(neg, limbs):
        v = sum(x << (12 * i) for i, x in enumerate(limbs))
        return -v if neg else v
    a, b = val(r["aneg"], r["a"]), val(r["bneg"], r["b"])
    e = a + b if r["kind"] == "add" else a * b
    mx = (1 << (r["w"] - 1)) - 1
    if a >= 0 and b >= 0 and e <= mx:
        return "is %d and fits" % e
    return "%d %s, so an overflow error is required" % (e, "has a negative operand" if a < 0 or b < 0 else "exceeds %d" % mx)
