"""C40 - concurrent use of the API is race-free and deterministic (configuration directory disabled).

Design  : spec/Conc.tla models the shared objects behind the API at the granularity of the code (user-font cache:
          RWMutex-guarded map, sync.Once, load mutex; DisableConfigDir flag and logger pointers set before the goroutines
          start). TLC explores all interleavings of 2 readers + 2 reloaders + directory changes (CompleteGen, ReloadAtomic
          = refinement of the sequential model spec/ConcModel.tla, PublishesDir, Fresh, NoRace, LockSanity) and must FIND the
          violation in two deliberately broken variants (map published before it is filled; DisableConfigDir after spawn).
          spec/ConcCert.tla: the certificate-pool / store-revision cache (model only, see assumptions).
Binding 1: a race-detector build (harness/cmd/conc fonts) runs goroutines doing UserFontNames / UserFont / IsUserFont /
          LoadUserFonts concurrently with ReloadUserFonts over a font directory whose content changes between generations;
          every operation is logged with call/return values of one atomic logical clock; spec/ConcTrace.tla searches a
          linearization of every recorded history (<= 16 operations) w.r.t. ConcModel.
Binding 2: the same build runs 2..32 goroutines (GOMAXPROCS 1,2,4,16 = separate processes, seeded start delays), each doing
          one of read/validate/optimize/stamp/fill/encrypt+decrypt/merge/split/user-font stamp/font lookups/font reload on
          its own copy of an input in its own directory; results are compared with the same operation run alone
          (spec/ConcDet.tla judges the records); every race-detector report is a violation. The inputs include a hand-built
          "repaired" document (classic xref section without object 0); merge destination / page removal / optimize free objects
          in it. Every process re-runs the cheap operations alone after its concurrent phase (state left behind), and solo
          results that fail or vary inside the sequential solo process are re-run in fresh processes.
          Shared resources: every round has two goroutines stamping from ONE stamp PDF file / ONE image file (by file name) or
          with one user font, or decoding DIFFERENT hand-built documents whose 7 page content streams use every stream filter
          (ASCIIHex, ASCII85, RunLength, LZW, Flate, Flate + PNG predictor, a filter chain); op "content" compares the decoded
          page content with the solo run. Conc_shared.cfg (operations share one mutable process-wide object) must be refuted.
Life    : spec/ConcLife.tla enumerates the life-cycle schedules of the cache in one process (first lookup / lookup / reload
          issued while a directory scan is held open at a gate, gate opening at every position); every schedule is replayed in
          a FRESH process (harness/cmd/conc life; the sync.Once state exists once per process; gate = a named pipe as the first
          font file) under a watchdog: a call that never returns is the violation "hang"; results are compared with the model's.
          Conc.tla also models the Once's internal mutex; Conc_inversion.cfg (Once entered before the load mutex) must be
          refuted by TLC (NoStuck) on every run. Rounds of the fonts/ops processes run under an in-process watchdog too."""
import concurrent.futures, json, os, re, shutil, subprocess, time
import vlib

META = {
    "level": "exploration",
    "text": "Schedules of the real code are sampled (Go runtime, race detector build, GOMAXPROCS 1/2/4/16, 2-32 goroutines, seeded "
            "delays and operation mixes): every data-race report is a violation, every recorded call/return history of the user-font "
            "cache must be linearizable w.r.t. the sequential TLA+ model (TLC searches the linearization), and every concurrently "
            "produced result must equal the result of the same operation run alone. TLC exhaustively checks the fine-grained design "
            "model of the locking protocol (2 readers + 2 reloaders) and finds the violation in two broken variants on every run.",
    "note": "Schedules are sampled by the Go runtime, not enumerated; TLC enumerates interleavings only on the model. The race detector "
            "only sees races on executed paths. Trusted: ConcModel.tla as the sequential meaning of the font-cache API, the harness "
            "discipline (font directory not modified while a load reads it), the projection/digest code, go1.26.8 -race.",
    "technique": "TLC-checked design model of the locking protocol + TLC linearizability checking of recorded histories + race detector "
                 "and solo-vs-concurrent comparison judged by TLC",
    "design_ref": "DESIGN.md §5 C40",
}

PROCS = [1, 2, 4, 16]
NFONTS = 7          # 3 generations x (common font + 2 own)
CONFIRM = 6         # solo runs needed to confirm an object-bag mismatch


# ------------------------------------------------------------------------------------------------ race reports

_acc_re = re.compile(r"^(Previous )?(atomic )?(read|write) at 0x[0-9a-f]+ by (main )?goroutine", re.I)


def _frames(lines, start):
    """(function, file:line) pairs of the stack that starts after lines[start]."""
    out = []
    i = start + 1
    while i + 1 < len(lines) and lines[i].startswith("  ") and lines[i].strip():
        fn = lines[i].strip()
        loc = lines[i + 1].strip().split(" +0x")[0] if lines[i + 1].startswith("      ") else ""
        out.append((re.sub(r"\(.*\)$", "", fn) if not fn.endswith("()") else fn[:-2], loc))
        i += 2 if loc else 1
    return out


def _short(loc):
    for pre in (vlib.REPO + "/", "/repo/", vlib.GOROOT + "/src/"):
        if loc.startswith(pre):
            return loc[len(pre):]
    return loc


def _keyname(a):
    """stable name of an access site: pkg.Func for pdfcpu functions, file:Func for functions inlined into harness closures"""
    fn = a["fn"]
    if "github.com/pdfcpu" in fn:
        return fn.split("/")[-1]
    ids = [x for x in re.split(r"[.\[\]]", fn) if x and not re.fullmatch(r"func\d+|\d+|main|\.\.\.", x)]
    loc = a["top"].split(" (")[-1].rstrip(")").split(":")[0]
    return "%s:%s" % (os.path.basename(loc), ids[-1] if ids else "?")


def parse_races(text):
    """-> list of dict(key, what, accesses=[{kind, top, pdfcpu}]) for every WARNING: DATA RACE block."""
    out = []
    for block in text.split("==================")[0:]:
        if "WARNING: DATA RACE" not in block:
            continue
        lines = block.splitlines()
        accs = []
        for i, l in enumerate(lines):
            if _acc_re.match(l.strip()):
                fr = _frames(lines, i)
                if not fr:
                    continue
                top = fr[0]
                own = next((f for f in fr if "pdfcpu/pdfcpu" in f[0] or "github.com/pdfcpu" in f[0]), None)
                accs.append({"kind": l.strip().split(" at ")[0].lower(), "top": "%s (%s)" % (top[0], _short(top[1])),
                             "pdfcpu": "%s (%s)" % (own[0], _short(own[1])) if own else "", "fn": (own or top)[0]})
        fns = sorted({_keyname(a) for a in accs}) or ["unparsed"]
        out.append({"key": "race|" + "|".join(fns),
                    "what": "DATA RACE: " + " <-> ".join("%s in %s%s" % (a["kind"], a["top"], (" via " + a["pdfcpu"]) if a["pdfcpu"] and a["pdfcpu"] != a["top"] else "") for a in accs),
                    "accesses": accs, "report": block.strip()[:3000]})
    return out


class Proc:
    def __init__(self, name, args, procs, d, timeout):
        self.name, self.args, self.procs, self.timeout = name, args, procs, timeout
        self.racelog = os.path.join(d, "race-" + name)
        self.rc, self.out, self.wall, self.races, self.summary = None, "", 0.0, [], {}


def _run_proc(binp, p):
    env = dict(os.environ)
    env["GOMAXPROCS"] = str(p.procs)
    env["GORACE"] = "log_path=%s halt_on_error=0 exitcode=66" % p.racelog
    env["VERIF_REPO"] = vlib.REPO
    t = time.time()
    try:
        r = subprocess.run([binp] + p.args, env=env, stdout=subprocess.PIPE, stderr=subprocess.STDOUT, text=True, timeout=p.timeout)
    except subprocess.TimeoutExpired:
        raise vlib.HarnessError("conc %s timed out after %ds" % (p.name, p.timeout))
    p.wall = time.time() - t
    p.rc, p.out = r.returncode, r.stdout
    txt = ""
    dn, pre = os.path.dirname(p.racelog), os.path.basename(p.racelog) + "."
    for f in sorted(os.listdir(dn)):
        if f.startswith(pre):
            txt += open(os.path.join(dn, f), errors="replace").read()
    p.races = parse_races(txt + "\n" + p.out)
    for l in p.out.splitlines():
        if l.startswith("SUMMARY "):
            p.summary = json.loads(l[8:])
    return p


def _crash(p):
    """A Go panic / fatal error of the process under test (not a harness Die): (key, what) or None."""
    m = re.search(r"^(fatal error: .*|panic: .*)$", p.out, re.M)
    if not m:
        return None
    fr = re.findall(r"^(github\.com/pdfcpu/pdfcpu/[^\s(]+)", p.out[m.start():], re.M)
    return "crash|%s|%s" % (m.group(1)[:60], fr[0].split("/")[-1] if fr else "?"), "%s in process %s: %s" % (m.group(1), p.name, " <- ".join(fr[:4]))


# ------------------------------------------------------------------------------------------------ synthetic controls

def _synthetic(gens, names, base):
    """Histories the judge must REJECT (anti-vacuity of ConcTrace) and one it must accept."""
    def op(i, name, call, ret, arg=0, obs=(), found=0):
        return {"id": i, "op": name, "g": i, "seq": 0, "call": call, "ret": ret, "arg": arg, "obs": list(obs), "found": found, "err": ""}

    def hist(k, kind, init, ops):
        return {"h": base + k, "procs": 0, "synthetic": kind, "gens": gens, "init": init, "ops": ops, "names": names}
    g0, g1 = gens[0], gens[1]
    return [
        # lookup called after a completed reload still sees the older generation
        hist(1, "reject:stale", {"dir": 0, "cache": 0}, [op(1, "setdir", 1, 2, arg=1), op(2, "reload", 3, 4), op(3, "names", 5, 6, obs=g0)]),
        # partially loaded map (cleared, one font copied)
        hist(2, "reject:partial", {"dir": 0, "cache": 0}, [op(1, "reload", 1, 4), op(2, "names", 2, 3, obs=g0[:1])]),
        # a generation is seen before anybody could have loaded it
        hist(3, "reject:future", {"dir": 0, "cache": 0}, [op(1, "names", 1, 2, obs=g1), op(2, "setdir", 3, 4, arg=1), op(3, "reload", 5, 6)]),
        # non-atomic reload: two lookups inside one reload see new then old
        hist(4, "reject:flicker", {"dir": 1, "cache": 0}, [op(1, "reload", 1, 8), op(2, "names", 2, 3, obs=g1), op(3, "names", 4, 5, obs=g0)]),
        # wrong membership answer
        hist(5, "reject:has", {"dir": 0, "cache": 0}, [op(1, "has", 1, 2, arg=g1[1], found=1)]),
        # legal: overlapping reload, lookups see old then new; first load through a lookup
        hist(6, "accept", {"dir": 1, "cache": -1}, [op(1, "names", 1, 4, obs=g1), op(2, "setdir", 2, 3, arg=0), op(3, "reload", 5, 10),
                                                    op(4, "names", 6, 7, obs=g1), op(5, "names", 8, 9, obs=g0), op(6, "isuser", 11, 12, arg=g0[2], found=1)]),
    ]


# ------------------------------------------------------------------------------------------------ main

def _design(ctx, cfg, expect=None, workers=4, timeout=1200, heap="6g"):
    res = vlib.run_tlc(cfg.split("_")[0], cfg, workers=workers, timeout=timeout, heap=heap)
    if expect is None:
        if res.violated:
            raise vlib.HarnessError("design model Conc (%s) violates %s:\n%s" % (cfg, res.violated, res.error_state))
    elif res.violated != expect:
        raise vlib.HarnessError("broken design model %s: TLC was expected to find a violation of %s, found %s" % (cfg, expect, res.violated))
    return cfg, res


def _build(race):
    try:
        return vlib.build_bin("conc", race=race)
    except vlib.HarnessError:
        time.sleep(3)      # the shared GOCACHE is trimmed concurrently now and then
        return vlib.build_bin("conc", race=race)


def run(ctx):
    ev = ctx.ev
    # one report per key (the first instance); the number of instances is in the evidence
    seen, raw_report = {}, ctx.report

    def report(key, what, obj=None):
        seen[key] = seen.get(key, 0) + 1
        if seen[key] == 1:
            raw_report(key, what, obj)
    ctx.report = report
    d = vlib.scratch_dir()
    pool = concurrent.futures.ThreadPoolExecutor(max_workers=10)
    try:
        # design model checks run in the background while the race build is made / used
        # ConcCert: the certificate-pool revision cache, model only (no trusted-certificate directory in the mode of C40);
        # ConcCert_reset.cfg is the mark-before-install order of ResetCertificates (pdfcpu_eutl build), refuted by TLC
        dcfgs = [("Conc_quick.cfg", None, 4), ("Conc_broken.cfg", "CompleteGen", 2), ("Conc_late.cfg", "NoRace", 1), ("Conc_inversion.cfg", "NoStuck", 2), ("Conc_shared.cfg", "NoRace", 1),
                 ("ConcCert_import.cfg", None, 1), ("ConcCert_reset.cfg", "Coherent", 1)]
        if not ctx.quick:
            dcfgs = [("Conc_thorough.cfg", None, 8), ("Conc_live.cfg", None, 2)] + dcfgs[1:]
        dfut = [pool.submit(_design, ctx, c, e, w) for c, e, w in dcfgs]

        # life-cycle schedules (first lookup / lookup / reload vs. a directory scan held open), generated by TLC
        lcases = os.path.join(d, "life-cases.ndjson")
        lfut = pool.submit(vlib.run_tlc, "ConcLife", "ConcLife_quick.cfg" if ctx.quick else "ConcLife_thorough.cfg", workers=2, timeout=900,
                           payloads={"CASE": lcases})

        binp = _build(True)
        plain = None if ctx.quick else _build(False)
        stage = os.path.join(d, "stage")
        vlib.sh([binp, "stage", "--work", d, "--n", str(NFONTS)], timeout=600)

        # ---- process runs
        seed = ctx.seed
        rounds_fonts = 6 if ctx.quick else 80
        sizes_all = [2, 4, 8, 16, 32]
        procs = []
        for k, P in enumerate(PROCS):
            procs.append(Proc("fonts-p%d" % P, ["fonts", "--work", os.path.join(d, "f%d" % P), "--stage", stage, "--out", os.path.join(d, "hist-%d.ndjson" % P),
                                                "--seed", str(seed), "--rounds", str(rounds_fonts), "--base", str(P * 10000), "--watchdog", "60"], P, d, 900))
            if ctx.quick:   # every process gets two goroutine counts; (seed, P) rotate through all combinations
                sizes = [sizes_all[(seed + k) % 5], sizes_all[(seed + k + 2) % 5]]
                if P == 1:
                    sizes = [min(s, 8) for s in sizes]
            else:           # several rounds per goroutine count, different seeded operation mixes per round
                sizes = sizes_all * 3 + [12, 24]
            procs.append(Proc("ops-p%d" % P, ["ops", "--mode", "conc", "--work", os.path.join(d, "o%d" % P), "--stage", stage, "--out", os.path.join(d, "ops-%d.ndjson" % P),
                                              "--seed", str(seed), "--post", "short" if ctx.quick else "full", "--sizes", ",".join(map(str, sorted(set(sizes)) if ctx.quick else sizes))], P, d, 1500))
        for rep in (0, 1):
            procs.append(Proc("solo-%d" % rep, ["ops", "--mode", "solo", "--rep", str(rep), "--work", os.path.join(d, "s%d" % rep), "--stage", stage,
                                                "--out", os.path.join(d, "solo-%d.ndjson" % rep)], 1, d, 900))
        control = Proc("control", ["control"], 4, d, 300)
        procs.append(control)
        # longest first; at most 6 race processes at a time
        order = sorted(procs, key=lambda p: (0 if p.name.startswith("ops") else 1 if p.name.startswith("solo") else 2, -p.procs))
        rpool = concurrent.futures.ThreadPoolExecutor(max_workers=8)
        futs = [rpool.submit(_run_proc, binp, p) for p in order]
        extra_hist = []
        if plain:   # many more schedules for the linearizability check from the fast non-race build
            for P in PROCS:
                q = Proc("fontsplain-p%d" % P, ["fonts", "--work", os.path.join(d, "fp%d" % P), "--stage", stage, "--out", os.path.join(d, "histp-%d.ndjson" % P),
                                                "--seed", str(seed + 1000), "--rounds", "400", "--base", str(P * 10000 + 5000)], P, d, 900)
                futs.append(rpool.submit(_run_proc, plain, q))
                extra_hist.append(q)
        lres = lfut.result()
        if lres.violated or not lres.ok:
            raise vlib.HarnessError("design model ConcLife violates %s:\n%s" % (lres.violated, lres.error_state))
        ev.tlc(lres, "ConcLife")
        cases, seenc = [], set()
        for c in vlib.read_ndjson(lcases):
            k = json.dumps(c, sort_keys=True)
            if k not in seenc:
                seenc.add(k)
                cases.append(c)
        cases.sort(key=lambda c: (len(c["kinds"]), c["kinds"], c["openAt"]))
        if ctx.quick:   # every schedule of <= 2 calls, a seeded sample of the 3-call schedules
            import random
            rnd = random.Random(seed)
            long3 = [c for c in cases if len(c["kinds"]) == 3]
            cases = [c for c in cases if len(c["kinds"]) <= 2] + rnd.sample(long3, min(6, len(long3)))
        lprocs = []
        for i, c in enumerate(cases):
            c["id"] = i + 1
            q = Proc("life-%d" % (i + 1), ["life", "--work", os.path.join(d, "l%d" % (i + 1)), "--stage", stage, "--out", os.path.join(d, "life-%d.ndjson" % (i + 1)),
                                           "--watchdog", "20", "--case", json.dumps(c)], PROCS[(i + seed) % len(PROCS)], d, 120)
            q.case = c
            lprocs.append(q)
            futs.append(rpool.submit(_run_proc, binp, q))
        for f in futs:
            f.result()
        rpool.shutdown()

        # ---- verdicts 1: races, crashes, exit codes
        race_keys = {}
        for p in procs + extra_hist + lprocs:
            if p is control:
                continue
            for r in p.races:
                if r["key"] not in race_keys:
                    race_keys[r["key"]] = (r, p.name)
            cr = _crash(p)
            if p.summary.get("hang") and p not in lprocs:
                ctx.report("fontcache|hang" if p.name.startswith("fonts") else "ops|hang",
                           "process %s (GOMAXPROCS=%d): goroutines never finished round %s (in-process watchdog); programs %s; blocked goroutines: %s" % (
                               p.name, p.procs, p.summary.get("round"), p.summary.get("programs"), str(p.summary.get("stacks"))[:1500]),
                           {"process": p.name, "args": p.args, "GOMAXPROCS": p.procs, "summary": p.summary})
            elif cr:
                ctx.report(cr[0], cr[1], {"process": p.name, "args": p.args, "GOMAXPROCS": p.procs, "output": p.out[-4000:]})
            elif p.rc not in (0, 66) or (p.rc == 66 and not p.races) or not p.summary:
                raise vlib.HarnessError("conc %s failed (rc=%s):\n%s" % (p.name, p.rc, p.out[-3000:]))
        for key, (r, pname) in sorted(race_keys.items()):
            ctx.report(key, r["what"] + " [process %s]" % pname, {"process": pname, "accesses": r["accesses"], "report": r["report"]})
        # positive control: the detector must fire on the usage the model calls racy (Conc_late.cfg)
        ctrl_ok = any("DisableConfigDir" in r["report"] and "NewDefaultConfiguration" in r["report"] for r in control.races)
        if not ctrl_ok:
            raise vlib.HarnessError("race detector control: no race reported for DisableConfigDir concurrent with NewDefaultConfiguration "
                                    "(rc=%s) - the detector is not active in this build\n%s" % (control.rc, control.out[-1500:]))

        # ---- verdicts 1b: life-cycle schedules replayed in fresh processes against the expectations of ConcLife.tla
        hangs = 0
        lsamples = []
        for q in lprocs:
            rr = vlib.read_ndjson(q.args[q.args.index("--out") + 1])
            if len(rr) != 1:
                raise vlib.HarnessError("life replay %s wrote no result:\n%s" % (q.name, q.out[-1500:]))
            r, c = rr[0], q.case
            sched = "%s, gate opens after %d call(s), GOMAXPROCS=%d" % (" -> ".join(c["kinds"]), c["openAt"], q.procs)
            lsamples.append({"schedule": c, "result": {k: r[k] for k in ("arrived", "hang", "calls")}})
            if r["hang"]:
                hangs += 1
                stuck = [x["api"] for x in r["calls"] if not x["returned"]]
                ctx.report("fontcache|hang", "font cache calls never return (watchdog 20 s) in the schedule [%s]: stuck %s; goroutines: %s" % (sched, stuck, r["stacks"][:1500]),
                           {"schedule": c, "result": r})
                continue
            for i, (x, e) in enumerate(zip(r["calls"], c["expect"])):
                if r["arrived"] and x["before_open"]:
                    ctx.report("fontcache|early-return", "call %d (%s) returned while the font directory could not be read yet, schedule [%s]" % (i + 1, x["api"], sched), {"schedule": c, "result": r})
                if x["err"]:
                    ctx.report("fontcache|life-error", "call %d (%s) failed in the schedule [%s]: %s" % (i + 1, x["api"], sched, x["err"]), {"schedule": c, "result": r})
                elif (x["api"] == "names" and x["obs"] != e["obs"]) or (x["api"] in ("isuser", "width") and x["found"] != e["found"]):
                    ctx.report("fontcache|life-result", "call %d (%s) saw fonts=%s found=%d, the model expects fonts=%s found=%d, schedule [%s]" % (
                        i + 1, x["api"], x["obs"], x["found"], e["obs"], e["found"], sched), {"schedule": c, "result": r})

        # ---- verdicts 2: linearizability of the recorded histories (TLC)
        hists = []
        for p in procs + extra_hist:
            if p.name.startswith("fonts"):
                hists += vlib.read_ndjson(p.args[p.args.index("--out") + 1])
        if not hists and not any(p.summary.get("hang") for p in procs):
            raise vlib.HarnessError("no histories recorded")
        if max([len(h["ops"]) for h in hists], default=0) > 16:
            raise vlib.HarnessError("history longer than 16 operations")
        syn = _synthetic(hists[0]["gens"] if hists else [[1, 2, 3], [1, 4, 5], [1, 6, 7]], hists[0]["names"] if hists else [], 900000)
        allh = os.path.join(d, "hist.ndjson")
        vlib.write_ndjson(allh, hists + syn)
        lin, bad = os.path.join(d, "lin.ndjson"), os.path.join(d, "bad.ndjson")
        tfut = pool.submit(vlib.run_tlc, "ConcTrace", "ConcTrace.cfg", files=[allh], workers=4, timeout=1800, heap="6g", payloads={"LIN": lin, "BAD": bad})

        # ---- verdicts 3: determinism records (TLC)
        solo = {}
        for rep in (0, 1):
            for r in vlib.read_ndjson(os.path.join(d, "solo-%d.ndjson" % rep)):
                solo.setdefault((r["op"], r["input"]), []).append(r)
        conc = []
        for p in procs:
            if p.name.startswith("ops"):
                for r in vlib.read_ndjson(p.args[p.args.index("--out") + 1]):
                    r["procs"] = p.procs
                    conc.append(r)
        # an object-bag mismatch against a (so far) reproducible solo result is confirmed by more solo runs first
        suspects = sorted({(r["op"], r["input"]) for r in conc
                           if (r["op"], r["input"]) in solo and len({s["bag"] for s in solo[(r["op"], r["input"])]}) == 1
                           and r["bag"] != solo[(r["op"], r["input"])][0]["bag"]})
        for op, inp in suspects[:8]:
            for rep in range(2, CONFIRM):
                q = Proc("confirm-%s-%d" % (op, rep), ["ops", "--mode", "solo", "--rep", str(rep), "--only", "%s:%s" % (op, inp),
                                                        "--work", os.path.join(d, "c-%s-%s-%d" % (op, inp, rep)), "--stage", stage,
                                                        "--out", os.path.join(d, "confirm.ndjson")], 1, d, 600)
                _run_proc(binp, q)
                if q.rc != 0:
                    raise vlib.HarnessError("confirmation run failed: " + q.out[-1500:])
                solo[(op, inp)] += vlib.read_ndjson(os.path.join(d, "confirm.ndjson"))
        # a solo result that fails or is not reproducible inside the sequential solo process is re-run in fresh processes:
        # if the result depends on what the process did before, the judge sees disagreeing solo runs ("baseline")
        def fresh(op, inp, rep):
            q = Proc("fresh-%s-%d" % (op, rep), ["ops", "--mode", "solo", "--rep", str(rep), "--only", "%s:%s" % (op, inp),
                                                  "--work", os.path.join(d, "fr-%s-%s-%d" % (op, inp, rep)), "--stage", stage,
                                                  "--out", os.path.join(d, "fresh.ndjson")], 1, d, 600)
            _run_proc(binp, q)
            if q.rc not in (0, 66):
                raise vlib.HarnessError("fresh solo run failed: " + q.out[-1500:])
            return vlib.read_ndjson(os.path.join(d, "fresh.ndjson"))
        sequential = []
        for (op, inp), v in sorted(solo.items()):
            if any(x["err"] for x in v) or len({x["proj"] for x in v}) > 1:
                first = v[0]
                for rep in (2, 3):
                    v += fresh(op, inp, rep)
                if all(x["err"] == v[0]["err"] for x in v) and v[0]["err"]:
                    raise vlib.HarnessError("%s on %s fails even in a fresh process (harness input unusable): %s" % (op, inp, v[0]["err"]))
                first = dict(first, procs=1, n=1, round=-2, g=0)
                sequential.append(first)
        recs = []
        for i, r in enumerate(conc + sequential):
            s = solo.get((r["op"], r["input"]))
            if not s:
                raise vlib.HarnessError("no solo baseline for %s on %s" % (r["op"], r["input"]))
            recs.append({"i": i + 1, "procs": r["procs"], "n": r["n"], "round": r["round"], "g": r["g"], "op": r["op"], "input": r["input"],
                         "conc": {"err": r["err"], "proj": r["proj"], "bag": r["bag"]},
                         "solo_err": [x["err"] for x in s], "solo_proj": [x["proj"] for x in s], "solo_bag": [x["bag"] for x in s]})
        detf, dbad = os.path.join(d, "det.ndjson"), os.path.join(d, "detbad.ndjson")
        vlib.write_ndjson(detf, recs)
        dres = vlib.run_tlc("ConcDet", "ConcDet.cfg", files=[detf], workers=1, timeout=900, payloads={"BAD": dbad}, consts={"Confirm": str(CONFIRM)})
        if not dres.ok or dres.distinct != len(recs) + 1:
            raise vlib.HarnessError("ConcDet did not judge all %d records: %s\n%s" % (len(recs), dres.violated, dres.out[-1500:]))
        ev.tlc(dres, "ConcDet.cfg")
        nondet = 0
        for b in (vlib.read_ndjson(dbad) if os.path.exists(dbad) else []):
            r = recs[b["i"] - 1]
            if b["what"] == "unconfirmed":
                raise vlib.HarnessError("object-bag mismatch without confirmation runs for %s on %s: %s" % (r["op"], r["input"], json.dumps(r)[:800]))
            nondet += 1
            if b["what"] == "baseline":
                # solo runs inside one sequential process and solo runs in fresh processes disagree: the result depends on what
                # the process did before (shared state carried between operations) or is not reproducible at all
                ctx.report("nondet|%s|%s|baseline" % (r["op"], r["input"]),
                           "%s on %s does not produce one reproducible result when run alone (%d solo runs: errors %s, projections %s); "
                           "concurrent run: err=%r proj=%s" % (r["op"], r["input"], len(r["solo_err"]), sorted(set(r["solo_err"])), sorted(set(r["solo_proj"])),
                                                              r["conc"]["err"], r["conc"]["proj"]), r)
                continue
            how = "run concurrently (GOMAXPROCS=%d, %d goroutines)" % (r["procs"], r["n"]) if r["round"] >= 0 else \
                  "run alone AFTER the concurrent phase in the same process (GOMAXPROCS=%d)" % r["procs"] if r["round"] == -1 else "run in the sequential solo process"
            msg = "%s on %s %s differs from the run alone in its %s: this run err=%r proj=%s bag=%s, alone err=%r proj=%s bag=%s" % (
                r["op"], r["input"], how, b["what"], r["conc"]["err"], r["conc"]["proj"], r["conc"]["bag"], r["solo_err"][-1], r["solo_proj"][-1], r["solo_bag"][-1])
            ctx.report("nondet|%s|%s|%s" % (r["op"], r["input"], b["what"]), msg, r)

        # ---- linearizability results
        tres = tfut.result()
        if not tres.ok:
            raise vlib.HarnessError("ConcTrace failed: %s\n%s" % (tres.violated, tres.out[-1500:]))
        ev.tlc(tres, "ConcTrace.cfg")
        accepted = {x["h"] for x in (vlib.read_ndjson(lin) if os.path.exists(lin) else [])}
        bads = vlib.read_ndjson(bad) if os.path.exists(bad) else []
        for s in syn:
            want = s["synthetic"] == "accept"
            if (s["h"] in accepted) != want:
                raise vlib.HarnessError("ConcTrace control history %s (%s) was %s" % (s["h"], s["synthetic"], "accepted" if not want else "rejected"))
        if not any(b["h"] == syn[1]["h"] and b["what"] == "partial" for b in bads):
            raise vlib.HarnessError("ConcTrace did not flag the partial-map control history")
        byh = {h["h"]: h for h in hists}
        nonlin = 0
        for b in bads:
            if b["h"] in byh:
                h = byh[b["h"]]
                o = h["ops"][b["id"] - 1]
                if b["what"] == "order":
                    raise vlib.HarnessError("malformed history record %s" % json.dumps(h)[:600])
                ctx.report("fontcache|%s|%s" % (b["what"], o["op"]),
                           "user-font cache: operation %s (goroutine %d, GOMAXPROCS=%d) %s: observed fonts=%s found=%d err=%r; generations=%s" % (
                               o["op"], o["g"], h["procs"], {"partial": "saw a partially loaded map", "error": "returned an error",
                                                            "corrupt": "returned inconsistent metrics"}[b["what"]], o["obs"], o["found"], o["err"], h["gens"]), h)
        for h in hists:
            if h["h"] not in accepted:
                nonlin += 1
                if any(b["h"] == h["h"] for b in bads):
                    continue
                ctx.report("fontcache|nonlinearizable",
                           "user-font cache history (GOMAXPROCS=%d, %d operations, initial dir=%d cache=%d) has no linearization w.r.t. ConcModel: %s" % (
                               h["procs"], len(h["ops"]), h["init"]["dir"], h["init"]["cache"],
                               "; ".join("%s[%d,%d]%s" % (o["op"], o["call"], o["ret"], ("=" + str(o["obs"] or o["found"] or o["arg"])) if o["op"] != "reload" else "") for o in h["ops"])), h)

        # ---- design model results
        for f in dfut:
            cfg, res = f.result()
            ev.tlc(res, cfg + (" (expected refutation: TLC found %s)" % res.violated if res.violated else ""))

        # ---- evidence
        overlapping = sum(p.summary.get("overlapping_pairs", 0) for p in procs + extra_hist if p.name.startswith("fonts"))
        nt = lambda h: sum(1 for i, a in enumerate(h["ops"]) for b2 in h["ops"][i + 1:] if a["g"] != b2["g"] and b2["call"] < a["ret"])
        nontrivial_h = sum(1 for h in hists if nt(h) > 0 and any(o["op"] == "reload" for o in h["ops"]))
        ctasks = [r for r in conc if r["round"] >= 0]
        ptasks = [r for r in conc if r["round"] == -1]
        combos = sorted({(r["procs"], r["n"]) for r in ctasks})
        opkinds = sorted({r["op"] for r in ctasks})
        overlap_life = sum(1 for q in lprocs if 1 <= q.case["openAt"] and len(q.case["kinds"]) >= 2)
        ev.cov(evaluations=len(hists) + len(conc) + len(lprocs),
               distinct_nontrivial=nontrivial_h + len({(r["procs"], r["n"], r["op"], r["input"]) for r in ctasks}) + overlap_life,
               traces_validated_against_impl=len(hists) + len(recs) + len(lprocs),
               rule="evaluation = one recorded font-cache history (<= 16 operations of concurrent goroutines, one process round) checked for "
                    "linearizability by TLC, or one concurrently executed API task compared with its solo run by TLC; non-trivial = histories with "
                    "really overlapping operations of different goroutines and at least one reload, plus distinct (GOMAXPROCS, goroutines, "
                    "operation, input) task classes, plus life-cycle schedules in which calls are issued while a directory scan is held open; "
                    "life-cycle schedules are enumerated by TLC (ConcLife.tla) and replayed one per fresh process; the other schedules are "
                    "sampled by the Go runtime, not enumerated",
               exhaustive=False, histories=len(hists), histories_linearizable=len(hists) - nonlin, histories_with_overlap=nontrivial_h,
               overlapping_operation_pairs=overlapping, first_load_histories=sum(1 for h in hists if h["init"]["cache"] == -1),
               longer_histories_via_porcupine=0,
               control_histories_rejected=sum(1 for s in syn if s["synthetic"] != "accept"),
               lifecycle_schedules=len(lprocs), lifecycle_schedules_with_calls_during_held_scan=overlap_life, lifecycle_hangs=hangs,
               concurrent_tasks=len(ctasks), post_phase_solo_tasks=len(ptasks), sequential_solo_anomalies=len(sequential), task_kinds=opkinds, gomaxprocs_x_goroutines=["%dx%d" % c for c in combos],
               nondeterministic_tasks=nondet, bag_comparable_tasks=sum(1 for r in recs if len(set(r["solo_bag"])) == 1),
               race_reports=sum(len(p.races) for p in procs + extra_hist if p is not control), distinct_races=len(race_keys),
               violation_instances=dict(seen),
               race_detector_control="fired (%d reports)" % len(control.races),
               process_runs=[{"name": p.name, "GOMAXPROCS": p.procs, "rc": p.rc, "wall_s": round(p.wall, 1), "races": len(p.races)} for p in procs + extra_hist],
               lifecycle_process_wall_s=round(sum(q.wall for q in lprocs), 1))
        if hists:
            ev.sample({k: hists[0][k] for k in ("h", "procs", "init", "gens", "ops")})
            mid = hists[len(hists) // 2]
            ev.sample({k: mid[k] for k in ("h", "procs", "init", "ops")})
        if recs:
            ev.sample(recs[0])
        ev.sample(lsamples[len(lsamples) // 2] if lsamples else {})
        ev.assume("schedules are sampled by the Go runtime (GOMAXPROCS 1,2,4,16; 2-32 goroutines; seeded delays), not enumerated; TLC enumerates interleavings only on the design model",
                  "documented mode: api.DisableConfigDir(), font.UserFontDir and loggers are set once before goroutines start; every goroutine has its own input copy, directory and configuration",
                  "life-cycle replay: the directory scan is held open by a named pipe as the first font file of the directory; 'hang' = a call has not returned 20 s after the gate opened and all calls were issued",
                  "inputs include a hand-built 'repaired' document (classic xref section without object 0) and object-freeing operations (merge destination, page removal, optimize); "
                  "every ops process re-runs the cheap operations alone after its concurrent phase; solo results that fail or vary inside the sequential solo process are re-run in fresh processes",
                  "harness discipline: the font directory is never modified while pdfcpu reads it (RW lock between the directory mutator and (re)loads); files appear/disappear atomically (hard links)",
                  "histories are kept <= 16 operations per round so TLC itself searches the linearization; porcupine is not used",
                  "a lookup is two linearization points (Load, Read) when the fonts are not loaded yet, as the code calls LoadUserFonts() before reading",
                  "outputs are compared by semantic projection (validation, page content/boxes/rotation, form values) always, and by the multiset of normalised object bodies only where %d solo runs are reproducible" % CONFIRM,
                  "the certificate-pool revision cache (spec/ConcCert.tla) is checked on the model only: with the configuration directory disabled there is no trusted-certificate directory; "
                  "ConcCert_reset.cfg (mark before install, ResetCertificates of the pdfcpu_eutl build) is refuted by TLC on purpose and was reproduced once by hand on the real code")
    finally:
        pool.shutdown(wait=False, cancel_futures=True)
        shutil.rmtree(d, ignore_errors=True)
