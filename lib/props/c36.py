"""C36 - bookmark export / import(replace) round trip; reading bookmarks terminates on any outline.
G/R: TLC enumerates bookmark forests (spec/Bookmarks.tla: shapes x title/style/colour classes x page steps) and prints each with
     the model's Export; harness/cmd/bmformwm bm-replay imports them with the real api.ImportBookmarksFile, inspects the written
     outline, exports with api.ExportBookmarksFile, compares with the model, re-imports the export into a document that already has
     bookmarks and exports again (must be identical).  The same forests are also written as hand-made outline dictionaries.
     TLC enumerates outline graphs with cycles / self references (spec/BookmarksRobust.tla) and checks that the visited-set reader
     terminates; every graph is written as raw dictionaries and the real ExportBookmarksFile / ListBookmarksFile must return; the reader
     itself (pdfcpu.BookmarksForOutlineItem on the unvalidated context) must give the model's verdict (cycle / the same items)."""
import json, os, shutil, threading
import vlib

META = {
    "level": "model_checking",
    "text": "TLC enumerates every bookmark forest within the bounds of Bookmarks.tla (all shapes up to the node/depth bound x attribute "
            "classes) with the model's Export/Import results; each is replayed through the real import and export and compared "
            "(tree written by import, exported tree, re-import into a document with other bookmarks, second export identical). "
            "TLC enumerates all outline pointer graphs of BookmarksRobust.tla (cycles, self references, items shared by two sibling lists, "
            "/Prev and /Next chains shaped as self loops, rings and rho) and proves the "
            "reader model terminates; each graph is fed to the real export/list calls in a child process under a CPU-time deadline.",
    "note": "Trusted: Bookmarks.tla (Clean/Ordered) as the meaning of export/import; the Go comparison and the outline projection; "
            "the importer's documented precondition (pages exist, sibling pages ascending) is part of the model; go1.26.8 toolchain.",
    "technique": "TLA+ reference model enumerated by TLC, cases replayed into the real API; termination under deadline on TLC-enumerated corrupt outline graphs",
    "design_ref": "DESIGN.md §5 C36",
}


def _summary(p):
    return json.loads([l for l in p.stdout.splitlines() if l.startswith("SUMMARY ")][-1][8:])


def _title(cps):
    return "".join(chr(c) for c in cps)


def run(ctx):
    ev = ctx.ev
    binp = vlib.build_bin("bmformwm")
    os.environ["GOMAXPROCS"] = str(min(8, vlib.NCPU))   # the replayers use that many workers; more Ps only add contention
    d = vlib.scratch_dir()
    ncpu = min(8, vlib.NCPU)
    errors = []
    stats = {"cases": 0, "nontrivial": 0, "distinct": 0, "rejected": 0, "graphs": 0, "hang": 0, "crash": 0, "returned": 0, "cyclic": 0}
    lock = threading.Lock()

    classes = {}

    def forests():
        runs = [("Bookmarks_quick.cfg", {})] if ctx.quick else [
            ("Bookmarks_thorough.cfg", {}), ("Bookmarks_sim.cfg", dict(simulate="num=%d" % 20, depth=40))]
        for i, (cfg, kw) in enumerate(runs):
            cases = os.path.join(d, "bm-cases-%d.ndjson" % i)
            res = vlib.run_tlc("Bookmarks", cfg, workers=ncpu, timeout=1500, seed=ctx.seed, payloads={"CASE": cases}, **kw)
            if res.violated:
                raise vlib.HarnessError("design model Bookmarks violates its own invariant %s:\n%s" % (res.violated, res.error_state))
            n = res.payload_counts.get("CASE", 0)
            if n == 0:
                raise vlib.HarnessError("TLC produced no bookmark cases for " + cfg)
            with lock:
                ev.tlc(res, cfg)
                if i == 0:
                    with open(cases) as fh:
                        lines = fh.readlines()
                    for l in (lines[1], lines[len(lines) // 2], lines[-1]):
                        ev.sample(json.loads(l))
            out = os.path.join(d, "bm-mism-%d.ndjson" % i)
            p = vlib.sh([binp, "bm-replay", "--in", cases, "--out", out, "--workers", str(ncpu)], timeout=3000)
            summ = _summary(p)
            if summ["cases"] != n:
                raise vlib.HarnessError("bm-replay consumed %d of %d cases" % (summ["cases"], n))
            with lock:
                for k in ("cases", "nontrivial", "distinct", "rejected"):
                    stats[k] += summ[k]
                for m in vlib.read_ndjson(out):
                    classes.setdefault(m["key"], []).append(m)

    def graphs():
        runs = [("BookmarksRobust_quick.cfg", {})] if ctx.quick else [
            ("BookmarksRobust_thorough.cfg", {}), ("BookmarksRobust_sim3.cfg", dict(simulate="num=%d" % 1500, depth=40))]
        found = {}
        for i, (cfg, kw) in enumerate(runs):
            cases = os.path.join(d, "br-cases-%d.ndjson" % i)
            res = vlib.run_tlc("BookmarksRobust", cfg, workers=ncpu, timeout=1500, seed=ctx.seed, payloads={"GRAPH": cases}, **kw)
            if res.violated:
                raise vlib.HarnessError("design model BookmarksRobust violates its own invariant %s (the reader model does not terminate?):\n%s"
                                        % (res.violated, res.error_state))
            n = res.payload_counts.get("GRAPH", 0)
            if n == 0:
                raise vlib.HarnessError("TLC produced no outline graphs for " + cfg)
            with lock:
                ev.tlc(res, cfg)
            out = os.path.join(d, "br-res-%d.ndjson" % i)
            p = vlib.sh([binp, "bm-robust", "--in", cases, "--out", out, "--workers", str(ncpu), "--cpu-ms", "400"], timeout=3000)
            summ = _summary(p)
            if summ["cases"] != n:
                raise vlib.HarnessError("bm-robust consumed %d of %d graphs" % (summ["cases"], n))
            with lock:
                stats["graphs"] += n
                for k in ("hang", "crash", "returned"):
                    stats[k] += summ["outcomes"].get(k, 0)
                stats.setdefault("matrix", {})
                for k, v in summ["matrix"].items():
                    stats["matrix"][k] = stats["matrix"].get(k, 0) + v
            sampled = False
            with open(out) as fh:
                for line in fh:
                    r = json.loads(line)
                    if r["case"]["status"] == "cycle":
                        stats["cyclic"] += 1
                        if not sampled and i == 0 and r["outcome"] == "returned":
                            with lock:
                                ev.sample({"graph": r["case"], "real": {"exporterr": r["exporterr"][-120:], "titles": r["titles"]}})
                            sampled = True
                    if r["outcome"] in ("hang", "crash"):
                        key = "%s|%s|%s" % (r["outcome"], r["where"].split(".")[0], r["op"])
                        found.setdefault(key, []).append(r)
                    elif len(set(r["titles"])) != len(r["titles"]):
                        found.setdefault("dup-items|%s" % vlib.digest(r["case"]), []).append(r)
                    else:
                        # the reader itself (no validation/repair in front) against the reader model
                        exp = sorted("N%d" % i for i in r["case"]["out"])
                        if r["case"]["status"] == "cycle" and r["readerr"] == "":
                            found.setdefault("reader-vs-model|cycle-not-reported", []).append(r)
                        elif r["case"]["status"] == "ok" and (r["readerr"] != "" or sorted(r["readitems"]) != exp):
                            found.setdefault("reader-vs-model|%s" % ("error" if r["readerr"] else "items"), []).append(r)
                        else:
                            stats["reader_agrees"] = stats.get("reader_agrees", 0) + 1
        for key, rs in sorted(found.items()):
            r = rs[0]
            kind = key.split("|")[0]
            what = {"hang": "reading bookmarks does not terminate", "crash": "reading bookmarks crashes the process",
                    "dup-items": "an outline item is exported twice",
                    "reader-vs-model": "pdfcpu.BookmarksForOutlineItem on the unvalidated graph disagrees with the reader model (model: %s, items %s; real: %s %s)" % (
                        r["case"]["status"], r["case"]["out"], r.get("readerr", "")[-120:] or "ok", r.get("readitems"))}[kind]
            opname = {"export": "ExportBookmarksFile", "list": "ListBookmarksFile", "read": "ReadContext + pdfcpu.BookmarksForOutlineItem"}.get(r["op"], "ExportBookmarksFile")
            if kind == "reader-vs-model":
                opname = "ReadContext + pdfcpu.BookmarksForOutlineItem"
            with lock:
                ctx.report(key, "%s: %s on outline graph n=%d rootTitle=%s ptr=%s (root First,Last; per item First,Last,Next,Prev; -1 absent, 0 root) "
                           "- %s in %s, stack (innermost first) %s; %d graphs of this run" % (
                               what, opname, r["case"]["n"], r["case"]["rt"],
                               r["case"]["ptr"], r["detail"][:200], r["where"], " < ".join(r.get("stack") or [])[:600], len(rs)), r)

    def guard(fn):
        def w():
            try:
                fn()
            except BaseException as e:  # noqa
                errors.append(e)
        return w

    try:
        ts = [threading.Thread(target=guard(forests)), threading.Thread(target=guard(graphs))]
        for t in ts:
            t.start()
        for t in ts:
            t.join()
        if errors:
            raise errors[0]
        for key, ms in sorted(classes.items()):
            m = ms[0]
            ctx.report(key, "%s (forest of %d bookmarks, first title %r); %d forests of this class (stage|attribute|title unique or shared by several items)" % (
                m["what"], m["case"]["n"], _title(m["case"]["tree"][0]["title"]), len(ms)), m)
        ev.cov(evaluations=stats["cases"] + stats["graphs"],
               distinct_nontrivial=stats["distinct"] + stats["cyclic"],
               traces_validated_against_impl=stats["cases"] + stats["graphs"],
               rule="forests: every state of Bookmarks.tla within the cfg bounds (all preorder shapes up to the node/depth bound; 'free': every node "
                    "chooses its title/style/colour combination and page step, incl. pages outside the document and descending pages; 'rot': node 1 "
                    "chooses, later nodes rotate through the combinations) is one case, replayed through import -> outline projection -> export -> "
                    "import(replace) -> export, plus the same forest as hand-made outline dictionaries; non-trivial = distinct non-empty exported "
                    "forests (%d) ; graphs: every pointer graph of BookmarksRobust.tla within the cfg shapes, non-trivial = graphs on which the "
                    "reader model meets an object twice (%d)" % (stats["distinct"], stats["cyclic"]),
               exhaustive=bool(ctx.quick),
               forests=stats["cases"], forests_import_rejected_as_modelled=stats["rejected"], forests_roundtripped=stats["nontrivial"],
               outline_graphs=stats["graphs"], graph_outcomes={k: stats[k] for k in ("returned", "hang", "crash")},
               model_vs_real_matrix=stats.get("matrix", {}), reader_agrees_with_model=stats.get("reader_agrees", 0))
        ev.assume("expected trees come from spec/Bookmarks.tla: Export = Clean (control characters are not part of exported titles, items without "
                  "visible title are not exported), Import requires Ordered (target pages exist, sibling pages ascending, first kid not before its parent)",
                  "a call is a hang when the child process burns > 0.4 s CPU in it (normal: a few ms) or makes no progress for 60 s",
                  "harness built with go1.26.8")
    finally:
        shutil.rmtree(d, ignore_errors=True)
