"""C33 - split and merge preserve the page sequence.
G: every initial state of spec/Doc33.tla is one case (document trees, operation, expected parts / merged sequence computed by the
   split / merge operators of spec/Doc.tla); TLC checks the model's own properties (parts concatenate to the original, a merge
   contains every page once and dividers only where requested) and prints the cases.
R: harness/cmd/pageops c33 replays them with api.SplitFile, SplitByPageNrFile, MergeCreateFile, MergeAppendFile,
   MergeCreateZipFile and compares names and marker sequences of all outputs; inputs are hashed before and after."""
import os, shutil
import vlib, pageopslib as po

META = {
    "level": "model_checking",
    "text": "TLC enumerates page counts x spans x all strictly increasing page-number lists (plus invalid lists) and merges of 1-5 documents "
            "(create, append to existing/new, zip; with and without divider; file and stream variants; four configurations) of the Doc.tla split/merge operators; every case is replayed "
            "with the real split/merge *File functions on raw-emitter documents with unique page markers and the outputs' file names and "
            "marker sequences are compared with the model; inputs must be byte-identical afterwards.",
    "note": "Trusted: Doc.tla split/merge operators; pdfcpu's reader + ExtractPageContent as the projection; rawpdf emitter; go1.26.8. "
            "Only the page sequence (content identity) is compared here, page attributes are C32's business.",
    "technique": "TLA+ reference operators (Doc.tla/Doc33.tla) enumerated by TLC, cases replayed into the real API and compared",
    "design_ref": "DESIGN.md §5 C33",
}


def fmt(m):
    c = m["case"]
    cf = c.get("conf") or {}
    tag = " api=%s conf[%s]" % (c.get("api"), ",".join(k for k in sorted(cf) if cf[k]) or "none")
    if c["kind"] == "merge":
        what = "merge %s divider=%s of documents with %s pages" % (c["mode"], c["divider"], [sum(len(g["pages"]) for g in t["groups"]) for t in c["trees"]])
    else:
        n = sum(len(g["pages"]) for g in c["trees"][0]["groups"])
        what = "%s of a %d-page document (span=%s, pageNrs=%s)" % (c["kind"], n, c["span"], c["nrs"])
    return "%s%s: %s; got %s" % (what, tag, m["what"], str(m.get("got"))[:500])


def run(ctx):
    ev = ctx.ev
    binp = vlib.build_bin("pageops")
    d = vlib.scratch_dir()
    try:
        cfg = "Doc33_quick.cfg" if ctx.quick else "Doc33_thorough.cfg"
        cases = os.path.join(d, "cases.ndjson")
        res, n = po.tlc(ctx, "Doc33", cfg, cases)
        seen = set()
        for c in po.first_lines(cases, 400):
            k = (c["kind"], c["mode"])
            if k not in seen and len(seen) < 4:
                seen.add(k)
                ev.sample(c)
        t, mism, nt = po.replay(binp, "c33", cases, d, cfg)
        if t.get("lines") != n or t.get("cases") != n:
            raise vlib.HarnessError("replayer consumed %s/%s of %d cases" % (t.get("cases"), t.get("lines"), n))
        keys = po.report_by_key(ctx, mism, fmt)
        ev.cov(evaluations=n, distinct_nontrivial=len(nt), traces_validated_against_impl=n,
               rule="one case per initial state of Doc33.tla: (page count, span), (page count, page-number list) incl. invalid lists that must be "
                    "refused, (mode, sizes of 1-5 documents, divider), (zip sizes), (page count, bookmark pages) for the split along bookmarks, (page count, "
                    "selection) for ExtractPages; splits by span, bookmark splits, extraction and merges of <= 3 documents also run through the stream "
                    "variants SplitRaw / MergeRaw / ExtractPages(digest) whose readers are read only after the call returned; cases are spread over the "
                    "four configurations Doc!Confs (optimisation passes incl. duplicate content streams, object/xref streams on/off) and page contents "
                    "of one document have equal length; document trees come from DocTrees.tla (inherited attributes, "
                    "intermediate nodes); non-trivial = distinct cases with at least two parts / two merged documents that matched; "
                    "thorough samples the page-number lists of 11-30 page documents with TLC's RandomSetOfSubsets (seeded)",
               exhaustive=bool(ctx.quick), kinds=t.get("kinds", {}), refusals_checked=t.get("refusals", 0), mismatch_keys=keys)
        ev.assume("expected parts / sequences come from spec/Doc.tla (SplitSpans, SplitAtSpans, MergeP, ZipP)",
                  "part files are identified by the names the API documents (<base>_<from>[-<thru>].pdf) and read in page order",
                  "split along bookmarks: one part per top-level bookmark (strictly increasing target pages), pages before the first bookmark belong to no part",
                  "configuration switches never change what must come out",
                  "a divider page is a page without any content",
                  "generated documents only; harness built with go1.26.8")
    finally:
        shutil.rmtree(d, ignore_errors=True)
