"""C39 - name trees stay sorted, bounded and consistent under edits.
G: TLC generates insert/remove histories over a sorted-map model (spec/NameTreeGen.tla over spec/NameTree.tla):
   exhaustively (length <= 5 over 5 names incl. duplicates, from the empty tree; short histories from multi-level
   trees) and by simulation (long histories, 8-12 names, ascending / descending / zig-zag / random insert orders),
   with the expected map and operation result after every step.
R: harness/cmd/c39 replays every history on the real model.Node (Add without and with name references = unique
   renaming, Remove, Value, Process/KeyList), starting from the empty tree and from multi-level trees that the real
   reader internalised from generated documents, and projects the real tree after every step.  Histories also run
   inside a real document context: a "sync" op at any point of the history persists the document (WriteContext +
   strict re-read) and the history continues on the re-read tree; the document is persisted once more at the end.
   "addx" inserts a name whose value is a dangling reference: removing it in a document context must fail and leave
   the tree (projection and String()) exactly as it was; a history either drops or keeps a tree that became empty.
V: TLC judges every distinct projection with the structural invariants of NameTree.tla (keys sorted and unique,
   limits = min/max of the keys below, kids ordered and disjoint, node shapes, agreement with the expected map,
   lookups, operation result, re-read tree = written tree)."""
import concurrent.futures, json, os, re, shutil
import vlib

META = {
    "level": "model_checking",
    "text": "TLC enumerates all insert/remove histories of length <= 5 over 5 names (duplicates included) plus short histories on "
            "multi-level trees and long simulated histories with adversarial insert orders, each with the expected sorted map per step; "
            "every history is replayed on the real name tree and TLC judges the projected real tree after every step (sortedness, "
            "uniqueness, limits, kid ranges, lookups, results) and after every write + re-read, which histories interleave with the edits "
            "at arbitrary points (persist, reload, keep editing the reloaded tree, persist again).",
    "note": "Trusted: NameTree.tla's sorted-map semantics (an existing name is kept; with name references a duplicate gets the first free "
            "0x01-suffixed variant, which is what the code documents), the Go projection (keys via Node.Process, limits via the exported "
            "fields), rawpdf documents for the initial trees, go1.26.8.",
    "technique": "TLA+ sorted-map model enumerated/simulated by TLC, histories replayed on the real name tree, projections judged by TLC",
    "design_ref": "DESIGN.md §5 C39",
}

# (cfg, nb, docstride, simulate (traces per worker), depth = history length + 1, workers)
# simulation checks (and so prints) every successor of the last state of a trace: histories ~ 30 x traces
QUICK = [("NameTreeGen_quick.cfg", 5, 150, None, 6, 8),
         ("NameTreeGen_multi.cfg", 3, 1, None, 3, 4),
         ("NameTreeGen_leaf.cfg", 3, 1, None, 4, 4),
         ("NameTreeGen_simq.cfg", 8, 4, "num=6", 25, 2)]
THOROUGH = [("NameTreeGen_quick.cfg", 5, 40, None, 6, 8),
            ("NameTreeGen_all4.cfg", 5, 40, None, 5, 8),
            ("NameTreeGen_multi3.cfg", 4, 4, None, 4, 8),
            ("NameTreeGen_leaf.cfg", 3, 1, None, 4, 4),
            ("NameTreeGen_leaf4.cfg", 4, 3, None, 5, 8),
            ("NameTreeGen_sim.cfg", 12, 3, "num=90", 61, 4)]


def _trim(rec):
    r = dict(rec)
    r["look"] = r["look"][:4]
    return r


def _generate(ctx, binp, d, i, spec):
    """TLC generation + replay of one cfg; returns a dict describing the produced files."""
    cfg, nb, stride, sim, depth, workers = spec
    sub = os.path.join(d, "g%d" % i)
    os.makedirs(sub)
    cases, shapes = os.path.join(sub, "cases.ndjson"), os.path.join(sub, "shapes.json")
    res = vlib.run_tlc("NameTreeGen", cfg, workers=min(workers, vlib.NCPU), timeout=3000, heap="8g", simulate=sim,
                       depth=depth if sim else None, seed=ctx.seed, payloads={"CASE": cases, "SHAPES": shapes})
    if res.violated:
        raise vlib.HarnessError("design model NameTreeGen violates %s (%s):\n%s" % (res.violated, cfg, res.error_state))
    nline = res.payload_counts.get("CASE", 0)
    if nline == 0:
        raise vlib.HarnessError("TLC produced no histories for " + cfg)
    if sim:   # simulation reports no distinct-state count
        m = re.search(r"The number of states generated: (\d+)", res.out)
        res.generated = res.distinct = int(m.group(1)) if m else nline
    rec, occ = os.path.join(sub, "records.ndjson"), os.path.join(sub, "occ.ndjson")
    p = vlib.sh([binp, "replay", "--cases", cases, "--shapes", shapes, "--records", rec, "--occ", occ,
                 "--nb", str(nb), "--maxlevel", "6", "--docstride", str(stride)] +
                ([] if sim else ["--emit", "state", "--maxlen", str(depth - 1)]), timeout=3000)
    summ = json.loads([l for l in p.stdout.splitlines() if l.startswith("SUMMARY ")][-1][8:])
    if summ["lines"] != nline or summ["cases"] == 0:
        raise vlib.HarnessError("replayer consumed %d of %d lines (%d histories)" % (summ["lines"], nline, summ["cases"]))
    return {"cfg": cfg, "res": res, "summ": summ, "cases": cases, "rec": rec, "occ": occ}


def _judge(chunk_path, n):
    bad = chunk_path + ".bad"
    jr = vlib.run_tlc("NameTreeTrace", "NameTreeTrace.cfg", files=[(chunk_path, "records.ndjson")], workers=1, timeout=3000, heap="6g",
                      payloads={"BAD": bad})
    if not jr.ok:
        raise vlib.HarnessError("NameTreeTrace did not accept the records: %s\n%s" % (jr.violated, jr.out[-2000:]))
    if jr.distinct != n + 1:
        raise vlib.HarnessError("TLC judged %d of %d records" % (jr.distinct - 1, n))
    out = {}
    if os.path.exists(bad):
        for b in vlib.read_ndjson(bad):
            out[b["l"]] = ",".join(sorted(k for k, v in b["diag"].items() if not v))
    return jr, out


def run(ctx):
    ev = ctx.ev
    binp = vlib.build_bin("c39")
    d = vlib.scratch_dir()
    specs = QUICK if ctx.quick else THOROUGH
    pool = concurrent.futures.ThreadPoolExecutor(6)
    try:
        gens = [f.result() for f in [pool.submit(_generate, ctx, binp, d, i, sp) for i, sp in enumerate(specs)]]
        # all distinct projections of all cfgs -> chunks judged by parallel TLC runs
        lines = []          # (gen index, record index within gen)
        for gi, g in enumerate(gens):
            g["base"] = len(lines)
            lines += [(gi, k) for k in range(1, g["summ"]["records"] + 1)]
        nchunks = max(1, min(8, len(lines) // 12000))
        per = (len(lines) + nchunks - 1) // nchunks
        chunk_files = [open(os.path.join(d, "chunk%d.ndjson" % c), "w") for c in range(nchunks)]
        nontrivial = set()
        deepest = 0
        gpos = 0
        for gi, g in enumerate(gens):
            with open(g["rec"]) as fh:
                for line in fh:
                    chunk_files[gpos // per].write(line)
                    gpos += 1
                    if '"kids":[{' in line:      # non-trivial projections: trees with at least two leaves
                        r = json.loads(line)
                        nontrivial.add(json.dumps(r["tree"], sort_keys=True))
                        dp = _depth(r["tree"])
                        deepest = max(deepest, dp)
                        if len(ev.d["coverage"]["samples"]) < 3 and dp >= 3 and r["kind"] == "step":
                            ev.sample({"record": _trim(r)})
        for fh in chunk_files:
            fh.close()
        sizes = [min(per, len(lines) - c * per) for c in range(nchunks)]
        judged = [f.result() for f in [pool.submit(_judge, os.path.join(d, "chunk%d.ndjson" % c), sizes[c]) for c in range(nchunks)]]
        badsig = {}         # global record position (0-based) -> failed conjuncts
        for c, (jr, bad) in enumerate(judged):
            ev.tlc(jr, "NameTreeTrace.cfg/chunk%d" % c)
            for l, sig in bad.items():
                badsig[c * per + l - 1] = sig
        tot_cases = tot_steps = tot_records = tot_doc = 0
        for gi, g in enumerate(gens):
            ev.tlc(g["res"], g["cfg"])
            summ, cases = g["summ"], g["cases"]
            tot_cases += summ["cases"]
            tot_steps += summ["steps"]
            tot_records += summ["records"]
            tot_doc += summ["doc_cases"]
            local = {pos - g["base"] + 1: sig for pos, sig in badsig.items() if g["base"] <= pos < g["base"] + summ["records"]}
            recs = {}
            if local:
                with open(g["rec"]) as fh:
                    for i, line in enumerate(fh, 1):
                        if i in local:
                            recs[i] = json.loads(line)
            # first failing observation of every history (later ones are consequences)
            with open(g["occ"]) as fh:
                for line in fh:
                    if len(ctx.violations) > 2000:
                        break
                    o = json.loads(line)
                    if o["docerr"]:
                        c = _case(cases, o["case"])
                        ctx.report("doc|" + o["docerr"].split(":")[0], "history in a document context on tree %r: %s; ops=%s" % (
                            c["init"], o["docerr"], _ops(c)), {"case": c, "error": o["docerr"]})
                    if not local:
                        continue
                    for mode in ("mem", "doc"):
                        for step, ri in enumerate(o[mode]):
                            if ri in local:
                                r = recs[ri]
                                c = _case(cases, o["case"])
                                what = r["op"] if r["kind"] == "step" else r["kind"]
                                ctx.report("%s|%s" % (what, local[ri]),
                                           "name tree (%s, initial tree %r) violates [%s] after step %d of ops=%s: real keys %s vals %s limits/kids %s, "
                                           "expected keys %s vals %s; result %s expected %s" % (
                                               mode, c["init"], local[ri], step + 1, _ops(c), r["klist"], _vals(r["tree"]), _brief(r["tree"]),
                                               r["xkeys"], r["xvals"], r["res"], r["xres"]),
                                           {"case": c, "mode": mode, "step": step + 1, "record": _trim(r), "failed": local[ri].split(",")})
                                break
                    if o["init"] in local:
                        r = recs[o["init"]]
                        ctx.report("init|%s" % local[o["init"]], "tree internalised from the generated document violates [%s]: %s" % (
                            local[o["init"]], _brief(r["tree"])), {"record": _trim(r)})
            with open(cases) as fh:
                for line in fh:
                    c = json.loads(line)
                    if len(c["ops"]) >= 2:
                        ev.sample(c, limit=3 + len(gens))
                        break
        ev.cov(evaluations=tot_steps, distinct_nontrivial=len(nontrivial), traces_validated_against_impl=tot_cases,
               rule="every complete history of the exhaustive cfgs (NameTreeGen_quick: all sequences of 5 ops from {insert-unique, remove} x 5 names "
                    "and the renamed variants present, from the empty tree; _multi/_multi3/_leaf/_leaf4/_all4: all op kinds incl. persist+reload (\"sync\") at any point, from multi-level trees / "
                    "a single-leaf tree / a freshly split tree / the empty tree) and every simulated history (_sim/_simq: long histories, insert order random/ascending/descending/zig-zag, all initial "
                    "trees) is replayed on the real tree; evaluations = (history, step) observations; each distinct projection is judged by TLC; "
                    "non-trivial = distinct projected trees with at least two leaves",
               exhaustive=True, histories=tot_cases, distinct_projections=tot_records, doc_histories_written_and_reread=tot_doc,
               deepest_tree_levels=deepest)
        ev.assume("expected maps, operation results and renamed keys come from spec/NameTreeGen.tla; the invariants from spec/NameTree.tla",
                  "Add without name references keeps an existing name (the real code ignores the duplicate); with name references a duplicate "
                  "name gets the first free 0x01-suffixed variant",
                  "key names contain no bytes <= 0x01 other than the rename suffix; the empty name is not used",
                  "only the first failing observation of a history is reported (later ones are consequences)",
                  "a value whose graph cannot be deleted is a reference to a non-existent object (addx); removing it with a document context "
                  "returns an error and changes nothing; histories with addx are not replayed without a document context, and a document "
                  "currently holding such a value is not persisted",
                  "a caller may keep an emptied tree (keep = TRUE) instead of removing it as pdfcpu's own callers do; an empty kept tree "
                  "re-reads as no tree",
                  "persisting (\"sync\") is the identity on the abstract map; the generated documents validate in strict mode and every re-read "
                  "is validated in strict mode; values added in a session are direct destination arrays",
                  "exhaustive refers to the bounded histories of the exhaustive cfgs; the simulated histories are a seeded sample")
    finally:
        pool.shutdown(wait=True)
        shutil.rmtree(d, ignore_errors=True)


def _vals(t):
    if not t["kids"]:
        return list(t["vals"])
    out = []
    for k in t["kids"]:
        out += _vals(k)
    return out


_cache = {}


def _case(path, n):
    key = (path, os.path.getmtime(path))
    if _cache.get("key") != key:
        _cache.clear()
        _cache["key"] = key
        offs = [0]
        with open(path, "rb") as fh:
            for line in fh:
                offs.append(offs[-1] + len(line))
        _cache["offs"] = offs
    with open(path, "rb") as fh:
        fh.seek(_cache["offs"][n - 1])
        c = json.loads(fh.readline())
    c.pop("exp", None)
    return c


def _ops(c):
    return " ".join("%s(%d)" % (o["op"], o["k"]) for o in c["ops"])


def _depth(t):
    return 1 + max([_depth(k) for k in t["kids"]] or [0])


def _brief(t):
    if not t["kids"]:
        return "[%s..%s]%s" % (t["kmin"], t["kmax"], t["keys"])
    return "[%s..%s](%s)" % (t["kmin"], t["kmax"], " ".join(_brief(k) for k in t["kids"]))
