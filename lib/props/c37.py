"""C37 - form export / fill round trip.
G: TLC enumerates cases of spec/Forms.tla: an initial state of a form with every field type (text, multi-line text, text with MaxLen,
   two date formats, checkbox, radio group, combo box, single- and multi-select list box) x lock flags, and 1-2 fill steps (set all fields,
   set only the focus field, refill the export, toggle a lock) with valid values only (FormsModel!Valid).
R: harness/cmd/bmformwm form-replay creates the form with pdfcpu's create JSON (api.CreateFile), exports (api.ExportFormFile), fills
   (api.FillFormFile) with an edited copy of the export and exports again, recording the real pre/post state of every step; the form
   samples are refilled with their own export.
V: spec/FormsTrace.tla judges every record with FormsModel!FillAllowed (TLC, one record per state)."""
import json, os, re, shutil
import vlib

META = {
    "level": "model_checking",
    "text": "TLC enumerates initial form states and fill steps over the field table of FormsModel.tla (all field types x value classes x "
            "lock flags x step kinds); each is executed with the real create/export/fill API and every recorded step (pre state, fill JSON, "
            "result, post state as exported) is validated by TLC against FormsModel!FillAllowed: refilling an export changes nothing, a valid "
            "value filled into an unlocked field is exported exactly, lock flags follow the fill JSON, absent fields are untouched.",
    "note": "Trusted: FormsModel.tla (Valid, FillAllowed) as the meaning of fill/export; pdfcpu's form creator for the initial documents "
            "(its result is checked against the requested state through export); text values cover ASCII, Latin-1, PDF string escapes, "
            "blanks, line breaks, BMP non-Latin scripts (CJK, Cyrillic) and supplementary-plane characters (the harness installs Roboto-Regular "
            "from /repo/pkg/testdata/fonts into a temporary config dir so that pdfcpu can render them); a read-only field may keep its value or take the filled one.",
    "technique": "TLA+ model enumerated by TLC for cases, real executions recorded and validated by TLC against the model's step relation",
    "design_ref": "DESIGN.md §5 C37",
}


def _explain(r, defs):
    """Stable key + text for a record TLC rejected (TLC is the judge; this only names the first offending field)."""
    if r["kind"] == "sample":
        if r["result"] not in ("ok", "noop"):
            return "sample|refill-error|%s" % r["focus"], "refilling sample %s with its own export failed: %s" % (r["focus"], r["result"][:300])
        for a, b in zip(r["pre"], r["post"]):
            if a != b:
                return "sample|refill-changed|%s" % r["focus"], "refilling sample %s with its own export changed field %s: %s -> %s" % (
                    r["focus"], a["val"][0], a, b)
        return "sample|?|%s" % r["focus"], "sample record rejected"
    if r["kind"] == "create":
        if r["result"] != "ok":
            return "create|error", "export of a freshly created form failed: %s" % r["result"][:300]
        for f, o, b in zip(defs, r["op"], r["post"]):
            if b["locked"] != o["lock"] or b["val"] != o["val"]:
                t = f["type"] + ("-multi" if f["multi"] else "")
                return "create|%s|%s" % (t, "lock" if b["locked"] != o["lock"] else "value"), \
                    "form created with field %s (%s) value %s locked=%s is exported with value %s locked=%s" % (
                        f["name"], t, o["val"], o["lock"], b["val"], b["locked"])
        return "create|?", "create record rejected"
    if r["result"] not in ("ok", "noop"):
        m = re.sub(r"/tmp/\S+", "<tmp>", r["result"])
        m = re.sub(r"\d+", "#", m)
        return "fill|%s|error|%s" % (r["opkind"], vlib.digest(m)), "fill (%s, focus %s) of valid values failed: %s" % (r["opkind"], r["focus"], r["result"][:400])
    for f, a, o, b in zip(defs, r["pre"], r["op"], r["post"]):
        t = f["type"] + ("-multi" if f["multi"] else "") + ("-maxlen" if f["maxlen"] else "")
        if not o["present"]:
            if a != b:
                return "fill|absent-field-changed|%s" % t, "field %s (%s) is not in the fill JSON but changed from %s to %s" % (f["name"], t, a, b)
            continue
        if r["result"] == "noop":
            if o["lock"] != a["locked"] or (not a["locked"] and o["val"] != a["val"]):
                return "fill|refused-as-noop|%s" % t, "fill refused with 'no form fields affected' although field %s (%s) %s must become value %s locked=%s" % (
                    f["name"], t, a, o["val"], o["lock"])
            continue
        if b["locked"] != o["lock"]:
            return "fill|lock|%s" % t, "field %s (%s): fill JSON locked=%s but exported locked=%s (before: %s)" % (f["name"], t, o["lock"], b["locked"], a)
        if not a["locked"] and b["val"] != o["val"]:
            return "fill|value|%s" % t, "unlocked field %s (%s) with value %s filled with valid value %s is exported as %s" % (f["name"], t, a["val"], o["val"], b["val"])
        if a["locked"] and b["val"] not in (a["val"], o["val"]):
            return "fill|locked-value|%s" % t, "read-only field %s (%s) with value %s filled with %s is exported as %s" % (f["name"], t, a["val"], o["val"], b["val"])
    # every field is as allowed: the op itself is outside the model (a refill built from an export that holds a value the model does not
    # know, i.e. a value corrupted by an earlier step or by the creator)
    return "fill|op-outside-model|%s" % r["opkind"], "the %s step was built from an exported state holding a value outside the model's repertoire: %s" % (
        r["opkind"], [o["val"] for o in r["op"] if o["present"]][:10])


def run(ctx):
    ev = ctx.ev
    binp = vlib.build_bin("bmformwm")
    os.environ["GOMAXPROCS"] = str(min(8, vlib.NCPU))   # the replayers use that many workers; more Ps only add contention
    d = vlib.scratch_dir()
    ncpu = min(8, vlib.NCPU)
    try:
        cfg = "Forms_quick.cfg" if ctx.quick else "Forms_thorough.cfg"
        cases = os.path.join(d, "form-cases.ndjson")
        fields = os.path.join(d, "form-fields.ndjson")
        res = vlib.run_tlc("Forms", cfg, workers=ncpu, timeout=1500, seed=ctx.seed, payloads={"FORM": cases, "FIELDS": fields})
        if res.violated:
            raise vlib.HarnessError("design model Forms violates its own invariant %s:\n%s" % (res.violated, res.error_state))
        n = res.payload_counts.get("FORM", 0)
        if n == 0:
            raise vlib.HarnessError("TLC produced no form cases")
        ev.tlc(res, cfg)
        with open(fields) as fh:
            defs = json.loads(fh.readline())
        rec = os.path.join(d, "records.ndjson")
        p = vlib.sh([binp, "form-replay", "--in", cases, "--fields", fields, "--out", rec, "--workers", str(ncpu), "--samples", "1"], timeout=3000)
        summ = json.loads([l for l in p.stdout.splitlines() if l.startswith("SUMMARY ")][-1][8:])
        if summ["cases"] != n:
            raise vlib.HarnessError("form-replay consumed %d of %d cases" % (summ["cases"], n))
        rows = vlib.read_ndjson(rec)
        if not rows:
            raise vlib.HarnessError("no records")
        # statistics over the real behaviour
        changed = set()
        locked_beh = {}
        for r in rows:
            if r["kind"] != "fill":
                continue
            for f, a, o, b in zip(defs, r["pre"], r["op"], r["post"]):
                if not o["present"] or o["val"] == a["val"]:
                    continue
                if not a["locked"]:
                    changed.add((f["name"], tuple(a["val"]), tuple(o["val"]), o["lock"]))
                else:
                    t = f["type"] + ("-multi" if f["multi"] else "")
                    k = "overwritten" if b["val"] == o["val"] else ("kept" if b["val"] == a["val"] else "other")
                    locked_beh.setdefault(t, {}).setdefault(k, 0)
                    locked_beh[t][k] += 1
        for r in (rows[0], rows[1], rows[len(rows) // 2]):
            ev.sample(r)
        # TLC judges the records
        work = os.path.join(d, "work")
        os.makedirs(work)
        wrec = os.path.join(work, "records.ndjson")
        found = {}
        vlib.write_ndjson(wrec, rows)
        rej = os.path.join(d, "rejects.ndjson")
        tres = vlib.run_tlc("FormsTrace", "FormsTrace.cfg", files=[wrec], workers=1, timeout=1800, payloads={"REJECT": rej})
        if not tres.ok:
            raise vlib.HarnessError("FormsTrace did not run through the records: %s\n%s" % (tres.violated, tres.out[-2000:]))
        ev.tlc(tres, "FormsTrace.cfg")
        validated = len(rows)
        rejected = sorted(set(int(x) for x in vlib.read_ndjson(rej))) if tres.payload_counts.get("REJECT") else []
        for k in rejected:
            r = rows[k - 1]
            key, what = _explain(r, defs)
            found.setdefault(key, []).append((what, r))
        for key, lst in sorted(found.items()):
            what, r = lst[0]
            ctx.report(key, "%s [case %d step %d, %s, focus %s; %d records of this class]" % (what, r["case"], r["step"], r["opkind"] or r["kind"], r["focus"], len(lst)), r)
        ev.cov(evaluations=len(rows), distinct_nontrivial=len(changed), traces_validated_against_impl=validated,
               rule="every behaviour of Forms.tla within the cfg (focus field x initial value x initial lock x fill steps; the other nine fields rotate "
                    "through their value repertoires and lock flags) is one case = 1 create record + one record per fill step; plus one refill record "
                    "per form sample usable with the installed fonts; each record is one state of FormsTrace.tla judged by FillAllowed; non-trivial = distinct "
                    "(field, old value, new value, lock flag) combinations in which an unlocked field was given a different valid value",
               exhaustive=True, cases=n, records=len(rows), records_rejected_by_tlc=len(rejected), text_fields_exported_among_date_fields=summ.get("text_exported_as_date", 0), sample_forms=summ["samples"], real_results=summ["results"],
               read_only_field_filled_with_other_value=locked_beh)
        ev.assume("valid values are those of FormsModel!Valid: options must exist, dates are in the field's format, text within MaxLen and within the "
                  "value repertoire of the model (tokens @latin @esc @spaces @lines @cjk @cyr @astral are expanded by the harness; the Unicode strings "
                  "live in harness/cmd/bmformwm/form.go because TLC strings stay ASCII)",
                  "the harness uses a temporary pdfcpu config dir with the user font Roboto-Regular installed (fields are created with Helvetica; pdfcpu "
                  "switches to that font for values Helvetica cannot encode)",
                  "a field that is read-only before the fill may keep its value or take the filled one (both readings of 'locked fields keep their "
                  "values' are accepted; the observed behaviour per type is recorded in coverage.read_only_field_filled_with_other_value)",
                  "initial documents are produced by pdfcpu's own form creator and checked through export against the requested state",
                  "harness built with go1.26.8")
    finally:
        shutil.rmtree(d, ignore_errors=True)
