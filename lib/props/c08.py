"""C08 - malformed input never crashes, overflows the stack or hangs.
G: TLC enumerates the shapes of spec/Robust.tla: for every relation pdfcpu traverses (page tree, field tree, structure
   tree, name/number trees, form XObjects, action /Next, beads, xref /Prev and /XRefStm, /Extends, indirect /Length,
   reference chains, /Parent chains, colour spaces, functions, /SMask, /IRT, outlines incl. outline trees whose child /Next,/Prev links are free - items
   shared between lists, rho shaped sibling chains -) all digraphs on few nodes
   (cycles, self loops, shared children, dangling and wrong-typed targets), nesting depths around the recursion limit
   and far beyond, and mutation classes of valid fonts / certificates / PKCS#7 / JSON / CSV / PDFs.  TLC also checks the
   model's own guarded traversal (step bound, progress) on every shape.
R: harness/cmd/robust c08 turns each shape into real bytes and runs the entry points on it in child processes with a
   lowered stack limit and a CPU budget proportional to the input size.
V: TLC (spec/RobustTrace.tla) judges the recorded outcomes: every one must be ok or error."""
import json, os, random, shutil, collections
import vlib

META = {
    "level": "exploration",
    "text": "TLC enumerates structural shapes of malformed documents (all digraphs on up to 3 (quick) / 4 (thorough, sampled) nodes per "
            "traversed relation with cycles, self loops, shared, dangling and wrong-typed targets; nesting depths limit-1, limit, limit+1, "
            "10x limit, 5000/10^5 and 10^5/10^6 levels; truncations and length-field mutations of a font, certificates, PKCS#7, JSON/CSV form "
            "data; value classes written over structural fields of valid PDFs incl. encrypted and signed ones). Each is concretised "
            "byte by byte and fed to read, validate (strict/relaxed), optimize, info, extraction, page operations, stamping, form, "
            "bookmark, signature-validation and import entry points in child processes; TLC judges every outcome to be a result or an error.",
    "note": "This decides the structural part of the property; it is not a byte-level fuzzer. Trusted: the raw emitter, the child "
            "protocol (panic recovery, crash attribution), debug.SetMaxStack (64 MB with 10^5 levels thorough, 3 MB with 5000 levels quick: about 640 bytes "
            "of stack per level) and the CPU budget (0.4 s quick / 0.8 s thorough + 5 us/byte of process CPU time per operation, a timeout is re-run "
            "once with 3x the budget before it counts); quick runs the core entry points plus those that traverse the relation, thorough all.",
    "technique": "TLA+ shape model enumerated by TLC, shapes concretised into real inputs and replayed into the real entry points in sandboxed child processes; outcomes judged by TLC",
    "design_ref": "DESIGN.md §5 C08",
}


def _summary(p):
    return json.loads([l for l in p.stdout.splitlines() if l.startswith("SUMMARY ")][-1][8:])


def run(ctx):
    ev = ctx.ev
    binp = vlib.build_bin("robust")
    d = vlib.scratch_dir()
    try:
        cases = os.path.join(d, "cases.ndjson")
        cfg = "Robust_quick.cfg" if ctx.quick else "Robust_thorough.cfg"
        res = vlib.run_tlc("Robust", cfg, workers=8, heap="6g", timeout=1800, payloads={"SHAPE": cases}, consts={"Seed": str(ctx.seed)})
        if res.violated:
            raise vlib.HarnessError("shape model Robust violates its design property %s (the guarded traversal does not stop?):\n%s" % (res.violated, res.error_state))
        ev.tlc(res, cfg)
        ncase = res.payload_counts.get("SHAPE", 0)
        if ncase == 0:
            raise vlib.HarnessError("TLC produced no shapes")
        crow = vlib.read_ndjson(cases)
        random.Random(ctx.seed).shuffle(crow)
        vlib.write_ndjson(cases, crow)
        fam = collections.Counter(c["shape"]["fam"] for c in crow)
        for f in ("graph", "fun", "outline", "depth", "mut", "pdfmut", "trunc"):
            if fam[f] == 0:
                raise vlib.HarnessError("no shapes of family %s" % f)
        rec = os.path.join(d, "records.ndjson")
        if ctx.quick:
            mutk, trunck, stack, ops, cpums = "12", "12", "3", "core", "400"
        else:
            mutk, trunck, stack, ops, cpums = "60", "40", "64", "all", "800"
        p = vlib.sh([binp, "c08", "--in", cases, "--out", rec, "--repo", vlib.REPO, "--workers", "6", "--mutk", mutk, "--trunck", trunck,
                     "--maxstack-mb", stack, "--cpu-ms", cpums, "--cpu-ns-per-byte", "5000", "--ops", ops], timeout=3500)
        summ = _summary(p)
        rows = vlib.read_ndjson(rec)
        if summ["cases"] != ncase or len(rows) != ncase:
            raise vlib.HarnessError("c08 consumed %d of %d shapes, wrote %d records" % (summ["cases"], ncase, len(rows)))
        bad = os.path.join(d, "bad.ndjson")
        res = vlib.run_tlc("RobustTrace", "RobustTrace.cfg", files=[rec], workers=1, heap="4g", timeout=1800, payloads={"BAD": bad})
        if not res.ok:
            raise vlib.HarnessError("RobustTrace did not accept the records: %s\n%s" % (res.violated, res.out[-2000:]))
        ev.tlc(res, "RobustTrace.cfg")
        verdicts = vlib.read_ndjson(bad) if os.path.exists(bad) else []
        reported = {}
        for v in verdicts:
            r = rows[v["l"] - 1]
            shape = crow[r["idx"]]["shape"]
            for i in sorted(v["ops"]):
                op, out, where, err = r["ops"][i - 1], r["outs"][i - 1], r["wheres"][i - 1], r["errs"][i - 1]
                if shape["fam"] == "pdfmut":
                    what_rel = "pdfmut:/%s" % shape["field"]
                elif shape["fam"] == "mut":
                    what_rel = "mut:%s" % shape["target"]
                elif shape["fam"] == "trunc":
                    what_rel = "trunc:%s" % shape["base"]
                elif shape["fam"] == "outline":
                    what_rel = "outline"
                else:
                    what_rel = "%s:%s" % (shape["fam"], shape["rel"])
                if out == "panic":
                    key = "panic|%s" % (where or "?")
                elif out in ("timeout", "stack-overflow"):
                    # an unbounded traversal shows as stack exhaustion or as a time-out depending on how much work a level does
                    key = "unbounded|%s" % what_rel
                else:
                    key = "%s|%s" % (out, what_rel)
                x = reported.setdefault(key, {"n": 0, "ops": collections.Counter(), "rec": r, "i": i - 1, "shapes": 0, "seen": set()})
                x["n"] += 1
                x["ops"]["%s:%s" % (op, out)] += 1
                if r["idx"] not in x["seen"]:
                    x["seen"].add(r["idx"])
                    # prefer the smallest input as the example
                    if r["size"] < x["rec"]["size"]:
                        x["rec"], x["i"] = r, i - 1
        for key, x in sorted(reported.items()):
            r, i = x["rec"], x["i"]
            what = ("%s of %s on the input [%s]%s (%d bytes): outcome %s at %s: %s; %d shapes, operations affected: %s" % (
                r["outs"][i], r["ops"][i], r["key"], (" " + r["what"]) if r["what"] else "", r["size"], r["outs"][i], r["wheres"][i] or "?",
                r["errs"][i][:400], len(x["seen"]), ", ".join("%s x%d" % kv for kv in x["ops"].most_common(12))))
            ctx.report(key, what, {"case": crow[r["idx"]], "record": r})
        # ---- evidence
        done = [r for r in rows if not r["skipped"]]
        nontriv = [r for r in done if r["nontriv"]]
        outs = collections.Counter(o for r in done for o in r["outs"])
        for want in ("graph", "fun", "outline", "depth", "mut", "pdfmut"):
            for r in done:
                if r["fam"] == want and r["nontriv"]:
                    ev.sample({"shape": crow[r["idx"]], "size": r["size"], "what": r["what"], "ops": r["ops"][:6], "outs": r["outs"][:6]})
                    break
        ev.cov(evaluations=summ["ops"], distinct_nontrivial=len(nontriv),
               rule="one evaluation = one entry point run on one concretised shape; shapes are the initial states of Robust.tla (every digraph within "
                    "the cfg bounds per relation, depths around and far beyond the recursion limit, mutation classes); non-trivial = distinct shapes "
                    "that are cyclic, revisit a node, carry a dangling / wrong-typed / null target, exceed the depth limit, or are a mutation of a valid input",
               traces_validated_against_impl=len(rows), shapes=ncase, shapes_by_family=dict(fam), skipped=len(rows) - len(done),
               outcomes=dict(outs), died=summ["dead"], timeouts_not_confirmed=summ["timeouts_not_confirmed"],
               max_op_ms=max(r["maxms"] for r in rows), exhaustive=False)
        ev.assume("stack limit %s MB (debug.SetMaxStack) with chains of %s levels: an unguarded recursion needs about 640 bytes of stack per level to be seen" % (stack, "5000" if ctx.quick else "10^5"),
                  "time bound per operation: %s ms + 5 us per input byte of process CPU time (confirmed once with 3x the budget), wall clock backstop 300 s + 0.4 ms per byte" % cpums,
                  "after two confirmed timeouts on one input the remaining operations on it are not run and not judged; after two deaths of an entry point on shapes of one relation it is not run on the remaining cyclic shapes of that relation (the relation is reported)",
                  "not a byte-level fuzzer: the space is the structural shapes of Robust.tla",
                  "harness built with go1.26.8")
    finally:
        shutil.rmtree(d, ignore_errors=True)
