"""C05 - extracted files never escape the output directory or clobber each other.
(1) code -> TLC: every name over a 15-symbol class alphabet (separators, dots, drive colon, NUL, control, reserved-stem
letters, wildcard, DEL, non-ASCII) up to length 3 (quick) / 4 (thorough) plus hostile stems goes through the real
sanitize.Path; TLC judges each record with SafeName.tla (accepted => safe to create directly inside a directory).
(2) end to end: raw PDFs carrying hostile names as attachment /F /UF, top-level bookmark titles (bookmark split) and image
resource names are processed by the real api with the instrumented os package; every creation must be directly inside the
output directory (real tree diff + FSTrace.tla NoEscape on the os-call trace); attachment pairs whose sanitised names
coincide must produce a collision error before anything is written (or distinct files)."""
import json, os, shutil
import vlib, fsmon

META = {
    "level": "model_checking",
    "text": "Exhaustive (bounded length, class alphabet) validation of the real sanitiser's outputs by TLC against SafeName.tla, plus "
            "TLC validation (FSTrace.tla NoEscape) of the os-call traces of real extraction / bookmark split on raw PDFs with hostile names.",
    "note": "Trusted: the class alphabet covers every byte class the sanitiser distinguishes; instrumented os package; raw PDF emitter. "
            "Font PostScript names and multi-fill output names are not driven end to end (their names pass through the same sanitiser).",
    "technique": "TLC validation of recorded sanitiser decisions against a TLA+ safe-name predicate + TLC trace validation of real extraction traces",
    "design_ref": "DESIGN.md §5 C05",
}


def run(ctx):
    ev = ctx.ev
    binp = vlib.build_bin("c05")
    d = vlib.scratch_dir()
    try:
        rec = os.path.join(d, "records.ndjson")
        L = 3 if ctx.quick else 4
        p = vlib.sh([binp, "names", "--out", rec, "--len", str(L)], timeout=600)
        s1 = json.loads([l for l in p.stdout.splitlines() if l.startswith("SUMMARY ")][-1][8:])
        rows = vlib.read_ndjson(rec)
        validated = 0
        import re
        while rows:
            res = vlib.run_tlc("SafeTrace", "SafeTrace.cfg", files=[rec], workers=1, timeout=2400, heap="8g")
            if res.violated == "RecordOK":
                k = int(re.search(r"l = (\d+)", res.error_state).group(1))
                r = rows[k - 1]
                name = bytes(r["in"]).decode("latin1")
                ctx.report("sanitize|%r" % name, "sanitize.Path(%r) accepted the unsafe name %r" % (name, bytes(r["out"]).decode("latin1")), r)
                validated += k
                rows = rows[k:]
                if len(ctx.violations) > 20:
                    break
                vlib.write_ndjson(rec, rows)
                continue
            if not res.ok:
                raise vlib.HarnessError("SafeTrace did not accept the records: %s\n%s" % (res.violated, res.out[-2000:]))
            ev.tlc(res, "SafeTrace.cfg")
            validated += len(rows)
            break
        ev.sample(vlib.read_ndjson(rec)[0])
        # end to end
        runs, trace = os.path.join(d, "runs.ndjson"), os.path.join(d, "trace.ndjson")
        p = vlib.sh([binp, "e2e", "--runs", runs, "--trace", trace, "--tier", ctx.tier, "--seed", str(ctx.seed)], timeout=3000,
                    env=dict(os.environ, VERIF_SANDBOX_BASE=d))
        s2 = json.loads([l for l in p.stdout.splitlines() if l.startswith("SUMMARY ")][-1][8:])
        rr = vlib.read_ndjson(runs)
        by_t = {r["t"]: r for r in rr}
        for r in rr:
            if r["verdict"] == "violation":
                ctx.report(r["key"], r["why"], r)
        mres, st = fsmon.validate(trace)
        drift = []
        for x in mres:
            r = by_t.get(x["t"], {})
            if x["inv"] in fsmon.BINDING:
                drift.append(x)
            elif r.get("verdict") != "violation":
                ctx.report("%s|monitor:%s" % (r.get("kind"), x["inv"]), "FSTrace invariant %s fails on the trace of %s names=%s" % (x["inv"], r.get("kind"), r.get("names")), {"run": r, "line": x["line"]})
        if drift and not ctx.violations:
            raise vlib.HarnessError("FSTrace model disagrees with the real file system (%s) on a %s trace" % (drift[0]["inv"], drift[0]["name"]))
        ev.add("states", st["states"]); ev.add("transitions", st["transitions"])
        ev.cov(evaluations=s1["names"] + s2["runs"], distinct_nontrivial=s1["distinct_outputs"],
               traces_validated_against_impl=validated + st["traces"],
               rule="names: every string of length <= %d over the 15-symbol class alphabet + hostile stems through the real sanitize.Path "
                    "(non-trivial = distinct accepted outputs); e2e: one real extraction / split per hostile name or colliding pair" % L,
               sanitizer_names=s1["names"], sanitizer_accepted=s1["accepted"], e2e_runs=s2["runs"], collision_pairs=s2["collision_pairs"],
               exhaustive=True)
        ev.sample({k: rr[0][k] for k in ("kind", "names", "outcome", "created")})
        ev.assume("'directly inside the output directory' = parent directory of every created entry is the requested directory (FSTrace NoEscape) "
                  "and the accepted name satisfies SafeName (no separators, NUL, control bytes, dot names, drive prefix, reserved device stems)")
    finally:
        shutil.rmtree(d, ignore_errors=True)
