"""C12 - string escaping and name encoding are lossless.
G: TLC enumerates byte strings (spec/LexStr.tla): all strings up to length 3 (quick; 4 thorough) over the class alphabet
   (every byte the escaping / name rules single out plus one member of every other range), all single bytes, (thorough)
   all 65536 byte pairs, plus seeded longer strings.
R: harness/cmd/lex c12 pushes every string through the real types.Escape/Unescape/EncodeName/DecodeName and records
   input / escaped / unescaped / encoded / decoded as byte sequences.
   Text cases (code points chosen by the bytes of their UTF-16BE code units, BMP and surrogate pairs) also go through
   types.EscapedUTF16String / Unescape / StringLiteralToString; the escaped forms are cut by the real object parser; name cases
   (short alphabet strings and the '#' grammar family) are also written as dictionary key and as name value into a real PDF,
   once inside an object stream and once as plain object, and read back.
V: TLC judges every record against spec/Lex.tla (spec/LexStrTrace.tla): unescaped = input, EscapeOK(escaped) (balanced and
   every parenthesis escaped), the parser's literal token = escaped form, and for NUL-free inputs NameCharOK(encoded),
   decoded = input and name read back from the file = input."""
import os, shutil
import vlib, lexfamily as lf

META = {
    "level": "model_checking",
    "text": "TLC enumerates every byte string up to the length bound over an alphabet containing every byte the escaping and name "
            "rules distinguish (plus all single bytes and, in the thorough tier, all byte pairs); each string is pushed through the real "
            "Escape/Unescape/EncodeName/DecodeName and TLC judges each recorded result against the Lex.tla operators "
            "(round trip, balanced+escaped parentheses, name character set, name round trip).",
    "note": "Trusted: Lex.tla's EscapeOK/NameCharOK as the meaning of 'balanced, escaped parentheses' and 'regular printable characters'; "
            "the Go recorder (byte sequences logged verbatim); exhaustiveness is over the class alphabet, not over all 256 byte values "
            "beyond length 2.",
    "technique": "TLA+ reference lexer (Lex.tla); TLC-enumerated inputs replayed into the real functions; TLC validates every recorded result",
    "design_ref": "DESIGN.md §5 C12",
}


def _why(bad):
    return ",".join(sorted(bad["why"]))


def run(ctx):
    ev = ctx.ev
    binf = lf.build_async("lex")
    d = vlib.scratch_dir()
    try:
        if ctx.quick:
            jobs = [("alpha24x3+bytes1+names+text", dict(Mode='"alpha+bytes1"', MinLen="0", MaxLen="3", AlphaN="24", NRand="300",
                                                        Files="TRUE", FileMaxLen="2", TextLevel="1"))]
        else:
            jobs = [("alpha29x3+bytes1+names", dict(Mode='"alpha+bytes1"', MinLen="0", MaxLen="3", AlphaN="29", NRand="3000",
                                                    Files="TRUE", FileMaxLen="3")),
                    ("text", dict(Mode='"none"', TextLevel="2"))]
            jobs += [("alpha24x4-%d" % i, dict(Mode='"alpha"', MinLen="4", MaxLen="4", AlphaN="24", NRand="0", Slice=str(i), NSlices="8")) for i in range(8)]
            jobs += [("bytes2-%d" % i, dict(Mode='"bytes2"', Slice=str(i), NSlices="2")) for i in range(2)]
        classes = lf.Classes()
        tot = dict(cases=0, distinct=0, nontrivial=0, validated=0, info=0, text=0, file=0, objstm=0)
        samples = []
        allbad = []

        def one(job):
            name, consts = job
            consts = dict(consts)
            consts["Seed"] = str(ctx.seed)
            cases = os.path.join(d, name + ".cases")
            rec = os.path.join(d, name + ".rec")
            gres, n = lf.gen("LexStr", "LexStr_gen.cfg", cases, consts=consts, seed=ctx.seed)
            p = vlib.sh([binf.result(), "c12", "--in", cases, "--out", rec], timeout=1800)
            summ = lf.summary(p.stdout)
            if summ["cases"] != n:
                raise vlib.HarnessError("lex c12 consumed %d of %d cases" % (summ["cases"], n))
            jres, bad, info = lf.judge("LexStrTrace", "LexTrace.cfg", rec)
            if jres.distinct != summ["records"] + 1:
                raise vlib.HarnessError("LexStrTrace stepped through %d of %d records" % (jres.distinct - 1, summ["records"]))
            if summ["plain_in_objstm"] != 0 or (summ["file"] and summ["file_in_objstm"] == 0) or \
                    (summ["file_in_objstm"] != summ["file"] // 2 and not any(b["rec"]["kind"] == "file" for b in bad)):
                raise vlib.HarnessError("name carriers are not where the check claims: %s" % summ)
            first = []
            if summ["records"] < 60000:
                rows = vlib.read_ndjson(rec)
                first = rows[:1] + [r for r in rows if r["kind"] == "text"][:1] + [r for r in rows if r["kind"] == "file"][:1]
            os.unlink(cases)
            os.unlink(rec)
            return name, gres, jres, n, summ, bad, info, first

        for name, gres, jres, n, summ, bad, info, first in lf.parallel(one, jobs):
            ev.tlc(gres, "LexStr:" + name)
            ev.tlc(jres, "LexStrTrace:" + name)
            tot["cases"] += n
            tot["distinct"] += summ["distinct"]
            tot["nontrivial"] += summ["nontrivial"]
            tot["validated"] += summ["records"]
            tot["text"] += summ["text"]
            tot["file"] += summ["file"]
            tot["objstm"] += summ["file_in_objstm"]
            tot["info"] += len(info)
            samples += first
            allbad.extend(bad)
        # class = record kind (+ carrier) + failed requirements + the smallest failing input of that kind (deterministic for a given defect)
        def ident(b):
            r = b["rec"]
            return r["cps"] if r["kind"] == "text" else r["inp"]

        def cls(b):
            r = b["rec"]
            return r["kind"] + ("" if r["kind"] != "file" else ":%s:%s" % (r["via"], r["role"])) + "|" + _why(b)

        smallest = {}
        for b in allbad:
            k = (len(ident(b)), ident(b))
            if cls(b) not in smallest or k < smallest[cls(b)]:
                smallest[cls(b)] = k
        for b in sorted(allbad, key=lambda b: (len(ident(b)), ident(b))):
            r = b["rec"]
            sm = smallest[cls(b)][1]
            if r["kind"] == "text":
                key = "%s|smallest=%s" % (cls(b), "-".join("U+%04X" % c for c in sm))
                what = "%s: text %s: EscapedUTF16String %r, Unescape -> %s (errors %s/%s), parser token %r (ok %s, %d left), read back %s %s" % (
                    _why(b), " ".join("U+%04X" % c for c in r["cps"]), lf.b2s(r["esc"]), r["un"], r["eerr"], r["uerr"], lf.b2s(r["praw"]), r["pok"],
                    r["prest"], r["lit"], r["msg"])
                short = " ".join("U+%04X" % c for c in r["cps"])
            elif r["kind"] == "file":
                key = "%s|smallest=%s" % (cls(b), "-".join("%02x" % c for c in sm) or "empty")
                what = "%s: name %r as dictionary %s of %s read back as %r %s" % (
                    _why(b), lf.b2s(r["inp"]), r["role"], "an object in an object stream" if r["via"] == "objstm" else "a plain object",
                    lf.b2s(r["got"]), r["msg"])
                short = repr(lf.b2s(r["inp"]))
            else:
                key = "%s|smallest=%s" % (_why(b), "-".join("%02x" % c for c in sm) or "empty")
                what = "%s: input %r escaped %r unescaped %r (errors %s/%s) parser token %r (ok %s, %d left) encoded %r decoded %r (error %s)" % (
                    _why(b), lf.b2s(r["inp"]), lf.b2s(r["esc"]), lf.b2s(r["un"]), r["eerr"], r["uerr"], lf.b2s(r["praw"]), r["pok"], r["prest"],
                    lf.b2s(r["enc"]), lf.b2s(r["dec"]), r["derr"])
                short = repr(lf.b2s(r["inp"]))
            classes.add(key, what, b, short=short)
        classes.report(ctx)
        for s in samples[:4]:
            ev.sample(s)
        ev.cov(evaluations=tot["cases"], distinct_nontrivial=tot["nontrivial"], traces_validated_against_impl=tot["validated"],
               rule="every case of LexStr.tla's case space (jobs: %s) is run through the real Escape/Unescape/EncodeName/DecodeName and the real literal "
                    "string parser; text cases (code points chosen by their UTF-16BE bytes) also through EscapedUTF16String and its readers; name cases "
                    "also as dictionary key and name value through a written+read PDF, once in an object stream, once as plain object; every record is "
                    "judged by TLC (LexStrTrace!Fails); non-trivial = distinct inputs whose escaped or encoded form differs from the input"
                    % ", ".join(j[0] for j in jobs),
               text_records=tot["text"], file_records=tot["file"], file_records_from_object_streams=tot["objstm"],
               exhaustive=True, distinct_inputs=tot["distinct"],
               interop_disagreements=tot["info"],
               interop_note="informational: records where a conforming reader (Lex!RefUnescape / Lex!RefDecodeName) would not recover the input")
        ev.assume("expected behaviour comes from spec/Lex.tla (EscapeOK, NameCharOK); exhaustive over the class alphabet of spec/LexStr.tla "
                  "(every byte the code or ISO 32000 7.3.4.2/7.3.5 singles out, one representative per remaining range), all single bytes"
                  + ("" if ctx.quick else " and all byte pairs"),
                  "name requirements are judged for NUL-free inputs only (the property excludes NUL)",
                  "harness built with go1.26.8")
    finally:
        shutil.rmtree(d, ignore_errors=True)
