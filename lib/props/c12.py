"""C12 - string escaping and name encoding are lossless.
G: TLC enumerates byte strings (spec/LexStr.tla): all strings up to length 3 (quick; 4 thorough) over the class alphabet
   (every byte the escaping / name rules single out plus one member of every other range), all single bytes, (thorough)
   all 65536 byte pairs, plus seeded longer strings.
R: harness/cmd/lex c12 pushes every string through the real types.Escape/Unescape/EncodeName/DecodeName and records
   input / escaped / unescaped / encoded / decoded as byte sequences.
V: TLC judges every record against spec/Lex.tla (spec/LexStrTrace.tla): unescaped = input, EscapeOK(escaped) (balanced and
   every parenthesis escaped), and for NUL-free inputs NameCharOK(encoded) and decoded = input."""
import os, shutil
import vlib, lexfamily as lf

META = {
    "level": "model_checking",
    "text": "TLC enumerates every byte string up to the length bound over an alphabet containing every byte the escaping and name "
            "rules distinguish (plus all single bytes and, in the thorough tier, all byte pairs); each string is pushed through the real "
            "Escape/Unescape/EncodeName/DecodeName and TLC judges each recorded result against the Lex.tla operators "
            "(round trip, balanced+escaped parentheses, name character set, name round trip).",
    "note": "Trusted: Lex.tla's EscapeOK/NameCharOK as the meaning of 'balanced, escaped parentheses' and 'regular printable characters'; "
            "the Go recorder (byte sequences logged verbatim); exhaustiveness is over the class alphabet, not over all 256 byte values "
            "beyond length 2.",
    "technique": "TLA+ reference lexer (Lex.tla); TLC-enumerated inputs replayed into the real functions; TLC validates every recorded result",
    "design_ref": "DESIGN.md §5 C12",
}


def _why(bad):
    return ",".join(sorted(bad["why"]))


def run(ctx):
    ev = ctx.ev
    binf = lf.build_async("lex")
    d = vlib.scratch_dir()
    try:
        if ctx.quick:
            jobs = [("alpha24x3+bytes1", dict(Mode='"alpha+bytes1"', MinLen="0", MaxLen="3", AlphaN="24", NRand="300"))]
        else:
            jobs = [("alpha29x3+bytes1", dict(Mode='"alpha+bytes1"', MinLen="0", MaxLen="3", AlphaN="29", NRand="3000"))]
            jobs += [("alpha24x4-%d" % i, dict(Mode='"alpha"', MinLen="4", MaxLen="4", AlphaN="24", NRand="0", Slice=str(i), NSlices="8")) for i in range(8)]
            jobs += [("bytes2-%d" % i, dict(Mode='"bytes2"', Slice=str(i), NSlices="2")) for i in range(2)]
        classes = lf.Classes()
        tot = dict(cases=0, distinct=0, nontrivial=0, validated=0, info=0)
        samples = []
        allbad = []

        def one(job):
            name, consts = job
            consts = dict(consts)
            consts["Seed"] = str(ctx.seed)
            cases = os.path.join(d, name + ".cases")
            rec = os.path.join(d, name + ".rec")
            gres, n = lf.gen("LexStr", "LexStr_gen.cfg", cases, consts=consts, seed=ctx.seed)
            p = vlib.sh([binf.result(), "c12", "--in", cases, "--out", rec], timeout=1800)
            summ = lf.summary(p.stdout)
            if summ["cases"] != n:
                raise vlib.HarnessError("lex c12 consumed %d of %d cases" % (summ["cases"], n))
            jres, bad, info = lf.judge("LexStrTrace", "LexTrace.cfg", rec)
            if jres.distinct != n + 1:
                raise vlib.HarnessError("LexStrTrace stepped through %d of %d records" % (jres.distinct - 1, n))
            first = vlib.read_ndjson(rec)[:1] if n < 50000 else []
            os.unlink(cases)
            os.unlink(rec)
            return name, gres, jres, n, summ, bad, info, first

        for name, gres, jres, n, summ, bad, info, first in lf.parallel(one, jobs):
            ev.tlc(gres, "LexStr:" + name)
            ev.tlc(jres, "LexStrTrace:" + name)
            tot["cases"] += n
            tot["distinct"] += summ["distinct"]
            tot["nontrivial"] += summ["nontrivial"]
            tot["validated"] += n
            tot["info"] += len(info)
            samples += first
            allbad.extend(bad)
        # class = failed requirements + the smallest failing input of that kind (deterministic for a given defect)
        smallest = {}
        for b in allbad:
            k = (len(b["rec"]["inp"]), b["rec"]["inp"])
            if _why(b) not in smallest or k < smallest[_why(b)]:
                smallest[_why(b)] = k
        for b in sorted(allbad, key=lambda b: (len(b["rec"]["inp"]), b["rec"]["inp"])):
            r = b["rec"]
            key = "%s|smallest=%s" % (_why(b), "-".join("%02x" % c for c in smallest[_why(b)][1]) or "empty")
            classes.add(key, "%s: input %r escaped %r unescaped %r (errors %s/%s) encoded %r decoded %r (error %s)" % (
                _why(b), lf.b2s(r["inp"]), lf.b2s(r["esc"]), lf.b2s(r["un"]), r["eerr"], r["uerr"],
                lf.b2s(r["enc"]), lf.b2s(r["dec"]), r["derr"]), b, short=repr(lf.b2s(r["inp"])))
        classes.report(ctx)
        for s in samples[:2]:
            ev.sample(s)
        ev.cov(evaluations=tot["cases"], distinct_nontrivial=tot["nontrivial"], traces_validated_against_impl=tot["validated"],
               rule="every string of LexStr.tla's case space (jobs: %s) is one case, run through the real Escape/Unescape/EncodeName/DecodeName "
                    "and judged by TLC (LexStrTrace!Fails); non-trivial = distinct inputs whose escaped or encoded form differs from the input"
                    % ", ".join(j[0] for j in jobs),
               exhaustive=True, distinct_inputs=tot["distinct"],
               interop_disagreements=tot["info"],
               interop_note="informational: records where a conforming reader (Lex!RefUnescape / Lex!RefDecodeName) would not recover the input")
        ev.assume("expected behaviour comes from spec/Lex.tla (EscapeOK, NameCharOK); exhaustive over the class alphabet of spec/LexStr.tla "
                  "(every byte the code or ISO 32000 7.3.4.2/7.3.5 singles out, one representative per remaining range), all single bytes"
                  + ("" if ctx.quick else " and all byte pairs"),
                  "name requirements are judged for NUL-free inputs only (the property excludes NUL)",
                  "harness built with go1.26.8")
    finally:
        shutil.rmtree(d, ignore_errors=True)
