"""C15 - stream filters round-trip for every accepted filter pipeline.
G: TLC enumerates the configuration space of spec/FilterGen.tla (Prop = "C15"): pipelines of length 1-3 over ASCII85, ASCIIHex,
   RunLength, LZW (EarlyChange 0/1/absent) and Flate, Flate/LZW DecodeParms (Predictor, Colors, BitsPerComponent, Columns) and the
   input classes (empty, one byte, runs of 127/128/129..., alternations, lengths around the 4-byte ASCII85 groups, inputs that
   drive the LZW table over its 9/10/11/12 bit code-width changes and the table reset).
R: harness/cmd/filter c15 runs every case through the real code: filter.NewFilter(...).Encode/Decode stage by stage; whole
   types.StreamDict objects (Encode -> fresh object with Raw only -> Decode -> edit -> Encode -> Decode); and PDF files (stream
   objects emitted byte by byte, api.ReadContext -> Decode -> edit -> Encode -> api.WriteContext -> ReadContext -> Decode).  The
   edit is one of the class Edits of spec/Filter.tla (append, prepend, replace in place, truncate to 1 byte, truncate to empty by
   re-slicing / by a new empty slice, nil-then-assign, grow across block boundaries); ApplyEdit gives the expected content.
V: TLC judges every record (spec/FilterTrace.tla, Verdict15): accepted (pipeline, content) pairs must round-trip at all three levels
   (acceptance = parameters of ISO 32000 Table 8 and, for a Flate stage with a predictor, a whole number of rows reaching it - for
   the original and for the edited content); what pdfcpu does not accept must fail instead of returning other bytes; every RunLength/ASCIIHex/ASCII85 stage output is decoded
   with the TLA+ reference decoders of spec/Filter.tla (written from ISO 32000-1 7.4) and must give the stage input, EOD at the
   very end; all-simple pipelines are decoded end to end by the reference decoders alone."""
import os, shutil, collections
import vlib, filterfamily as ff

META = {
    "level": "model_checking",
    "text": "TLC enumerates every (pipeline, decode parameters, input class) case of FilterGen.tla; each case is replayed into the real "
            "filters, into whole StreamDict objects (decode, modify, re-encode) and through written and re-read PDF files; TLC judges the "
            "recorded results and decodes the real RunLength/ASCIIHex/ASCII85 encoder output with independent TLA+ reference decoders.",
    "note": "Trusted: for Flate and LZW the byte equality decoded == original is observed in Go (bytes.Equal) and, for inputs up to 48 bytes, "
            "re-checked by value in TLC; their compressed form is not modelled. Trusted: the TLA+ reference decoders as the meaning of "
            "ISO 32000-1 7.4.2/7.4.3/7.4.5; go1.26.8 instead of go1.25.0.",
    "technique": "TLA+ configuration space enumerated by TLC, replayed into the real filters/StreamDict/file I/O, records judged by TLC with TLA+ reference decoders",
    "design_ref": "DESIGN.md §5 C15",
}



def key_of(r, why):
    return ("%s|%s|%s|%s" % ("+".join(why), ff.pipe_sig(r["pipe"]), ff.inp_sig(r["inp"]), r["edit"]),
            "%s: pipeline [%s] input %s (%d bytes) edit %s: encOk=%s decOk=%s eq=%s sd=(enc %s raw %s len %s dec %s eq %s | edited: ok %s eq %s "
            "fresh-raw %s len %s) file=%r err=%r" % (
                ",".join(why), ff.pipe_sig(r["pipe"]), ff.inp_sig(r["inp"]), r["n"], r["edit"], r["encOk"], r["decOk"], r["eq"],
                r["sdEncOk"], r["sdRawEq"], r["sdLenOk"], r["sdDecOk"], r["sdEq"], r["sdModOk"], r["sdModEq"], r["sdModFresh"], r["sdModLen"],
                r["file"], r["err"]))


def run(ctx):
    ev = ctx.ev
    binp = vlib.build_bin("filter")
    d = vlib.scratch_dir()
    try:
        cases = os.path.join(d, "cases.ndjson")
        n = ff.gen_cases(ctx, "C15", cases)
        rec = os.path.join(d, "records.ndjson")
        p = vlib.sh([binp, "c15", "--cases", cases, "--out", rec, "--seed", str(ctx.seed), "--cap", "48"], timeout=2400)
        summ = ff.summary(p)
        if summ["cases"] != n:
            raise vlib.HarnessError("replayer consumed %d of %d cases" % (summ["cases"], n))
        rows, bad, notes = ff.judge(ctx, "C15", rec, d)
        tags = collections.Counter(t for nt in notes for t in nt["tags"])
        if len(rows) != n:
            raise vlib.HarnessError("%d records for %d cases" % (len(rows), n))
        groups = {}
        for r, why in bad:
            key, what = key_of(r, why)
            g = groups.setdefault(key, [what, r, 0])
            g[2] += 1
        ff.report_grouped(ctx, groups)
        obs = sum(len(r["obs"]) for r in rows)
        ev.cov(evaluations=n, distinct_nontrivial=summ["nontrivial"], traces_validated_against_impl=len(rows),
               rule="every state of FilterGen.tla (Prop=C15, Tier=%s) is one case (pipeline of 1-3 filters with decode parameters x input class x edit of the decode-edit-encode step), "
                    "replayed at three levels into the real code (filter chain, StreamDict decode/modify/re-encode, written and re-read PDF file) "
                    "and judged by TLC; distinct non-trivial = distinct cases whose input has more than one byte" % ctx.tier,
               exhaustive=True, replayed_cases=n, by_value_in_tlc=sum(1 for r in rows if r["small"]),
               reference_decoded_stage_outputs=obs, file_round_trips=sum(1 for r in rows if r["file"] == "ok"),
               pipelines=len({ff.pipe_sig(r["pipe"]) for r in rows}), input_kinds=summ["kinds"],
               edits=dict(collections.Counter(r["edit"] for r in rows)), flate_predictor_branches=dict(tags),
               records_rejected_by_spec=len(bad))
        for t in ("pred-whole-rows", "pred-partial-rows", "edit-whole-rows", "edit-partial-rows", "pred-inner-stage-accepted"):
            if not tags.get(t):
                raise vlib.HarnessError("vacuous: no record exercised the branch %r of the Flate predictor acceptance" % t)
        for r in rows[:1] + [r for r in rows if len(r["pipe"]) == 3 and r["small"] and r["n"] > 4][:1] + [r for r, _ in bad[:1]]:
            ev.sample(r)
        ev.assume("Flate/LZW byte fidelity is an equality observation made in Go (bytes.Equal), re-checked by value in TLC only for inputs <= 48 bytes",
                  "acceptance as modelled in FilterTrace.tla: LZWDecode accepts no Predictor > 1 (pdfcpu reports it as unsupported); FlateDecode accepts the "
                  "ISO 32000-1 Table 8 values and, with a Predictor >= 2, content that reaches the stage as a whole number of rows (the byte counts "
                  "reaching each stage are observed from the real encoder chain); what is not accepted must fail or return the same bytes, never other bytes",
                  "inputs are the classes of FilterGen.tla, materialised by the Go command (seeded for 'rnd'/'uniq')",
                  "file level: stream objects are the page content streams of PDF files emitted by harness/lib/rawpdf; reading uses relaxed validation",
                  "harness built with go1.26.8")
    finally:
        shutil.rmtree(d, ignore_errors=True)
