"""C29 - removing signatures removes them all and nothing else.
G: TLC enumerates document structures (spec/SigRemove.tla): signature fields merged with / separate from their widgets, on
   1-3 pages, with and without /P, nested in non-terminal fields (depth <= 3), next to text fields, certification (/DocMDP)
   and usage-rights (/UR3) entries; other annotations (links, text notes) as indirect references and as direct
   dictionaries in /Annots, on the signature's page and on other pages; /Perms, /AcroForm, /Fields and /Kids stored inline or as indirect
   objects; unsigned documents with a stale /SigFlags (absent, 0, 1, 3) - each state is one case with the predicted post-state.
R: harness/cmd/sig builds every case with the raw PDF emitter, runs the real api.RemoveSignaturesFile inside the recording
   sandbox, re-reads the output with pdfcpu and compares its object graph with the prediction; the real signed samples go
   through the same comparison. Documents without signatures must be refused with ErrNoSignatures and nothing written."""
import json, os, shutil, subprocess
import vlib

META = {
    "level": "model_checking",
    "text": "TLC enumerates every document structure of SigRemove.tla within the bounds (entry shapes x pages x signed x /P x "
            "/Perms subsets x other annotations (indirect / direct entries of /Annots) x direct/indirect storage of /Perms, /AcroForm, /Fields, /Kids x stale /SigFlags of unsigned documents) together with the post-state RemoveSigs predicts; every state is built as a real PDF, run "
            "through the real api.RemoveSignaturesFile and the re-read output compared: no signature dictionaries, signature fields, "
            "signature widgets, /Perms, /SigFlags; other fields, annotations and pages unchanged; unsigned documents refused with the "
            "no-signatures error without writing (os-call recorder). The 8 real signed samples are compared the same way.",
    "note": "Trusted: the raw emitter and the projection of the output (field tree, page annotations, object table scan) which uses "
            "pdfcpu's own reader; SigRemove.tla's reading of 'signature-bearing'. A transient exclusive create + remove of the output "
            "name is not counted as writing.",
    "technique": "TLA+ structure model enumerated by TLC, every state replayed into the real API and the output's object graph compared",
    "design_ref": "DESIGN.md §5 C29",
}


def run(ctx):
    ev = ctx.ev
    binp = vlib.build_bin("sig")
    d = vlib.scratch_dir()
    env = dict(os.environ, TMPDIR=d, VERIF_SANDBOX_BASE=d)
    try:
        cfgs = ["SigRemove_quick.cfg"] if ctx.quick else ["SigRemove_thorough.cfg", "SigRemove_ind.cfg", "SigRemove_deep.cfg"]
        total = nontrivial = nosig = nsamples = 0
        keys = {}
        first = {}
        for ci, cfg in enumerate(cfgs):
            cases = os.path.join(d, "cases.ndjson")
            res = vlib.run_tlc("SigRemove", cfg, workers=min(8, vlib.NCPU), timeout=1200, payloads={"CASE": cases}, seed=ctx.seed)
            if res.violated:
                raise vlib.HarnessError("design model SigRemove violates its own invariant %s:\n%s" % (res.violated, res.error_state))
            ev.tlc(res, cfg)
            n = res.payload_counts.get("CASE", 0)
            if n == 0:
                raise vlib.HarnessError("TLC produced no cases for " + cfg)
            if ci == 0:
                with open(cases) as fh:
                    lines = fh.readlines()
                for ln in (lines[0], lines[len(lines) // 2], lines[-1]):
                    ev.sample(json.loads(ln))
            shards = max(2, min(10, vlib.NCPU - 2))
            procs = []
            for k in range(shards):
                cmd = [binp, "c29", "--cases", cases, "--out", os.path.join(d, "mism.%d.ndjson" % k), "--shard", str(k), "--of", str(shards)]
                if ci > 0:
                    cmd += ["--samples", "no"]
                procs.append(subprocess.Popen(cmd, env=env, stdout=subprocess.PIPE, stderr=subprocess.STDOUT, text=True))
            done = 0
            for k, p in enumerate(procs):
                out, _ = p.communicate(timeout=3000)
                if p.returncode != 0:
                    raise vlib.HarnessError("sig c29 shard %d failed:\n%s" % (k, out[-3000:]))
                summ = json.loads([l for l in out.splitlines() if l.startswith("SUMMARY ")][-1][8:])
                done += summ["cases"]
                nontrivial += summ["nontrivial"]
                nosig += summ["nosig_cases"]
                nsamples += summ["samples"]
                for kk, v in summ["keys"].items():
                    keys[kk] = keys.get(kk, 0) + v
                for m in vlib.read_ndjson(os.path.join(d, "mism.%d.ndjson" % k)):
                    first.setdefault(m["key"], m)
            if done != n:
                raise vlib.HarnessError("replayer consumed %d of %d cases" % (done, n))
            total += n
        for key in sorted(keys):
            m = first[key]
            ctx.report(key, "%s  [%d cases with this key]" % (m["what"], keys[key]), m)
        ev.cov(evaluations=total + nsamples, distinct_nontrivial=nontrivial, traces_validated_against_impl=total + nsamples,
               rule="every reachable state of SigRemove.tla within the cfg bounds (page count, sequence of top-level field entries, /Perms "
                    "subset, other annotations, storage forms, stale /SigFlags) is one case built as a PDF and run through the real RemoveSignaturesFile; non-trivial = distinct "
                    "structures that contain a signature (outcome 'ok'); plus the real signed samples",
               exhaustive=True, replayed_cases=total, samples_checked=nsamples, unsigned_cases=nosig, mismatch_keys=keys)
        ev.assume("expected post-state comes from spec/SigRemove.tla (KeepFields / KeepAnnots / no signature objects, /Perms, /SigFlags)",
                  "a document whose only signature is a usage-rights signature (/Perms /UR3) counts as signed",
                  "'writes nothing' = no byte written to the output name and the directory unchanged afterwards")
    finally:
        shutil.rmtree(d, ignore_errors=True)
