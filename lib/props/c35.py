"""C35 - document metadata edits behave like a simple key/value store.
G: TLC explores spec/Doc35.tla (metadata actions of the abstract document machine spec/Doc.tla) and prints every history
   with the listing the document must return after its last step (and what an extraction must deliver).
R: harness/cmd/pageops c35 replays the histories with the real Add/Remove Keywords/Properties/Attachments, Set/Reset
   PageLayout/PageMode/ViewerPreferences *File functions, lists with the real List*File functions after every step and
   extracts with ExtractAttachmentsFile; listings and extracted bytes (sha256) are compared with the model."""
import os, shutil
import vlib, pageopslib as po

META = {
    "level": "model_checking",
    "text": "TLC enumerates all histories of <= 2 metadata edits over all families and <= 3 edits within each family (keywords, properties, "
            "layout/mode/viewer preferences, attachments) over alphabets with Unicode (BMP and astral), PDF delimiters, separators and "
            "padding, plus random histories of 1-10 edits (-simulate, thorough); every history is replayed with the real *File functions and "
            "after every step the six real listings (and, for extractions, the extracted bytes) are compared with the model state.",
    "note": "Trusted: Doc.tla as the meaning of the edits (keyword tokens are split at , ; as the stored form is one joined string; "
            "re-adding an existing attachment name is not generated); the List*File functions as the observation; rawpdf emitter; go1.26.8.",
    "technique": "TLA+ reference machine (Doc.tla/Doc35.tla) explored by TLC, behaviours replayed into the real API and compared step by step",
    "design_ref": "DESIGN.md §5 C35",
}


def fmt(m):
    c = m["case"]
    steps = " ; ".join("%s(%s%s%s)" % (s["op"], ",".join(s["keys"]), (" = " + ",".join(s["vals"])) if s["vals"] else "",
                                      (" desc " + ",".join(s["aux"])) if any(s["aux"]) else "") for s in c["steps"])
    return "initial document=%s, history [%s]: %s; got %s" % (c["base"], steps, m["what"], (m.get("got") or "")[:500])


def run(ctx):
    ev = ctx.ev
    binp = vlib.build_bin("pageops")
    d = vlib.scratch_dir()
    try:
        runs = [("Doc35_quick.cfg", None, None, "bfs")]
        if not ctx.quick:
            runs.append(("Doc35_sim.cfg", "num=%d" % (12000 // po.NPROC), 14, "sim"))
        tot, nontriv, mism, ncases = {}, set(), [], 0
        for cfg, sim, depth, mode in runs:
            cases = os.path.join(d, "cases.ndjson")
            res, n = po.tlc(ctx, "Doc35", cfg, cases, simulate=sim, depth=depth)
            ncases += n
            with open(cases) as fh:
                import json
                k = 0
                for line in fh:
                    c = json.loads(line)
                    if len(c["steps"]) >= 2 and (mode == "sim" or c["steps"][-1]["op"] in ("att_extract", "kw_remove")):
                        ev.sample(c, limit=5)
                        k += 1
                        if k >= 2:
                            break
            t, mm, nt = po.replay(binp, "c35", cases, d, cfg, extra=["--mode", mode])
            if t.get("lines") != n or t.get("cases") != n:
                raise vlib.HarnessError("replayer consumed %s/%s of %d cases" % (t.get("cases"), t.get("lines"), n))
            for k, v in t.items():
                if isinstance(v, int):
                    tot[k] = tot.get(k, 0) + v
                elif isinstance(v, dict):
                    dd = tot.setdefault(k, {})
                    for kk, vv in v.items():
                        dd[kk] = dd.get(kk, 0) + vv
            nontriv |= {cfg + ":" + x for x in nt}
            for m in mm:   # own key spaces: standard Info entries used as property names; keywords in the XMP metadata only
                if m["case"].get("std"):
                    m["key"] = "std:" + m["key"]
                elif m["case"]["base"] == "xmpkw":
                    m["key"] = "xmpkw:" + m["key"]
            mism += mm
        keys = po.report_by_key(ctx, mism, fmt)
        ev.cov(evaluations=tot.get("steps_checked", 0), distinct_nontrivial=len(nontriv), traces_validated_against_impl=ncases,
               rule="a case is one history of Doc35.tla on an initial document emitted byte by byte from Doc35!BaseDoc: bare, info (Info dictionary, "
                    "nothing listed), rich (equal keywords in Info dictionary AND catalog XMP metadata, properties, layout, mode, viewer preferences and an "
                    "attachment already present), xmpkw (keywords in the XMP only), kwdiff (different, overlapping keyword sets in Info dictionary and "
                    "XMP), vpfull (a value for ten viewer preferences incl. NonFullScreenPageMode UseOC and the printer preferences). Exhaustive part = the "
                    "plans Doc35!QuickPlans: all histories of <= 2 edits over the 53 actions of all families on bare and rich (1 step on info), a third "
                    "edit within the keyword / property family on rich, <= 2 keyword/property edits on xmpkw and kwdiff, <= 2 property edits with "
                    "Subject/Author as names, and on bare and vpfull EVERY value of EVERY viewer preference set alone through both routes (struct and "
                    "JSON) followed by one of six further viewer-preference edits; thorough adds -simulate histories of 1-10 random edits over the larger "
                    "alphabets on all six documents. Each distinct (prefix, step) is executed once and all six listings are compared; evaluations = steps "
                    "compared; non-trivial = distinct (history prefix, step) pairs that changed the listing or extracted attachments, and matched",
               exhaustive=bool(ctx.quick and tot.get("skipped_after_violation", 0) == 0),
               histories=ncases, api_calls=tot.get("api_calls", 0), refusals_checked=tot.get("refusals", 0),
               histories_cut_short_by_a_violation=tot.get("skipped_after_violation", 0), ops=tot.get("ops", {}), mismatch_keys=keys)
        ev.assume("expected listings come from spec/Doc.tla (metadata actions)",
                  "keywords: the stored form is one string joined with '; ' and split at , ; CR when read, so a token containing a separator yields "
                  "its trimmed pieces, duplicates collapse, and removal matches whole trimmed keywords (tokens with empty pieces are not generated)",
                  "requests that cannot be honoured (removing something that is not there, extracting from a document without attachments) must "
                  "return an error or leave the document unchanged",
                  "the standard Info entries Subject/Author used as property names are explored separately (Doc35_std.cfg, keys prefixed std:)",
                  "attachments: adding a name that is already attached is not generated (pdfcpu keeps both under a uniquified name); descriptions never equal "
                  "a file name (removal/extraction also match descriptions); extracted files are found under their attachment names",
                  "setting viewer preferences overlays the given entries on the existing ones; reset removes all",
                  "generated initial documents only (PDF 1.7); XMP metadata carries pdf:Keywords as an element plus a dc:subject bag",
                  "harness built with go1.26.8")
    finally:
        shutil.rmtree(d, ignore_errors=True)
