"""C10 - cancelling a read stops it promptly with the cancellation error.
D: spec/Cancel.tla is the design model of a cancellable read (phases of checked loops, Cancel interleaved anywhere);
   TLC checks termination, result kinds, pre-cancelled => ctxErr and no document, and the bound on input operations
   after the cancellation over all interleavings, and shows that a loop without the check breaks the bound.
V: harness/cmd/robust c10 runs pdfcpu.ReadWithContext / ReadFileWithContext on corpus and generated documents with the
   io.ReadSeeker wrapped so that the context is cancelled right after the j-th Read/Seek (every j for small documents,
   phase boundaries + seeded sample for big ones), before the call, by an expired deadline, and from a timer goroutine
   at seeded random times, and 10/30/60 percent into the longest stretches of the uncancelled read that touch no input
   (documents with one huge object: 10^5 string literals and a trailing comment, hex strings, comment lines).
   Every run is one record; TLC (spec/CancelTrace.tla) judges all records against CancelOps."""
import json, os, shutil
import vlib

META = {
    "level": "exploration",
    "text": "Every read of a corpus or generated document (object streams, incremental updates, xref repair, 10^4/10^5 objects, one huge "
            "object of 10^5 literals / hex strings / comments) is "
            "cancelled after each input operation j (all j for small documents, phase boundaries plus a seeded sample for big ones), "
            "before the call, by an expired deadline, from a timer at seeded times and inside the longest input-free computation "
            "stretches; TLC judges every recorded run against the "
            "contract of CancelOps.tla: result is the uncancelled result or the context's error with a nil document, at most "
            "OpsBound(size) input operations are started after the cancellation, and the reading thread consumes at most "
            "max(100 ms, 25% of a full read) CPU time after it. The design model Cancel.tla is checked by TLC over all interleavings.",
    "note": "Trusted: the Read/Seek wrapper and the per-thread CPU clock; OpsBound = 32 + 2*ceil(size/4096) (a unit of work is at most "
            "one linear pass over the input; calibrated with the repair-path defects fixed: max 49 at 1 MB, 19 on small inputs); "
            "time is CPU time of the reading thread, judged for timer, in-stretch and after-the-j-th-operation cancellations (wall time is "
            "recorded but not judged: the machine is shared) and a time "
            "violation is reported only after three confirming re-measurements; go1.26.8 toolchain.",
    "technique": "TLA+ design model of cancellation checked by TLC + schedule enumeration over a wrapped io.ReadSeeker, records judged by TLC",
    "design_ref": "DESIGN.md §5 C10",
}


def _summary(p):
    return json.loads([l for l in p.stdout.splitlines() if l.startswith("SUMMARY ")][-1][8:])


def run(ctx):
    ev = ctx.ev
    binp = vlib.build_bin("robust")
    d = vlib.scratch_dir()
    try:
        # ---- design model
        classes = os.path.join(d, "classes.ndjson")
        res = vlib.run_tlc("Cancel", "Cancel_design.cfg", workers=4, heap="2g", timeout=900, payloads={"CLASS": classes})
        if res.violated:
            raise vlib.HarnessError("design model Cancel violates %s:\n%s" % (res.violated, res.error_state))
        ev.tlc(res, "Cancel_design.cfg")
        cls = {json.dumps(c, sort_keys=True) for c in vlib.read_ndjson(classes)}
        res2 = vlib.run_tlc("Cancel", "Cancel_unchecked.cfg", workers=4, heap="2g", timeout=900)
        if res2.violated != "Bounded":
            raise vlib.HarnessError("the design model with an unchecked loop must violate Bounded, got %r" % res2.violated)
        # ---- real executions
        rec = os.path.join(d, "records.ndjson")
        args = [binp, "c10", "--out", rec, "--repo", vlib.REPO, "--tier", ctx.tier, "--seed", str(ctx.seed), "--workers", "8"]
        if ctx.quick:
            args += ["--all", "450", "--extra", "30", "--timers", "9"]
        else:
            args += ["--all", "2500", "--extra", "150", "--timers", "30"]
        p = vlib.sh(args, timeout=3000)
        summ = _summary(p)
        rows = vlib.read_ndjson(rec)
        if len(rows) != summ["records"] or not rows:
            raise vlib.HarnessError("c10 produced %d records, summary says %d" % (len(rows), summ["records"]))
        for ph in ("xref", "objstm", "deref", "repair"):
            if summ["phases"].get(ph, 0) == 0:
                raise vlib.HarnessError("no document exercises the reader phase %r (vacuous)" % ph)
        bad = os.path.join(d, "bad.ndjson")
        res = vlib.run_tlc("CancelTrace", "CancelTrace.cfg", files=[rec], workers=1, heap="3g", timeout=1800, payloads={"BAD": bad})
        if not res.ok:
            raise vlib.HarnessError("CancelTrace did not accept the records: %s\n%s" % (res.violated, res.out[-2000:]))
        ev.tlc(res, "CancelTrace.cfg")
        verdicts = vlib.read_ndjson(bad) if os.path.exists(bad) else []
        reported = {}
        confirmed = {}
        # time verdicts are confirmed in the order of their excess over the bound (the confirmations are limited)
        def _excess(v):
            r = rows[v["l"] - 1]
            return -(r["aftercpu"] / float(max(100000, r["fullcpu"] // 4))) if "time" in v["why"] else 0.0
        verdicts.sort(key=_excess)
        for v in verdicts:
            r = rows[v["l"] - 1]
            for why in sorted(v["why"]):
                if why == "time":
                    # timing is noisy: re-measure the same schedule three times, all must exceed the bound
                    ck = (r["doc"], r["mode"], r["phase"], r["last"])
                    if ck not in confirmed:
                        if len(confirmed) >= 6:
                            ev.add("time_outliers_not_confirmed", 1)
                            continue
                        crec = os.path.join(d, "confirm.ndjson")
                        vlib.sh([binp, "c10", "--out", crec, "--repo", vlib.REPO, "--tier", ctx.tier, "--seed", str(ctx.seed),
                                 "--confirm", "%s|%s|%d|%d" % (r["doc"], r["mode"], r["j"], r["delay"])], timeout=900)
                        cr = vlib.read_ndjson(crec)
                        confirmed[ck] = len(cr) >= 3 and all(x["fired"] and x["aftercpu"] > max(100000, x["fullcpu"] // 4) for x in cr)
                    if not confirmed[ck]:
                        ev.add("time_outliers_not_confirmed", 1)
                        continue
                if why in ("ops", "time"):
                    key = "late|cancelled in %s|continues in %s" % (r["phase"] or "?", r["last"] or "no-input")
                    if r["mode"] == "timer":
                        key = "late|timer|continues in %s" % (r["last"] or "no-input")
                    elif r["mode"] == "gap":
                        key = "late|computing after the last input of %s|continues in %s" % (r["class"], r["last"] or "no-input")
                elif why == "precancelled":
                    key = "precancelled|%s|%s" % (r["mode"], r["kind"])
                else:
                    key = "%s|%s|cancelled in %s" % (why, r["kind"], r["phase"] or r["mode"])
                if key in reported:
                    reported[key]["n"] += 1
                    continue
                reported[key] = {"n": 1, "rec": r, "why": why}
        for key, x in sorted(reported.items()):
            r = x["rec"]
            if x["why"] in ("ops", "time"):
                what = ("read of %s (%d bytes, %d input operations uncancelled) cancelled (%s, j=%d, reader phase %s): %d input operations "
                        "were started after the cancellation (bound %d), last in phase %s; %d us CPU after cancel (full read %d us); "
                        "result %s; %d schedules with this signature" % (
                            r["doc"], r["size"], r["n"], r["mode"], r["j"], r["phase"], r["after"], 32 + 2 * ((r["size"] + 4095) // 4096),
                            r["last"], r["aftercpu"], r["fullcpu"], r["kind"], x["n"]))
            else:
                what = "read of %s cancelled (%s, j=%d, phase %s): clause %s broken: kind=%s isctx=%s docnil=%s same=%s after=%d err=%r (%d schedules)" % (
                    r["doc"], r["mode"], r["j"], r["phase"], x["why"], r["kind"], r["isctx"], r["docnil"], r["same"], r["after"], r["err"], x["n"])
            ctx.report(key, what, r)
        # ---- evidence
        fired = [r for r in rows if r["fired"]]
        sig = {(r["doc"], r["mode"], r["phase"], r["kind"]) for r in fired}
        mid = {(r["doc"], r["j"]) for r in fired if r["mode"] == "det"}
        for r in rows:
            if r["mode"] == "det" and r["fired"]:
                ev.sample(r)
                break
        for r in rows:
            if r["mode"] == "timer" and r["fired"]:
                ev.sample(r)
                break
        ev.sample(rows[0])
        phases = sorted({r["phase"] for r in fired if r["phase"]})
        ev.cov(evaluations=len(rows), distinct_nontrivial=len(mid),
               rule="one evaluation = one read of one document under one cancellation schedule (pre-cancelled, expired deadline, cancel after "
                    "the j-th Read/Seek, cancel 10/30/60 percent into the longest stretches of pure computation, timer at a seeded delay, ReadFileWithContext pre-cancelled); non-trivial = distinct (document, j) whose "
                    "cancellation fell while the read was still in progress; documents with at most %s operations get every j, larger ones the "
                    "phase boundaries and a seeded sample" % ("450" if ctx.quick else "2500"),
               traces_validated_against_impl=len(rows), documents=len(summ["docs"]), phases_cancelled=phases,
               distinct_signatures=len(sig), design_classes=len(cls), timer_runs=summ["timer"],
               max_ops_after_cancel=max([r["after"] for r in fired] or [0]),
               max_cpu_us_after_cancel=max([r["aftercpu"] for r in fired if r["mode"] in ("timer", "gap", "det")] or [0]),
               gap_runs=summ.get("gap", 0),
               exhaustive=False)
        ev.assume("OpsBound(size) = 32 + 2*ceil(size/4096) input operations after the cancellation (CancelOps.tla; calibrated with head-room on the tree "
                  "with the repair-path cancellation defects fixed: max 49 at 1 MB, 19 on small inputs)",
                  "time after cancellation is the CPU time of the reading OS thread (Linux per-thread CPU clock sampled by the cancelling goroutine); "
                  "bound max(100 ms, 25% of the CPU time of a full read); a time violation needs 3 confirming re-measurements",
                  "'done' means: same error text or same digest of all objects as the uncancelled read",
                  "harness built with go1.26.8")
    finally:
        shutil.rmtree(d, ignore_errors=True)
