"""C16 - decode limits are exact and bounded decoding yields prefixes.
G: TLC enumerates the cases of spec/FilterGen.tla (Prop = "C16"): pipelines of length 1-3 over all decodable filters with small
   inputs, plus FlateDecode predictor stages (TIFF and PNG) fed with 0-3 whole rows of predictor-encoded data.
R: harness/cmd/filter c16 encodes every case, decodes it without limit (stage output lengths ds, full data), then decodes it
   again under every limit L in 0..D+2 (and around every intermediate stage length) with filter.NewFilter(name, parms, L).Decode
   and StreamDict.DecodeLengthWithLimit(-1, L), and bounded to every n in 0..D+2 with Filter.DecodeLength(n) and
   StreamDict.DecodeLengthWithLimit(n, default); it records outcome kind, returned bytes and the full decoding.
V: TLC judges every record (spec/FilterTrace.tla, Verdict16) with LimitOutcome / PipeLimitOutcome / BoundedOutcome of spec/Filter.tla
   and checks that whatever was returned is a prefix of the full decoding."""
import os, shutil, collections
import vlib, filterfamily as ff

META = {
    "level": "model_checking",
    "text": "For every enumerated pipeline/parameter/input case the real decoders are run under every limit 0..D+2 and bounded to every "
            "length 0..D+2 (filter API and StreamDict API); TLC judges each recorded outcome with the LimitOutcome/BoundedOutcome relations "
            "and checks the prefix property on the returned bytes.",
    "note": "Trusted: the unlimited decode of the same real code supplies D and the full data; a limit of 0 means 'unset' (512 MiB) and a "
            "negative limit 'unlimited' at every pdfcpu API, so the relation is checked with that reading; in a pipeline the limit bounds "
            "the output of every stage. At the filter.Filter interface bounded decoding may return more than n bytes (documented 'at least'); "
            "the exact min(n, D) relation is applied at StreamDict.DecodeLengthWithLimit. go1.26.8 instead of go1.25.0.",
    "technique": "TLC-enumerated cases replayed into the real decoders under all limits/lengths around the boundary; recorded outcomes validated by TLC against the TLA+ outcome relations",
    "design_ref": "DESIGN.md §5 C16",
}


def key_of(r, why):
    last = r["pipe"][-1]
    L = r["arg"]
    if why == ["limit-outcome"] and r["mode"] == "limit" and r["kind"] == "limit" and last["f"] == "Fl" and last["pred"] >= 2:
        rs = ff.row_size(last)
        rl = rs + (1 if last["pred"] >= 10 else 0)
        if L >= 1 and all(x <= L for x in r["ds"]) and L < rl:
            sub = "no rows" if r["D"] == 0 else "D=L=rowSize"
            return ("FlateDecode|predictor row pre-check|%s" % sub,
                    "FlateDecode with a predictor rejects data within the decode limit: decoded length %d <= limit %d, but the encoded row "
                    "length %d (row size %d%s) is compared with the limit before decoding, e.g. [%s]" % (
                        r["D"], L, rl, rs, " + PNG filter byte" if rl > rs else "", ff.pipe_sig(r["pipe"])))
    hist = "" if not r["prev"] else "|after " + ",".join("%s(%d)" % ("bounded" if r["prev"][i] == 0 else "limit", r["prev"][i + 1])
                                                         for i in range(0, len(r["prev"]), 2))
    return ("%s|%s|%s|%s|D=%d|arg=%d%s" % ("+".join(why), r["api"], r["mode"], ff.pipe_sig(r["pipe"]), r["D"], L, hist),
            "%s: %s %s [%s] stage lengths %s, %s=%d%s -> %s len=%d got=%s full=%s err=%r" % (
                ",".join(why), r["api"], r["mode"], ff.pipe_sig(r["pipe"]), r["ds"], "limit" if r["mode"] == "limit" else "n", L,
                hist.replace("|", " ") + (" on the same StreamDict" if hist else ""), r["kind"], r["len"], r["got"], r["full"], r["err"]))


def run(ctx):
    ev = ctx.ev
    binp = vlib.build_bin("filter")
    d = vlib.scratch_dir()
    try:
        cases = os.path.join(d, "cases.ndjson")
        n = ff.gen_cases(ctx, "C16", cases)
        rec = os.path.join(d, "records.ndjson")
        p = vlib.sh([binp, "c16", "--cases", cases, "--out", rec, "--seed", str(ctx.seed), "--maxd", "200"], timeout=2400)
        summ = ff.summary(p)
        if summ["cases"] != n:
            raise vlib.HarnessError("replayer consumed %d of %d cases" % (summ["cases"], n))
        rows, bad, notel = ff.judge(ctx, "C16", rec, d)
        notes = len(notel)
        if len(rows) != summ["records"]:
            raise vlib.HarnessError("record count mismatch")
        groups = {}
        for r, why in bad:
            key, what = key_of(r, why)
            g = groups.setdefault(key, [what, r, 0])
            g[2] += 1
        ff.report_grouped(ctx, groups)
        ev.cov(evaluations=len(rows), distinct_nontrivial=summ["nontrivial"], traces_validated_against_impl=len(rows),
               rule="every state of FilterGen.tla (Prop=C16, Tier=%s) is one encoded case; one evaluation = one real decode of it under one limit "
                    "L in 0..D+2 (plus the neighbours of every stage length, and -1) or bounded to one n in 0..D+2, at the filter API (single-stage) "
                    "and at StreamDict.DecodeLengthWithLimit, plus call histories on one StreamDict object (bounded(n) then Decode / DecodeWithLimit / DecodeLength, "
                    "Decode then bounded; every later call judged like a call on a fresh object), judged by TLC; distinct non-trivial = distinct (case, API, mode, argument) whose outcome "
                    "is an error or a proper non-empty prefix" % ctx.tier,
               exhaustive=True, cases=n, history_calls=sum(1 for r in rows if r["api"] == "SDH"), outcome_kinds=summ["kinds"], records_rejected_by_spec=len(bad),
               filter_interface_returns_more_than_n=notes, max_decoded_len=max(r["D"] for r in rows))
        pick = [r for r in rows if r["mode"] == "limit" and r["kind"] == "limit"][:1] + \
               [r for r in rows if r["mode"] == "bounded" and 0 < r["len"] < r["D"]][:1] + [r for r, _ in bad[:1]]
        for r in pick:
            ev.sample(r)
        ev.assume("D and the full decoding come from the same real decoders run without limit (limit -1)",
                  "limit 0 = unset = 512 MiB and a negative limit = unlimited (filter.NewFilter / StreamDict.DecodeLengthWithLimit cannot express a limit of zero bytes)",
                  "in a multi-stage pipeline the limit applies to the decoded output of every stage (PipeLimitOutcome)",
                  "bounded decoding at the filter.Filter interface may return more than n bytes (interface comment: 'at least'); this run saw it %d times, "
                  "always a prefix of the full decoding; StreamDict.DecodeLengthWithLimit is held to exactly min(n, D) bytes or 'too short' (only when n > D)" % notes,
                  "predictor stages are exercised as the last stage of a pipeline, on zlib-compressed rows produced by compress/zlib",
                  "harness built with go1.26.8")
    finally:
        shutil.rmtree(d, ignore_errors=True)
