"""C07 - installed fonts survive power loss once installation reports success.
The os-call traces of REAL font installations (single font, collections, api batches; successful runs and a seeded
sample of faulted runs) are replayed by TLC through spec/FSTrace.tla, whose durability layer tracks, per inode, the
bytes covered by fsync and, per path, every value the path had since its directory was last fsynced. NeverTorn is a state
invariant: at EVERY point of the trace, whatever a power loss could leave at a font name (any pending or current value)
is fully fsynced data. DurableOnOk: on success the published entry and its data are flushed."""
import vlib, fsfamily

META = {
    "level": "model_checking",
    "text": "TLC evaluates the power-loss invariants NeverTorn (every state = every crash point, all loss choices symbolically) and "
            "DurableOnOk on the recorded file-system traces of the real font installers.",
    "note": "Power-loss model: file data reaches the disk only through fsync of the file, directory entries only through fsync of the "
            "directory; no tearing inside synced data. Trusted: instrumented os package (sees Sync, Rename, Write), FSTrace.tla.",
    "technique": "TLC trace validation of real os-call traces against a TLA+ durability (fsync-ordering) model",
    "design_ref": "DESIGN.md §5 C07",
}


def run(ctx):
    rows, summ, st, sample = fsfamily.run_mode(ctx, "c07", binary="txn")
    # only the monitor's durability invariants are judged here
    ctx.violations[:] = [v for v in ctx.violations if "monitor:" in v["key"]]
    ev = ctx.ev
    ev.cov(evaluations=st["lines"], distinct_nontrivial=st["traces"],
           rule="every line of every recorded trace is a crash point at which NeverTorn is evaluated (evaluations = trace lines); "
                "distinct = traces (installer scenario x {fault-free, faulted at k})",
           states=st["states"], transitions=st["transitions"], traces_validated_against_impl=st["traces"],
           scenarios=summ["scenarios"], monitor_binding_drift=st["drift"])
    ev.sample(sample)
    for r in rows[:2]:
        ev.sample({k: r[k] for k in ("op", "k", "at", "outcome")})
    ev.assume("the stated power-loss model; real power cuts cannot be produced in the sandbox",
              "Go-side C06 verdicts of the faulted runs are ignored here (C06 judges them)")
