"""C13 - Unicode text stored in a PDF reads back unchanged.
G: TLC generates texts (spec/LexText.tla): every code point of the UTF-16 boundary set, a seeded sample of scalar values,
   all strings up to the length bound over the printable boundary alphabet and seeded longer mixed-plane strings.
R: harness/cmd/lex c13 runs the real EncodeUTF16String / EscapedUTF16String / StringLiteralToString / HexLiteralToString on
   each text (unit records) and, for the marked ones, stores the text in a real PDF through api.AddProperties / AddKeywords /
   AddBookmarks and reads it back with api.Properties / Keywords / Bookmarks (e2e records).
   Thorough tier: additionally one unit record for every one of the 1,112,064 scalar values (lex c13range).
V: TLC judges every record (spec/LexTextTrace.tla): encoded bytes = Lex!TextBytes, the escaped literal is a well formed
   literal denoting those bytes, literal and hex carriers decode to Lex!Utf8Bytes, the e2e text equals the original; for the
   exhaustive sweep TLC also checks that the records are exactly the scalar values in order (completeness)."""
import json, os, shutil
import vlib, lexfamily as lf

META = {
    "level": "model_checking",
    "text": "TLC generates boundary code points, a seeded sample of scalar values (thorough: every scalar value, completeness checked by TLC) "
            "and mixed-plane strings; the real UTF-16 text string encoders/decoders (literal and hex carriers) and the real "
            "property/keyword/bookmark store+read paths are run on them and TLC judges every recorded result against Lex.tla's "
            "Utf16BE/Utf8/RefUnescape.",
    "note": "Trusted: Lex.tla's Utf16BE/Utf8 arithmetic and RefUnescape; Go's []rune<->string conversion used to build the input text; "
            "e2e carriers cover properties, keywords and bookmark titles (form values and annotation contents use the same "
            "EscapedUTF16String/StringLiteralToString pair, exercised at unit level).",
    "technique": "TLA+ reference coding (Lex.tla); TLC-generated texts replayed into the real encoders and API; TLC validates every record",
    "design_ref": "DESIGN.md §5 C13",
}

NSCALARS = 1112064


def run(ctx):
    ev = ctx.ev
    binf = lf.build_async("lex")
    d = vlib.scratch_dir()
    try:
        consts = dict(Seed=str(ctx.seed), NSample="3000" if ctx.quick else "20000", MaxLen="2" if ctx.quick else "3",
                      PairN="12", NRandStr="40" if ctx.quick else "400",
                      SynFolN="4" if ctx.quick else "7", SynLongFolN="1" if ctx.quick else "4",
                      SynLongAllVias="FALSE" if ctx.quick else "TRUE")
        jobs = [("gen", None)]
        if not ctx.quick:
            nchunks = 16
            per = NSCALARS // nchunks
            jobs += [("range", (i * per, NSCALARS if i == nchunks - 1 else (i + 1) * per)) for i in range(nchunks)]

        def one(job):
            kind, arg = job
            if kind == "gen":
                cases = os.path.join(d, "cases.ndjson")
                rec = os.path.join(d, "gen.rec")
                gres, n = lf.gen("LexText", "LexText_gen.cfg", cases, consts=consts, seed=ctx.seed)
                p = vlib.sh([binf.result(), "c13", "--in", cases, "--out", rec], timeout=1800)
                summ = lf.summary(p.stdout)
                if summ["cases"] != n:
                    raise vlib.HarnessError("lex c13 consumed %d of %d cases" % (summ["cases"], n))
                nrec = summ["unit"] + summ["e2e"]
                jres, bad, _ = lf.judge("LexTextTrace", "LexTextTrace.cfg", rec)
                rows = vlib.read_ndjson(rec)
                smp = [rows[0]] + [r for r in rows if r["kind"] == "e2e"][:1]
                return kind, gres, jres, nrec, summ, bad, smp
            lo, hi = arg
            rec = os.path.join(d, "range-%d.rec" % lo)
            p = vlib.sh([binf.result(), "c13range", "--from", str(lo), "--to", str(hi), "--out", rec], timeout=1800)
            summ = lf.summary(p.stdout)
            jres, bad, _ = lf.judge("LexTextTrace", "LexTextTrace.cfg", rec, consts=dict(Ordered="TRUE", Base=str(lo)))
            os.unlink(rec)
            return kind, None, jres, hi - lo, dict(cases=hi - lo, unit=hi - lo, e2e=0, distinct=hi - lo, nontrivial=hi - max(lo, 128) if hi > 128 else 0), bad, []

        allbad = []
        tot = dict(rec=0, e2e=0, distinct=0, nontrivial=0, swept=0)
        for kind, gres, jres, nrec, summ, bad, smp in lf.parallel(one, jobs):
            if gres:
                ev.tlc(gres, "LexText")
            ev.tlc(jres, "LexTextTrace:" + kind)
            if jres.distinct != nrec + 1:
                raise vlib.HarnessError("LexTextTrace stepped through %d of %d records" % (jres.distinct - 1, nrec))
            tot["rec"] += nrec
            tot["e2e"] += summ["e2e"]
            tot["distinct"] += summ["distinct"]
            tot["nontrivial"] += summ["nontrivial"]
            if kind == "range":
                tot["swept"] += nrec
            for s in smp:
                ev.sample(s)
            allbad += bad
        # classes: a failing single code point is its own class; a failing string is attributed to a failing code point it contains;
        # a failing syntax-spelling text to its (keyword, short/long) class
        single = set(b["rec"]["cps"][0] for b in allbad if len(b["rec"]["cps"]) == 1 and not b["rec"]["tag"])
        classes = lf.Classes()
        for b in allbad:
            r = b["rec"]
            culprit = [cp for cp in r["cps"] if cp in single]
            shown = " ".join("U+%04X" % cp for cp in r["cps"][:24])
            if culprit:
                who = "U+%04X" % culprit[0]
            elif r["tag"]:
                kw, coding, fol, pos, lc = r["tag"].split("|")
                who = "spell:%s|%s" % (kw, "short" if lc == "short" else "long")
                shown = "%d x U+%04X + [%s] + %d x U+%04X (bytes spell %s, coding %s, follower 0x%02x, position %s, length class %s)" % (
                    r["pre"], r["fill"], shown, r["post"], r["fill"], kw, coding, int(fol[1:]), pos, lc)
            else:
                who = "text=" + "-".join("%04X" % cp for cp in r["cps"])
            stage = r["kind"] + (":" + r["via"] if r["via"] else "")
            key = "%s|%s|%s" % (who, stage, ",".join(sorted(b["why"])))
            classes.add(key, "text %s (%s): %s; %s" % (
                shown, stage, ",".join(sorted(b["why"])),
                r["msg"] or ("stored %s, read literal %s / hex %s / e2e %s" % (r["esc"][:40], r["lit"][:40], r["hx"][:40], r["got"][:40]))), b,
                short=r["tag"] or shown)
        classes.report(ctx)
        ev.cov(evaluations=tot["rec"], distinct_nontrivial=tot["nontrivial"], traces_validated_against_impl=tot["rec"],
               rule="one unit record per generated text (boundary code points, seeded scalar sample, strings over the boundary alphabet, "
                    "syntax-spelling texts = 18 PDF keywords/delimiters x 3 codings x followers x 3 positions x 3 length classes whose UTF-16BE/ASCII "
                    "bytes spell the syntax) plus one e2e record per carrier (property, keyword, bookmark title via api.Bookmarks and via api.ExportBookmarksJSON) that keeps the text verbatim by design"
                    + ("" if ctx.quick else "; plus one unit record for every Unicode scalar value (order and completeness checked by TLC: LexTextTrace!InOrder)")
                    + "; non-trivial = distinct texts containing a code point >= U+0080",
               exhaustive=not ctx.quick, e2e_records=tot["e2e"], distinct_texts=tot["distinct"], scalar_values_swept=tot["swept"])
        ev.assume("expected bytes come from spec/Lex.tla (TextBytes = BOM + UTF-16BE with surrogate arithmetic, Utf8Bytes, RefUnescape)",
                  "e2e carriers per text are chosen by LexText!ViasFor: keywords only for texts without ',', ';', CR and surrounding blanks, bookmark titles only for "
                  "texts without control characters (split/trimmed resp. dropped by design); properties for every text that is not blank (blank values are refused by the API)",
                  "harness built with go1.26.8")
    finally:
        shutil.rmtree(d, ignore_errors=True)
