"""C03 - successful operations publish exactly and only the result.
Every catalogued single-output operation x path relation (new, existing with modes 0640/0600/0444, in place, same path,
./-spelled, relative-vs-absolute, symlink to the input, hard link to the input) is run on the real code; the real final
snapshot must show: complete (validating) destination, preserved permission bits, untouched distinct inputs, no other
entries. The traces are replayed through spec/FSTrace.tla (Publishes invariant + model/real agreement)."""
import vlib, fsfamily

META = {
    "level": "model_checking",
    "text": "All operation x path-relation combinations of the catalog executed on real code; TLC validates every recorded trace against "
            "the FSTrace.tla monitor (Publishes, FinalAgrees) and real snapshots are judged independently.",
    "note": "Trusted: instrumented os package, FSTrace.tla POSIX semantics incl. symlink/hard-link aliasing, relaxed validation as the "
            "'complete output' observation.",
    "technique": "TLC trace validation of real os-call traces against a TLA+ file-system monitor over an enumerated path-relation matrix",
    "design_ref": "DESIGN.md §5 C03",
}


def run(ctx):
    rows, summ, st, sample = fsfamily.run_mode(ctx, "c03")
    ev = ctx.ev
    okrows = [r for r in rows if r["outcome"] == "ok"]
    ev.cov(evaluations=len(rows), distinct_nontrivial=len({(r["op"], r["cfg"]) for r in okrows}),
           rule="one evaluation = one successful real execution of (operation, path relation); distinct pairs counted; refusals that "
                "change nothing are listed under skipped",
           states=st["states"], transitions=st["transitions"], traces_validated_against_impl=st["traces"],
           operations=summ["ops"], skipped=summ.get("skipped", []), monitor_binding_drift=st["drift"], staged_protocol_inclusion=st.get("staged"), exhaustive=True)
    for r in okrows[:3]:
        ev.sample({k: r[k] for k in ("op", "cfg", "n", "diff", "verdict")})
    ev.sample(sample)
    ev.assume("'behaves like an in-place update' is read as: aliasing names end up holding either their old or the complete new content")
