"""C17 - predictor decoding matches the PNG and TIFF specifications.
R: harness/cmd/filter c17 runs the real FlateDecode / LZWDecode decoders (filter.NewFilter(name, parms).Decode) over a seeded
   grid of DecodeParms (Predictor 1,2,10-15 x Colors 1-4 x BitsPerComponent 1,2,4,8,16 x Columns 1-8 x 1-3 rows) with
   random predictor-encoded rows (random PNG row filter types 0-4, sometimes invalid ones) and records parameters, raw rows
   and the decoded bytes or the error as integer sequences.
V: TLC recomputes every record with the independent TLA+ implementation in spec/Filter.tla (PngUnfilter: RFC 2083 None/Sub/Up/
   Average/Paeth; TiffUndiffSamples: TIFF 6.0 horizontal differencing for 1,2,4,8,16 bit samples, compared sample-wise) and
   judges it (spec/FilterTrace.tla, Verdict17); an error is accepted only if ParamsAllowed (ISO 32000-1 Table 8) is false or a
   row carries a filter type > 4."""
import os, shutil, collections
import vlib, filterfamily as ff

META = {
    "level": "model_checking",
    "text": "The real Flate and LZW decoders are run with DecodeParms over the full predictor/colors/bits/columns grid with random rows; "
            "TLC recomputes every decoded buffer with an independent TLA+ implementation of PNG un-filtering and TIFF horizontal "
            "differencing and compares byte for byte (TIFF: sample for sample); errors are accepted only outside ISO 32000 Table 8 "
            "or for invalid PNG row filter types.",
    "note": "Trusted: the TLA+ operators PngUnfilter/TiffUndiffSamples/ParamsAllowed as the meaning of RFC 2083 / TIFF 6.0 / ISO 32000 Table 8; "
            "compress/zlib (and pdfcpu's own LZW encoder) for producing the compressed input; go1.26.8 instead of go1.25.0.",
    "technique": "TLC validation of recorded real decoder executions against a TLA+ reference implementation (translation-validation style)",
    "design_ref": "DESIGN.md §5 C17",
}


def key_of(r, why):
    w = why[0]
    if r["f"] == "LZW" and w == "rejected-allowed-parameters" and "unsupported predictor" in r["err"]:
        return ("LZWDecode|Predictor>1 rejected",
                "LZWDecode with a Predictor > 1 allowed by ISO 32000-1 Table 8 is rejected (%r)" % r["err"])
    if r["f"] == "Fl" and r["pred"] == 2 and w == "wrong-samples" and ff.dflt(r["bpc"], 8) != 8:
        b = ff.dflt(r["bpc"], 8)
        return ("FlateDecode|TIFF predictor|bpc=%d" % b,
                "FlateDecode Predictor 2 with BitsPerComponent %d does not undo horizontal differencing per %d-bit sample" % (b, b))
    k = "%s|%s|p%d c%d b%d w%d rows%d|%s" % (w, r["f"], r["pred"], r["colors"], r["bpc"], r["cols"], r["rows"], vlib.digest(r["raw"]))
    return (k, "%s: %s Predictor=%d Colors=%d BitsPerComponent=%d Columns=%d rows=%d raw=%s -> ok=%s out=%s err=%r" % (
        w, r["f"], r["pred"], r["colors"], r["bpc"], r["cols"], r["rows"], r["raw"], r["ok"], r["out"], r["err"]))


def run(ctx):
    ev = ctx.ev
    binp = vlib.build_bin("filter")
    d = vlib.scratch_dir()
    try:
        rec = os.path.join(d, "records.ndjson")
        args = ["--n", "2600", "--reps", "1"] if ctx.quick else ["--n", "0", "--reps", "20"]
        p = vlib.sh([binp, "c17", "--out", rec, "--seed", str(ctx.seed)] + args, timeout=1200)
        summ = ff.summary(p)
        rows, bad, _ = ff.judge(ctx, "C17", rec, d)
        if len(rows) != summ["records"]:
            raise vlib.HarnessError("record count mismatch")
        groups = {}
        for r, why in bad:
            key, what = key_of(r, why)
            g = groups.setdefault(key, [what, r, 0])
            g[2] += 1
        ff.report_grouped(ctx, groups)
        allowed_ok = [r for r in rows if r["ok"] and r["pred"] in (2, 10, 11, 12, 13, 14, 15)]
        distinct = {(r["f"], r["pred"], r["colors"], r["bpc"], r["cols"], r["rows"], tuple(r["raw"])) for r in allowed_ok}
        byp = collections.Counter("%s/p%d" % (r["f"], r["pred"]) for r in rows)
        ev.cov(evaluations=len(rows), distinct_nontrivial=len(distinct), traces_validated_against_impl=len(rows),
               rule="one evaluation = one real Decode call of FlateDecode or LZWDecode with DecodeParms on seeded random predictor-encoded rows, "
                    "recomputed and judged by TLC; the grid Predictor{1,2,10..15} x Colors 1..4 x BPC{1,2,4,8,16} x Columns 1..8 x rows 1..3 x "
                    "{Flate,LZW} is %s; distinct non-trivial = distinct (parameters, raw rows) with a predictor >= 2 that the real decoder decoded"
                    % ("sampled (seeded shuffle)" if ctx.quick else "covered completely, 20 random row fillings each"),
               exhaustive=False, records_rejected_by_spec=len(bad), invalid_row_filter_cases=summ["invalidFilterType"],
               outside_table8_cases=summ["outsideTable8"], decoder_errors=summ["errors"], per_filter_predictor=dict(byp))
        for r in rows[:2] + [r for r, _ in bad[:1]]:
            ev.sample(r)
        ev.assume("expected bytes come from spec/Filter.tla (PngUnfilter, TiffUndiffSamples); TIFF results are compared sample-wise, so the pad bits of a row are not constrained",
                  "a PNG row filter type > 4 must be reported as an error (RFC 2083 defines types 0-4 only)",
                  "parameter combinations outside ISO 32000-1 Table 8 are recorded but their outcome is not constrained",
                  "compressed inputs are produced by compress/zlib and by pdfcpu's LZW encoder (no predictor involved in encoding)",
                  "harness built with go1.26.8")
    finally:
        shutil.rmtree(d, ignore_errors=True)
