"""C26 - restricted documents refuse operations their permissions deny.
G: TLC enumerates the matrix of spec/SecPerm.tla (permission bits x revision, every command mode of Sec!NeedsTable plus the
   unclassified modes) with the expected masks and decisions, and checks design properties of the reference table (bit layout
   per revision, monotonicity, irrelevance of the other bits).
R (i): an in-package shim replays every row into the real perm table / maskExtract / maskModify / hasNeededPermissions.
V (ii): harness/cmd/sec c26 encrypts real documents with every requested /P and algorithm, opens them with user-only, owner,
   user+wrong-owner and empty credentials for every command mode (real read path) and runs the real file operations;
   TLC validates every record against Sec!ReadOutcome (spec/SecPermTrace.tla)."""
import json, os, shutil
import vlib, secfamily

META = {
    "level": "model_checking",
    "text": "TLC enumerates permission-bit combinations (relevant bits 4/5/10/11 x surrounding bits x unused/high bits) x revisions 2..6 x "
            "all command modes; every row is replayed into pdfcpu's real unexported permission check, and documents really encrypted "
            "with those /P values are opened with user-only / owner / empty credentials for every command mode and through the real "
            "file operations, the recorded outcomes being validated by TLC against the specification.",
    "note": "Assumption: the classification table in Sec.tla (NeedsTable) is a reference snapshot of today's pkg/pdfcpu/crypto.go perm "
            "table; a changed classification is reported as a behavioural change. Revision 3 documents are obtained by rewriting the "
            "encryption dictionary of an RC4-128 document (pdfcpu itself writes revisions 2, 4, 5, 6 only). Trusted: Go harness, shim.",
    "technique": "TLC-enumerated permission matrix replayed into the real permission check (in-package) + TLC validation of end-to-end records",
    "design_ref": "DESIGN.md §5 C26",
}


def run(ctx):
    ev = ctx.ev
    binp = vlib.build_bin("sec")
    d = vlib.scratch_dir()
    try:
        cfg = "SecPerm_quick.cfg" if ctx.quick else "SecPerm_thorough.cfg"
        cases, docs = os.path.join(d, "cases.ndjson"), os.path.join(d, "docs.ndjson")
        consts = None
        if ctx.quick:
            # every revision end to end (one of the two revision-4 algorithms); the real file operations for revision 2 and one
            # seed-chosen algorithm with the revision >= 3 bit layout
            r4 = ["rc4_128", "aes_128"][ctx.seed % 2]
            consts = {"E2EAlgs": '{"rc4_40", "rc4_40_v2", "rc4_40_r3", "rc4_128_r3", "%s", "aes_256", "aes_256_r6"}' % r4,
                      "ApiAlgs": '{"%s", "%s"}' % (["rc4_40", "rc4_40_v2"][ctx.seed % 2], ["rc4_128_r3", r4, "aes_256", "aes_256_r6", "rc4_40_r3"][ctx.seed % 5])}
        res = vlib.run_tlc("SecPerm", cfg, workers=4, timeout=1800, heap="2g", payloads={"CASE": cases, "DOC": docs}, consts=consts)
        if res.violated:
            raise vlib.HarnessError("design model SecPerm violates its own property %s:\n%s" % (res.violated, res.error_state))
        ev.tlc(res, cfg)
        ncases, ndocs = res.payload_counts.get("CASE", 0), res.payload_counts.get("DOC", 0)
        if not ncases or not ndocs:
            raise vlib.HarnessError("TLC produced no cases")
        # (i) in-package replay of the matrix
        mism = os.path.join(d, "shim-mism.ndjson")
        p = vlib.inpkg_test("pkg/pdfcpu", os.path.join(vlib.HARNESS, "inpkg", "pkg", "pdfcpu"), run="^TestVerifSecPerm$",
                            env={"VERIF_SEC_CASES": cases, "VERIF_SEC_OUT": mism}, extra_args=["-v"], timeout=1200)
        shim_bound = True
        if "[build failed]" in p.stdout or "undefined:" in p.stdout:
            # the unexported entry point the shim binds to (hasNeededPermissions(mode, *model.Enc)) is gone or changed its
            # signature: binding (i) cannot be established; the end-to-end binding (ii) below still judges the real decisions
            shim_bound = False
            vlib.log("C26: in-package binding skipped (shim does not compile against this tree)")
            ss = {"rows": 0, "denied": 0, "distinct": 0, "cases": 0}
        elif p.returncode != 0 or "SUMMARY " not in p.stdout:
            raise vlib.HarnessError("in-package shim failed:\n" + p.stdout[-3000:])
        else:
            ss = secfamily.summary(p.stdout)
            if ss["cases"] != ncases:
                raise vlib.HarnessError("shim consumed %d of %d cases" % (ss["cases"], ncases))
            for m in vlib.read_ndjson(mism):
                ctx.report("table|%s|%s|V=%d|R=%d" % (m["what"], m["m"], m["v"], m["r"]),
                           "%s for %s with P=%d V=%d R=%d: specification says %s, real code %s" % (m["what"], m["m"], m["p"], m["v"], m["r"], m["want"], m["got"]), m)
        with open(cases) as fh:
            c = json.loads(fh.readline())
            ev.sample({"p": c["p"], "v": c["v"], "r": c["r"], "rows": c["rows"][:5]})
        # (ii) end to end
        sd = os.path.join(d, "shards")
        os.makedirs(sd)
        n = secfamily.NPROC
        summs, rows = secfamily.run_shards(binp, "c26", [docs] * n, sd, timeout=3000, extra=([] if ctx.quick else ["--pairs", "full"]))
        if secfamily.total(summs, "docs") != ndocs:
            raise vlib.HarnessError("end-to-end harness built %d of %d documents" % (secfamily.total(summs, "docs"), ndocs))
        rec, badf = os.path.join(d, "records.ndjson"), os.path.join(d, "bad.ndjson")
        validated = 0
        total = sum(len(r["outs"]) for r in rows)
        for r in rows:
            hit = [it for it in r["outs"] if it["out"] == "ErrPermissionDenied"]
            if r["via"] == "api" and hit:
                ev.sample({k: (v if k != "outs" else hit[:3] + [it for it in r["outs"] if it["out"] == "ok"][:2]) for k, v in r.items()})
                break
        vlib.write_ndjson(rec, rows)
        res = vlib.run_tlc("SecPermTrace", "SecPermTrace.cfg", files=[rec], workers=1, timeout=3000, heap="3g" if ctx.quick else "12g",
                           payloads={"BAD": badf})
        rejected = 0
        if res.violated == "AllAccepted":
            seen = set()
            for b in vlib.read_ndjson(badf):
                r = rows[b["l"] - 1]
                for i in b["bad"]:
                    it = r["outs"][i - 1]
                    rejected += 1
                    key = "e2e|%s|%s|%s|u=%s,o=%s" % (r["via"], it["mode"], r["alg"], r["u"], r["o"])
                    if key in seen:
                        continue
                    seen.add(key)
                    ctx.report(key, "%s %s%s on a %s document (upw=%r opw=%r P=%d) opened with (u=%r, o=%r) gave %s, which the specification rejects" % (
                        r["via"], it["mode"], "/" + it["op"] if it["op"] else "", r["alg"], r["upw"], r["opw"], r["p"], r["u"], r["o"], it["out"]),
                        {k2: (v if k2 != "outs" else it) for k2, v in r.items()})
            if not rejected:
                raise vlib.HarnessError("SecPermTrace rejected the records without naming one")
        elif not res.ok:
            raise vlib.HarnessError("SecPermTrace did not accept the records: %s\n%s" % (res.violated, res.out[-2000:]))
        ev.tlc(res, "SecPermTrace.cfg")
        validated = total - rejected
        denied = secfamily.total(summs, "denied")
        ev.cov(evaluations=ss["rows"] + total, distinct_nontrivial=ss["distinct"] if shim_bound else len({(it["mode"], r["alg"], r["p"]) for r in rows for it in r["outs"] if it["out"] == "ErrPermissionDenied"}),
               traces_validated_against_impl=(ncases if shim_bound else 0) + validated,
               rule="matrix: one case = one (/P value, revision) state of SecPerm.tla carrying a row per command mode (%d modes), every row "
                    "(x /V,/R pairings incl. V1/R3 and V2/R2) replayed into the real hasNeededPermissions, the function the read path calls; non-trivial = distinct (mode, "
                    "revision, value of the needed bits) combinations of classified modes. End to end: one record = one real read of a "
                    "really encrypted document for one command mode and credential pair, or one real file operation; validated by TLC" % len(c["rows"]),
               exhaustive=True, matrix_rows=ss["rows"], matrix_denied=ss["denied"], in_package_binding=shim_bound, e2e_password_variants_refused_at_encryption=secfamily.total(summs, "skipped_variants"),
               e2e_documents=ndocs, e2e_reads=secfamily.total(summs, "reads"), e2e_file_operations=secfamily.total(summs, "apis"),
               e2e_permission_denied=denied, e2e_records_validated=validated)
        if denied == 0 or (shim_bound and ss["denied"] == 0):
            raise vlib.HarnessError("vacuous run: no denial observed")
        if not shim_bound:
            ev.assume("binding (i) skipped in this run: the in-package shim does not compile against this tree (hasNeededPermissions(mode, *model.Enc) "
                      "missing or changed); verdicts come from the end-to-end records only")
        ev.assume("Sec!NeedsTable is a reference snapshot of today's perm table (pkg/pdfcpu/crypto.go); command modes outside the table need no rights",
                  "documents pdfcpu does not write itself: /V 2 /R 3 and /V 2 /R 2 by rewriting /V, /R of an RC4-128 resp. RC4-40 encryption dictionary "
                  "(identical key derivation), /V 1 /R 3 by the harness' own RC4/MD5 implementation of ISO 32000-1 algorithms 1, 2, 3, 5",
                  "user passwords consisting of white space only are included where the algorithm accepts them at encryption time",
                  "a granted operation 'proceeds' if it does not fail with a permission / password / encryption-state error; it may fail for reasons "
                  "of its own (e.g. no bookmarks to export)")
    finally:
        shutil.rmtree(d, ignore_errors=True)
