"""C06 - batch installs of fonts and certificates are all-or-nothing.
harness/cmd/txn runs the REAL installers (font.InstallTrueTypeFont, font.InstallTrueTypeCollection with synthesized
collections, api.InstallFonts batches of 1-3 inputs, api.ImportCertificates) with and without pre-existing targets and
with an invalid member discovered mid-batch, injecting an EIO at every file-system call (thorough: every call, plus pairs
of faults on two representatives; quick: every non-write call + seeded writes). Real directory trees decide: success =>
every target published and no staging/backup leftovers; failure => tree identical to before (or, if a rollback step itself
failed, the error names the retained backup). The traces are replayed through spec/FSTrace.tla (POSIX binding,
model/real agreement)."""
import vlib, fsfamily

META = {
    "level": "fault_enumeration",
    "text": "Single-fault (and for two representatives double-fault) enumeration over every file-system call of the real batch installers "
            "across batch shapes (1-3 inputs, pre-existing subsets, invalid member), judged on real directory trees; traces validated by "
            "TLC against the FSTrace.tla monitor.",
    "note": "Trusted: instrumented os package, tree comparison, synthesized fonts/collections/certificates. Cheat-sheet generation is not "
            "enumerated (65k glyph cells per run).",
    "technique": "fault enumeration on real installers via an instrumented os package + TLC trace validation against a TLA+ file-system monitor",
    "design_ref": "DESIGN.md §5 C06",
}


def run(ctx):
    rows, summ, st, sample = fsfamily.run_mode(ctx, "c06", binary="txn")
    ev = ctx.ev
    pts = {(r["op"], r["k"], r["k2"]) for r in rows}
    ev.cov(evaluations=len(rows), distinct_nontrivial=len(pts),
           rule="one evaluation = one real installer run in a fresh sandbox with an EIO injected at call k (and k2 for double faults); "
                "distinct (scenario, k, k2) counted; all take the fault",
           states=st["states"], transitions=st["transitions"], traces_validated_against_impl=st["traces"],
           scenarios=summ["scenarios"], skipped=summ.get("skipped", []), monitor_binding_drift=st["drift"], batch_protocol_inclusion=st.get("txn"),
           exhaustive=(ctx.tier == "thorough"))
    for r in rows[:3]:
        ev.sample({k: r[k] for k in ("op", "k", "k2", "at", "outcome", "diff", "verdict")})
    ev.sample(sample)
    ev.assume("single EIO faults (pairs only for two representative scenarios in the thorough tier)",
              "an entry whose own removal was made to fail is not counted as a leftover")
