"""C14 - dates written by pdfcpu are valid and read back to the same instant.
G: TLC generates local times with offsets (spec/LexDate.tla): years x boundary days (1 Jan, 28/29 Feb, 1 Mar, 30 Jun, 15 Oct,
   31 Dec) x offset classes x seeded times of day, every day of selected years, and every whole-minute offset -23:59..+23:59
   for one date.  Quick: boundary years; thorough: every year 0..9999.
R: harness/cmd/lex c14 builds the time.Time, calls the real types.DateString and the strict types.DateTime(s, false) and
   records the written bytes and the parsed fields / zone offset.
V: TLC judges every record (spec/LexDateTrace.tla): Lex!ValidISODate(bytes), the string denotes the input fields, parsing
   accepted, same instant (civil-day arithmetic on (day, second) pairs), same offset."""
import os, shutil
import vlib, lexfamily as lf

META = {
    "level": "model_checking",
    "text": "TLC generates times over the years 0..9999 (quick: boundary years) x boundary days x offset classes (and all whole-minute "
            "offsets for one date, all days of selected years); the real DateString and strict DateTime are run on each and TLC judges the "
            "recorded string and parsed time against Lex.tla's ValidISODate / DateFields / Instant.",
    "note": "Trusted: Lex.tla's date grammar (ISO 32000-1 7.9.4, closing apostrophe optional) and proleptic Gregorian day arithmetic "
            "(cross-checked by design invariants in LexDate.tla); Go's time.Date/FixedZone to build the input and to read the parsed fields.",
    "technique": "TLA+ reference date grammar and calendar arithmetic (Lex.tla); TLC-generated times replayed into the real functions; TLC validates every record",
    "design_ref": "DESIGN.md §5 C14",
}


def _key(b):
    """Class of a failing record: the failed requirements plus the input classes that matter (sign of the offset, named zone,
    later call of a history, end-to-end carrier)."""
    r = b["rec"]
    cls = ["negative-offset" if r["off"] < 0 else "non-negative-offset"]
    if r["off"] % 60 != 0:
        cls.append("offset-with-minutes")
    if r["zn"]:
        cls.append("named-zone")
    if r["pos"] > 1:
        cls.append("later-call-of-history")
    if r["kind"] == "e2e":
        cls.append("attachment")
    return "%s|%s" % (",".join(sorted(b["why"])), "+".join(cls))


def run(ctx):
    ev = ctx.ev
    binf = lf.build_async("lex")
    d = vlib.scratch_dir()
    try:
        jobs = [("boundary", "LexDate_gen.cfg", dict(Seed=str(ctx.seed)))]
        if not ctx.quick:
            jobs[0] = ("boundary", "LexDate_gen.cfg", dict(Seed=str(ctx.seed), EdgeTods="TRUE", FullYears="{1900, 2000, 2023, 2024}",
                                                           E2EYears="{0, 1, 999, 1000, 2024, 9999}", HistLen="3"))
            jobs.append(("histories20", "LexDate_gen.cfg", dict(Seed=str(ctx.seed), YearLo="1", YearHi="0", ExtraYears="{}", AllOffs="FALSE",
                                                                 HistLen="2", HistN="20")))
            jobs += [("years-%d" % lo, "LexDate_thorough.cfg", dict(Seed=str(ctx.seed), YearLo=str(lo), YearHi=str(lo + 499)))
                     for lo in range(0, 10000, 500)]

        def one(job):
            name, cfg, consts = job
            cases = os.path.join(d, name + ".cases")
            rec = os.path.join(d, name + ".rec")
            gres, n = lf.gen("LexDate", cfg, cases, consts=consts, seed=ctx.seed)
            p = vlib.sh([binf.result(), "c14", "--in", cases, "--out", rec], timeout=1800)
            summ = lf.summary(p.stdout)
            if summ["cases"] != n:
                raise vlib.HarnessError("lex c14 consumed %d of %d cases" % (summ["cases"], n))
            jres, bad, _ = lf.judge("LexDateTrace", "LexTrace.cfg", rec)
            if jres.distinct != summ["records"] + 1:
                raise vlib.HarnessError("LexDateTrace stepped through %d of %d records" % (jres.distinct - 1, summ["records"]))
            smp = []
            if name == "boundary":
                rows = vlib.read_ndjson(rec)
                smp = rows[:1] + [r for r in rows if r["kind"] == "e2e"][:1] + [r for r in rows if r["pos"] == 2][:1]
            os.unlink(cases)
            os.unlink(rec)
            return name, gres, jres, n, summ, bad, smp

        classes = lf.Classes()
        tot = dict(cases=0, distinct=0, records=0, e2e=0, histories=0)
        for name, gres, jres, n, summ, bad, smp in lf.parallel(one, jobs):
            ev.tlc(gres, "LexDate:" + name)
            ev.tlc(jres, "LexDateTrace:" + name)
            tot["cases"] += n
            tot["distinct"] += summ["distinct"]
            tot["records"] += summ["records"]
            tot["e2e"] += summ["e2e"]
            tot["histories"] += summ["histories"]
            for s in smp:
                ev.sample(s)
            for b in bad:
                r = b["rec"]
                inp = "%04d-%02d-%02d %02d:%02d:%02d %+03d:%02d" % (r["y"], r["mo"], r["d"], r["h"], r["mi"], r["s"],
                                                                     (abs(r["off"]) // 60) * (-1 if r["off"] < 0 else 1), abs(r["off"]) % 60)
                if r["zn"]:
                    inp += " zone %r" % r["zn"]
                if r["hid"]:
                    inp += " (call %d of a history in one process)" % r["pos"]
                classes.add(_key(b), "%s: time %s %s, read back -> %s" % (
                    ",".join(sorted(b["why"])), inp,
                    ("stored as attachment modification date (%s)" % r["msg"]) if r["kind"] == "e2e" else "written as %r" % lf.b2s(r["str"]),
                    ("%04d-%02d-%02d %02d:%02d:%02d offset %ds" % (r["py"], r["pmo"], r["pd"], r["ph"], r["pmi"], r["ps"], r["poff"])) if r["ok"] else "rejected"),
                    b, short=inp)
        classes.report(ctx)
        ev.cov(evaluations=tot["cases"], distinct_nontrivial=tot["distinct"], traces_validated_against_impl=tot["records"],
               e2e_records=tot["e2e"], histories=tot["histories"],
               rule="every state of LexDate.tla (jobs: %s) - a (year, day, offset, time of day, zone name) call, a boundary instant in an offset, or a history of "
                    "calls made in one fresh process - is run through the real DateString and strict DateTime (marked calls also as attachment modification "
                    "date through a written PDF and ListAttachments) "
                    "DateTime and judged by TLC (LexDateTrace!Fails); distinct = distinct (year, day, offset) triples (every case has a non-trivial "
                    "seeded time of day or a day-boundary time)" % ", ".join(j[0] for j in jobs),
               exhaustive=not ctx.quick)
        ev.assume("expected behaviour comes from spec/Lex.tla (ValidISODate, DateFields, Instant); the closing apostrophe after the offset minutes is accepted "
                  "(ISO 32000-1 requires it, ISO 32000-2 drops it)",
                  "offsets are whole minutes in -23:59..+23:59; seconds resolution",
                  "harness built with go1.26.8")
    finally:
        shutil.rmtree(d, ignore_errors=True)
