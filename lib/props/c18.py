"""C18 - every written PDF has an exact, self-consistent file structure.
Design: spec/LayoutWriter.tla (writer offset bookkeeping) is model checked against Layout!WellFormedFile.
Binding (code -> TLC): harness/cmd/cstruct layout runs real writing operations under every writer configuration,
parses each output with the strict non-repairing parser harness/lib/strictpdf into a layout record; TLC judges every
record with Layout!Defects (spec/LayoutTrace.tla)."""
import json, os, shutil
import vlib

META = {
    "level": "model_checking",
    "text": "TLC model checks the writer's offset bookkeeping (LayoutWriter.tla) against Layout!WellFormedFile for all small object "
            "sets, write orders and {xref table, xref stream} x {object streams on/off}; outputs of real pdfcpu writing operations "
            "(optimize, rotate, watermark, keywords, attachments, merge, trim, bookmarks, annotations full and incremental, n-up, two writes of one context under different xref/object stream settings, "
            "insert, properties, encrypt) on corpus and generated files under every writer configuration (xref stream, object "
            "stream, LF/CR/CRLF, encryption) are parsed by an independent strict parser and every layout record is judged by TLC "
            "with the same WellFormedFile.",
    "note": "Trusted: the strict parser harness/lib/strictpdf (projection), Layout.tla as the meaning of 'well-formed'. Members of "
            "object streams in encrypted outputs are checked for container/index only (content not decrypted). A lone CR after the "
            "stream keyword is tolerated unless the data begins with LF.",
    "technique": "TLA+ layout predicate (Layout.tla): TLC design check of a writer state machine + TLC validation of layout records "
                 "projected from real outputs by a strict non-repairing parser",
    "design_ref": "DESIGN.md §5 C18",
}

CHUNK = 400


def _summary(p):
    return json.loads([l for l in p.stdout.splitlines() if l.startswith("SUMMARY ")][-1][8:])


def _slim(r):
    """A record cut down for the evidence samples."""
    k = 24
    s = {f: r[f] for f in ("id", "header", "tail", "startxref", "size", "secs", "bytes", "encrypted")}
    for f in ("et", "ea", "eb", "fn"):
        s[f] = r[f][:k]
    s["comp"] = r["comp"][:3]
    s["streams"] = r["streams"][:3]
    s["objects"] = len(r["et"])
    return s


def run(ctx):
    ev = ctx.ev
    binp = vlib.build_bin("cstruct")
    d = vlib.scratch_dir()
    try:
        # ---- design: the writer state machine satisfies WellFormedFile
        cfg = "LayoutWriter_quick.cfg" if ctx.quick else "LayoutWriter_thorough.cfg"
        res = vlib.run_tlc("LayoutWriter", cfg, workers=min(8, vlib.NCPU), timeout=1500)
        if res.violated or not res.ok:
            raise vlib.HarnessError("design model LayoutWriter violates %s:\n%s" % (res.violated, res.error_state))
        ev.tlc(res, cfg)
        if not ctx.quick:
            # the model must be able to tell: object streams are reachable, and pdfcpu's /Size rule is rejected by the predicate
            r2 = vlib.run_tlc("LayoutWriter", "LayoutWriter_vacuity.cfg", workers=4, timeout=600)
            if r2.violated != "SomeCompressed":
                raise vlib.HarnessError("LayoutWriter: no finished file with compressed objects is reachable")
            r3 = vlib.run_tlc("LayoutWriter", "LayoutWriter_pdfcpusize.cfg", workers=4, timeout=600)
            if r3.violated != "WrittenFileWellFormed":
                raise vlib.HarnessError("Layout!WellFormedFile accepts /Size = table size with dropped objects")
            ev.cov(design_controls="vacuity (compressed reachable) and SizeRule=table rejected: ok")

        # ---- binding: real outputs -> strict parser -> records -> TLC
        rec = os.path.join(d, "records.ndjson")
        limit = 175 if ctx.quick else 4200
        p = vlib.sh([binp, "layout", "--out", rec, "--tier", ctx.tier, "--seed", str(ctx.seed), "--work", os.path.join(d, "w"),
                     "--limit", str(limit)], timeout=3000)
        summ = _summary(p)
        shutil.rmtree(os.path.join(d, "w"), ignore_errors=True)
        if summ.get("records", 0) == 0:
            raise vlib.HarnessError("no output was produced: " + p.stdout[-1500:])
        judged = 0
        nontrivial = set()
        nrec = 0
        defects = []
        chunk = []
        byid = {}

        def flush():
            nonlocal judged
            if not chunk:
                return
            cf = os.path.join(d, "chunk.ndjson")
            with open(cf, "w") as fh:
                fh.writelines(chunk)
            df = os.path.join(d, "defects.ndjson")
            if os.path.exists(df):
                os.unlink(df)
            r = vlib.run_tlc("LayoutTrace", "LayoutTrace.cfg", files=[(cf, "records.ndjson")], workers=1, timeout=1800,
                             heap="6g", payloads={"DEFECT": df})
            if not r.ok:
                raise vlib.HarnessError("LayoutTrace did not accept the records: %s\n%s" % (r.violated, r.out[-2000:]))
            if r.distinct != len(chunk) + 1:
                raise vlib.HarnessError("LayoutTrace judged %d of %d records" % (r.distinct - 1, len(chunk)))
            ev.tlc(r, "LayoutTrace.cfg")
            judged += len(chunk)
            if os.path.exists(df):
                defects.extend(vlib.read_ndjson(df))
            chunk.clear()

        with open(rec) as fh:
            for line in fh:
                r = json.loads(line)
                nrec += 1
                byid[r["id"]] = {"op": r["op"], "cfg": r["cfg"], "input": r["input"], "diag": r["diag"], "nsecs": len(r["secs"]),
                                 "size": r["size"], "objects": len(r["et"])}
                feats = []
                if r["comp"]:
                    feats.append("objstm")
                if len(r["secs"]) > 1:
                    feats.append("incr")
                if r["encrypted"]:
                    feats.append("enc")
                if any(t == 0 for t in r["et"][1:]):
                    feats.append("free")
                if feats:
                    nontrivial.add(r["id"])
                if nrec <= 2 or (feats and len(ev.d["coverage"]["samples"]) < 4 and "incr" in feats):
                    ev.sample(_slim(r))
                chunk.append(line)
                if len(chunk) >= CHUNK:
                    flush()
        flush()
        if judged != summ["records"]:
            raise vlib.HarnessError("judged %d of %d records" % (judged, summ["records"]))

        seen = {}
        fpath = rec + ".failed"
        if os.path.exists(fpath):
            for fl in vlib.read_ndjson(fpath):
                # the same context was written successfully just before: the writer left it in a state it cannot write again
                seen.setdefault("rewrite-failed", []).append(fl["id"])
                byid[fl["id"]] = {"op": "rewrite", "cfg": {}, "input": "", "diag": [fl["err"][:200]], "nsecs": 1, "size": -1, "objects": -1}
        for df in defects:
            info = byid[df["id"]]
            for name in sorted(df["defects"]):
                # defects of the xref bookkeeping depend on whether the file is an incremental update; the others do not
                sectional = name.startswith(("freelist", "size", "prev", "startxref", "section", "xrefstream"))
                key = name + ("|incr" if sectional and info["nsecs"] > 1 else "")
                seen.setdefault(key, []).append(df["id"])
        for key, ids in sorted(seen.items()):
            info = byid[ids[0]]
            ctx.report(key, "file structure defect '%s' in %d output(s), first: %s (/Size %d, %d xref entries, diag %s)" % (
                key, len(ids), ids[0], info["size"], info["objects"], info["diag"][:3]),
                {"defect": key, "outputs": ids[:40], "first": info})
        ev.cov(evaluations=nrec, distinct_nontrivial=len(nontrivial), traces_validated_against_impl=judged,
               rule="one case = one output file of a real operation (op x input x writer configuration; product space of %d, %s), "
                    "projected by the strict parser and judged by TLC; non-trivial = distinct outputs that have compressed "
                    "entries, free entries, several xref sections or encryption" % (
                        summ["space"], "seeded sample: every (generated input, operation) pair with rotated configurations, then random fill" if summ["jobs"] < summ["space"] else "all of it"),
               exhaustive=False, generator=summ, defects_found={k: len(v) for k, v in seen.items()})
        ev.assume("the strict parser harness/lib/strictpdf reports faithfully what is at each stated offset (trusted projection)",
                  "object stream members of encrypted outputs are not decrypted: only container, /N and index are checked",
                  "a lone CR after the stream keyword (conf.Eol = CR) is tolerated unless the stream data begins with LF")
    finally:
        shutil.rmtree(d, ignore_errors=True)
