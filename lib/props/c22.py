"""C22 - encrypting and then decrypting a document changes nothing.
G: TLC enumerates the cases of spec/SecRT.tla (algorithm / key length x password classes of user and owner password x
   permission sets x source documents) with the outcomes the Sec.tla model expects for encrypt, open with either or both
   passwords, decrypt with either password, and the reported permissions; RoundTrip checks that the model promises what
   the property states.
R: harness/cmd/sec c22 replays every case through the real EncryptFile / ReadAndValidate / GetPermissionsFile /
   DecryptFile and compares error classes, a canonical dump of all strings and decoded streams reachable from the
   catalog and info dict, the page projection and the reported permissions with the original document."""
import collections, json, os, shutil
import vlib, secfamily

META = {
    "level": "exploration",
    "text": "TLC enumerates algorithm x password-class x permission-set x document cases with the expected outcomes of the Sec.tla model; "
            "each case is replayed through the real encrypt / open / list-permissions / decrypt API on generated documents (strings in "
            "nested arrays and dictionaries, empty and binary strings, hex strings, filtered and empty streams, info dict, annotations, form "
            "fields, names tree, embedded file, XMP; classic and object-stream layout; PDF 2.0 for revision 6) and corpus files, comparing a "
            "canonical dump of decoded strings and streams, the page projection and the permissions with the original.",
    "note": "Trusted: the canonical dump (entries pdfcpu maintains itself - Producer, dates, filters, lengths - are excluded), proj, the Go "
            "replayer. Passwords are class representatives. The byte-level cipher primitives are exercised only through whole documents. "
            "Documents are read back with pdfcpu's own reader (no independent decryptor).",
    "technique": "TLC-enumerated cases with model-derived expectations (Sec.tla/SecRT.tla) replayed into the real encrypt/open/decrypt API",
    "design_ref": "DESIGN.md §5 C22",
}


def run(ctx):
    ev = ctx.ev
    binp = vlib.build_bin("sec")
    d = vlib.scratch_dir()
    try:
        cfg = "SecRT_quick.cfg" if ctx.quick else "SecRT_thorough.cfg"
        cases = os.path.join(d, "cases.ndjson")
        res = vlib.run_tlc("SecRT", cfg, workers=2, timeout=1800, heap="2g", payloads={"CASE": cases})
        if res.violated:
            raise vlib.HarnessError("design model SecRT violates its own invariant %s:\n%s" % (res.violated, res.error_state))
        ev.tlc(res, cfg)
        n = res.payload_counts.get("CASE", 0)
        if n == 0:
            raise vlib.HarnessError("TLC produced no cases")
        # spread the cases over the shards in a seed-dependent order (every case is replayed)
        rows = vlib.read_ndjson(cases)
        import random
        random.Random(ctx.seed).shuffle(rows)
        vlib.write_ndjson(cases, rows)
        for r in rows[:3]:
            ev.sample(r)
        sd = os.path.join(d, "shards")
        os.makedirs(sd)
        summs, mism = secfamily.run_shards(binp, "c22", [cases] * secfamily.NPROC, sd, timeout=3000)
        if secfamily.total(summs, "cases") != n:
            raise vlib.HarnessError("replayer consumed %d of %d cases" % (secfamily.total(summs, "cases"), n))
        bykey = collections.OrderedDict()
        for m in mism:
            bykey.setdefault(m["key"], []).append(m)
        for key, ms in bykey.items():
            m = ms[0]
            c = m["case"]
            ctx.report(key, "%s [%s, user password class %s, owner %s, P=%d, document %s]: expected %s, real code gave %s (%d occurrences)" % (
                m["what"], c["alg"], c["u"], c["o"], c["p"], c["doc"], m["want"], str(m["got"])[:300], len(ms)), m)
        ev.cov(evaluations=secfamily.total(summs, "checks"), distinct_nontrivial=secfamily.total(summs, "nontrivial"),
               rule="one case = one state of SecRT.tla: (algorithm, user password class, owner password class, permission bits, document); every "
                    "case is replayed (encrypt, 3 opens, 3 permission listings, 2 decrypts, each compared with the original); non-trivial = distinct "
                    "(algorithm, password classes, /P) combinations whose encryption succeeded and was then checked",
               exhaustive=True, cases=n, mismatching_checks=len(mism), finding_keys=len(bykey))
        ev.assume("expected outcomes come from spec/Sec.tla via spec/SecRT.tla (Expect); the model promises success for every password class",
                  "equivalence = equal canonical dump (decoded string bytes, decoded stream content hashes, structure) + equal page projection; "
                  "Producer/ModDate/CreationDate, stream filters and lengths are excluded",
                  "corpus documents are not combined with revision 6 (their header version is not 2.0)")
    finally:
        shutil.rmtree(d, ignore_errors=True)
