"""C31 - page selections mean exactly what the syntax says.
G: TLC enumerates (page count, expression) states of spec/Sel.tla and prints each as a JSON case with the
   expected set / remaining set / collection list.  R: harness/cmd/c31 replays every case into the real
   api functions.  V: accept/reject decisions of the real parser on random strings are validated by TLC
   against SelSyntax!InSyntax (spec/SelTrace.tla)."""
import json, os, shutil
import vlib

META = {
    "level": "model_checking",
    "text": "TLC enumerates every (page count, expression) state of the Sel.tla reference model within the bounds; every state is "
            "replayed into the real selection functions and compared (sets, removal complement, collection lists, range); "
            "accept/reject decisions of the real parser on random strings are validated by TLC against the grammar recogniser.",
    "note": "Trusted: Sel.tla's Denote/Step/CStep as the meaning of the syntax; the Go replayer's comparison; go1.26.8 instead of go1.25.0.",
    "technique": "TLA+ reference model (Sel.tla) enumerated by TLC, behaviours replayed into the real API + TLC validation of recorded parser decisions",
    "design_ref": "DESIGN.md §5 C31",
}


def run(ctx):
    ev = ctx.ev
    binp = vlib.build_bin("c31")
    d = vlib.scratch_dir()
    try:
        cfgs = [("Sel_quick.cfg", None)] if ctx.quick else [("Sel_wide.cfg", None), ("Sel_big.cfg", None), ("Sel_thorough3.cfg", None)]
        total_cases = 0
        nontrivial = 0
        for cfg, consts in cfgs:
            cases = os.path.join(d, "cases.ndjson")
            res = vlib.run_tlc("Sel", cfg, workers=min(8, vlib.NCPU), timeout=3000, heap="12g", payloads={"CASE": cases})
            if res.violated:
                raise vlib.HarnessError("design model Sel violates its own invariant %s:\n%s" % (res.violated, res.error_state))
            ev.tlc(res, cfg)
            n = res.payload_counts.get("CASE", 0)
            if cfg == cfgs[0][0] and n:
                with open(cases) as fh:
                    for _ in range(3):
                        ev.sample(json.loads(fh.readline()))
            if n == 0:
                raise vlib.HarnessError("TLC produced no cases for " + cfg)
            out = os.path.join(d, "mism.ndjson")
            p = vlib.sh([binp, "replay", "--in", cases, "--out", out], timeout=3000)
            summ = json.loads([l for l in p.stdout.splitlines() if l.startswith("SUMMARY ")][-1][8:])
            if summ["cases"] != n:
                raise vlib.HarnessError("replayer consumed %d of %d cases" % (summ["cases"], n))
            total_cases += n
            nontrivial += summ["nontrivial"]
            for m in vlib.read_ndjson(out):
                expr = ",".join(m["case"]["sel"])
                ctx.report("%s|pc=%d|%s" % (m["what"].split(":")[0], m["case"]["pc"], expr),
                           "%s: pc=%d expr=%r expected set=%s list=%s got=%s" % (
                               m["what"], m["case"]["pc"], expr, m["case"]["set"], m["case"]["list"], m["got"]), m)
        # history independence: page counts and expressions whose textual concatenations collide (1 + "2-9" / 12 + "-9"),
        # evaluated repeatedly in one process in different orders
        cases = os.path.join(d, "hcases.ndjson")
        res = vlib.run_tlc("Sel", "Sel_hist.cfg", workers=min(8, vlib.NCPU), timeout=1200, heap="8g", payloads={"CASE": cases})
        if res.violated:
            raise vlib.HarnessError("design model Sel violates its own invariant %s (Sel_hist.cfg)" % res.violated)
        ev.tlc(res, "Sel_hist.cfg")
        out = os.path.join(d, "hmism.ndjson")
        p = vlib.sh([binp, "history", "--in", cases, "--out", out, "--seed", str(ctx.seed), "--passes", "4" if ctx.quick else "8"], timeout=3000)
        hsumm = json.loads([l for l in p.stdout.splitlines() if l.startswith("SUMMARY ")][-1][8:])
        if hsumm["cases"] != res.payload_counts.get("CASE", 0) or hsumm["cases"] == 0:
            raise vlib.HarnessError("history replayer consumed %d of %d cases" % (hsumm["cases"], res.payload_counts.get("CASE", 0)))
        ev.cov(history_evaluations=hsumm["evaluations"], history_passes=hsumm["passes"], history_cases=hsumm["cases"])
        for m in vlib.read_ndjson(out):
            expr = ",".join(m["case"].get("sel") or [])
            ctx.report("%s|pc=%d|%s" % (m["what"].split(":")[1].strip() if ":" in m["what"] else m["what"], m["case"]["pc"], expr),
                       "%s: pc=%d expr=%r expected set=%s got=%s" % (m["what"], m["case"]["pc"], expr, m["case"].get("set"), m["got"]), m)
        # syntax: code -> TLC
        rec = os.path.join(d, "records.ndjson")
        nstr = 3000 if ctx.quick else 40000
        p = vlib.sh([binp, "syntax", "--out", rec, "--n", str(nstr), "--seed", str(ctx.seed)])
        rows = vlib.read_ndjson(rec)
        validated = 0
        while True:
            res = vlib.run_tlc("SelTrace", "SelTrace.cfg", files=[rec], workers=1, timeout=1800)
            if res.violated == "RecordOK":
                import re
                k = int(re.search(r"l = (\d+)", res.error_state or res.out[res.out.find("RecordOK"):]).group(1))
                r = rows[k - 1]
                ctx.report("syntax|%s" % r["s"], "ParsePageSelection(%r) accepted=%s but the syntax says %s" % (r["s"], r["ok"], not r["ok"]), r)
                validated += k
                rows = rows[k:]
                if not rows or len(ctx.violations) > 30:
                    break
                vlib.write_ndjson(rec, rows)
                continue
            if not res.ok:
                raise vlib.HarnessError("SelTrace did not accept the records: %s\n%s" % (res.violated, res.out[-2000:]))
            validated += len(rows)
            ev.tlc(res, "SelTrace.cfg")
            break
        ev.sample(vlib.read_ndjson(rec)[0] if os.path.getsize(rec) else {})
        ev.cov(evaluations=total_cases + nstr, distinct_nontrivial=nontrivial,
               traces_validated_against_impl=total_cases + validated,
               rule="every reachable state (page count, term sequence) of Sel.tla within the cfg bounds is one case, replayed into the real "
                    "ParsePageSelection/PagesForPageSelection/RemainingPagesForPageRemoval/PagesForPageCollection; non-trivial = distinct "
                    "expressions selecting a non-empty proper subset of the pages; plus %d random strings whose accept/reject decision is "
                    "validated by TLC against SelSyntax!InSyntax" % nstr,
               exhaustive=True,
               replayed_cases=total_cases, syntax_strings=nstr)
        ev.assume("expected results come from spec/Sel.tla (Denote/Step/CStep); overflow terms (numbers beyond the page count, l-# below page 1) denote their pages clipped to 1..pageCount",
                  "harness built with go1.26.8 (std overlays are refused for the baseline toolchain inside GOMODCACHE)")
    finally:
        shutil.rmtree(d, ignore_errors=True)
