"""C27 - tampering with signed bytes is never reported as a valid signature.
G: TLC enumerates the /Contents and /ByteRange edit families (spec/SigEdits.tla).  The Go command harness/cmd/sig
   flips one bit at every (thorough, files <= 60 KB) / a seeded sample (quick) of the offsets inside the signed ranges of
   every signature of the real signed samples and of five synthetic, genuinely valid documents, applies the edit
   families, and runs the real api.ValidateSignaturesRaw on every variant.
V: TLC judges every record against spec/SigTrace.tla (Literal + Detect).
H: TLC enumerates validation histories (spec/SigHist.tla: profile x size class of the signed ranges x sequences of genuine and
   tampered equal-length documents); harness/cmd/sig validates the files of a history consecutively in one process; TLC
   (spec/SigHistTrace.tla) judges every step on its own: a tampered file is never valid whatever was validated before."""
import json, os, re, shutil
import vlib

META = {
    "level": "exploration",
    "text": "One bit is flipped at every offset inside the signed byte ranges (exhaustive for documents <= 60 KB in thorough, "
            "seeded sample plus all range boundaries in quick) of every signature of the 8 signed samples and of 5 synthetic "
            "documents whose signatures really validate (private PKI, CRL served on 127.0.0.1); hex digits of the signature value "
            "and /ByteRange values are edited by families enumerated by TLC. The real api.ValidateSignaturesRaw verdict of every "
            "variant is judged by TLC: never valid / unmodified, and - for signatures that react to tampering at all - different "
            "from the untouched verdict at every covered offset.",
    "note": "Trusted: the harness's own CMS/PDF producer and private PKI (synthetic documents), the location of the signature "
            "octets / digest inside the DER value (found with pdfcpu's pkcs7.Parse + byte search), SigTrace.tla. The sample "
            "certificates are expired and the sandbox is offline, so the samples' untouched status is 'unknown'; only the synthetic "
            "documents exercise 'valid'. One bit per offset, not all eight.",
    "technique": "exhaustive/sampled single-bit tampering of real signed files through the real validator, records judged by TLC against Sig.tla",
    "design_ref": "DESIGN.md §5 C27",
}


def _idx(res):
    """index of the record the violated invariant was evaluated on (a violation in the initial state has no 'State n:' header)"""
    m = re.search(r"l = (\d+)", res.error_state or "")
    return int(m.group(1)) if m else 1


def _summary(p):
    return json.loads([l for l in p.stdout.splitlines() if l.startswith("SUMMARY ")][-1][8:])


def run(ctx):
    ev = ctx.ev
    binp = vlib.build_bin("sig")
    d = vlib.scratch_dir()
    try:
        edits = os.path.join(d, "edits.ndjson")
        res = vlib.run_tlc("SigEdits", "SigEdits_quick.cfg" if ctx.quick else "SigEdits_thorough.cfg", workers=1, timeout=300,
                           payloads={"EDIT": edits}, seed=ctx.seed)
        if res.violated:
            raise vlib.HarnessError("SigEdits violates its own invariant %s" % res.violated)
        nedits = res.payload_counts.get("EDIT", 0)
        if nedits == 0:
            raise vlib.HarnessError("TLC produced no edits")
        rec = os.path.join(d, "records.ndjson")
        workers = max(2, min(12, vlib.NCPU - 2))
        p = vlib.sh([binp, "c27", "--tier", ctx.tier, "--seed", str(ctx.seed), "--edits", edits, "--out", rec,
                     "--workers", str(workers)], timeout=3000, env=dict(os.environ, TMPDIR=d))
        summ = _summary(p)
        rows = vlib.read_ndjson(rec)
        if len(rows) != summ["records"] or not rows:
            raise vlib.HarnessError("record count mismatch")
        all_rows = rows
        validated = 0
        dropped = 0
        while True:
            res = vlib.run_tlc("SigTrace", "SigTrace.cfg", files=[rec], workers=1, timeout=2400, heap="8g")
            if res.violated in ("RecordOK", "DetectOK"):
                k = _idx(res)
                r = rows[k - 1]
                what = ("tampered %s of %s [%s] at offset %d (%s) -> status=%s reason=%s docModified=%s" %
                        (r["kind"], r["doc"], r["sig"], r["off"], r["region"], r["status"], r["reason"], r["docmod"]))
                same = lambda x: (x["doc"], x["sig"], x["kind"], x["region"]) == (r["doc"], r["sig"], r["kind"], r["region"])
                n_same = sum(1 for x in rows if same(x))
                if res.violated == "RecordOK":
                    ctx.report("claim|%s|%s|%s|%s" % (r["doc"], r["sig"], r["kind"], r["region"]),
                               "reported valid/unmodified: %s  [first of %d records of this signature and kind]" % (what, n_same), r)
                else:
                    ctx.report("undetected|%s|%s|%s" % (r["doc"], r["sig"], r["kind"]),
                               "verdict identical to the untouched document although probes inside the same ranges are rejected: "
                               "%s  [first of %d records of this signature and kind]" % (what, n_same), r)
                validated += 1
                # the remaining records of the same signature and kind are not judged again (one report per key)
                dropped += n_same - 1
                rows = [x for x in rows if not same(x)]
                if not rows or len(ctx.violations) >= 12:
                    break
                vlib.write_ndjson(rec, rows)
                continue
            if res.violated in ("GeomOK", "VacuityOK"):
                k = _idx(res)
                raise vlib.HarnessError("%s failed on record %s" % (res.violated, json.dumps(rows[k - 1])))
            if not res.ok:
                raise vlib.HarnessError("SigTrace did not accept the records: %s\n%s" % (res.violated, res.out[-2000:]))
            validated += len(rows)
            ev.tlc(res, "SigTrace.cfg")
            break
        # ---- validation histories: consecutive validations in ONE process (genuine / tampered files, small and > 1 MiB) ----
        hcases = os.path.join(d, "hist.ndjson")
        hcfg = "SigHist_quick.cfg" if ctx.quick else "SigHist_thorough.cfg"
        res = vlib.run_tlc("SigHist", hcfg, workers=min(4, vlib.NCPU), timeout=600, payloads={"HIST": hcases}, seed=ctx.seed)
        if res.violated:
            raise vlib.HarnessError("SigHist violates its own invariant %s" % res.violated)
        nhist = res.payload_counts.get("HIST", 0)
        if nhist == 0:
            raise vlib.HarnessError("TLC produced no histories")
        hrec = os.path.join(d, "hrec", "records.ndjson")
        os.makedirs(os.path.dirname(hrec))
        p = vlib.sh([binp, "c27hist", "--cases", hcases, "--out", hrec], timeout=3000, env=dict(os.environ, TMPDIR=d))
        hsumm = _summary(p)
        if hsumm["histories"] != nhist:
            raise vlib.HarnessError("history executor consumed %d of %d histories" % (hsumm["histories"], nhist))
        hrows = vlib.read_ndjson(hrec)
        hall = hrows
        hjudged = 0
        while True:
            res = vlib.run_tlc("SigHistTrace", "SigHistTrace.cfg", files=[hrec], workers=1, timeout=1800, heap="8g")
            if res.violated == "RecordOK":
                k = _idx(res)
                r = hrows[k - 1]
                hist = [x["step"] for x in hrows if x["hid"] == r["hid"] and x["idx"] <= r["idx"]]
                same = lambda x: (x["kind"], x["size"], x["idx"] > 1) == (r["kind"], r["size"], r["idx"] > 1) and x["tampered"]
                n_same = sum(1 for x in hrows if same(x))
                ctx.report("claim-after-history|%s|%s|%s" % (r["kind"], r["size"], "first" if r["idx"] == 1 else "later"),
                           "history %s of %s (%s signed ranges, %d signed bytes; validated immediately before in the same process: %s): the tampered file "
                           "%s (bit flipped at offset %d) is reported status=%s reason=%s docModified=%s  [first of %d tampered steps of this kind]"
                           % ("->".join(hist), r["kind"], r["size"], r["b"] + r["d"], r["prev"], r["step"], r["off"], r["status"], r["reason"],
                              r["docmod"], n_same), {"history": hist, "record": r})
                hjudged += 1
                hrows = [x for x in hrows if not same(x)]
                if not hrows or len(ctx.violations) >= 16:
                    break
                vlib.write_ndjson(hrec, hrows)
                continue
            if res.violated == "FixtureOK":
                raise vlib.HarnessError("%s failed on record %s" % (res.violated, json.dumps(hrows[_idx(res) - 1])))
            if not res.ok:
                raise vlib.HarnessError("SigHistTrace did not accept the records: %s\n%s" % (res.violated, res.out[-2000:]))
            hjudged += len(hrows)
            ev.tlc(res, "SigHistTrace.cfg")
            break
        validated += hjudged
        # non-vacuity: in every profile and size class some genuine step is reported valid
        classes = set((r["kind"], r["size"]) for r in hall)
        valid_classes = set((r["kind"], r["size"]) for r in hall if not r["tampered"] and r["status"] == "valid")
        if classes - valid_classes:
            raise vlib.HarnessError("no genuine step reported valid for %s" % sorted(classes - valid_classes))
        hist_nontrivial = set((r["kind"], r["size"], r["hid"], r["idx"]) for r in hall if r["tampered"] and r["idx"] > 1)
        ev.sample({"history": [x["step"] for x in hall if x["hid"] == hall[-1]["hid"]], "last_step": hall[-1]})
        # coverage accounting (measured)
        sens = set((r["doc"], r["sig"]) for r in all_rows if r["kind"] == "probe" and (r["status"] == "invalid" or r["docmod"] == "true"))
        sigs = set((r["doc"], r["sig"]) for r in all_rows)
        def cls(r):
            o, a, b, c, dd = r["off"], r["a"], r["b"], r["c"], r["d"]
            return "range1" if a <= o < a + b else "range2" if c <= o < c + dd else "gap" if a + b <= o < c else "beyond"
        constrained = [r for r in all_rows if (r["kind"] in ("probe", "flip", "brval") and cls(r) in ("range1", "range2"))
                       or (r["kind"] == "hexval" and r["region"] in ("sigvalue", "digest", "pad"))]
        nontrivial = set((r["doc"], r["sig"], r["kind"], r["off"], r["delta"]) for r in constrained
                         if (r["doc"], r["sig"]) in sens or r["bstatus"] == "valid" or r["bdocmod"] == "false")
        by_class = {}
        for r in all_rows:
            if r["kind"] in ("probe", "flip"):
                by_class[cls(r)] = by_class.get(cls(r), 0) + 1
        for r in (all_rows[0], next((x for x in all_rows if x["kind"] == "flip"), None),
                  next((x for x in all_rows if x["kind"] == "hexval" and x["synth"]), None),
                  next((x for x in all_rows if x["kind"] == "brval"), None)):
            if r:
                ev.sample(r)
        ev.cov(evaluations=len(all_rows) + len(hall), distinct_nontrivial=len(nontrivial) + len(hist_nontrivial),
               histories=nhist, history_steps=hsumm["steps"], history_tampered_steps=hsumm["tampered_steps"],
               history_steps_over_1MiB=hsumm["large_steps"], history_tampered_steps_after_another_validation=len(hist_nontrivial),
               history_exec_s=round(hsumm["exec_s"], 1),
               rule="one record per (document, signature, tampering): single-bit flips at offsets inside the signed ranges "
                    "(thorough: every covered offset of documents <= 60 KB, CPU-budgeted stride otherwise; quick: seeded sample + "
                    "range boundaries), hex-digit value/case edits of /Contents by region and /ByteRange value shifts from TLC "
                    "(SigEdits.tla); non-trivial = distinct constrained tamperings of a signature whose untouched verdict is valid / "
                    "unmodified or which rejects at least one probe (so that an undetected tampering would show); plus validation histories "
                    "from SigHist.tla (sequences of genuine / tampered, equal-length documents A and B per profile and size class - small and "
                    "signed ranges > 1 MiB - validated consecutively in one process; non-trivial = tampered steps preceded by another validation)",
               exhaustive=False, records_judged_by_tlc=validated, records_not_rejudged_after_a_report=dropped, edits_from_tlc=nedits,
               signatures=len(sigs), sensitive_signatures=len(sens),
               insensitive_signatures=sorted("%s[%s]" % s for s in sigs - sens),
               flips_by_class=by_class, kinds=summ["kinds"], skipped=summ["skipped"], documents=summ["docs"],
               exec_s=round(summ["exec_s"], 1))
        ev.assume("verdict observed through api.ValidateSignaturesRaw(all=true); samples validated offline, synthetic documents with "
                  "CRL fetch from the harness's server on 127.0.0.1 (allow-listed)",
                  "a signature whose probes are never rejected (insensitive: e.g. certificate cannot be parsed) is only judged by the "
                  "literal rule; it is listed under insensitive_signatures",
                  "edits of DER parts that are not cryptographically bound (versions, unsigned attributes, spare certificates) and "
                  "value-preserving edits (hex case) carry no expectation; a non-zero digit written into the padding behind the DER "
                  "object is a modification of the signature value and must be rejected")
    finally:
        shutil.rmtree(d, ignore_errors=True)
