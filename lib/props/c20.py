"""C20 - optimization never changes what a document shows; optimizing twice removes nothing further.
G: TLC draws duplicate patterns (pages x resources x {equal, near-duplicate, near-duplicate by a null entry, distinct} x resource
   dictionary layouts x unreferenced objects x optimizer switches) from spec/OptDup.tla with the class each page must show.
R: harness/cmd/cstruct optimize builds each with the raw emitter, runs the real api.OptimizeFile twice and compares per-page
   fingerprints (decoded content, boxes, rotation, content hash of every resource the content refers to), object counts and
   dangling references; the same on corpus files."""
import json, os, shutil, subprocess
import vlib

META = {
    "level": "exploration",
    "text": "TLC generates documents with deliberately duplicated fonts, images and form XObjects (equal, same bytes with a different "
            "dictionary, equal except for a null entry, distinct), shared/own/minimal/inherited resource dictionaries, duplicate "
            "content streams and unreferenced objects, under the optimizer switches; each is optimized twice by the real "
            "api.OptimizeFile. Every page must resolve to the resource class the spec says before and after, the second "
            "optimization must leave the object count unchanged, and no reference may point at a removed object. Corpus files get "
            "the same treatment under three optimizer configurations.",
    "note": "Trusted: the Go fingerprint (content hash of the resolved resource graph via pdfcpu's parsed objects), lib/proj, the "
            "strict parser for object counts. Resources used only by annotation appearance streams are covered by the "
            "dangling-reference and object-count checks, not by the per-page fingerprint.",
    "technique": "TLA+ duplicate-pattern generator with expected per-page appearance (OptDup.tla, TLC simulation) replayed into the "
                 "real optimizer; fingerprint comparison before/after and idempotence check",
    "design_ref": "DESIGN.md §5 C20",
}


def _summary(out):
    return json.loads([l for l in out.splitlines() if l.startswith("SUMMARY ")][-1][8:])


def classify(r):
    what = r["what"]
    if "object count" in what:
        cls = "not-idempotent"
    elif "references to objects it removed" in what:
        cls = "dangling-after-optimize"
    elif "shows" in what:
        cls = "shows-changed"
    else:
        cls = "error-" + what.split(" at ")[-1][:30]
    if r.get("case"):
        c = r["case"]
        if "nearnull" in c["classes"]:
            return "dedup|null-entry-equals-value"
        s = c["shape"]
        return "gen|%s|kind=%s|layout=%s|classes=%s|instm=%s|private=%s" % (
            cls, s["kind"], s["layout"], "+".join(sorted(set(c["classes"]))), s["instm"], s["private"])
    return "corpus|%s|%s" % (cls, r.get("input", "").split("|")[0])


def nontrivial(c):
    s = c["shape"]
    return s["nres"] > 1 or s["unref"] or s["dupcontent"] or s["private"] != "none"


def run(ctx):
    ev = ctx.ev
    binp = vlib.build_bin("cstruct")
    d = vlib.scratch_dir()
    try:
        cases = os.path.join(d, "cases.ndjson")
        num = 110 if ctx.quick else 5000
        res = vlib.run_tlc("OptDup", "OptDup_sim.cfg", workers=4, simulate="num=%d" % num, depth=20, seed=ctx.seed, timeout=1500,
                           payloads={"CASE": cases})
        if res.violated or not res.ok:
            raise vlib.HarnessError("OptDup generator failed: %s\n%s" % (res.violated, res.out[-1500:]))
        n = res.payload_counts.get("CASE", 0)
        if n == 0:
            raise vlib.HarnessError("TLC produced no cases")
        seen, uniq = set(), []
        with open(cases) as fh:
            for line in fh:
                if line not in seen:
                    seen.add(line)
                    uniq.append(line)
        nt = sum(1 for l in uniq if nontrivial(json.loads(l)))
        for l in uniq[:3]:
            ev.sample(json.loads(l))
        par = 2 if ctx.quick else 7
        procs = []
        for i in range(par):
            cmd = [binp, "optimize", "--out", os.path.join(d, "res%d.ndjson" % i), "--work", os.path.join(d, "w%d" % i)]
            if i == 0:
                cmd += ["--corpus", ctx.tier]          # the corpus runs in its own process
            else:
                part = os.path.join(d, "part%d.ndjson" % i)
                with open(part, "w") as fh:
                    fh.writelines(uniq[i - 1::par - 1])
                cmd += ["--in", part]
            procs.append(subprocess.Popen(cmd, stdout=subprocess.PIPE, stderr=subprocess.STDOUT, text=True))
        tot, results = {}, []
        for i, p in enumerate(procs):
            out, _ = p.communicate(timeout=3000)
            if p.returncode != 0:
                raise vlib.HarnessError("optimize replayer failed (%d): %s" % (p.returncode, out[-2000:]))
            for k, v in _summary(out).items():
                tot[k] = tot.get(k, 0) + v
            results += vlib.read_ndjson(os.path.join(d, "res%d.ndjson" % i))
        if tot.get("cases", 0) != len(uniq):
            raise vlib.HarnessError("replayer consumed %d of %d cases" % (tot.get("cases", 0), len(uniq)))
        harness = [r for r in results if r["kind"] == "harness"]
        if harness:
            raise vlib.HarnessError("concretisation disagrees with the model: %s" % json.dumps(harness[0])[:1500])
        groups = {}
        for r in results:
            groups.setdefault(classify(r), []).append(r)
        for key, rs in sorted(groups.items()):
            r = rs[0]
            ctx.report(key, "optimize violated the property (%d case(s)): %s; %s; %s" % (
                len(rs), r["what"], r["detail"][:300],
                ("shape " + json.dumps(r["case"]["shape"]) + " classes " + json.dumps(r["case"]["classes"])) if r.get("case") else "input " + r.get("input", "")), r)
        ncorp = tot.get("corpus_cases", 0)
        ev.sample({"corpus_cases": ncorp, "corpus_ok": tot.get("corpus_ok", 0), "corpus_pages_fingerprinted": tot.get("corpus_pages", 0)})
        ev.cov(evaluations=len(uniq) + ncorp, distinct_nontrivial=nt,
               rule="TLC simulation (seed %d) of OptDup.tla; duplicates removed; every distinct case is built, optimized twice and "
                    "fingerprinted; non-trivial = distinct cases with more than one resource object, duplicate content or unreferenced "
                    "objects; plus %d corpus file x optimizer configuration runs" % (ctx.seed, ncorp),
               exhaustive=False, generated=n, distinct_cases=len(uniq), replay=tot,
               violation_groups={k: len(v) for k, v in groups.items()})
        ev.assume("the expected appearance class of each page comes from OptDup!Shows; the fingerprint is computed in Go on pdfcpu's "
                  "parsed objects (canonical form of the resolved resource graph with decoded stream data)",
                  "removal of PieceInfo dictionaries and of unreferenced objects is allowed")
    finally:
        shutil.rmtree(d, ignore_errors=True)
