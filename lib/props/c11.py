"""C11 - any PDF object pdfcpu writes parses back to the same object.
G: TLC enumerates object trees (spec/LexObj.tla) over representative leaves of every lexical class (null, booleans, extreme
   integers, reals across magnitudes, adversarial names / literal strings / hex strings, references): every leaf, all
   ordered pairs (thorough: triples) of leaves as array neighbours, dictionaries over adversarial keys, and nested
   composites up to depth 2 (thorough 3); each case carries the expected read-back value Lex!Norm(tree).
R: the in-package shim harness/inpkg/pkg/pdfcpu/verif_lex_test.go builds the real types.Object, serialises it by PDFString()
   and by the object writer appendPDFObject, parses both texts with model.ParseObjectContext and compares the abstract value
   of the result with the expected normal form.
V: seeded random deeper trees (depth <= 5) are written and parsed the same way by the shim; the records are judged by TLC
   (spec/LexObjTrace.tla): parsed = Norm(original) for both paths."""
import concurrent.futures, json, os, shutil, tempfile
import vlib, lexfamily as lf

META = {
    "level": "model_checking",
    "text": "TLC enumerates PDF object trees over representatives of every lexical class (all neighbour pairs/triples, adversarial "
            "dictionary keys, nesting to the depth bound) with their expected normal form; each is built as the real object, written by "
            "PDFString() and by appendPDFObject, parsed back by the real parser and compared; random deeper trees written/parsed by the "
            "real code are validated by TLC against Lex!Norm.",
    "note": "Trusted: Lex.tla's object model and Norm; the shim's builder/abstraction (literal strings are stored via types.Escape and "
            "compared after types.Unescape, hex strings by their bytes, reals by their decimal rounded to 12 fractional digits or, from "
            "1e15, by float identity); leaves are class representatives, not all values.",
    "technique": "TLA+ object model (Lex.tla Norm) enumerated by TLC and replayed into the real writer+parser; TLC validation of recorded random round trips",
    "design_ref": "DESIGN.md §5 C11",
}

SHIM = os.path.join(vlib.ROOT, "harness", "inpkg", "pkg", "pdfcpu", "verif_lex_test.go")


def build_shim(d):
    """Compile pkg/pdfcpu's test binary with only this family's shim added (isolated from other properties' shims)."""
    sd = os.path.join(d, "shim")
    os.makedirs(sd)
    shutil.copy(SHIM, sd)
    out = os.path.join(d, "lexobj.test")
    p = vlib.inpkg_test("pkg/pdfcpu", sd, run="TestVerifLexObj$", extra_args=["-c", "-o", out])
    if p.returncode != 0 or not os.path.exists(out):
        raise vlib.HarnessError("cannot build the C11 shim:\n" + p.stdout[-3000:])
    return out


def run_shim(binp, env):
    e = dict(os.environ)
    e.update(env)
    p = vlib.sh([binp, "-test.run", "TestVerifLexObj$", "-test.v", "-test.timeout", "1800s"], env=e, timeout=2000, check=False,
                cwd=os.path.join(vlib.REPO, "pkg", "pdfcpu"))
    if p.returncode != 0 or "--- PASS: TestVerifLexObj" not in p.stdout:
        raise vlib.HarnessError("C11 shim failed:\n" + p.stdout[-3000:])
    return p.stdout


def diff(want, got):
    """first differing pair of sub-objects (same walk as the shim's verifLexDiff)"""
    if want.get("k") != got.get("k"):
        return want, got
    if want["k"] in ("arr", "dict"):
        if len(want["v"]) != len(got["v"]):
            return want, got
        for w, g in zip(want["v"], got["v"]):
            if want["k"] == "dict":
                if w["key"] != g["key"]:
                    return want, got
                w, g = w["val"], g["val"]
            if w != g:
                return diff(w, g)
    return want, got


def run(ctx):
    ev = ctx.ev
    d = vlib.scratch_dir()
    try:
        bex = concurrent.futures.ThreadPoolExecutor(max_workers=2)
        binf = bex.submit(build_shim, d)        # overlaps with TLC case generation
        if ctx.quick:
            jobs = [("quick-shapes", "LexObj_gen.cfg", {})]
            nrand, rchunks = 1500, 1
        else:
            jobs = [("quick-shapes", "LexObj_gen.cfg", {})]
            jobs += [("a3-%d" % i, "LexObj_thorough.cfg", dict(Shapes='{"a3"}', Slice=str(i), NSlices="8")) for i in range(8)]
            jobs += [("a4r-%d" % i, "LexObj_thorough.cfg", dict(Shapes='{"a4r"}', Slice=str(i), NSlices="2")) for i in range(2)]
            jobs += [("d2-%d" % i, "LexObj_thorough.cfg", dict(Shapes='{"d2"}', Slice=str(i), NSlices="4")) for i in range(4)]
            jobs += [("n2-%d" % i, "LexObj_thorough.cfg", dict(Shapes='{"n2"}', Slice=str(i), NSlices="2")) for i in range(2)]
            jobs += [("n3r-%d" % i, "LexObj_thorough.cfg", dict(Shapes='{"n3r"}', Slice=str(i), NSlices="4")) for i in range(4)]
            nrand, rchunks = 40000, 4
        classes = lf.Classes()

        def replay(job):
            name, cfg, consts = job
            cases = os.path.join(d, name + ".cases")
            mism = os.path.join(d, name + ".mism")
            gres, n = lf.gen("LexObj", cfg, cases, consts=consts, seed=ctx.seed, heap="4g")
            out = run_shim(binf.result(), {"VERIF_LEX_MODE": "replay", "VERIF_LEX_IN": cases, "VERIF_LEX_OUT": mism})
            summ = lf.summary(out, "SUMMARY-REPLAY ")
            if summ["cases"] != n:
                raise vlib.HarnessError("shim replayed %d of %d cases" % (summ["cases"], n))
            smp = []
            if name == "quick-shapes":
                with open(cases) as fh:
                    rows = [json.loads(l) for l in fh]
                smp = [rows[len(rows) // 2], rows[-1]]
            rows = vlib.read_ndjson(mism)
            os.unlink(cases)
            return name, gres, n, summ, rows, smp

        def random_part():
            rec = os.path.join(d, "random.rec")
            out = run_shim(binf.result(), {"VERIF_LEX_MODE": "random", "VERIF_LEX_N": str(nrand), "VERIF_LEX_SEED": str(ctx.seed), "VERIF_LEX_OUT": rec})
            rsum = lf.summary(out, "SUMMARY-RANDOM ")
            chunks = lf.split(rec, (nrand + rchunks - 1) // rchunks, d, "rnd")

            def jdg(ch):
                path, _ = ch
                return lf.judge("LexObjTrace", "LexTrace.cfg", path) + (lf.count_lines(path),)
            return rec, rsum, lf.parallel(jdg, chunks)

        rfut = bex.submit(random_part)          # code -> TLC direction runs beside the replay direction
        tot = dict(cases=0, composite=0)
        for name, gres, n, summ, rows, smp in lf.parallel(replay, jobs):
            ev.tlc(gres, "LexObj:" + name)
            tot["cases"] += n
            tot["composite"] += summ["composite"]
            for s in smp:
                ev.sample(s)
            for m in rows:
                text = lf.b2s(m["text"])[:160]
                classes.add("%s|%s" % (m["path"], m["class"]), "%s: %s; object %s written as %r, expected %s, read back %s (%d such cases in %s)" % (
                    m["path"], m["what"], json.dumps(m["o"])[:200], text, json.dumps(m["norm"])[:200], json.dumps(m["got"])[:200],
                    summ["classes"].get(m["class"], 0), name), m, short=repr(text[:40]))

        # random deeper trees: code -> TLC
        rec, rsum, judged = rfut.result()
        bex.shutdown(wait=False)
        validated = 0
        for jres, bad, _, nl in judged:
            ev.tlc(jres, "LexObjTrace")
            if jres.distinct != nl + 1:
                raise vlib.HarnessError("LexObjTrace stepped through %d of %d records" % (jres.distinct - 1, nl))
            validated += nl
            for b in bad:
                r = b["rec"]
                for path, pk, ek, mk in (("PDFString", "p1", "e1", "m1"), ("appendPDFObject", "p2", "e2", "m2")):
                    if path not in b["why"]:
                        continue
                    if r[ek]:
                        cls = "parse-error:" + r[mk].split(",")[0]
                    else:
                        w, g = diff(b["norm"], r[pk])
                        cls = "%s->%s" % (w.get("k"), g.get("k"))
                    text = lf.b2s(r["text"])[:160]
                    classes.add("%s|%s" % (path, cls), "%s (random tree): %s; object %s written as %r read back %s" % (
                        path, r[mk] or "read back a different object", json.dumps(r["orig"])[:200], text, json.dumps(r[pk])[:200]), b, short=repr(text[:40]))
        with open(rec) as fh:
            ev.sample(json.loads(fh.readline()))
        classes.report(ctx)
        ev.cov(evaluations=tot["cases"] + nrand, distinct_nontrivial=tot["composite"] + rsum["nested"],
               traces_validated_against_impl=tot["cases"] + validated,
               rule="every tree of LexObj.tla's shape families (jobs: %s) is one case, written by PDFString() and appendPDFObject, parsed by "
                    "ParseObjectContext and compared with Lex!Norm(tree); plus %d seeded random trees (depth <= 5) whose recorded round trips TLC "
                    "judges against Lex!Norm; non-trivial = enumerated composite trees (arrays/dicts) + distinct random trees with nested composites"
                    % (", ".join(j[0] for j in jobs), nrand),
               exhaustive=True, replayed_cases=tot["cases"], random_trees=nrand, random_distinct=rsum["distinct"], random_kinds=rsum["kinds"])
        ev.assume("expected read-back values come from spec/Lex.tla Norm (null dictionary entries absent, reals rounded to 12 fractional digits)",
                  "leaves are representatives of lexical classes (spec/LexObj.tla Leaves); exhaustive means every tree of the stated shape families over these leaves",
                  "random reals are chosen so that the float64 and the decimal m*10^e agree after rounding to 12 digits (no exact ties)",
                  "a top-level null has no PDFString method; its PDFString-path text is the literal 'null' that Dict/Array.PDFString print",
                  "harness built with go1.26.8")
    finally:
        shutil.rmtree(d, ignore_errors=True)
