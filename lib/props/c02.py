"""C02 - replacing an existing file is atomic at every crash point.
Every catalogued single-output operation is run (real code) in the configurations that replace an existing file
(existing output, in place, output path == input path); before EVERY file-system call the instrumented os package
snapshots the directory: that snapshot is what a kill at that point leaves (page cache survives). The destination
must hold its old or its final bytes in every snapshot and all leftovers must be hidden files next to it.
The same traces are replayed through spec/FSTrace.tla (Atomic at the end over the whole content history incl. torn
writes, HiddenOnlyNow in every state)."""
import vlib, fsfamily

META = {
    "level": "fault_enumeration",
    "text": "Crash-point enumeration on real code: one directory snapshot before each file-system call of each replacing operation "
            "(every prefix of the call sequence), judged on real bytes, plus TLC validation of the traces against FSTrace.tla "
            "(Atomic, HiddenOnlyNow). Font / certificate publication crash points come from the txn harness (known finding F2).",
    "note": "Trusted: instrumented os package, snapshot classifier, FSTrace.tla. Process-kill model (page cache survives); a kill inside a "
            "single write(2) is represented by the monitor's torn-write rule, not by a real partial write.",
    "technique": "crash-point enumeration via os-call snapshots on real code + TLC trace validation against a TLA+ file-system monitor",
    "design_ref": "DESIGN.md §5 C02",
}


def run(ctx):
    rows, summ, st, sample = fsfamily.run_mode(ctx, "c02")
    # font / certificate publication (harness/cmd/txn): crash points of the batch installers
    rows2, summ2, st2, sample2 = fsfamily.run_mode(ctx, "c02", binary="txn")
    rows = rows + rows2
    summ["crash_points"] += summ2["crash_points"]
    summ["skipped"] = summ.get("skipped", []) + summ2.get("skipped", [])
    for k in ("states", "transitions", "traces", "drift"):
        st[k] += st2[k]
    ev = ctx.ev
    ev.cov(evaluations=summ["crash_points"], distinct_nontrivial=summ["crash_points"],
           rule="one evaluation = one crash point = the real directory state before the k-th file-system call of a replacing operation; "
                "all (operation, configuration, k) are distinct; each is classified OLD/NEW/ABSENT/OTHER against real bytes",
           states=st["states"], transitions=st["transitions"], traces_validated_against_impl=st["traces"],
           runs=len(rows), operations=summ["ops"], skipped=summ.get("skipped", []), monitor_binding_drift=st["drift"], staged_protocol_inclusion=st.get("staged"), exhaustive=True)
    for r in rows[:3]:
        ev.sample({k: r[k] for k in ("op", "cfg", "n", "verdict")})
    ev.sample(sample)
    ev.assume("kill -9 model: everything written through a returned write(2) survives, nothing else is lost",
              "operations needing user fonts are skipped (configuration directory disabled)")
