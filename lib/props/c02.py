"""C02 - replacing an existing file is atomic at every crash point.
Every catalogued single-output operation is run (real code) in the configurations that replace an existing file
(existing output, in place, output path == input path); before EVERY file-system call the instrumented os package
snapshots the directory: that snapshot is what a kill at that point leaves (page cache survives). The destination
must hold its old or its final bytes in every snapshot and all leftovers must be hidden files next to it.
The same traces are replayed through spec/FSTrace.tla (Atomic at the end over the whole content history incl. torn
writes, HiddenOnlyNow in every state)."""
import hashlib, json, os, shutil, signal
import vlib, fsfamily, cli

META = {
    "level": "fault_enumeration",
    "text": "Crash-point enumeration on real code: one directory snapshot before each file-system call of each replacing operation "
            "(every prefix of the call sequence), judged on real bytes, plus TLC validation of the traces against FSTrace.tla "
            "(Atomic, HiddenOnlyNow). Font / certificate publication crash points come from the txn harness (known finding F2).",
    "note": "Trusted: instrumented os package, snapshot classifier, FSTrace.tla. Process-kill model (page cache survives); a kill inside a "
            "single write(2) is represented by the monitor's torn-write rule, not by a real partial write.",
    "technique": "crash-point enumeration via os-call snapshots on real code + TLC trace validation against a TLA+ file-system monitor",
    "design_ref": "DESIGN.md §5 C02",
}


KILL_CMDS = ("optimize", "rotate", "trim", "watermark add", "encrypt", "merge", "bookmarks import", "keywords add")


def kill_confirmation(ctx):
    """The real CLI binary (built with the instrumented os package) is killed with SIGKILL immediately before its k-th
    file-system call, for every k, while it replaces an existing output / works in place. What the dead process leaves is
    judged on real bytes: the destination holds its old bytes or a complete document equal to the reference result, and
    everything else in its directory is a hidden file. This confirms the snapshot model of the crash-point enumeration
    (a snapshot before call k = what a kill at that point leaves) on real process deaths."""
    binp = cli.build()
    eq = vlib.build_bin("pdfeq")
    entries = [e for e in cli.CATALOG if e["kind"] == "file" and e["id"] in KILL_CMDS]
    if not ctx.quick:
        entries = [e for e in cli.CATALOG if e["kind"] == "file"]
    d = vlib.scratch_dir()
    kills = confirmed = 0
    cmds = []
    try:
        for e in entries:
            modes = ["existing"] + (["inplace"] if e.get("inplace") else []) + (["stdin", "stdin-longname"] if e.get("stream") else []) + ["longname"]
            for mode in modes:
                def setup():
                    sb = cli.Sandbox(base=d)
                    inp = cli.prepare_input(binp, sb, e)
                    # longname: the hidden staging name next to the destination exceeds NAME_MAX, so staging cannot be created
                    out = sb.p("out/" + ("o" * 236 + ".pdf" if mode.endswith("longname") else "out.pdf"))
                    if mode == "inplace":
                        out, dest = None, inp
                    else:
                        shutil.copy(cli.INPUTS["rot"], out)
                        dest = out
                    return sb, inp, out, dest

                def runit(sb, inp, out, env):
                    if mode.startswith("stdin"):
                        return cli.run(binp, sb, cli.fill(e["argv"], sb, "-", out, sb.p("out")), extra_env=env, force=True, stdin=open(inp, "rb").read())
                    return cli.run(binp, sb, cli.fill(e["argv"], sb, inp, out, sb.p("out")), extra_env=env, force=(mode != "inplace"))
                # reference run, recording the number of calls
                sb, inp, out, dest = setup()
                try:
                    tr = sb.p("tmp/trace.ndjson")
                    env = {"VERIF_OS_ROOT": sb.root, "VERIF_OS_TRACE": tr}
                    old = open(dest, "rb").read()
                    p = runit(sb, inp, out, env)
                    if p.returncode != 0:
                        # a command that cannot stage its output (name too long) must leave the existing destination alone
                        now = open(dest, "rb").read() if os.path.exists(dest) else None
                        if now != old:
                            ctx.report("nokill|%s|%s|dest changed by a failing command" % (e["id"], mode),
                                       "%s [%s]: the command failed (%s) and the existing destination %s" % (
                                           e["id"], mode, p.stderr.decode(errors="replace")[-120:].strip(), "is gone" if now is None else "holds %d other bytes" % len(now)),
                                       dict(cmd=e["id"], mode=mode))
                        cmds.append("%s/%s (fails cleanly)" % (e["id"], mode))
                        continue
                    n = sum(1 for _ in open(tr)) if os.path.exists(tr) else 0
                    ref = sb.p("tmp/ref.pdf")
                    shutil.copy(dest, ref)
                    refbytes = open(ref, "rb").read()
                    if n == 0 or refbytes == old:
                        continue
                    cmds.append("%s/%s (%d calls)" % (e["id"], mode, n))
                    ks = range(1, n + 1)
                    if ctx.quick and n > 24:
                        import random
                        rng = random.Random(ctx.seed)
                        ks = sorted(set(rng.sample(range(1, n + 1), 20)) | {n, n - 1, n - 2, n - 3})
                    for k in ks:
                        sb2, inp2, out2, dest2 = setup()
                        try:
                            env2 = {"VERIF_OS_ROOT": sb2.root, "VERIF_OS_FAULT_AT": str(k), "VERIF_OS_FAULT_KIND": "kill"}
                            old2 = open(dest2, "rb").read()
                            before = set(os.listdir(os.path.dirname(dest2)))
                            p2 = runit(sb2, inp2, out2, env2)
                            kills += 1
                            if p2.returncode != -signal.SIGKILL:
                                continue    # the k-th call of this run was never reached (output is not byte-deterministic): not a crash point
                            confirmed += 1
                            key = "kill|%s|%s" % (e["id"], mode)
                            if not os.path.exists(dest2):
                                ctx.report(key + "|dest ABSENT", "%s [%s]: killed before call %d of %d: the destination is gone" % (e["id"], mode, k, n), dict(cmd=e["id"], mode=mode, k=k))
                                continue
                            now = open(dest2, "rb").read()
                            if now != old2:
                                q = vlib.sh([eq, ref, dest2, "", "o"], check=False)
                                ok = False
                                try:
                                    ok = json.loads(q.stdout.strip().splitlines()[-1])["equal"]
                                except Exception:
                                    pass
                                if not ok:
                                    ctx.report(key + "|dest OTHER", "%s [%s]: killed before call %d of %d: the destination holds neither its old bytes nor the complete result (%d bytes, sha %s)"
                                               % (e["id"], mode, k, n, len(now), hashlib.sha256(now).hexdigest()[:12]), dict(cmd=e["id"], mode=mode, k=k))
                                    continue
                            extra = [x for x in set(os.listdir(os.path.dirname(dest2))) - before if not x.startswith(".")]
                            if extra:
                                ctx.report(key + "|visible leftover", "%s [%s]: killed before call %d of %d: visible leftovers %s" % (e["id"], mode, k, n, extra), dict(cmd=e["id"], mode=mode, k=k))
                        finally:
                            sb2.close()
                finally:
                    sb.close()
    finally:
        shutil.rmtree(d, ignore_errors=True)
    return dict(kill_runs=kills, killed_at_the_chosen_call=confirmed, commands=cmds)


def run(ctx):
    kc = kill_confirmation(ctx)
    rows, summ, st, sample = fsfamily.run_mode(ctx, "c02")
    # font / certificate publication (harness/cmd/txn): crash points of the batch installers
    rows2, summ2, st2, sample2 = fsfamily.run_mode(ctx, "c02", binary="txn")
    rows = rows + rows2
    summ["crash_points"] += summ2["crash_points"]
    summ["skipped"] = summ.get("skipped", []) + summ2.get("skipped", [])
    for k in ("states", "transitions", "traces", "drift"):
        st[k] += st2[k]
    ev = ctx.ev
    ev.cov(evaluations=summ["crash_points"], distinct_nontrivial=summ["crash_points"],
           rule="one evaluation = one crash point = the real directory state before the k-th file-system call of a replacing operation; "
                "all (operation, configuration, k) are distinct; each is classified OLD/NEW/ABSENT/OTHER against real bytes",
           states=st["states"], transitions=st["transitions"], traces_validated_against_impl=st["traces"],
           runs=len(rows), operations=summ["ops"], skipped=summ.get("skipped", []), monitor_binding_drift=st["drift"], staged_protocol_inclusion=st.get("staged"), real_kill_confirmation=kc, exhaustive=True)
    for r in rows[:3]:
        ev.sample({k: r[k] for k in ("op", "cfg", "n", "verdict")})
    ev.sample(sample)
    ev.assume("kill -9 model: everything written through a returned write(2) survives, nothing else is lost (confirmed on real SIGKILLs of the CLI binary for the commands listed under real_kill_confirmation)",
              "operations needing user fonts are skipped (configuration directory disabled)")
