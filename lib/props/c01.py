"""C01 - a failed or aborted operation never damages or leaves behind files.
Fault enumeration over the REAL api.*File operations (harness/cmd/fsops c01): every catalogued operation x path
configuration is recorded once, then re-run with one injected fault (EIO error on any call, short write + ENOSPC,
panic raised from a write of the operation body) at the k-th file-system call. Verdicts come from real before/after
directory snapshots; every faulted run's os-call trace is additionally replayed through the TLA+ monitor
spec/FSTrace.tla (POSIX model) which evaluates CleanFailure on the model state and cross-checks model vs real."""
import json, os, shutil, collections
import vlib, fsmon, fsfamily

META = {
    "level": "fault_enumeration",
    "text": "Every catalogued file operation of the public API (62 operations, 4 path configurations) is run against the real code with "
            "a single injected fault at every (thorough) or a seeded subset (quick) of its file-system calls; real directory snapshots "
            "decide; the recorded traces are validated by TLC against the FSTrace.tla POSIX monitor with the CleanFailure invariant.",
    "note": "Trusted: the instrumented copy of package os (build overlay), the snapshot comparison, FSTrace.tla's POSIX semantics. "
            "Panics are injected only from write calls of the operation body. CLI executors and read-side faults are not enumerated here.",
    "technique": "single-fault enumeration on real code via an instrumented os package + TLC trace validation against a TLA+ file-system monitor",
    "design_ref": "DESIGN.md §5 C01, §4.4",
}


def run(ctx):
    rows, summ, st, sample = fsfamily.run_mode(ctx, "c01")
    ev = ctx.ev
    points = {(r["op"], r["cfg"], r["kind"], r["at"].split(" ")[0], r["k"]) for r in rows}
    skipped_ops = sorted({s.split("/")[0] for s in summ.get("skipped", [])})
    ev.cov(evaluations=len(rows), distinct_nontrivial=len(points),
           rule="one evaluation = one real execution of a catalogued api.*File operation in a fresh sandbox with one injected fault "
                "(kind in error/short/panic) at call k; distinct = distinct (operation, path configuration, fault kind, call type, k); "
                "all are non-trivial (the fault is really taken: the run fails or tolerates it)",
           states=st["states"], transitions=st["transitions"], traces_validated_against_impl=st["traces"],
           operations=summ["ops"], skipped=summ.get("skipped", []), outcomes=dict(collections.Counter(r["outcome"] for r in rows)),
           monitor_binding_drift=st["drift"], staged_protocol_inclusion=st.get("staged"), exhaustive=(ctx.tier == "thorough"))
    for r in rows[:3]:
        ev.sample({k: r[k] for k in ("op", "cfg", "k", "kind", "at", "outcome", "diff", "verdict")})
    ev.sample(sample)
    ev.assume("single faults only; EIO for errors, ENOSPC after half the bytes for short writes; a panic is raised only from write calls of the operation body",
              "operations skipped because they need user fonts with the configuration directory disabled: " + ", ".join(skipped_ops),
              "api.PatchFile and the incremental (incr=true) annotation variants are not in the catalog (in-place mutation is their contract)")
