"""C28 - a signature is reported as covering the document only if it covers every byte.
G: `sig geom` measures the geometry of every signature of the real samples and of synthetic signed documents (signature profile
   x /Type of the signature dictionary {Sig, DocTimeStamp} x role {value of a signature field, direct /Perms /UR3 entry});
   TLC (spec/SigCover.tla) enumerates the manipulation lattice over these numbers and predicts the new /ByteRange,
   file length and Covers for every case.
R: `sig c28` applies every case to the real files (synthetic documents are RE-SIGNED over the manipulated ranges, so
   only the structural checks stand between the manipulated file and an 'unmodified' report), runs the real
   api.ValidateSignaturesRaw and records the verdict with the geometry measured on the validated file.
V: TLC (spec/SigCoverTrace.tla) judges every record: reported unmodified => Covers."""
import json, os, re, shutil
import vlib

META = {
    "level": "model_checking",
    "text": "TLC enumerates the manipulation lattice of Sig.tla/SigCover.tla (appended bytes, a real incremental update, every "
            "/ByteRange value shifted, gap widened/narrowed - also up to each later '>' byte -, overlapping ranges, and - on synthetic "
            "documents (profile x dictionary /Type x field / usage-rights role) signed with the "
            "harness's own key - signatures that verify cryptographically over ranges not starting at 0, not ending at EOF or not "
            "enclosing exactly the hex string) over the measured geometry of every signature; every case is applied to the real "
            "file, validated by the real API and the recorded verdict judged by TLC: reported unmodified only if Covers.",
    "note": "Trusted: the harness's CMS/PDF producer and PKI; the measurement of /ByteRange and the hex string extent on the raw "
            "bytes; Sig.tla's Covers. With the current reader only signature dictionaries of /Type /DocTimeStamp and direct /Perms /UR3 "
            "usage-rights signatures can be reported 'unmodified' (ordinary form signatures are always downgraded to 'unknown', see "
            "assumptions); the non-vacuous part is carried by those documents (signatures_reportable_unmodified is measured per run).",
    "technique": "TLA+ manipulation lattice enumerated by TLC, replayed into real files + TLC validation of the recorded verdicts",
    "design_ref": "DESIGN.md §5 C28",
}


def _idx(res):
    """index of the record the violated invariant was evaluated on (a violation in the initial state has no 'State n:' header)"""
    m = re.search(r"l = (\d+)", res.error_state or "")
    return int(m.group(1)) if m else 1


def _summary(p):
    return json.loads([l for l in p.stdout.splitlines() if l.startswith("SUMMARY ")][-1][8:])


def run(ctx):
    ev = ctx.ev
    binp = vlib.build_bin("sig")
    d = vlib.scratch_dir()
    env = dict(os.environ, TMPDIR=d)
    try:
        geom = os.path.join(d, "geom.ndjson")
        p = vlib.sh([binp, "geom", "--out", geom], timeout=600, env=env)
        nsig = _summary(p)["signatures"]
        cases = os.path.join(d, "cases.ndjson")
        cfg = "SigCover_quick.cfg" if ctx.quick else "SigCover_thorough.cfg"
        res = vlib.run_tlc("SigCover", cfg, files=[geom], workers=min(8, vlib.NCPU), timeout=900, payloads={"CASE": cases}, seed=ctx.seed)
        if res.violated:
            raise vlib.HarnessError("design model SigCover violates its own invariant %s:\n%s" % (res.violated, res.error_state))
        ev.tlc(res, cfg)
        ncases = res.payload_counts.get("CASE", 0)
        if ncases == 0:
            raise vlib.HarnessError("TLC produced no cases")
        rec = os.path.join(d, "records.ndjson")
        workers = max(2, min(12, vlib.NCPU - 2))
        p = vlib.sh([binp, "c28", "--cases", cases, "--out", rec, "--workers", str(workers)], timeout=3000, env=env)
        summ = _summary(p)
        if summ["cases"] != ncases:
            raise vlib.HarnessError("replayer consumed %d of %d cases" % (summ["cases"], ncases))
        rows = vlib.read_ndjson(rec)
        all_rows = rows
        validated = 0
        while True:
            res = vlib.run_tlc("SigCoverTrace", "SigCoverTrace.cfg", files=[rec], workers=1, timeout=1800, heap="8g")
            if res.violated == "RecordOK":
                k = _idx(res)
                r = rows[k - 1]
                ctx.report("unmodified-without-cover|%s|%s|%s" % (r["doc"].split("/t")[0], r["fam"], r["sig"]),
                           "%s [%s] %s(%d,%d,%d,%d): file length %d, /ByteRange [%d %d %d %d], hex string at [%d,%d) does not cover, "
                           "but validation reports status=%s reason=%s docModified=%s" % (
                               r["doc"], r["sig"], r["fam"], r["p1"], r["p2"], r["p3"], r["p4"], r["f"], r["a"], r["b"], r["c"], r["d"],
                               r["gaplo"], r["gaphi"], r["status"], r["reason"], r["docmod"]), r)
                validated += 1
                same = lambda x: (x["doc"].split("/t")[0], x["fam"], x["sig"]) == (r["doc"].split("/t")[0], r["fam"], r["sig"])
                rows = [x for x in rows if not same(x)]
                if not rows or len(ctx.violations) >= 12:
                    break
                vlib.write_ndjson(rec, rows)
                continue
            if res.violated in ("PredictOK", "NonVacuous"):
                k = _idx(res)
                raise vlib.HarnessError("%s failed on record %s" % (res.violated, json.dumps(rows[k - 1])))
            if not res.ok:
                raise vlib.HarnessError("SigCoverTrace did not accept the records: %s\n%s" % (res.violated, res.out[-2000:]))
            validated += len(rows)
            ev.tlc(res, "SigCoverTrace.cfg")
            break

        def covers(r):
            return r["a"] == 0 and r["a"] + r["b"] == r["gaplo"] and r["c"] == r["gaphi"] and r["c"] + r["d"] == r["f"]
        # non-trivial: a non-covering case on a signature type that CAN be reported unmodified when intact (measured on this run)
        can_claim = set((r["doc"], r["sig"]) for r in all_rows if r["fam"] == "intact" and (r["docmod"] == "false" or r["reason"] == "docNotModified"))
        nontrivial = set((r["doc"], r["sig"], r["fam"], r["p1"], r["p2"], r["p3"], r["p4"]) for r in all_rows
                         if not covers(r) and (r["doc"], r["sig"]) in can_claim)
        crypto_ok = sum(1 for r in all_rows if r["fam"] == "resign" and not covers(r) and (r["doc"], r["sig"]) in can_claim)
        for r in (next((x for x in all_rows if x["fam"] == "resign" and x["dts"] and not covers(x)), None),
                  next((x for x in all_rows if x["fam"] == "incr"), None),
                  next((x for x in all_rows if x["fam"] == "gapmove" and not x["synth"]), None),
                  next((x for x in all_rows if x["fam"] == "intact" and x["dts"]), None)):
            if r:
                ev.sample(r)
        ev.cov(evaluations=len(all_rows), distinct_nontrivial=len(nontrivial), traces_validated_against_impl=validated,
               rule="every state of SigCover.tla (signature x manipulation, bounds in the cfg) is one case replayed into the real file "
                    "and validated by the real API; non-trivial = distinct non-covering cases of a signature that IS reported unmodified "
                    "when intact (so that a missing structural check would surface as a false 'unmodified')",
               exhaustive=True, cases_from_tlc=ncases, signatures=nsig, families=summ["families"], skipped=summ["skipped"],
               unmodified_claims=summ["unmodified_claims"], signatures_reportable_unmodified=sorted("%s[%s]" % x for x in can_claim),
               resigned_noncovering_cases_on_reportable_signatures=crypto_ok,
               valid_without_cover=summ["valid_without_cover"], exec_s=round(summ["exec_s"], 1))
        ev.assume("reported unmodified := DocModified == false or Reason == 'document has not been modified' (property observables); "
                  "Status == valid alone is not counted (valid_without_cover lists how often it occurs on non-covering files)",
                  "pdfcpu's reader numbers increments from 1 while pkg/pdfcpu/sign.go treats increment 0 as the current revision, so ordinary form "
                  "signatures (and usage-rights signatures held in an indirect object) are never reported unmodified and their boundary check is "
                  "not reached; those cases hold trivially",
                  "in-place edits keep the digit count of /ByteRange values (cases that would change it are skipped and counted)")
    finally:
        shutil.rmtree(d, ignore_errors=True)
