"""C25 - wrong passwords are rejected and password changes take effect.
G: TLC enumerates every history of security operations (Encrypt, Decrypt, ChangeUPW, ChangeOPW, SetPerms with every
   combination of supplied passwords) of spec/SecHist.tla (rules in spec/Sec.tla) up to the tier's length and prints each
   reachable state as a case: steps, expected outcome class of the last step, expected document state and the expected
   result of opening the document with every probed password pair.  TLC also checks the three statements of the
   property as invariants of the model itself.
R: harness/cmd/sec c25 replays every history through the real api.*File functions on a marker document and compares
   error classes (errors.Is), that a refused step changes nothing, who can open the result, its content and the
   reported permissions."""
import json, os, shutil
import vlib, secfamily

META = {
    "level": "model_checking",
    "text": "TLC generates all histories of encrypt / decrypt / change-user-password / change-owner-password / set-permissions steps "
            "with every combination of supplied passwords over all algorithm and key-length pairs (incl. revision 6 on a PDF 2.0 "
            "document) up to the tier's length; each history is replayed through the real api.*File functions and after every step the "
            "returned error class, the unchanged input on refusal, the set of password pairs that open the result, its page content "
            "and the reported permissions are compared with the model. The three statements of the property are invariants of the model.",
    "note": "Trusted: Sec.tla's decision rules (refined against the code by trace rejection; the three property statements are checked "
            "on the model by TLC), the Go replayer's comparison, proj's content projection. Password alphabet is finite "
            "(empty, two symbolic passwords realised with 13 byte-length classes as ASCII / multi-byte text, one non-ASCII, one 40-byte); "
            "see C22 for password normalisation classes.",
    "technique": "TLA+ history model (Sec.tla/SecHist.tla) exhaustively enumerated by TLC, every behaviour replayed into the real *File API",
    "design_ref": "DESIGN.md §5 C25",
}


def run(ctx):
    ev = ctx.ev
    binp = vlib.build_bin("sec")
    d = vlib.scratch_dir()
    try:
        legacy = ["rc4_40", "rc4_128", "aes_128"][ctx.seed % 3]
        modern = ["aes_256", "aes_256_r6"][ctx.seed % 2]
        if ctx.quick:
            # all algorithms up to length 2, plus length 3 for one revision <= 4 and one revision 5/6 algorithm chosen by the seed
            # ... and, for every algorithm, length 2 with three of the six long-password realisations (Sec!PwLens) chosen by the seed
            reals = "{0, 1, 3, 5}" if ctx.seed % 2 else "{0, 2, 4, 6}"
            cfgs = [("SecHist_quick.cfg", {"DeepAlgs": '{"%s", "%s"}' % (legacy, modern), "Reals": reals})]
        else:
            cfgs = [("SecHist_len4.cfg", None), ("SecHist_pw4.cfg", None)]
        tot = {"cases": 0, "probes": 0, "ok_steps": 0, "nontrivial": 0, "rejected_probes": 0}
        for cfg, consts in cfgs:
            cases = os.path.join(d, "cases.ndjson")
            res = vlib.run_tlc("SecHist", cfg, workers=min(8, vlib.NCPU), timeout=3000, heap="2g" if ctx.quick else "12g", payloads={"CASE": cases}, consts=consts)
            if res.violated:
                raise vlib.HarnessError("design model SecHist violates its own invariant %s:\n%s" % (res.violated, res.error_state))
            ev.tlc(res, cfg)
            n = res.payload_counts.get("CASE", 0)
            if n == 0:
                raise vlib.HarnessError("TLC produced no cases for " + cfg)
            if cfg == cfgs[-1][0]:
                with open(cases) as fh:
                    got = 0
                    for line in fh:
                        c = json.loads(line)
                        if len(c["steps"]) == 3 and c["out"] == "ok" and c["steps"][-1]["op"].startswith("Change"):
                            ev.sample({"alg": c["alg"], "steps": c["steps"], "out": c["out"], "post": c["post"], "opens": c["opens"][:4]})
                            got += 1
                            if got == 2:
                                break
            sd = os.path.join(d, "shards")
            shutil.rmtree(sd, ignore_errors=True)
            os.makedirs(sd)
            p = vlib.sh([binp, "c25split", "--in", cases, "--prefix", os.path.join(sd, "in"), "--n", str(secfamily.NPROC)], timeout=600)
            if secfamily.summary(p.stdout)["total"] != n:
                raise vlib.HarnessError("splitter consumed %s of %d cases" % (secfamily.summary(p.stdout)["total"], n))
            inputs = [os.path.join(sd, "in%d.ndjson" % i) for i in range(secfamily.NPROC)]
            summs, rows = secfamily.run_shards(binp, "c25", inputs, sd, timeout=3000)
            if secfamily.total(summs, "cases") != n:
                raise vlib.HarnessError("replayer consumed %d of %d cases" % (secfamily.total(summs, "cases"), n))
            for k in tot:
                tot[k] += secfamily.total(summs, k)
            for m in rows:
                steps = ";".join("%s(%s,%s,%s)" % (s["op"], s["u"], s["o"], s["n"]) for s in m["steps"])
                kind = m["what"].split("(")[0].strip()
                ctx.report("%s|r%d|%s|%s" % (m["alg"], m.get("real", 0), steps, kind),
                           "%s after %s [%s, password realisation %d: a=%d bytes, b=%d bytes]: expected %s, real code gave %s" % (
                               m["what"], steps, m["alg"], m.get("real", 0), len(m.get("pw_a", "").encode()), len(m.get("pw_b", "").encode()), m["want"], m["got"]), m)
        ev.cov(evaluations=tot["cases"] + tot["probes"], distinct_nontrivial=tot["nontrivial"],
               traces_validated_against_impl=tot["cases"],
               rule="one case = one reachable state of SecHist.tla = one history of <= MaxLen steps (a refused step ends the history), replayed "
                    "step by step through the real api.*File functions (prefix results are shared); after every successful step the document "
                    "is opened with every probed password pair; non-trivial = distinct histories of length >= 2 whose last step succeeded "
                    "(decrypt, re-encrypt, a password or permission change took effect and was verified by the probes)",
               exhaustive=True, replayed_histories=tot["cases"], open_probes=tot["probes"], rejected_open_probes=tot["rejected_probes"],
               successful_steps=tot["ok_steps"])
        ev.assume("expected outcomes come from spec/Sec.tla (Outcome/After/OpenOutcome); revisions <= 4 use the user password as owner-password "
                  "candidate when no owner password is supplied (ISO 32000-1 algorithm 3), revisions 5/6 do not",
                  "a refused step ends a history: it leaves the document unchanged (checked byte for byte), so continuations add no new states",
                  "the symbolic passwords a and b are realised per history with byte lengths 1, 32, 33, 40, 41, 48, 49, 56, 64, 65, 127, 128, 129 "
                  "(Sec!PwLens), ASCII and multi-byte, always differing in their first byte; password normalisation classes are exercised by C22")
    finally:
        shutil.rmtree(d, ignore_errors=True)
