"""C21 - every output produced from a valid input validates.
G: TLC enumerates every history of length 1 over ValidOps!OpCatalog x inputs and samples histories of length 3 (simulation, seeded;
   each contributes its length-1..3 prefixes as steps).  R: harness/cmd/cstruct valid replays them with the real API, validating the
   input and every output with api.ValidateFile (relaxed).  V: TLC judges every step record with inValid /\\ opOk => outValid
   (spec/ValidOpsTrace.tla)."""
import json, os, re, shutil, subprocess
import vlib

META = {
    "level": "exploration",
    "text": "TLC generates operation histories (1-3 steps) over a catalogue of 50 document-transforming operations with finite "
            "parameter sets (page ops, watermarks/stamps, annotations, bookmarks, attachments, properties, keywords, boxes, viewer "
            "preferences, page layout/mode, forms, encryption and password/permission changes, merge, split, n-up, grid, booklet, "
            "resize, zoom, cut, n-down, poster) on corpus and generated inputs; the real API replays them, every intermediate "
            "output is validated in relaxed mode, and TLC judges each recorded step with inValid /\\ opOk => outValid.",
    "note": "Trusted: api.ValidateFile as the meaning of 'valid' (it is the property's own yardstick), the replayer's bookkeeping of "
            "passwords. Operations that fail or panic are not judged (they are counted).",
    "technique": "TLA+ operation-history generator (ValidOps.tla: exhaustive length 1, simulated length 3) replayed into the real API; "
                 "TLC validation of the recorded (inValid, opOk, outValid) steps",
    "design_ref": "DESIGN.md §5 C21",
}


def _summary(out):
    return json.loads([l for l in out.splitlines() if l.startswith("SUMMARY ")][-1][8:])


def norm_verr(v):
    """The kind of validation error: file paths, numbers and the path through the page tree removed."""
    v = re.sub(r"^[^:]*: validate \S+: ", "", v)
    v = v.split("\n")[0]
    v = re.sub(r"\d+", "N", v)
    i = v.find("subdict")
    if i >= 0:
        v = v[:i + len("subdict")]
    i = v.find("wrong type")
    if i >= 0:
        v = v[:i + len("wrong type")]
    segs = [x for x in v.split(": ") if not re.match(
        r"^(validation error \(obj#:N\)|document catalog|catalog Pages|page tree|kid obj#N|node obj#N( Resources)?|page obj#N|page annotations|catalog AcroForm|AcroForm Fields(\[N\] obj#N)?|form field obj#N( Kids\[N\] obj#N)?)$", x)]
    return ": ".join(segs)[:140]


def run(ctx):
    ev = ctx.ev
    binp = vlib.build_bin("cstruct")
    d = vlib.scratch_dir()
    try:
        lines = []
        seen = set()

        def gen(cfg, **kw):
            f = os.path.join(d, "cases.ndjson")
            if os.path.exists(f):
                os.unlink(f)
            res = vlib.run_tlc("ValidOps", cfg, timeout=1500, payloads={"CASE": f}, **kw)
            if res.violated or not res.ok:
                raise vlib.HarnessError("ValidOps generator failed on %s: %s\n%s" % (cfg, res.violated, res.out[-1500:]))
            n = res.payload_counts.get("CASE", 0)
            if n == 0:
                raise vlib.HarnessError("TLC produced no histories for " + cfg)
            with open(f) as fh:
                for line in fh:
                    if line not in seen:
                        seen.add(line)
                        lines.append(line)
            return res, n

        res1, n1 = gen("ValidOps_len1.cfg" if ctx.quick else "ValidOps_len1_all.cfg", workers=4)
        exhaustive_len1 = n1
        n2 = 0
        if not ctx.quick:
            _, n2 = gen("ValidOps_len2.cfg", workers=8)          # every history of length 2 on one generated input
        res3, n3 = gen("ValidOps_sim.cfg", workers=4, simulate="num=%d" % (15 if ctx.quick else 1000), depth=6, seed=ctx.seed)
        ev.sample(json.loads(lines[0]))
        ev.sample(json.loads(lines[-1]))

        par = 3 if ctx.quick else 8
        procs = []
        for i in range(par):
            part = os.path.join(d, "part%d.ndjson" % i)
            with open(part, "w") as fh:
                fh.writelines(lines[i::par])
            procs.append(subprocess.Popen([binp, "valid", "--in", part, "--out", os.path.join(d, "rec%d.ndjson" % i),
                                           "--work", os.path.join(d, "w%d" % i)], stdout=subprocess.PIPE, stderr=subprocess.STDOUT, text=True))
        tot = {}
        recs = []
        for i, p in enumerate(procs):
            out, _ = p.communicate(timeout=3000)
            if p.returncode != 0:
                raise vlib.HarnessError("valid replayer failed (%d): %s" % (p.returncode, out[-2000:]))
            for k, v in _summary(out).items():
                tot[k] = max(tot.get(k, 0), v) if k == "ops_judged" else tot.get(k, 0) + v
            recs += vlib.read_ndjson(os.path.join(d, "rec%d.ndjson" % i))
        if tot.get("histories", 0) != len(lines):
            raise vlib.HarnessError("replayer consumed %d of %d histories" % (tot.get("histories", 0), len(lines)))
        if not recs:
            raise vlib.HarnessError("no step records")

        # TLC judges the records
        rec = os.path.join(d, "records.ndjson")
        vlib.write_ndjson(rec, recs)
        df = os.path.join(d, "defects.ndjson")
        r = vlib.run_tlc("ValidOpsTrace", "ValidOpsTrace.cfg", files=[rec], workers=1, timeout=1500, payloads={"DEFECT": df})
        if not r.ok or r.distinct != len(recs) + 1:
            raise vlib.HarnessError("ValidOpsTrace did not judge all records: %s\n%s" % (r.violated, r.out[-1500:]))
        defects = vlib.read_ndjson(df) if os.path.exists(df) else []
        groups = {}
        for x in defects:
            s = recs[x["l"] - 1]
            # key: the operation and the kind of validation error (paths, numbers and map-ordered details removed)
            key = "%s|%s" % (s["op"], norm_verr(s["verr"]))
            groups.setdefault(key, []).append(s)
        for key, ss in sorted(groups.items()):
            s = ss[0]
            ctx.report(key, "valid input, operation succeeded, output does not validate: %s(%r,%d,%s) on %s after [%s]: %s" % (
                s["op"], s["s"], s["n"], s["b"], s["input"], s["prefix"], s["verr"]), s)
        judged = [s for s in recs if s["inValid"] and s["opOk"]]
        distinct = {(s["op"], s["s"], s["n"], s["b"], s["input"], s["prefix"]) for s in judged}
        nontriv = {x for x in distinct if x[5] != "" or x[0] not in ("optimize",)}
        ev.sample(judged[0] if judged else recs[0])
        panics = sorted({"%s(%s,%d,%s) on %s" % (s["op"], s["s"], s["n"], s["b"], s["input"]) for s in recs if s["err"].startswith("PANIC")})
        ev.cov(evaluations=len(recs), distinct_nontrivial=len(nontriv),
               rule="steps of replayed histories: all %d length-1 histories of OpCatalog x inputs (TLC breadth-first, exhaustive), all %d "
                    "length-2 histories on one generated input (thorough tier) plus %d simulated length-3 histories (seed %d); a step is judged when its input validated and the operation succeeded; "
                    "non-trivial = distinct judged (operation, parameters, input, prefix) steps other than a bare optimize" % (
                        exhaustive_len1, n2, n3, ctx.seed),
               exhaustive=False, histories=len(lines), steps=len(recs), judged=len(judged), replay=tot,
               operations_judged=len({s["op"] for s in judged}), failed_ops=tot.get("op_failed", 0), panics=panics[:20],
               tlc_states=r.distinct)
        ev.assume("api.ValidateFile in relaxed mode defines validity (inputs and outputs); passwords are tracked by the replayer",
                  "multi-output operations: every output is validated, the first one continues the history")
    finally:
        shutil.rmtree(d, ignore_errors=True)
