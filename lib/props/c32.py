"""C32 - page operations act exactly on the selected pages.
G: TLC explores spec/Doc32.tla (the page actions of the abstract document machine spec/Doc.tla, selections evaluated
   with the C31 model Sel.tla) over generated document trees and prints every history with the expected page list.
R: harness/cmd/pageops c32 builds each tree with the raw emitter, replays the history with the real api.*File functions
   and compares the projection (marker, effective rotation, media/crop/trim/bleed/art boxes) after every step."""
import os, shutil
import vlib, pageopslib as po

META = {
    "level": "model_checking",
    "text": "TLC enumerates all histories of page operations (insert blank before/after, remove, trim, collect, rotate, add/remove "
            "boxes, crop) of the Doc.tla machine up to the bound over six document-tree shapes (exhaustive) and random longer histories "
            "over 2-30 page documents (-simulate, thorough); every history is replayed with the real api.*File functions and the "
            "re-read page list (marker, rotation, five boxes) is compared with the model after every step.",
    "note": "Trusted: Doc.tla/Sel.tla as the meaning of the operations; pdfcpu's reader + XRefTable.PageBoundaries/ExtractPageContent as the "
            "projection (its inheritance resolution is itself checked against the model on every generated tree); rawpdf emitter; go1.26.8.",
    "technique": "TLA+ reference machine (Doc.tla/Doc32.tla) explored by TLC, behaviours replayed into the real API and compared step by step",
    "design_ref": "DESIGN.md §5 C32",
}


def fmt(m):
    c = m["case"]
    steps = " ; ".join("%s(sel=%s n=%s %s)" % (s["op"], ",".join(s["sel"]) or "-", s["n"], s["txt"]) for s in c["steps"])
    cf = c.get("conf") or {}
    on = ",".join(k for k in sorted(cf) if cf[k]) or "none"
    return "shape k=%s n=%s conf[%s], history [%s]: %s; got %s" % (c.get("k"), c.get("n"), on, steps, m["what"], (m.get("got") or "")[:600])


def run(ctx):
    ev = ctx.ev
    binp = vlib.build_bin("pageops")
    d = vlib.scratch_dir()
    try:
        runs = [("Doc32_quick.cfg", None, None, "bfs")]
        if not ctx.quick:
            runs = [("Doc32_wide.cfg", None, None, "bfs"), ("Doc32_sim.cfg", "num=%d" % (8000 // po.NPROC), 12, "sim")]
        tot = {}
        nontriv = set()
        mism = []
        ncases = 0
        for cfg, sim, depth, mode in runs:
            cases = os.path.join(d, "cases.ndjson")
            res, n = po.tlc(ctx, "Doc32", cfg, cases, simulate=sim, depth=depth)
            ncases += n
            for c in po.first_lines(cases, 400)[::199][:2]:
                c.pop("init", None)
                ev.sample(c, limit=4)
            t, mm, nt = po.replay(binp, "c32", cases, d, cfg, extra=["--mode", mode])
            if t.get("lines") != n:
                raise vlib.HarnessError("replayer read %s of %d cases" % (t.get("lines"), n))
            if t.get("cases") != n:
                raise vlib.HarnessError("replayer consumed %s of %d cases" % (t.get("cases"), n))
            for k, v in t.items():
                if isinstance(v, int):
                    tot[k] = tot.get(k, 0) + v
                elif isinstance(v, dict):
                    dd = tot.setdefault(k, {})
                    for kk, vv in v.items():
                        dd[kk] = dd.get(kk, 0) + vv
            nontriv |= nt
            mism += mm
        keys = po.report_by_key(ctx, mism, fmt)
        ev.cov(evaluations=tot.get("steps_checked", 0), distinct_nontrivial=len(nontriv),
               traces_validated_against_impl=ncases,
               rule="a case is one history (document tree, operation sequence) of Doc32.tla; exhaustive part: every history of <= 2 steps "
                    "over the full alphabet (6 selections + 'none', all operations incl. box margins relative to the parent box and box-to-box assignments; 65 actions, default configuration) on 4-page documents of the deep shapes, 1 step "
                    "on the others, 1 step of every action on every shape with duplicate-content-stream optimisation, 3 steps over a small alphabet (11 actions) on two "
                    "shapes without optimisation / with another writer layout; thorough adds -simulate histories of 1-8 steps over 2-30 page documents "
                    "with random selections (Sel.tla terms) and parameters. Each distinct (prefix, step) is executed once with the real "
                    "API and compared; evaluations = steps compared; non-trivial = distinct (operation, selection, parameter) steps that "
                    "succeeded with a non-empty expected page list and matched",
               exhaustive=bool(ctx.quick and tot.get("skipped_after_violation", 0) == 0),
               histories=ncases, api_calls=tot.get("api_calls", 0), refusals_checked=tot.get("refusals", 0),
               histories_cut_short_by_a_violation=tot.get("skipped_after_violation", 0), trees=tot.get("trees", 0),
               ops=tot.get("ops", {}), mismatch_keys=keys)
        ev.assume("expected page lists come from spec/Doc.tla (page actions) with selections evaluated by spec/Sel.tla",
                  "the rotation of a freshly inserted blank page is not specified by the operation: the model only tracks rotations applied to it afterwards",
                  "an absent selection means all pages for insert/rotate/boxes/crop and no page for trim (as the API documents)",
                  "requests that cannot be honoured (trim/collect of no page, removal of all pages) must return an error or leave the document unchanged",
                  "excluded (Doc!Ambig): documents with a page that defines its own MediaBox, has no CropBox of its own and sits below a Pages node "
                  "with a CropBox - pdfcpu's PageBoundaries and PageDict disagree whether such a page inherits that CropBox, so steps leading there "
                  "(blank page below such a node, MediaBox on a page with inherited CropBox, CropBox removal on such a page) are not generated",
                  "boxes are integer rectangles; relative boxes use absolute margins (1 or 4 values); a request never combines a new MediaBox with relative boxes",
                  "configuration switches (optimisation passes, object/xref streams) never change the abstract state; simulated histories draw one of Doc!Confs",
                  "generated documents only (the corpus has no per-page markers)",
                  "harness built with go1.26.8")
    finally:
        shutil.rmtree(d, ignore_errors=True)
