"""C09 - configured resource limits bound what an input can make pdfcpu allocate.
G: TLC enumerates bomb configurations (spec/LimitsGen.tla): filter pipeline x container x size class relative to the
   limit x limit; oversized / lying /Length relative to MaxStreamBytes; /Size, /Index, object stream /N and /First,
   nesting depth and image pixels relative to their limits; /Index with several repeated / overlapping / adjacent
   subsections whose total is relative to the limit; flows over derived contexts (read -> pages migrated into a new
   context or merged into another document -> images / content / optimize / write on the derived context).
R: harness/cmd/robust c09 builds every bomb with the real pdfcpu encoders + a raw emitter and runs read, read with
   DecodeAllStreams, validate, optimize+write and extraction on it in child processes under the configured limits,
   recording outcome, error class, largest decoded / encoded stream materialised, materialised counts and heap peak.
V: TLC (spec/LimitsTrace.tla) judges every record against Limits!Broken."""
import json, os, shutil, collections
import vlib

META = {
    "level": "exploration",
    "text": "TLC enumerates decompression-bomb and oversize configurations (1-3 stage pipelines of Flate/LZW/RunLength/ASCIIHex with and "
            "without predictor, in content streams, object streams, xref streams and images; sizes L-1, L, L+1, 100L for limits of 4 KB, "
            "64 KB, 1 MB; lying /Length; oversized /Size, /Index (one or many subsections), /N, /First, nesting and image pixels; flows "
            "in which the bomb is decoded for the first time in a context derived by page extraction or merge). Each is built with the real "
            "encoders, processed by read/validate/optimize/extract under the configured limits in a child process, and TLC judges the "
            "recorded outcome: nothing larger than the limit is materialised, oversized counts are not materialised, no crash/timeout, and "
            "the heap peak stays within c1*(what the limits allow) + c2*|input| + c0.",
    "note": "Trusted: the scan of the resulting context for the largest Content/Raw, the byte count delivered to extraction callbacks, "
            "the heap sampler (runtime/metrics every 200 us, plus the level right after the call); memory constants calibrated on the "
            "unchanged tree (c1=96, c2=64, c0=16 MB; about 4x head-room over the worst clean record); an operation that neither fails nor "
            "materialises (lazy decoding) is accepted; rejecting a stream within the limits is counted, not reported; go1.26.8.",
    "technique": "TLC-enumerated bomb configurations replayed into the real readers/decoders in child processes; recorded outcomes judged by TLC against a limits relation",
    "design_ref": "DESIGN.md §5 C09",
}


def _summary(p):
    return json.loads([l for l in p.stdout.splitlines() if l.startswith("SUMMARY ")][-1][8:])


def run(ctx):
    ev = ctx.ev
    binp = vlib.build_bin("robust")
    d = vlib.scratch_dir()
    try:
        cases = os.path.join(d, "cases.ndjson")
        cfg = "LimitsGen_quick.cfg" if ctx.quick else "LimitsGen_thorough.cfg"
        res = vlib.run_tlc("LimitsGen", cfg, workers=4, heap="2g", timeout=900, payloads={"CASE": cases}, consts={"Seed": str(ctx.seed)})
        if res.violated:
            raise vlib.HarnessError("LimitsGen violates %s:\n%s" % (res.violated, res.error_state))
        ev.tlc(res, cfg)
        ncase = res.payload_counts.get("CASE", 0)
        if ncase == 0:
            raise vlib.HarnessError("TLC produced no bomb configurations")
        crow = vlib.read_ndjson(cases)
        # TLC's enumeration order is periodic in the container: shuffle so that the 8 workers get comparable shares
        import random
        random.Random(ctx.seed).shuffle(crow)
        vlib.write_ndjson(cases, crow)
        rec = os.path.join(d, "records.ndjson")
        p = vlib.sh([binp, "c09", "--in", cases, "--out", rec, "--workers", "8", "--light", "1" if ctx.quick else "0"], timeout=3400)
        summ = _summary(p)
        rows = vlib.read_ndjson(rec)
        if summ["cases"] != ncase or len(rows) != summ["records"]:
            raise vlib.HarnessError("c09 consumed %d of %d cases, %d of %d records" % (summ["cases"], ncase, len(rows), summ["records"]))
        rows.sort(key=lambda r: (r["idx"], r["op"]))
        vlib.write_ndjson(rec, rows)
        seen_idx = {r["idx"] for r in rows}
        if len(seen_idx) != ncase:
            raise vlib.HarnessError("records cover %d of %d cases" % (len(seen_idx), ncase))
        bad = os.path.join(d, "bad.ndjson")
        cls = os.path.join(d, "class.ndjson")
        res = vlib.run_tlc("LimitsTrace", "LimitsTrace.cfg", files=[rec], workers=1, heap="4g", timeout=1800, payloads={"BAD": bad, "CLASS": cls})
        if not res.ok:
            raise vlib.HarnessError("LimitsTrace did not accept the records: %s\n%s" % (res.violated, res.out[-2000:]))
        ev.tlc(res, "LimitsTrace.cfg")
        classes = vlib.read_ndjson(cls)
        if len(classes) != len(rows):
            raise vlib.HarnessError("TLC classified %d of %d records" % (len(classes), len(rows)))
        ccount = collections.Counter(c["c"] for c in classes)
        bound_of = {c["l"]: c["bound"] for c in classes}
        # non-vacuity: bombs must have been defused and harmless inputs accepted
        if ccount["defused"] == 0 or ccount["within-ok"] == 0:
            raise vlib.HarnessError("vacuous run: %s" % dict(ccount))
        verdicts = vlib.read_ndjson(bad) if os.path.exists(bad) else []
        reported = {}
        for v in verdicts:
            r = rows[v["l"] - 1]
            what_in = r["cont"] or r["kind"]
            for why in sorted(v["why"]):
                if why in ("panic", "crash", "stack-overflow", "oom", "timeout"):
                    key = "%s|%s|%s|%s" % (why, what_in, r["op"], r["where"] or "?")
                else:
                    key = "%s|%s|%s|%s" % (why, r["fam"], what_in, r["op"])
                if key in reported:
                    reported[key]["n"] += 1
                    # keep the most extreme example
                    if r["peakkb"] > reported[key]["rec"]["peakkb"]:
                        reported[key]["rec"], reported[key]["bound"] = r, v["bound"]
                    continue
                reported[key] = {"n": 1, "rec": r, "why": why, "bound": v["bound"]}
        for key, x in sorted(reported.items()):
            r = x["rec"]
            cfgtxt = "%s %s pipe=%s pred=%d lenmode=%s class=%s strict=%s" % (r["fam"], r["cont"] or r["kind"], "+".join(r["pipe"]) or "-", r["pred"], r["lenmode"] or "-", r["cls"], r["strict"])
            what = ("%s on a bomb (%s): clause '%s' broken: MaxDecodeBytes=%d MaxStreamBytes=%d encoded=%d stage sizes=%s value=%d limit=%d -> outcome=%s errclass=%s "
                    "materialised decoded=%d encoded=%d count=%d heap peak=%d KB (bound %d KB) in %d ms, err=%r where=%s; %d records with this signature" % (
                        r["op"], cfgtxt, x["why"], r["ldec"], r["lstr"], r["enc"], r["stages"], r["value"], r["limit"], r["outcome"], r["errclass"],
                        r["matdec"], r["matraw"], r["matcount"], r["peakkb"], x["bound"], r["ms"], r["err"][:120], r["where"], x["n"]))
            ctx.report(key, what, {"case": crow[r["idx"]], "record": r})
        # ---- evidence
        nontriv = {(r["idx"]) for r, c in zip(rows, classes) if c["c"] in ("defused", "beyond-ok", "beyond-othererror")}
        clean = [(r, c) for r, c in zip(rows, classes) if c["c"] in ("within-ok", "defused") and r["outcome"] in ("ok", "error")]
        worst = max(clean, key=lambda rc: rc[0]["peakkb"] / float(rc[1]["bound"]))
        for want in ("defused", "within-ok", "beyond-ok"):
            for r, c in zip(rows, classes):
                if c["c"] == want:
                    ev.sample({"class": want, "case": crow[r["idx"]], "record": r})
                    break
        ev.cov(evaluations=len(rows), distinct_nontrivial=len(nontriv),
               rule="one evaluation = one operation (read, read with DecodeAllStreams, validate, optimize+write, extract content/images, ExtractImage on "
                    "every image of the context, parse of the xref stream dictionary alone, derive>consume flows, import/stamp image) on one bomb configuration enumerated by TLC from LimitsGen.tla; non-trivial = distinct configurations that ask for more "
                    "than a configured limit (decoded stage output, encoded size or count beyond the limit)",
               traces_validated_against_impl=len(rows), configurations=ncase, classes=dict(ccount),
               max_heap_peak_kb=max(r["peakkb"] for r in rows), max_rss_kb=max(r["rsskb"] for r in rows),
               worst_clean_peak_over_bound=round(worst[0]["peakkb"] / float(worst[1]["bound"]), 3),
               worst_clean_record={"op": worst[0]["op"], "cont": worst[0]["cont"], "peakkb": worst[0]["peakkb"], "boundkb": worst[1]["bound"]},
               died=summ["dead"], exhaustive=False)
        ev.assume("memory bound = 96*(min(encoded, MaxStreamBytes) + sum over stages of min(stage output, MaxDecodeBytes)) + 64*|input| + 16 MB (Limits.tla), "
                  "calibrated on the unchanged tree with about 4x head-room over the worst record in which nothing beyond a limit was asked for",
                  "an operation that returns ok without materialising the oversized data (lazy decoding, xref repair) satisfies the property",
                  "rejecting data within the limits (over-rejection) is counted in coverage.classes but is not a violation of this property",
                  "harness built with go1.26.8; children run with GOMAXPROCS=2, debug.SetMaxStack(64 MB), memory limit 6 GB")
    finally:
        shutil.rmtree(d, ignore_errors=True)
