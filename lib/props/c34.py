"""C34 - booklet and n-up imposition place every selected page exactly once.
G: TLC enumerates the configuration space (spec/ImposeGen.tla): selected page counts x N in {2,4,6,8} x booklet type x
   binding x paper orientation x multi-folio off / folio sizes; n-up N in {2,3,4,8,9,12,16} and grids up to 5x5.
R: booklet cases run through the real parser (PDFBookletConfig) and, if accepted, the real unexported
   getBookletOrdering (in-package shim harness/inpkg/pkg/pdfcpu/verif_c34_test.go); n-up / grid cases and a sample of
   the booklet cases run end to end through api.NUpFile / GridFile / BookletFile on rawpdf marker documents
   (harness/cmd/c34), and the output is read back: page count and the source pages painted per output page.
V: TLC judges every record with spec/Impose.tla (IsBookletLayout, SignaturesOK, IsNUpLayout) in spec/ImposeTrace.tla."""
import collections, concurrent.futures, json, os, re, shutil
import vlib

META = {
    "level": "model_checking",
    "text": "TLC enumerates every booklet configuration (page count, pages per sheet side, type, binding, orientation, multi-folio and "
            "folio size) and every n-up / grid configuration within the bounds; the real parser decides acceptance, the real "
            "getBookletOrdering / NUpFile / GridFile / BookletFile produce slot lists and output files, and TLC judges each record: every "
            "selected page exactly once, blanks elsewhere, whole sheets (per signature for multi-folio), ceil(k/cells) pages in order.",
    "note": "Trusted: Impose.tla, the in-package shim (only forwards to the real functions), the read-back projection (pdfcpu reader + "
            "form XObject marker lookup), rawpdf marker documents, go1.26.8. Geometry (which rectangle a page lands in) and rotation flags are not judged.",
    "technique": "TLC-enumerated configuration space replayed into the real imposition code, records judged by TLC against Impose.tla",
    "design_ref": "DESIGN.md §5 C34",
}


def _judge(path, n, d, tag):
    bad = os.path.join(d, "bad-%s.ndjson" % tag)
    jr = vlib.run_tlc("ImposeTrace", "ImposeTrace.cfg", files=[(path, "records.ndjson")], workers=1, timeout=3000, heap="6g", payloads={"BAD": bad})
    if not jr.ok:
        raise vlib.HarnessError("ImposeTrace did not accept the %s records: %s\n%s" % (tag, jr.violated, jr.out[-2000:]))
    if jr.distinct != n + 1:
        raise vlib.HarnessError("TLC judged %d of %d %s records" % (jr.distinct - 1, n, tag))
    out = {}
    if os.path.exists(bad):
        for b in vlib.read_ndjson(bad):
            out[b["l"]] = ",".join(sorted(k for k, v in b["diag"].items() if not v))
    return jr, out


def _shim(cases, out, d):
    p = vlib.inpkg_test("pkg/pdfcpu", os.path.join(vlib.HARNESS, "inpkg", "pkg", "pdfcpu"), run="TestVerifC34$",
                        env={"VERIF_C34_IN": cases, "VERIF_C34_OUT": out}, timeout=2400)
    if p.returncode != 0 or not os.path.exists(out):
        raise vlib.HarnessError("in-package shim TestVerifC34 failed:\n" + p.stdout[-3000:])
    n = sum(1 for _ in open(out))
    jr, bad = _judge(out, n, d, "booklet")
    return n, jr, bad


def _files(binp, cases, out, d):
    p = vlib.sh([binp, "run", "--cases", cases, "--out", out], timeout=2400)
    summ = json.loads([l for l in p.stdout.splitlines() if l.startswith("SUMMARY ")][-1][8:])
    jr, bad = _judge(out, summ["cases"], d, "files")
    return summ, jr, bad


def _key(r, sig):
    if r["kind"] in ("booklet", "bookletfile"):
        if r["mf"] and r["n"] > 2:
            return "booklet|multifolio|n>2"      # one root cause: the multi-folio code assumes 2 pages per sheet side
        desc = re.sub(r", foliosize:\d+", "", r["desc"]).replace(" ", "")
        return "%s|n=%d|%s|%s" % (r["kind"], r["n"], desc, sig)
    return "%s|n=%d|%s" % (r["kind"], r["n"], sig)


def run(ctx):
    ev = ctx.ev
    d = vlib.scratch_dir()
    pool = concurrent.futures.ThreadPoolExecutor(3)
    try:
        fut_bin = pool.submit(vlib.build_bin, "c34")
        cases = os.path.join(d, "cases.ndjson")
        cfg = "ImposeGen_quick.cfg" if ctx.quick else "ImposeGen_thorough.cfg"
        res = vlib.run_tlc("ImposeGen", cfg, workers=min(4, vlib.NCPU), timeout=1800, payloads={"CASE": cases})
        if res.violated or not res.payload_counts.get("CASE"):
            raise vlib.HarnessError("ImposeGen produced no cases (%s)" % res.violated)
        ev.tlc(res, cfg)
        ncases = res.payload_counts["CASE"]
        brec, frec = os.path.join(d, "booklet.ndjson"), os.path.join(d, "files.ndjson")
        fut_b = pool.submit(_shim, cases, brec, d)
        fut_f = pool.submit(_files, fut_bin.result(), cases, frec, d)
        nb, jrb, badb = fut_b.result()
        summ, jrf, badf = fut_f.result()
        if summ["lines"] != ncases or nb + summ["cases"] != ncases:
            raise vlib.HarnessError("cases consumed: %d booklet + %d file of %d" % (nb, summ["cases"], ncases))
        ev.tlc(jrb, "ImposeTrace.cfg/booklet")
        ev.tlc(jrf, "ImposeTrace.cfg/files")
        kinds = collections.Counter()
        accepted = rejected = 0
        nontrivial = set()
        reject_reasons = collections.Counter()
        for path, bad in ((brec, badb), (frec, badf)):
            with open(path) as fh:
                for i, line in enumerate(fh, 1):
                    r = json.loads(line)
                    kinds[r["kind"]] += 1
                    if not r["accepted"]:
                        rejected += 1
                        reject_reasons[r["err"][:60]] += 1
                    else:
                        accepted += 1
                        # non-trivial: needs blank slots or more than one sheet / output page
                        if r["kind"] == "booklet":
                            if len(r["slots"]) > 2 * r["n"] or 0 in r["slots"]:
                                nontrivial.add((r["kind"], r["desc"], r["k"]))
                        elif len(r["pages"]) > 1:
                            nontrivial.add((r["kind"], r["desc"], r["k"]))
                    if i in bad:
                        what = "%s %s n=%d with %d selected pages %s: violates [%s]; %s" % (
                            r["kind"], r["desc"], r["n"], r["k"], r["sel"][:12], bad[i],
                            ("error " + r["err"]) if r["err"] else ("slots " + str(r["slots"][:40]) if r["kind"] == "booklet"
                                                                     else "placed per output page " + str(r["pages"][:8])))
                        ctx.report(_key(r, bad[i]), what, r)
                    elif r["accepted"] and len(ev.d["coverage"]["samples"]) < 6 and r["k"] in (5, 9) and r["n"] in (4, 9) and \
                            not any(s.get("kind") == r["kind"] for s in ev.d["coverage"]["samples"]):
                        ev.sample(r)
        if not ev.d["coverage"]["samples"]:
            ev.sample(json.loads(open(brec).readline()))
        ev.cov(evaluations=ncases, distinct_nontrivial=len(nontrivial), traces_validated_against_impl=accepted,
               rule="one case per point of the configuration space of ImposeGen (%s): booklet cases k x N x type x binding x orientation x "
                    "(multi-folio off | folio size) through the real parser and getBookletOrdering; n-up, grid and a sample of booklet "
                    "cases end to end through the file API; configurations the real parser rejects are recorded, not judged; "
                    "non-trivial = accepted cases needing blank slots or more than one sheet / output page" % cfg,
               exhaustive=True, cases_by_kind=dict(kinds), accepted=accepted, rejected_by_parser=rejected,
               reject_reasons=dict(reject_reasons))
        ev.assume("a multi-folio signature is 4 x foliosize slots (pkg/pdfcpu/booklet.go, usage text) and must itself be a whole number of sheets",
                  "selected pages are first + step*(i-1) with first, step derived from k (not contiguous, not starting at 1)",
                  "placement order on an output page = order of the form XObject invocations in its content stream",
                  "the API-level acceptance rule (folio size > 0) is replicated in the shim; folio sizes are 1..12")
    finally:
        pool.shutdown(wait=True)
        shutil.rmtree(d, ignore_errors=True)
