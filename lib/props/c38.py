"""C38 - removing watermarks undoes adding them; detection reports a watermark exactly when one is there.
G/R: TLC enumerates add/remove sequences of spec/Watermarks.tla (kind x onTop x page selection x description, 1-2 adds, removal with and
     without selection) with the model's set of watermarked pages after every step; harness/cmd/bmformwm wm-replay performs them with the
     real api.Add{Text,Image,PDF}WatermarksFile / RemoveWatermarksFile on unrotated marker documents with 1..3 content streams per page
     and compares, after every step, the pages that carry a watermark artifact, the normalised content of all other pages with the
     original, and api.HasWatermarksFile."""
import json, os, shutil
import vlib

META = {
    "level": "model_checking",
    "text": "TLC enumerates every add/remove sequence of Watermarks.tla within the cfg bounds (text/image/PDF x stamp/watermark x page "
            "selections (meaning from the C31 model) x descriptions x flat/nested page tree, one or two adds, then removal) with the model state after "
            "each step; every sequence is replayed through the real API on marker documents with single and multiple content streams and "
            "the projected real state (watermarked pages, normalised page content, HasWatermarks) is compared step by step.",
    "note": "Trusted: Watermarks.tla/Sel.tla as the meaning of add/remove/selection; the Go projection (artifact marker in the decoded page "
            "content, proj.NormContent); go1.26.8 toolchain.",
    "technique": "TLA+ reference model enumerated by TLC, behaviours replayed step by step into the real API with state projection",
    "design_ref": "DESIGN.md §5 C38",
}


def run(ctx):
    ev = ctx.ev
    binp = vlib.build_bin("bmformwm")
    os.environ["GOMAXPROCS"] = str(min(8, vlib.NCPU))   # the replayers use that many workers; more Ps only add contention
    d = vlib.scratch_dir()
    ncpu = min(8, vlib.NCPU)
    try:
        cfg = "Watermarks_quick.cfg" if ctx.quick else "Watermarks_thorough.cfg"
        cases = os.path.join(d, "wm-cases.ndjson")
        res = vlib.run_tlc("Watermarks", cfg, workers=ncpu, timeout=1500, seed=ctx.seed, payloads={"WM": cases})
        if res.violated:
            raise vlib.HarnessError("design model Watermarks violates its own invariant %s:\n%s" % (res.violated, res.error_state))
        n = res.payload_counts.get("WM", 0)
        if n == 0:
            raise vlib.HarnessError("TLC produced no watermark cases")
        ev.tlc(res, cfg)
        with open(cases) as fh:
            lines = fh.readlines()
        for l in (lines[0], lines[len(lines) // 2], lines[-1]):
            ev.sample(json.loads(l))
        out = os.path.join(d, "wm-mism.ndjson")
        p = vlib.sh([binp, "wm-replay", "--in", cases, "--out", out, "--workers", str(ncpu)], timeout=3000)
        summ = json.loads([l for l in p.stdout.splitlines() if l.startswith("SUMMARY ")][-1][8:])
        if summ["cases"] != n:
            raise vlib.HarnessError("wm-replay consumed %d of %d cases" % (summ["cases"], n))
        found = {}
        for m in vlib.read_ndjson(out):
            found.setdefault(m["key"], []).append(m)
        for key, ms in sorted(found.items()):
            m = ms[0]
            ctx.report(key, "%s; %d occurrences of this class (kind|single or multi content streams|T stamp, B watermark adds that hit the page) in this run"
                       % (m["what"], len(ms)), m)
        ev.cov(evaluations=n, distinct_nontrivial=summ["nontrivial"], traces_validated_against_impl=n,
               rule="every behaviour of Watermarks.tla within the cfg bounds (document shape: flat or nested page tree x content stream pattern; 1-2 adds: kind x onTop x selection x description, then a removal with "
                    "one of the removal selections, then - if that was a partial removal - a removal without selection) is one case of %d steps on "
                    "average, each step replayed and projected; non-trivial = distinct sequences in which a page with more than one content stream "
                    "carries a watermark at some step" % (summ["steps"] // max(n, 1)),
               exhaustive=True, steps_replayed=summ["steps"], cases_on_nested_page_trees=summ.get("nested", 0), mismatches=summ["mismatches"])
        ev.assume("a page carries a watermark iff its decoded content contains the artifact marker '/Artifact <</Subtype /Watermark'",
                  "page content is compared up to whitespace and enclosing q .. Q pairs (proj.NormContent), one pair per stamp step",
                  "marker documents are unrotated with a flat or a two-level page tree (rawpdf), resources are direct dictionaries on the pages",
                  "harness built with go1.26.8")
    finally:
        shutil.rmtree(d, ignore_errors=True)
