// Package proj projects a real PDF (read with pdfcpu's reader) onto the abstract document state used by the
// TLA+ reference models: the page list with per-page marker, effective rotation and boxes.
package proj

import (
	"bytes"
	"fmt"
	"io"
	"os"
	"regexp"
	"strings"

	"github.com/pdfcpu/pdfcpu/pkg/api"
	"github.com/pdfcpu/pdfcpu/pkg/pdfcpu"
	"github.com/pdfcpu/pdfcpu/pkg/pdfcpu/model"
)

// Page is the abstract page.
type Page struct {
	Marker  string   `json:"marker"`  // first (...) Tj string found in the decoded content ("" for blank pages)
	Markers []string `json:"markers"` // all (...) Tj strings in order
	Rot     int      `json:"rot"`     // effective rotation normalised to 0..359
	Media   [4]int   `json:"media"`   // effective MediaBox rounded to integers [llx lly urx ury]
	Crop    [4]int   `json:"crop"`    // effective CropBox (== Media if absent)
	HasCrop bool     `json:"hascrop"` // page (or ancestor) defines a CropBox
	Content string   `json:"-"`       // decoded content stream text
}

var tjRe = regexp.MustCompile(`\(([^()]*)\)\s*Tj`)

func conf() *model.Configuration {
	c := model.NewDefaultConfiguration()
	c.ValidationMode = model.ValidationRelaxed
	return c
}

// Context reads and validates a file.
func Context(path string, c *model.Configuration) (*model.Context, error) {
	f, err := os.Open(path)
	if err != nil {
		return nil, err
	}
	defer f.Close()
	if c == nil {
		c = conf()
	}
	return api.ReadAndValidate(f, c)
}

func box4(b *model.Box) [4]int {
	if b == nil || b.Rect == nil {
		return [4]int{}
	}
	r := b.Rect
	rd := func(f float64) int {
		if f < 0 {
			return int(f - 0.5)
		}
		return int(f + 0.5)
	}
	return [4]int{rd(r.LL.X), rd(r.LL.Y), rd(r.UR.X), rd(r.UR.Y)}
}

// PagesOf projects every page of ctx.
func PagesOf(ctx *model.Context) ([]Page, error) {
	if err := ctx.EnsurePageCount(); err != nil {
		return nil, err
	}
	pbs, err := ctx.PageBoundaries(nil)
	if err != nil {
		return nil, err
	}
	out := make([]Page, ctx.PageCount)
	for i := 1; i <= ctx.PageCount; i++ {
		p := Page{}
		r, err := pdfcpu.ExtractPageContent(ctx, i)
		if err != nil {
			return nil, fmt.Errorf("page %d content: %w", i, err)
		}
		if r != nil {
			b, _ := io.ReadAll(r)
			p.Content = string(bytes.TrimSpace(b))
			for _, m := range tjRe.FindAllStringSubmatch(p.Content, -1) {
				p.Markers = append(p.Markers, m[1])
			}
		}
		if p.Markers == nil {
			p.Markers = []string{}
		}
		if len(p.Markers) > 0 {
			p.Marker = p.Markers[0]
		}
		if i-1 < len(pbs) {
			pb := pbs[i-1]
			p.Rot = ((pb.Rot % 360) + 360) % 360
			p.Media = box4(pb.Media)
			if pb.Crop != nil && pb.Crop.Rect != nil {
				p.Crop = box4(pb.Crop)
				p.HasCrop = true
			} else {
				p.Crop = p.Media
			}
		}
		out[i-1] = p
	}
	return out, nil
}

// Pages projects the pages of a file.
func Pages(path string, c *model.Configuration) ([]Page, error) {
	ctx, err := Context(path, c)
	if err != nil {
		return nil, err
	}
	return PagesOf(ctx)
}

// Markers returns just the marker sequence of a file.
func Markers(path string, c *model.Configuration) ([]string, error) {
	ps, err := Pages(path, c)
	if err != nil {
		return nil, err
	}
	m := make([]string, len(ps))
	for i, p := range ps {
		m[i] = p.Marker
	}
	return m, nil
}

// NormContent removes whitespace differences and one enclosing q ... Q pair.
func NormContent(s string) string {
	f := strings.Fields(s)
	for len(f) >= 2 && f[0] == "q" && f[len(f)-1] == "Q" {
		f = f[1 : len(f)-1]
	}
	return strings.Join(f, " ")
}
