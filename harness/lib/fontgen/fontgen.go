// Package fontgen derives extra test fonts from the Roboto sample: renamed copies and TrueType collections.
package fontgen

import (
	"bytes"
	"encoding/binary"
	"os"
	"path/filepath"
)

func repoDir() string {
	if d := os.Getenv("VERIF_REPO"); d != "" {
		return d
	}
	return "/repo"
}

// Roboto returns the bytes of the sample font.
func Roboto() []byte {
	b, err := os.ReadFile(filepath.Join(repoDir(), "pkg/testdata/fonts/Roboto-Regular.ttf"))
	if err != nil {
		panic(err)
	}
	return b
}

func utf16be(s string) []byte {
	var b []byte
	for _, r := range s {
		b = append(b, byte(r>>8), byte(r))
	}
	return b
}

// Renamed returns a copy of the font whose PostScript name "Roboto-Regular" is replaced by name (same length required).
func Renamed(font []byte, name string) []byte {
	const old = "Roboto-Regular"
	if len(name) != len(old) {
		panic("fontgen: name must have the same length as " + old)
	}
	out := bytes.ReplaceAll(font, []byte(old), []byte(name))
	out = bytes.ReplaceAll(out, utf16be(old), utf16be(name))
	return out
}

// Collection builds a TrueType collection (ttcf version 1.0) from complete sfnt fonts.
func Collection(fonts ...[]byte) []byte {
	n := len(fonts)
	hdr := 12 + 4*n
	var buf bytes.Buffer
	buf.WriteString("ttcf")
	binary.Write(&buf, binary.BigEndian, uint32(0x00010000))
	binary.Write(&buf, binary.BigEndian, uint32(n))
	offs := make([]int, n)
	pos := hdr
	for i, f := range fonts {
		offs[i] = pos
		pos += (len(f) + 3) &^ 3
	}
	for _, o := range offs {
		binary.Write(&buf, binary.BigEndian, uint32(o))
	}
	for i, f := range fonts {
		g := append([]byte(nil), f...)
		numTables := int(binary.BigEndian.Uint16(g[4:6]))
		for t := 0; t < numTables; t++ {
			rec := 12 + 16*t
			off := binary.BigEndian.Uint32(g[rec+8 : rec+12])
			binary.BigEndian.PutUint32(g[rec+8:rec+12], off+uint32(offs[i]))
		}
		buf.Write(g)
		for buf.Len()%4 != 0 {
			buf.WriteByte(0)
		}
	}
	return buf.Bytes()
}
