// Package strictpdf is a strict, non-repairing PDF file-structure parser (standard library only).
// It is the trusted projection of property C18: it never searches for objects, never repairs offsets or
// lengths, and reports exactly what is found at the byte positions a file states.  It does not use pdfcpu.
package strictpdf

import (
	"bytes"
	"compress/zlib"
	"fmt"
	"io"
	"sort"
	"strconv"
)

// ---------------------------------------------------------------------------------------- objects

type Null struct{}
type Name string
type Str []byte
type Ref struct{ N, G int }
type Arr []any
type Dict map[string]any

// other object kinds: bool, int64, float64

type lexer struct {
	d []byte
	p int
}

func isWS(c byte) bool { return c == 0 || c == 9 || c == 10 || c == 12 || c == 13 || c == 32 }
func isDelim(c byte) bool {
	switch c {
	case '(', ')', '<', '>', '[', ']', '{', '}', '/', '%':
		return true
	}
	return false
}
func isDigit(c byte) bool { return c >= '0' && c <= '9' }

func (l *lexer) skipWS() {
	for l.p < len(l.d) {
		c := l.d[l.p]
		if isWS(c) {
			l.p++
		} else if c == '%' {
			for l.p < len(l.d) && l.d[l.p] != 10 && l.d[l.p] != 13 {
				l.p++
			}
		} else {
			return
		}
	}
}

func (l *lexer) has(s string) bool {
	return l.p+len(s) <= len(l.d) && string(l.d[l.p:l.p+len(s)]) == s
}

// keyword: s followed by a delimiter, whitespace or EOF
func (l *lexer) kw(s string) bool {
	if !l.has(s) {
		return false
	}
	q := l.p + len(s)
	return q == len(l.d) || isWS(l.d[q]) || isDelim(l.d[q])
}

func (l *lexer) uint() (int64, bool) {
	s := l.p
	var v int64
	for l.p < len(l.d) && isDigit(l.d[l.p]) {
		v = v*10 + int64(l.d[l.p]-'0')
		l.p++
		if l.p-s > 18 {
			return 0, false
		}
	}
	return v, l.p > s
}

func hexv(c byte) int {
	switch {
	case c >= '0' && c <= '9':
		return int(c - '0')
	case c >= 'a' && c <= 'f':
		return int(c-'a') + 10
	case c >= 'A' && c <= 'F':
		return int(c-'A') + 10
	}
	return -1
}

func (l *lexer) obj(depth int) (any, error) {
	if depth > 200 {
		return nil, fmt.Errorf("nesting too deep")
	}
	l.skipWS()
	if l.p >= len(l.d) {
		return nil, fmt.Errorf("unexpected end of data")
	}
	c := l.d[l.p]
	switch {
	case c == '/':
		l.p++
		var b []byte
		for l.p < len(l.d) && !isWS(l.d[l.p]) && !isDelim(l.d[l.p]) {
			ch := l.d[l.p]
			if ch == '#' {
				if l.p+2 >= len(l.d) || hexv(l.d[l.p+1]) < 0 || hexv(l.d[l.p+2]) < 0 {
					return nil, fmt.Errorf("bad # escape in name at %d", l.p)
				}
				ch = byte(hexv(l.d[l.p+1])<<4 | hexv(l.d[l.p+2]))
				l.p += 2
			}
			b = append(b, ch)
			l.p++
		}
		return Name(b), nil
	case c == '(':
		return l.litString()
	case c == '<':
		if l.has("<<") {
			l.p += 2
			d := Dict{}
			for {
				l.skipWS()
				if l.has(">>") {
					l.p += 2
					return d, nil
				}
				k, err := l.obj(depth + 1)
				if err != nil {
					return nil, err
				}
				kn, ok := k.(Name)
				if !ok {
					return nil, fmt.Errorf("dict key is not a name at %d", l.p)
				}
				v, err := l.obj(depth + 1)
				if err != nil {
					return nil, err
				}
				if _, dup := d[string(kn)]; dup {
					return nil, fmt.Errorf("duplicate dict key /%s", kn)
				}
				d[string(kn)] = v
			}
		}
		l.p++
		var b []byte
		hi := -1
		for {
			if l.p >= len(l.d) {
				return nil, fmt.Errorf("unterminated hex string")
			}
			ch := l.d[l.p]
			l.p++
			if ch == '>' {
				break
			}
			if isWS(ch) {
				continue
			}
			v := hexv(ch)
			if v < 0 {
				return nil, fmt.Errorf("bad hex digit at %d", l.p-1)
			}
			if hi < 0 {
				hi = v
			} else {
				b = append(b, byte(hi<<4|v))
				hi = -1
			}
		}
		if hi >= 0 {
			b = append(b, byte(hi<<4))
		}
		return Str(b), nil
	case c == '[':
		l.p++
		a := Arr{}
		for {
			l.skipWS()
			if l.p < len(l.d) && l.d[l.p] == ']' {
				l.p++
				return a, nil
			}
			v, err := l.obj(depth + 1)
			if err != nil {
				return nil, err
			}
			a = append(a, v)
		}
	case c == '+' || c == '-' || c == '.' || isDigit(c):
		return l.number()
	case l.kw("true"):
		l.p += 4
		return true, nil
	case l.kw("false"):
		l.p += 5
		return false, nil
	case l.kw("null"):
		l.p += 4
		return Null{}, nil
	}
	return nil, fmt.Errorf("unexpected byte %q at %d", c, l.p)
}

func (l *lexer) number() (any, error) {
	s := l.p
	if l.d[l.p] == '+' || l.d[l.p] == '-' {
		l.p++
	}
	real := false
	nd := 0
	for l.p < len(l.d) && (isDigit(l.d[l.p]) || l.d[l.p] == '.') {
		if l.d[l.p] == '.' {
			if real {
				return nil, fmt.Errorf("bad number at %d", s)
			}
			real = true
		} else {
			nd++
		}
		l.p++
	}
	if nd == 0 || (l.p < len(l.d) && !isWS(l.d[l.p]) && !isDelim(l.d[l.p])) {
		return nil, fmt.Errorf("bad number at %d", s)
	}
	txt := string(l.d[s:l.p])
	if real {
		f, err := strconv.ParseFloat(txt, 64)
		if err != nil {
			return nil, fmt.Errorf("bad real at %d", s)
		}
		return f, nil
	}
	v, err := strconv.ParseInt(txt, 10, 64)
	if err != nil {
		return nil, fmt.Errorf("bad integer at %d", s)
	}
	// indirect reference "n g R" ?
	if v >= 0 && txt[0] != '+' && txt[0] != '-' {
		save := l.p
		q := &lexer{l.d, l.p}
		q.skipWS()
		if g, ok := q.uint(); ok && q.p < len(q.d) && isWS(q.d[q.p]) {
			q.skipWS()
			if q.kw("R") {
				l.p = q.p + 1
				return Ref{int(v), int(g)}, nil
			}
		}
		l.p = save
	}
	return v, nil
}

func (l *lexer) litString() (any, error) {
	l.p++
	var b []byte
	depth := 1
	for {
		if l.p >= len(l.d) {
			return nil, fmt.Errorf("unterminated string")
		}
		c := l.d[l.p]
		l.p++
		switch c {
		case '(':
			depth++
			b = append(b, c)
		case ')':
			depth--
			if depth == 0 {
				return Str(b), nil
			}
			b = append(b, c)
		case '\\':
			if l.p >= len(l.d) {
				return nil, fmt.Errorf("unterminated string")
			}
			e := l.d[l.p]
			l.p++
			switch e {
			case 'n':
				b = append(b, 10)
			case 'r':
				b = append(b, 13)
			case 't':
				b = append(b, 9)
			case 'b':
				b = append(b, 8)
			case 'f':
				b = append(b, 12)
			case '(', ')', '\\':
				b = append(b, e)
			case 13:
				if l.p < len(l.d) && l.d[l.p] == 10 {
					l.p++
				}
			case 10:
			default:
				if e >= '0' && e <= '7' {
					v := int(e - '0')
					for k := 0; k < 2 && l.p < len(l.d) && l.d[l.p] >= '0' && l.d[l.p] <= '7'; k++ {
						v = v*8 + int(l.d[l.p]-'0')
						l.p++
					}
					b = append(b, byte(v))
				} else {
					b = append(b, e)
				}
			}
		case 13:
			if l.p < len(l.d) && l.d[l.p] == 10 {
				l.p++
			}
			b = append(b, 10)
		default:
			b = append(b, c)
		}
	}
}

// ParseObject parses one direct object from b (used for object stream members).
func ParseObject(b []byte) (any, int, error) {
	l := &lexer{b, 0}
	o, err := l.obj(0)
	return o, l.p, err
}

// ------------------------------------------------------------------------------------- file layout

// Entry is one cross-reference entry. T: 0 free (A next free object, B generation), 1 in use (A offset, B generation),
// 2 compressed (A object stream number, B index).  T = -1: no entry.
type Entry struct {
	T   int
	A   int64
	B   int
	Sec int // index of the section (0 = newest) that defines the entry
}

// Section is one cross-reference section.
type Section struct {
	Off      int64
	Kind     string // "table", "stream", "none" (nothing parseable at Off)
	Err      string // why the section is not strictly well-formed ("" if it is)
	Prev     int64  // -1: none
	Size     int64  // /Size
	SelfN    int    // object number of the xref stream (-1 for tables)
	Trailer  Dict
	Entries  map[int]Entry
	Subs     [][2]int // subsections (start, count)
	XRefStm  int64    // hybrid reference (-1 none)
	EndOff   int64    // offset just after the section (after the trailer dict / endobj)
	TailOK   bool     // newest section only: "startxref EOL off EOL %%EOF EOL" follows directly
}

// Found describes what is at the offset of an in-use entry.
type Found struct {
	N, G   int  // parsed "n g obj" header; -1 -1 if there is none exactly at the offset
	Parsed bool // the object body parsed and ended with endobj
	Err    string
	Stream *StreamInfo
	Obj    any
	End    int64 // offset after endobj
}

// StreamInfo describes a stream object's data extent.
type StreamInfo struct {
	StartEol string // "LF", "CRLF", "CR" (tolerated, non-conforming), "none"
	DataOff  int64
	Len      int64 // declared /Length (resolved through the xref if indirect); -1 unresolvable
	LenInd   bool
	EndOK    bool    // at DataOff+Len: optional EOL, "endstream", whitespace, "endobj"
	EolEnd   int     // bytes of EOL between data and endstream when EndOK
	Counts   []int64 // candidate byte counts from DataOff up to the first "endstream" keyword, not counting the EOL before it
	Dict     Dict
}

// File is the parsed layout.
type File struct {
	Data      []byte
	HeaderOK  bool
	Version   string
	TailOK    bool  // file ends with startxref EOL digits EOL %%EOF [EOL]
	StartXRef int64 // -1 if TailOK is false
	Secs      []*Section
	ChainErr  string
	Table     map[int]Entry // merged, newest section wins
	MaxN      int
	Encrypted bool
}

func eolLen(d []byte, p int) int {
	if p < len(d) && d[p] == 13 {
		if p+1 < len(d) && d[p+1] == 10 {
			return 2
		}
		return 1
	}
	if p < len(d) && d[p] == 10 {
		return 1
	}
	return 0
}

// Parse parses the file structure strictly.
func Parse(data []byte) *File {
	f := &File{Data: data, StartXRef: -1, Table: map[int]Entry{}}
	f.header()
	f.tail()
	if f.StartXRef < 0 {
		f.ChainErr = "no startxref"
		return f
	}
	off := f.StartXRef
	seen := map[int64]bool{}
	for off >= 0 {
		if seen[off] {
			f.ChainErr = "Prev chain loops"
			break
		}
		seen[off] = true
		s := f.section(off)
		f.Secs = append(f.Secs, s)
		if s.Kind == "none" {
			break
		}
		if s.XRefStm >= 0 {
			// hybrid file: the xref stream supplies entries hidden from the table (lower precedence than the table itself)
			hs := f.section(s.XRefStm)
			if hs.Kind == "stream" {
				for n, e := range hs.Entries {
					if _, ok := s.Entries[n]; !ok {
						s.Entries[n] = e
					}
				}
			}
		}
		off = s.Prev
	}
	for i, s := range f.Secs {
		for n, e := range s.Entries {
			if _, ok := f.Table[n]; !ok {
				e.Sec = i
				f.Table[n] = e
			}
		}
	}
	f.MaxN = -1
	for n := range f.Table {
		if n > f.MaxN {
			f.MaxN = n
		}
	}
	if len(f.Secs) > 0 && f.Secs[0].Trailer != nil {
		_, f.Encrypted = f.Secs[0].Trailer["Encrypt"]
	}
	return f
}

func (f *File) header() {
	d := f.Data
	if len(d) < 9 || string(d[:5]) != "%PDF-" || !isDigit(d[5]) || d[6] != '.' || !isDigit(d[7]) {
		return
	}
	if eolLen(d, 8) == 0 {
		return
	}
	f.HeaderOK = true
	f.Version = string(d[5:8])
}

func (f *File) tail() {
	d := f.Data
	p := len(d)
	// optional final EOL
	if p >= 2 && d[p-2] == 13 && d[p-1] == 10 {
		p -= 2
	} else if p >= 1 && (d[p-1] == 10 || d[p-1] == 13) {
		p--
	}
	if p < 5 || string(d[p-5:p]) != "%%EOF" {
		return
	}
	p -= 5
	k := backEol(d, p)
	if k == 0 {
		return
	}
	p -= k
	e := p
	for p > 0 && isDigit(d[p-1]) {
		p--
	}
	if p == e || e-p > 15 {
		return
	}
	v, _ := strconv.ParseInt(string(d[p:e]), 10, 64)
	k = backEol(d, p)
	if k == 0 {
		return
	}
	p -= k
	if p < 9 || string(d[p-9:p]) != "startxref" {
		return
	}
	f.TailOK = true
	f.StartXRef = v
}

func backEol(d []byte, p int) int {
	if p >= 2 && d[p-2] == 13 && d[p-1] == 10 {
		return 2
	}
	if p >= 1 && (d[p-1] == 10 || d[p-1] == 13) {
		return 1
	}
	return 0
}

func (f *File) section(off int64) *Section {
	s := &Section{Off: off, Kind: "none", Prev: -1, Size: -1, SelfN: -1, XRefStm: -1, Entries: map[int]Entry{}}
	d := f.Data
	if off < 0 || off >= int64(len(d)) {
		s.Err = "offset outside the file"
		return s
	}
	l := &lexer{d, int(off)}
	if l.has("xref") && eolLen(d, l.p+4) > 0 {
		f.xrefTable(s, l)
		return s
	}
	fd := f.ObjectAt(off)
	if fd.N < 0 {
		s.Err = "neither 'xref' nor an object header at the offset"
		return s
	}
	if fd.Stream == nil || !fd.Parsed {
		s.Err = "object at the offset is not a well-formed stream: " + fd.Err
		return s
	}
	sd := fd.Stream.Dict
	if t, _ := sd["Type"].(Name); t != "XRef" {
		s.Err = "stream at the offset is not /Type /XRef"
		return s
	}
	s.Kind = "stream"
	s.SelfN = fd.N
	s.Trailer = sd
	s.EndOff = fd.End
	if !fd.Stream.EndOK {
		s.Err = "xref stream /Length does not locate endstream"
		return s
	}
	raw := d[fd.Stream.DataOff : fd.Stream.DataOff+fd.Stream.Len]
	content, err := DecodeStream(sd, raw)
	if err != nil {
		s.Err = "xref stream: " + err.Error()
		return s
	}
	w, ok := sd["W"].(Arr)
	if !ok || len(w) != 3 {
		s.Err = "xref stream: bad /W"
		return s
	}
	var ws [3]int
	for i := range ws {
		v, ok := w[i].(int64)
		if !ok || v < 0 || v > 8 {
			s.Err = "xref stream: bad /W"
			return s
		}
		ws[i] = int(v)
	}
	size, ok := sd["Size"].(int64)
	if !ok {
		s.Err = "xref stream: missing /Size"
		return s
	}
	s.Size = size
	idx := Arr{int64(0), size}
	if ia, ok := sd["Index"].(Arr); ok {
		idx = ia
	}
	if len(idx)%2 != 0 {
		s.Err = "xref stream: odd /Index"
		return s
	}
	rowLen := ws[0] + ws[1] + ws[2]
	pos := 0
	for i := 0; i < len(idx); i += 2 {
		st, ok1 := idx[i].(int64)
		cn, ok2 := idx[i+1].(int64)
		if !ok1 || !ok2 || st < 0 || cn < 0 {
			s.Err = "xref stream: bad /Index"
			return s
		}
		s.Subs = append(s.Subs, [2]int{int(st), int(cn)})
		for k := int64(0); k < cn; k++ {
			if pos+rowLen > len(content) {
				s.Err = "xref stream: data shorter than /Index demands"
				return s
			}
			fld := func(w int, def int64) int64 {
				if w == 0 {
					return def
				}
				var v int64
				for j := 0; j < w; j++ {
					v = v<<8 | int64(content[pos])
					pos++
				}
				return v
			}
			t := fld(ws[0], 1)
			a := fld(ws[1], 0)
			b := fld(ws[2], 0)
			n := int(st + k)
			if _, dup := s.Entries[n]; dup {
				s.Err = fmt.Sprintf("xref stream: object %d listed twice", n)
				return s
			}
			if t < 0 || t > 2 {
				s.Err = fmt.Sprintf("xref stream: entry type %d for object %d", t, n)
				return s
			}
			s.Entries[n] = Entry{T: int(t), A: a, B: int(b)}
		}
	}
	if pos != len(content) {
		s.Err = "xref stream: data longer than /Index demands"
		return s
	}
	if p, ok := sd["Prev"].(int64); ok {
		s.Prev = p
	}
	s.TailOK = f.tailFollows(int(fd.End), off)
	return s
}

// tailFollows: at p (after optional whitespace) "startxref" EOL off EOL "%%EOF" EOL? ends the file.
func (f *File) tailFollows(p int, off int64) bool {
	d := f.Data
	for p < len(d) && isWS(d[p]) {
		p++
	}
	want := "startxref"
	if p+len(want) > len(d) || string(d[p:p+len(want)]) != want {
		return false
	}
	p += len(want)
	k := eolLen(d, p)
	if k == 0 {
		return false
	}
	p += k
	num := strconv.FormatInt(off, 10)
	if p+len(num) > len(d) || string(d[p:p+len(num)]) != num {
		return false
	}
	p += len(num)
	k = eolLen(d, p)
	if k == 0 {
		return false
	}
	p += k
	if p+5 > len(d) || string(d[p:p+5]) != "%%EOF" {
		return false
	}
	p += 5
	p += eolLen(d, p)
	return p == len(d)
}

func (f *File) xrefTable(s *Section, l *lexer) {
	d := f.Data
	s.Kind = "table"
	l.p += 4
	l.p += eolLen(d, l.p)
	for {
		if l.kw("trailer") {
			break
		}
		st, ok := l.uint()
		if !ok || l.p >= len(d) || d[l.p] != ' ' {
			s.Err = fmt.Sprintf("bad subsection header at %d", l.p)
			return
		}
		l.p++
		cn, ok := l.uint()
		if !ok {
			s.Err = fmt.Sprintf("bad subsection header at %d", l.p)
			return
		}
		// tolerate a single trailing space before the EOL
		k := eolLen(d, l.p)
		if k == 0 {
			s.Err = fmt.Sprintf("subsection header not terminated by EOL at %d", l.p)
			return
		}
		l.p += k
		s.Subs = append(s.Subs, [2]int{int(st), int(cn)})
		for i := int64(0); i < cn; i++ {
			if l.p+20 > len(d) {
				s.Err = "xref table truncated"
				return
			}
			e := d[l.p : l.p+20]
			okf := e[10] == ' ' && e[16] == ' ' && (e[17] == 'n' || e[17] == 'f') &&
				((e[18] == ' ' && (e[19] == 10 || e[19] == 13)) || (e[18] == 13 && e[19] == 10))
			for j := 0; j < 10 && okf; j++ {
				okf = isDigit(e[j])
			}
			for j := 11; j < 16 && okf; j++ {
				okf = isDigit(e[j])
			}
			if !okf {
				s.Err = fmt.Sprintf("xref entry for object %d is not in the 20-byte format: %q", st+i, e)
				return
			}
			a, _ := strconv.ParseInt(string(e[0:10]), 10, 64)
			b, _ := strconv.Atoi(string(e[11:16]))
			n := int(st + i)
			if _, dup := s.Entries[n]; dup {
				s.Err = fmt.Sprintf("object %d listed twice", n)
				return
			}
			t := 1
			if e[17] == 'f' {
				t = 0
			}
			s.Entries[n] = Entry{T: t, A: a, B: b}
			l.p += 20
		}
	}
	l.p += len("trailer")
	o, err := l.obj(0)
	if err != nil {
		s.Err = "trailer: " + err.Error()
		return
	}
	td, ok := o.(Dict)
	if !ok {
		s.Err = "trailer is not a dictionary"
		return
	}
	s.Trailer = td
	s.EndOff = int64(l.p)
	if v, ok := td["Size"].(int64); ok {
		s.Size = v
	} else {
		s.Err = "trailer: missing /Size"
	}
	if v, ok := td["Prev"].(int64); ok {
		s.Prev = v
	}
	if v, ok := td["XRefStm"].(int64); ok {
		s.XRefStm = v
	}
	s.TailOK = f.tailFollows(l.p, s.Off)
}

// ObjectAt reports what is found exactly at off: "n g obj" (single spaces, no leading whitespace), then the object.
func (f *File) ObjectAt(off int64) Found {
	d := f.Data
	fd := Found{N: -1, G: -1}
	if off < 0 || off >= int64(len(d)) {
		fd.Err = "offset outside the file"
		return fd
	}
	l := &lexer{d, int(off)}
	n, ok := l.uint()
	if !ok || l.p >= len(d) || d[l.p] != ' ' {
		fd.Err = "no object number at the offset"
		return fd
	}
	l.p++
	g, ok := l.uint()
	if !ok || l.p >= len(d) || d[l.p] != ' ' {
		fd.Err = "no generation number"
		return fd
	}
	l.p++
	if !l.kw("obj") {
		fd.Err = "no obj keyword"
		return fd
	}
	l.p += 3
	if off > 0 && !isWS(d[off-1]) {
		fd.Err = "object header is not preceded by whitespace"
		return fd
	}
	fd.N, fd.G = int(n), int(g)
	o, err := l.obj(0)
	if err != nil {
		fd.Err = err.Error()
		return fd
	}
	fd.Obj = o
	l.skipWS()
	if dict, isDict := o.(Dict); isDict && l.kw("stream") {
		l.p += len("stream")
		si := &StreamInfo{Dict: dict, Len: -1}
		fd.Stream = si
		switch k := eolLen(d, l.p); {
		case k == 2:
			si.StartEol = "CRLF"
			l.p += 2
		case k == 1 && d[l.p] == 10:
			si.StartEol = "LF"
			l.p++
		case k == 1:
			si.StartEol = "CR"
			l.p++
		default:
			si.StartEol = "none"
		}
		si.DataOff = int64(l.p)
		switch lv := dict["Length"].(type) {
		case int64:
			si.Len = lv
		case Ref:
			si.LenInd = true
			if e, ok := f.Table[lv.N]; ok && e.T == 1 && e.B == lv.G {
				lf := f.ObjectAt(e.A)
				if v, ok := lf.Obj.(int64); ok && lf.N == lv.N && lf.Parsed {
					si.Len = v
				}
			}
		}
		// first "endstream" keyword at or after the data start
		if i := bytes.Index(d[l.p:], []byte("endstream")); i >= 0 {
			// The EOL before endstream is not part of the data.  If the bytes before the keyword can be read as an EOL,
			// the data ends before it (CR LF: either both or only the LF); otherwise the data ends at the keyword.
			p := int64(l.p + i)
			if k := backEol(d, int(p)); k > 0 && p-int64(k) >= si.DataOff {
				si.Counts = append(si.Counts, p-int64(k)-si.DataOff)
				if k == 2 {
					si.Counts = append(si.Counts, p-1-si.DataOff)
				}
			} else {
				si.Counts = append(si.Counts, p-si.DataOff)
			}
		}
		if si.Len < 0 || si.DataOff+si.Len > int64(len(d)) {
			fd.Err = "stream /Length unresolvable or beyond the end of the file"
			return fd
		}
		q := int(si.DataOff + si.Len)
		k := eolLen(d, q)
		m := &lexer{d, q + k}
		if !m.kw("endstream") {
			// maybe the EOL belongs to the data (k counted too much)
			m = &lexer{d, q}
			k = 0
			if !m.kw("endstream") {
				fd.Err = "no endstream at data offset + /Length"
				return fd
			}
		}
		si.EolEnd = k
		m.p += len("endstream")
		m.skipWS()
		if !m.kw("endobj") {
			fd.Err = "endstream is not followed by endobj"
			return fd
		}
		si.EndOK = true
		fd.Parsed = true
		fd.End = int64(m.p + len("endobj"))
		return fd
	}
	if !l.kw("endobj") {
		fd.Err = fmt.Sprintf("object is not terminated by endobj at %d", l.p)
		return fd
	}
	fd.Parsed = true
	fd.End = int64(l.p + len("endobj"))
	return fd
}

// DecodeStream applies /Filter /FlateDecode (with optional PNG/TIFF predictor); no filter = identity. Other filters: error.
func DecodeStream(sd Dict, raw []byte) ([]byte, error) {
	flt := sd["Filter"]
	parms := sd["DecodeParms"]
	if a, ok := flt.(Arr); ok {
		if len(a) == 0 {
			return raw, nil
		}
		if len(a) != 1 {
			return nil, fmt.Errorf("filter pipeline not supported")
		}
		flt = a[0]
		if pa, ok := parms.(Arr); ok && len(pa) == 1 {
			parms = pa[0]
		}
	}
	if flt == nil {
		return raw, nil
	}
	if n, ok := flt.(Name); !ok || n != "FlateDecode" {
		return nil, fmt.Errorf("filter %v not supported", flt)
	}
	zr, err := zlib.NewReader(bytes.NewReader(raw))
	if err != nil {
		return nil, fmt.Errorf("zlib: %v", err)
	}
	out, err := io.ReadAll(zr)
	if err != nil {
		return nil, fmt.Errorf("zlib: %v", err)
	}
	pd, _ := parms.(Dict)
	if pd == nil {
		return out, nil
	}
	pred, _ := pd["Predictor"].(int64)
	if pred <= 1 {
		return out, nil
	}
	cols, _ := pd["Columns"].(int64)
	if cols == 0 {
		cols = 1
	}
	colors, _ := pd["Colors"].(int64)
	if colors == 0 {
		colors = 1
	}
	bpc, _ := pd["BitsPerComponent"].(int64)
	if bpc == 0 {
		bpc = 8
	}
	if pred < 10 {
		return nil, fmt.Errorf("predictor %d not supported", pred)
	}
	bpp := int((colors*bpc + 7) / 8)
	rowLen := int((cols*colors*bpc + 7) / 8)
	if len(out)%(rowLen+1) != 0 {
		return nil, fmt.Errorf("predictor data is not a multiple of the row length")
	}
	prev := make([]byte, rowLen)
	var res []byte
	for p := 0; p < len(out); p += rowLen + 1 {
		ft := out[p]
		row := append([]byte(nil), out[p+1:p+1+rowLen]...)
		for i := range row {
			var a, b, c int
			if i >= bpp {
				a = int(row[i-bpp])
				c = int(prev[i-bpp])
			}
			b = int(prev[i])
			switch ft {
			case 0:
			case 1:
				row[i] += byte(a)
			case 2:
				row[i] += byte(b)
			case 3:
				row[i] += byte((a + b) / 2)
			case 4:
				pp := a + b - c
				pa, pb, pc := abs(pp-a), abs(pp-b), abs(pp-c)
				switch {
				case pa <= pb && pa <= pc:
					row[i] += byte(a)
				case pb <= pc:
					row[i] += byte(b)
				default:
					row[i] += byte(c)
				}
			default:
				return nil, fmt.Errorf("bad PNG filter type %d", ft)
			}
		}
		res = append(res, row...)
		prev = row
	}
	return res, nil
}

func abs(x int) int {
	if x < 0 {
		return -x
	}
	return x
}

// ObjStm is a decoded object stream.
type ObjStm struct {
	IsObjStm  bool // stream with /Type /ObjStm
	N         int  // /N (-1 if absent)
	First     int
	Decodable bool  // content could be decoded (not encrypted, supported filter)
	Nums      []int // object numbers listed in the header (len == N when HeaderOK)
	Offs      []int
	HeaderOK  bool
	MemberOK  []bool // member i parses as exactly one object inside its extent
	Err       string
}

// ObjStmAt decodes the object stream stored in the in-use object found at off.
func (f *File) ObjStmAt(fd Found) *ObjStm {
	os := &ObjStm{N: -1}
	if fd.Stream == nil || !fd.Parsed {
		os.Err = "container is not a well-formed stream"
		return os
	}
	sd := fd.Stream.Dict
	if t, _ := sd["Type"].(Name); t != "ObjStm" {
		os.Err = "container is not /Type /ObjStm"
		return os
	}
	os.IsObjStm = true
	n, ok1 := sd["N"].(int64)
	first, ok2 := sd["First"].(int64)
	if !ok1 || !ok2 || n < 0 || first < 0 {
		os.Err = "bad /N or /First"
		return os
	}
	os.N, os.First = int(n), int(first)
	if f.Encrypted {
		os.Err = "encrypted"
		return os
	}
	raw := f.Data[fd.Stream.DataOff : fd.Stream.DataOff+fd.Stream.Len]
	content, err := DecodeStream(sd, raw)
	if err != nil {
		os.Err = err.Error()
		return os
	}
	os.Decodable = true
	if os.First > len(content) {
		os.Err = "/First beyond the content"
		return os
	}
	l := &lexer{content[:os.First], 0}
	for i := 0; i < os.N; i++ {
		l.skipWS()
		a, ok := l.uint()
		if !ok {
			os.Err = "header pairs: expected object number"
			return os
		}
		l.skipWS()
		b, ok := l.uint()
		if !ok {
			os.Err = "header pairs: expected offset"
			return os
		}
		os.Nums = append(os.Nums, int(a))
		os.Offs = append(os.Offs, int(b))
	}
	l.skipWS()
	if l.p != len(l.d) {
		os.Err = "header has more than N pairs before /First"
		return os
	}
	os.HeaderOK = true
	os.MemberOK = make([]bool, os.N)
	for i := 0; i < os.N; i++ {
		s := os.First + os.Offs[i]
		e := len(content)
		if i+1 < os.N {
			e = os.First + os.Offs[i+1]
		}
		if s > e || e > len(content) || (i > 0 && os.Offs[i] < os.Offs[i-1]) {
			continue
		}
		m := &lexer{content[s:e], 0}
		if _, err := m.obj(0); err != nil {
			continue
		}
		m.skipWS()
		os.MemberOK[i] = m.p == len(m.d)
	}
	return os
}

// SortedNums returns the object numbers of the merged table in ascending order.
func (f *File) SortedNums() []int {
	r := make([]int, 0, len(f.Table))
	for n := range f.Table {
		r = append(r, n)
	}
	sort.Ints(r)
	return r
}
