// Package fsx runs real pdfcpu operations inside a sandbox directory while the instrumented
// package os (build overlay) records / faults / snapshots every file-system call below it.
package fsx

import (
	"crypto/sha256"
	"encoding/hex"
	"fmt"
	"io/fs"
	"os"
	"path/filepath"
	"regexp"
	"sort"
	"strings"
	"syscall"
)

// Sandbox is a private directory tree; all paths handed to the code under test live below Root.
type Sandbox struct {
	Root string
}

func New() *Sandbox {
	base := os.Getenv("VERIF_SANDBOX_BASE")
	d, err := os.MkdirTemp(base, "vsb")
	if err != nil {
		panic(err)
	}
	d, _ = filepath.EvalSymlinks(d)
	return &Sandbox{Root: d}
}

func (s *Sandbox) Close()                 { os.RemoveAll(s.Root) }
func (s *Sandbox) P(rel string) string    { return filepath.Join(s.Root, rel) }
func (s *Sandbox) Mkdir(rel string)       { must(os.MkdirAll(s.P(rel), 0755)) }
func (s *Sandbox) Rel(abs string) string {
	if abs == s.Root {
		return "."
	}
	if strings.HasPrefix(abs, s.Root+"/") {
		return abs[len(s.Root)+1:]
	}
	return abs
}

func (s *Sandbox) Put(rel string, data []byte, mode os.FileMode) string {
	p := s.P(rel)
	must(os.MkdirAll(filepath.Dir(p), 0755))
	must(os.WriteFile(p, data, 0600))
	must(os.Chmod(p, mode))
	return p
}

func (s *Sandbox) Copy(rel, src string, mode os.FileMode) string {
	b, err := os.ReadFile(src)
	must(err)
	return s.Put(rel, b, mode)
}

func must(err error) {
	if err != nil {
		panic(err)
	}
}

// Entry describes one directory entry of a snapshot.
type Entry struct {
	Kind   string `json:"k"`           // f d l
	Sha    string `json:"h,omitempty"` // sha256 of file content (first 16 hex)
	Mode   uint32 `json:"m"`
	Size   int64  `json:"s"`
	Target string `json:"t,omitempty"`
	Ino    uint64 `json:"-"`
}

type Snap map[string]Entry

// Snapshot walks the sandbox (names, content hashes, modes). Safe inside the os hook callback.
func (s *Sandbox) Snapshot() Snap {
	sn := Snap{}
	filepath.WalkDir(s.Root, func(p string, d fs.DirEntry, err error) error {
		if err != nil || p == s.Root {
			return nil
		}
		fi, err := os.Lstat(p)
		if err != nil {
			return nil
		}
		e := Entry{Mode: uint32(fi.Mode().Perm()), Size: fi.Size()}
		if st, ok := fi.Sys().(*syscall.Stat_t); ok {
			e.Ino = st.Ino
		}
		switch {
		case fi.Mode()&os.ModeSymlink != 0:
			e.Kind = "l"
			e.Target, _ = os.Readlink(p)
			e.Size = 0
		case fi.IsDir():
			e.Kind = "d"
			e.Size = 0
		default:
			e.Kind = "f"
			b, err := os.ReadFile(p)
			if err == nil {
				h := sha256.Sum256(b)
				e.Sha = hex.EncodeToString(h[:8])
			} else {
				e.Sha = "unreadable"
			}
		}
		sn[s.Rel(p)] = e
		return nil
	})
	return sn
}

// Diff lists differences (sorted): "+name", "-name", "~name(what)".
func Diff(a, b Snap) []string {
	var d []string
	for k, ea := range a {
		eb, ok := b[k]
		if !ok {
			d = append(d, "-"+k)
			continue
		}
		var w []string
		if ea.Kind != eb.Kind {
			w = append(w, "kind")
		}
		if ea.Sha != eb.Sha || ea.Size != eb.Size {
			w = append(w, "content")
		}
		if ea.Mode != eb.Mode {
			w = append(w, fmt.Sprintf("mode %o->%o", ea.Mode, eb.Mode))
		}
		if ea.Target != eb.Target {
			w = append(w, "target")
		}
		if len(w) > 0 {
			d = append(d, "~"+k+"("+strings.Join(w, ",")+")")
		}
	}
	for k := range b {
		if _, ok := a[k]; !ok {
			d = append(d, "+"+k)
		}
	}
	sort.Strings(d)
	return d
}

// Event is a canonicalised os event (paths relative to the sandbox, temp names numbered).
type Event struct {
	I   int    `json:"i"`
	Op  string `json:"op"`
	A   string `json:"a"`
	B   string `json:"b"`
	N   int64  `json:"n"`
	R   string `json:"r"`
	Inj string `json:"inj"`
	W   int64  `json:"w"`
	H   int    `json:"h"`
}

type RunCfg struct {
	FaultAt     int
	Kind        string // error panic short
	ReadFaultAt int
	FaultAt2    int
	Kind2       string
	Snapshots   bool // snapshot the sandbox before every counted call
}

type Result struct {
	Events   []Event
	Err      error
	Panicked bool
	PanicVal string
	Snaps    []Snap // Snaps[k-1] = state before call k (only with cfg.Snapshots)
	Before   Snap
	After    Snap
	Reads    int
	Canon    *Canon
}

// Outcome classifies the end of the operation.
func (r *Result) Outcome() string {
	switch {
	case r.Panicked:
		return "panic"
	case r.Err != nil:
		return "err"
	}
	return "ok"
}

// Run executes fn with the recorder armed.
func (s *Sandbox) Run(cfg RunCfg, fn func() error) (res Result) {
	res.Before = s.Snapshot()
	oc := os.VerifConfig{Root: s.Root, FaultAt: cfg.FaultAt, FaultKind: cfg.Kind, ReadFaultAt: cfg.ReadFaultAt, FaultAt2: cfg.FaultAt2, FaultKind2: cfg.Kind2}
	if cfg.Snapshots {
		oc.Callback = func(seq int, ev os.VerifEvent) {
			res.Snaps = append(res.Snaps, s.Snapshot())
		}
	}
	os.VerifArm(oc)
	func() {
		defer func() {
			if r := recover(); r != nil {
				res.Panicked = true
				res.PanicVal = fmt.Sprint(r)
			}
		}()
		res.Err = fn()
	}()
	res.Reads = os.VerifReads()
	raw := os.VerifDisarm()
	res.After = s.Snapshot()
	res.Canon = NewCanon(s, res.Before)
	hid := map[uint64]int{}
	nh := 0
	for _, e := range raw {
		h := 0
		if e.H != 0 {
			if e.Op == "openfile" {
				nh++
				hid[e.H] = nh
			}
			h = hid[e.H]
		}
		res.Events = append(res.Events, Event{I: e.Seq, Op: e.Op, A: res.Canon.Path(e.A), B: res.Canon.Path(e.B), N: e.N, R: e.Res, Inj: e.Inj, W: e.W, H: h})
	}
	return res
}

// Canon rewrites random temp-name components to stable numbered ones.
type Canon struct {
	s     *Sandbox
	known map[string]bool
	names map[string]string
	n     int
}

var randRe = regexp.MustCompile(`^(.*?)([0-9a-f]{16}|[0-9]{5,})(.*)$`)

func NewCanon(s *Sandbox, before Snap) *Canon {
	c := &Canon{s: s, known: map[string]bool{}, names: map[string]string{}}
	for k := range before {
		for _, comp := range strings.Split(k, "/") {
			c.known[comp] = true
		}
	}
	return c
}

func (c *Canon) comp(x string) string {
	if c.known[x] {
		return x
	}
	if v, ok := c.names[x]; ok {
		return v
	}
	if m := randRe.FindStringSubmatch(x); m != nil {
		c.n++
		v := fmt.Sprintf("%s#%d%s", m[1], c.n, m[3])
		c.names[x] = v
		return v
	}
	return x
}

func (c *Canon) Path(abs string) string {
	if abs == "" {
		return ""
	}
	rel := c.s.Rel(abs)
	parts := strings.Split(rel, "/")
	for i, p := range parts {
		parts[i] = c.comp(p)
	}
	return strings.Join(parts, "/")
}

// Snap canonicalises the names of a snapshot.
func (c *Canon) Snap(sn Snap) Snap {
	out := Snap{}
	for k, v := range sn {
		out[c.Path(c.s.P(k))] = v
	}
	return out
}
