package fsx

import (
	"path"
	"sort"
	"strings"
	"syscall"
)

// Line is one line of the ndjson trace consumed by spec/FSTrace.tla. Every field is always present.
type Line struct {
	Ev       string      `json:"ev"`
	T        int         `json:"t"`
	Name     string      `json:"name"`
	Op       string      `json:"op"`
	A        string      `json:"a"`
	B        string      `json:"b"`
	N        int64       `json:"n"`
	R        string      `json:"r"`
	H        int         `json:"h"`
	W        int64       `json:"w"`
	Inj      string      `json:"inj"`
	Creat    bool        `json:"creat"`
	Excl     bool        `json:"excl"`
	Trunc    bool        `json:"trunc"`
	Ad       string      `json:"ad"`
	Bd       string      `json:"bd"`
	Hid      bool        `json:"hid"`
	Bhid     bool        `json:"bhid"`
	Mv       [][3]string `json:"mv"`
	Init     []InitEnt   `json:"init"`
	Prot     []string    `json:"prot"`
	Outs     []string    `json:"outs"`
	DestDirs []string    `json:"destdirs"`
	Judge    []string    `json:"judge"`
	Excuse   []string    `json:"excuse"`
	Outcome  string      `json:"outcome"`
	Final    []FinalEnt  `json:"final"`
}

type InitEnt struct {
	P   string `json:"p"`
	K   string `json:"k"`
	I   int    `json:"i"`
	C   string `json:"c"`
	M   int    `json:"m"`
	Tg  string `json:"tg"`
	Par string `json:"par"`
}

type FinalEnt struct {
	P     string `json:"p"`
	K     string `json:"k"`
	Cid   string `json:"cid"`
	M     int    `json:"m"`
	OkPDF bool   `json:"okpdf"`
}

func blank(ev string, t int) Line {
	return Line{Ev: ev, T: t, Mv: [][3]string{}, Init: []InitEnt{}, Prot: []string{}, Outs: []string{}, DestDirs: []string{}, Judge: []string{}, Excuse: []string{}, Final: []FinalEnt{}}
}

func dirOf(p string) string {
	if p == "" {
		return ""
	}
	return path.Dir(p)
}

func hidden(p string) bool { return strings.HasPrefix(path.Base(p), ".") }

// Meta describes what the monitor has to judge for one trace.
type Meta struct {
	T        int
	Name     string
	Prot     []string // paths whose content history is observed (C02) / must stay (C01)
	Outs     []string // paths the operation is allowed / expected to publish
	DestDirs []string // directories in which creations are allowed (C02 hidden leftovers, C05)
	Judge    []string // c01 c01m c02 c03 c05
	Excuse   []string // paths whose own removal was made to fail: they may remain after a failed operation (C01)
	OkPDF    func(rel string) bool
}

func nz(s []string) []string {
	if s == nil {
		return []string{}
	}
	return s
}

// Lines converts one recorded run into monitor lines.
func (r *Result) Lines(m Meta) []Line {
	var out []Line
	b := blank("begin", m.T)
	b.Name = m.Name
	b.Prot, b.Outs, b.DestDirs, b.Judge, b.Excuse = nz(m.Prot), nz(m.Outs), nz(m.DestDirs), nz(m.Judge), nz(m.Excuse)
	// initial entries; hard links share an inode id and a content tag
	names := make([]string, 0, len(r.Before))
	for k := range r.Before {
		names = append(names, k)
	}
	sort.Strings(names)
	inoID := map[uint64]int{}
	inoTag := map[uint64]string{}
	shaTag := map[string]string{}
	next := 1
	for _, k := range names {
		e := r.Before[k]
		ie := InitEnt{P: k, K: e.Kind, M: int(e.Mode), Par: dirOf(k)}
		if e.Kind != "d" {
			if _, ok := inoID[e.Ino]; !ok {
				inoID[e.Ino] = next
				inoTag[e.Ino] = "init:" + k
				next++
			}
			ie.I = inoID[e.Ino]
			ie.C = inoTag[e.Ino]
			if e.Kind == "l" {
				ie.Tg = path.Clean(path.Join(dirOf(k), e.Target))
			} else if _, ok := shaTag[e.Sha]; !ok {
				shaTag[e.Sha] = ie.C
			}
		}
		b.Init = append(b.Init, ie)
	}
	out = append(out, b)
	for _, e := range r.Events {
		l := blank("call", m.T)
		l.Op, l.A, l.B, l.N, l.R, l.H, l.W, l.Inj = e.Op, e.A, e.B, e.N, e.R, e.H, e.W, e.Inj
		if l.R == "PANIC" {
			l.R = "EIO" // the call did not happen
		}
		l.Ad, l.Bd = dirOf(e.A), dirOf(e.B)
		l.Hid, l.Bhid = hidden(e.A), e.B != "" && hidden(e.B)
		if e.Op == "openfile" {
			l.Creat = e.N&int64(syscall.O_CREAT) != 0
			l.Excl = e.N&int64(syscall.O_EXCL) != 0
			l.Trunc = e.N&int64(syscall.O_TRUNC) != 0
		}
		out = append(out, l)
	}
	end := blank("end", m.T)
	end.Outcome = r.Outcome()
	after := r.Canon.Snap(r.After)
	names = names[:0]
	for k := range after {
		names = append(names, k)
	}
	sort.Strings(names)
	for _, k := range names {
		e := after[k]
		fe := FinalEnt{P: k, K: e.Kind, M: int(e.Mode), Cid: "new", OkPDF: true}
		if e.Kind == "f" {
			if be, ok := r.Before[k]; ok && be.Kind == "f" && be.Sha == e.Sha {
				fe.Cid = inoTag[be.Ino]
			} else if tag, ok := shaTag[e.Sha]; ok {
				fe.Cid = tag
			}
			if m.OkPDF != nil {
				for _, o := range m.Outs {
					if o == k {
						fe.OkPDF = m.OkPDF(k)
					}
				}
			}
		} else if e.Kind == "l" {
			if be, ok := r.Before[k]; ok && be.Kind == "l" {
				fe.Cid = "init:" + k
			}
		}
		end.Final = append(end.Final, fe)
	}
	out = append(out, end)
	return out
}
