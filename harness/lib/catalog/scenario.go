package catalog

import (
	"os"
	"path/filepath"

	"github.com/pdfcpu/pdfcpu/pkg/api"
	"github.com/pdfcpu/pdfcpu/pkg/pdfcpu/model"
	"verif/harness/lib/fsx"
)

// Scenario is one (operation, path configuration) instance inside a fresh sandbox.
type Scenario struct {
	Op       *Op
	Cfg      string
	SB       *fsx.Sandbox
	In, Out  string   // absolute paths handed to the operation (Out == "" : in place)
	Prot     []string // rel paths that must survive a failure untouched
	Outs     []string // rel paths the operation publishes (single-output classes)
	DestDirs []string
	Replaces bool // an existing file is replaced (C02 applies)
}

// Configs lists the path configurations of an operation class.
func Configs(op *Op, c03 bool) []string {
	switch op.Class {
	case "inout":
		if op.NoInplace {
			return []string{"new", "existing", "existingempty"}
		}
		if c03 {
			return []string{"new", "existing", "existingempty", "existing0600", "existing0444", "existing0664", "existing0666", "inplace", "samepath", "dotslash", "relative", "symlink", "hardlink"}
		}
		return []string{"new", "existing", "existingempty", "inplace", "samepath"}
	case "multiin":
		if op.Name == "api.MergeAppendFile" {
			return []string{"existing"}
		}
		return []string{"new", "existing", "existingempty"}
	case "outdir":
		return []string{"dir"}
	}
	return nil
}

const existingSample = "testdata/test.pdf"

// NewScenario builds the sandbox for (op, cfg).
func NewScenario(op *Op, cfg string) *Scenario {
	sb := fsx.New()
	s := &Scenario{Op: op, Cfg: cfg, SB: sb}
	sb.Mkdir("in")
	sb.Mkdir("out")
	if op.In != "" {
		s.In = sb.Copy("in/in.pdf", filepath.Join(TD, op.In), 0644)
		s.Prot = append(s.Prot, "in/in.pdf")
	}
	for rel, src := range op.Extra {
		sb.Copy("in/"+rel, filepath.Join(TD, src), 0644)
		s.Prot = append(s.Prot, "in/"+rel)
	}
	if op.Prep != nil {
		if err := op.Prep(sb, s.In); err != nil {
			panic("catalog prep " + op.Name + ": " + err.Error())
		}
	}
	outName := "out/out.pdf"
	if op.OutName != "" {
		outName = "out/" + op.OutName
	}
	existing := func(mode os.FileMode) {
		s.Out = sb.Copy(outName, filepath.Join(TD, existingSample), mode)
		s.Prot = append(s.Prot, outName)
		s.Outs = []string{outName}
		s.DestDirs = []string{"out"}
		s.Replaces = true
	}
	switch cfg {
	case "new":
		s.Out = sb.P(outName)
		s.Outs = []string{outName}
		s.DestDirs = []string{"out"}
	case "existing":
		existing(0640)
	case "existingempty":
		// an output reserved beforehand (mktemp style): exists, empty
		s.Out = sb.Put(outName, nil, 0640)
		s.Prot = append(s.Prot, outName)
		s.Outs = []string{outName}
		s.DestDirs = []string{"out"}
		s.Replaces = true
	case "existing0600":
		existing(0600)
	case "existing0444":
		existing(0444)
	case "existing0664":
		existing(0664)
	case "existing0666":
		existing(0666)
	case "inplace":
		s.Out = ""
		s.Outs = []string{"in/in.pdf"}
		s.DestDirs = []string{"in"}
		s.Replaces = true
	case "samepath":
		s.Out = s.In
		s.Outs = []string{"in/in.pdf"}
		s.DestDirs = []string{"in"}
		s.Replaces = true
	case "dotslash":
		s.Out = sb.Root + "/in/./in.pdf"
		s.Outs = []string{"in/in.pdf"}
		s.DestDirs = []string{"in"}
		s.Replaces = true
	case "relative":
		// caller must chdir to sb.Root
		s.Out = "in/in.pdf"
		s.Outs = []string{"in/in.pdf"}
		s.DestDirs = []string{"in"}
		s.Replaces = true
	case "symlink":
		if err := os.Symlink("../in/in.pdf", sb.P("out/out.pdf")); err != nil {
			panic(err)
		}
		s.Out = sb.P("out/out.pdf")
		s.Outs = []string{"out/out.pdf"}
		s.DestDirs = []string{"out"}
		s.Replaces = true
	case "hardlink":
		if err := os.Link(s.In, sb.P("out/out.pdf")); err != nil {
			panic(err)
		}
		s.Out = sb.P("out/out.pdf")
		s.Outs = []string{"out/out.pdf"}
		s.DestDirs = []string{"out"}
		s.Replaces = true
	case "dir":
		sb.Put("out/keep.txt", []byte("keep me"), 0644)
		s.Out = sb.P("out")
		s.Prot = append(s.Prot, "out/keep.txt")
		s.DestDirs = []string{"out"}
	}
	if op.Class == "multiin" && op.In == "" {
		s.In = ""
	}
	return s
}

func (s *Scenario) Close() { s.SB.Close() }

// Run executes the operation under the recorder.
func (s *Scenario) Run(cfg fsx.RunCfg) fsx.Result {
	if s.Cfg == "relative" {
		wd, _ := os.Getwd()
		os.Chdir(s.SB.Root)
		defer os.Chdir(wd)
	}
	return s.SB.Run(cfg, func() error { return s.Op.Run(s.SB, s.In, s.Out) })
}

// OkPDF reports whether rel (inside the sandbox) is a PDF that passes relaxed validation (or not a PDF by name).
func (s *Scenario) OkPDF(rel string) bool {
	if filepath.Ext(rel) != ".pdf" {
		return true
	}
	for _, pw := range [][2]string{{"", ""}, {"u", "o"}, {"u2", "o"}, {"u", "o2"}} {
		c := conf()
		c.Cmd = model.VALIDATE
		c.UserPW, c.OwnerPW = pw[0], pw[1]
		if api.ValidateFile(s.SB.P(rel), c) == nil {
			return true
		}
	}
	return false
}
