// Package catalog lists the file-based operations of pdfcpu's public API that the file-system
// properties (C01 C02 C03) quantify over, each with a small valid input and fixed parameters.
package catalog

import (
	"encoding/json"
	"os"
	"path/filepath"

	"github.com/pdfcpu/pdfcpu/pkg/api"
	"github.com/pdfcpu/pdfcpu/pkg/pdfcpu"
	"github.com/pdfcpu/pdfcpu/pkg/pdfcpu/model"
	"github.com/pdfcpu/pdfcpu/pkg/pdfcpu/types"
	"verif/harness/lib/fsx"
)

// TD is the repository's testdata directory.
var TD = filepath.Join(repoDir(), "pkg")

func repoDir() string {
	if d := os.Getenv("VERIF_REPO"); d != "" {
		return d
	}
	return "/repo"
}

// Op is one catalogued operation.
//
// Class "inout": one PDF in, one file out; out == "" means in place.
// Class "multiin": several inputs (Extra) and one output.
// Class "outdir": one input, outputs written into directory out.
type Op struct {
	Name  string
	Class string
	In    string                     // testdata file used as primary input
	Extra map[string]string          // further files to place in the sandbox: rel name -> testdata file
	Run   func(sb *fsx.Sandbox, in, out string) error
	Prep  func(sb *fsx.Sandbox, in string) error // un-observed preparation of the input (e.g. add the keywords that are then removed)
	OutName string // name of the output file inside out/ (default out.pdf)
	NoInplace bool // the output is not a PDF replacing the input
	Multi bool // documented to keep completed outputs on later failure (known finding F1)
	Incr  bool // appends to the input in place
}

func conf() *model.Configuration {
	c := model.NewDefaultConfiguration()
	c.Cmd = model.OPTIMIZE
	return c
}

func nup(n int) *model.NUp {
	x, err := api.PDFNUpConfig(n, "", conf())
	if err != nil {
		panic(err)
	}
	return x
}

func prep(o Op, p func(in string) error) Op {
	o.Prep = func(sb *fsx.Sandbox, in string) error { return p(in) }
	return o
}

func inout(name, in string, run func(in, out string) error) Op {
	return Op{Name: name, Class: "inout", In: in, Run: func(sb *fsx.Sandbox, i, o string) error { return run(i, o) }}
}

const small = "testdata/zineTest.pdf"
const text = "testdata/testWithText.pdf"

// Ops returns the catalog.
func Ops() []Op {
	ops := []Op{
		inout("api.OptimizeFile", small, func(i, o string) error { return api.OptimizeFile(i, o, nil) }),
		inout("api.TrimFile", small, func(i, o string) error { return api.TrimFile(i, o, []string{"1-3"}, nil) }),
		inout("api.RotateFile", small, func(i, o string) error { return api.RotateFile(i, o, 90, []string{"1-2"}, nil) }),
		inout("api.CollectFile", small, func(i, o string) error { return api.CollectFile(i, o, []string{"2", "1", "2"}, nil) }),
		inout("api.InsertPagesFile", small, func(i, o string) error { return api.InsertPagesFile(i, o, []string{"2"}, true, nil, nil) }),
		inout("api.RemovePagesFile", small, func(i, o string) error { return api.RemovePagesFile(i, o, []string{"2"}, nil) }),
		inout("api.EncryptFile", small, func(i, o string) error {
			c := model.NewAESConfiguration("u", "o", 256)
			return api.EncryptFile(i, o, c)
		}),
		inout("api.AddKeywordsFile", small, func(i, o string) error { return api.AddKeywordsFile(i, o, []string{"alpha", "beta"}, nil) }),
		prep(inout("api.RemoveKeywordsFile", small, func(i, o string) error { return api.RemoveKeywordsFile(i, o, nil, nil) }),
			func(i string) error { return api.AddKeywordsFile(i, "", []string{"alpha", "beta"}, nil) }),
		inout("api.AddPropertiesFile", small, func(i, o string) error {
			return api.AddPropertiesFile(i, o, map[string]string{"k1": "v1"}, nil)
		}),
		prep(inout("api.RemovePropertiesFile", small, func(i, o string) error { return api.RemovePropertiesFile(i, o, nil, nil) }),
			func(i string) error { return api.AddPropertiesFile(i, "", map[string]string{"k1": "v1"}, nil) }),
		inout("api.SetPageLayoutFile", small, func(i, o string) error { return api.SetPageLayoutFile(i, o, model.PageLayoutTwoColumnLeft, nil) }),
		inout("api.ResetPageLayoutFile", small, func(i, o string) error { return api.ResetPageLayoutFile(i, o, nil) }),
		inout("api.SetPageModeFile", small, func(i, o string) error { return api.SetPageModeFile(i, o, model.PageModeUseOutlines, nil) }),
		inout("api.ResetPageModeFile", small, func(i, o string) error { return api.ResetPageModeFile(i, o, nil) }),
		inout("api.SetViewerPreferencesFileFromJSONBytes", small, func(i, o string) error {
			return api.SetViewerPreferencesFileFromJSONBytes(i, o, []byte(`{"viewerPreferences":{"HideToolbar":true}}`), nil)
		}),
		inout("api.ResetViewerPreferencesFile", small, func(i, o string) error { return api.ResetViewerPreferencesFile(i, o, nil) }),
		inout("api.AddTextWatermarksFile", small, func(i, o string) error {
			return api.AddTextWatermarksFile(i, o, nil, true, "Draft", "scale:0.5", nil)
		}),
		prep(inout("api.RemoveWatermarksFile", small, func(i, o string) error { return api.RemoveWatermarksFile(i, o, nil, nil) }),
			func(i string) error { return api.AddTextWatermarksFile(i, "", nil, true, "Draft", "scale:0.5", nil) }),
		prep(inout("api.RemoveBookmarksFile", small, func(i, o string) error { return api.RemoveBookmarksFile(i, o, nil) }),
			func(i string) error {
				return api.AddBookmarksFile(i, "", []pdfcpu.Bookmark{{PageFrom: 1, Title: "One"}}, true, nil)
			}),
		prep(inout("api.DecryptFile", small, func(i, o string) error {
			c := model.NewAESConfiguration("u", "o", 256)
			return api.DecryptFile(i, o, c)
		}), func(i string) error { return api.EncryptFile(i, "", model.NewAESConfiguration("u", "o", 256)) }),
		prep(inout("api.ChangeUserPasswordFile", small, func(i, o string) error {
			c := model.NewAESConfiguration("u", "o", 256)
			return api.ChangeUserPasswordFile(i, o, "u", "u2", c)
		}), func(i string) error { return api.EncryptFile(i, "", model.NewAESConfiguration("u", "o", 256)) }),
		prep(inout("api.ChangeOwnerPasswordFile", small, func(i, o string) error {
			c := model.NewAESConfiguration("u", "o", 256)
			return api.ChangeOwnerPasswordFile(i, o, "o", "o2", c)
		}), func(i string) error { return api.EncryptFile(i, "", model.NewAESConfiguration("u", "o", 256)) }),
		prep(inout("api.SetPermissionsFile", small, func(i, o string) error {
			c := model.NewAESConfiguration("u", "o", 256)
			c.Permissions = model.PermissionsPrint
			return api.SetPermissionsFile(i, o, c)
		}), func(i string) error { return api.EncryptFile(i, "", model.NewAESConfiguration("u", "o", 256)) }),
		prep(inout("api.RemoveAnnotationsFile", small, func(i, o string) error {
			return api.RemoveAnnotationsFile(i, o, nil, nil, nil, nil, false)
		}), func(i string) error {
			ann := model.NewTextAnnotation(*types.NewRectangle(10, 10, 50, 50), 0, "note", "id1", "", 0, nil, "", nil, nil, "", "", 0, 0, 0, true, "Comment")
			return api.AddAnnotationsFile(i, "", []string{"1"}, ann, nil, false)
		}),
		prep(inout("api.RemoveBoxesFile", small, func(i, o string) error {
			pb, err := api.PageBoundariesFromBoxList("crop")
			if err != nil {
				return err
			}
			return api.RemoveBoxesFile(i, o, nil, pb, nil)
		}), func(i string) error {
			pb, err := api.PageBoundaries("crop:[10 10 200 200]", types.POINTS)
			if err != nil {
				return err
			}
			return api.AddBoxesFile(i, "", nil, pb, nil)
		}),
		inout("api.RemoveFormFieldsFile", "samples/form/demo/english.pdf", func(i, o string) error { return api.RemoveFormFieldsFile(i, o, []string{"firstName1"}, nil) }),
		inout("api.LockFormFieldsFile", "samples/form/demo/english.pdf", func(i, o string) error { return api.LockFormFieldsFile(i, o, nil, nil) }),
		inout("api.ResetFormFieldsFile", "samples/form/demo/english.pdf", func(i, o string) error { return api.ResetFormFieldsFile(i, o, nil, nil) }),
		{Name: "api.FillFormFile", Class: "inout", In: "samples/form/demo/english.pdf", Extra: map[string]string{"fill.json": "samples/form/fill/english.json"},
			Run: func(sb *fsx.Sandbox, i, o string) error { return api.FillFormFile(i, sb.P("in/fill.json"), o, nil) }},
		{Name: "api.ExportFormFile", Class: "inout", In: "samples/form/demo/english.pdf", OutName: "out.json", NoInplace: true,
			Run: func(sb *fsx.Sandbox, i, o string) error { return api.ExportFormFile(i, o, nil) }},
		{Name: "api.ExportBookmarksFile", Class: "inout", In: small, OutName: "out.json", NoInplace: true,
			Prep: func(sb *fsx.Sandbox, i string) error {
				return api.AddBookmarksFile(i, "", []pdfcpu.Bookmark{{PageFrom: 1, Title: "One"}}, true, nil)
			},
			Run: func(sb *fsx.Sandbox, i, o string) error { return api.ExportBookmarksFile(i, o, nil) }},
		{Name: "api.RemoveSignaturesFile", Class: "inout", In: "samples/signatures/adbe.pkcs7.detached/sample1.pdf",
			Run: func(sb *fsx.Sandbox, i, o string) error { return api.RemoveSignaturesFile(i, o, nil) }},
		{Name: "api.AddImageWatermarksFile", Class: "inout", In: small, Extra: map[string]string{"logo.png": "testdata/resources/logoSmall.png"},
			Run: func(sb *fsx.Sandbox, i, o string) error {
				return api.AddImageWatermarksFile(i, o, nil, false, sb.P("in/logo.png"), "scale:0.3", nil)
			}},
		{Name: "api.AddPDFWatermarksFile", Class: "inout", In: small, Extra: map[string]string{"stamp.pdf": "testdata/testRot.pdf"},
			Run: func(sb *fsx.Sandbox, i, o string) error {
				return api.AddPDFWatermarksFile(i, o, nil, true, sb.P("in/stamp.pdf")+":1", "scale:0.3", nil)
			}},
		{Name: "api.ExtractAttachmentsFile", Class: "outdir", In: small, Multi: true,
			Prep: func(sb *fsx.Sandbox, i string) error {
				sb.Put("prep/a.txt", []byte("attachment a"), 0644)
				sb.Put("prep/b.txt", []byte("attachment b"), 0644)
				defer os.RemoveAll(sb.P("prep"))
				return api.AddAttachmentsFile(i, "", []string{sb.P("prep/a.txt"), sb.P("prep/b.txt")}, false, nil)
			},
			Run: func(sb *fsx.Sandbox, i, o string) error { return api.ExtractAttachmentsFile(i, o, nil, nil) }},
		{Name: "api.RemoveAttachmentsFile", Class: "inout", In: small,
			Prep: func(sb *fsx.Sandbox, i string) error {
				sb.Put("prep/a.txt", []byte("attachment a"), 0644)
				defer os.RemoveAll(sb.P("prep"))
				return api.AddAttachmentsFile(i, "", []string{sb.P("prep/a.txt")}, false, nil)
			},
			Run: func(sb *fsx.Sandbox, i, o string) error { return api.RemoveAttachmentsFile(i, o, nil, nil) }},
		{Name: "api.MultiFillFormFile", Class: "outdir", In: "samples/form/demo/english.pdf", Multi: true, Extra: map[string]string{"multi.json": "samples/form/multifill/json/english.json"},
			Run: func(sb *fsx.Sandbox, i, o string) error { return api.MultiFillFormFile(i, sb.P("in/multi.json"), o, i, false, nil) }},
		{Name: "api.MultiFillFormFile+merge", Class: "outdir", In: "samples/form/demo/english.pdf", Multi: true, Extra: map[string]string{"multi.json": "samples/form/multifill/json/english.json"},
			Run: func(sb *fsx.Sandbox, i, o string) error { return api.MultiFillFormFile(i, sb.P("in/multi.json"), o, "batch.pdf", true, nil) }},
		{Name: "api.MultiFillFormFile+merge1", Class: "outdir", In: "samples/form/demo/english.pdf", Multi: true, Extra: map[string]string{"multi.json": "samples/form/multifill/json/english.json"},
			// merge mode with exactly one record: the single filled form becomes the merged output
			Prep: func(sb *fsx.Sandbox, i string) error {
				bb, err := os.ReadFile(sb.P("in/multi.json"))
				if err != nil {
					return err
				}
				var j map[string]any
				if err := json.Unmarshal(bb, &j); err != nil {
					return err
				}
				if forms, ok := j["forms"].([]any); ok && len(forms) > 1 {
					j["forms"] = forms[:1]
				}
				if bb, err = json.Marshal(j); err != nil {
					return err
				}
				return os.WriteFile(sb.P("in/multi.json"), bb, 0644)
			},
			Run: func(sb *fsx.Sandbox, i, o string) error { return api.MultiFillFormFile(i, sb.P("in/multi.json"), o, "batch.pdf", true, nil) }},
		{Name: "api.MultiFillFormFile+csv", Class: "outdir", In: "samples/form/demo/english.pdf", Multi: true, Extra: map[string]string{"multi.csv": "samples/form/multifill/csv/english.csv"},
			Run: func(sb *fsx.Sandbox, i, o string) error { return api.MultiFillFormFile(i, sb.P("in/multi.csv"), o, "batch.pdf", false, nil) }},
		{Name: "api.PosterFile", Class: "outdir", In: "testdata/testRot.pdf", Multi: true,
			Run: func(sb *fsx.Sandbox, i, o string) error {
				c, err := pdfcpu.ParseCutConfigForPoster("f:A5", types.POINTS)
				if err != nil {
					return err
				}
				return api.PosterFile(i, o, "ps", nil, c, nil)
			}},
		{Name: "api.SplitByPageNrFile", Class: "outdir", In: small, Multi: true,
			Run: func(sb *fsx.Sandbox, i, o string) error { return api.SplitByPageNrFile(i, o, []int{3, 5}, nil) }},
		inout("api.AddBookmarksFile", small, func(i, o string) error {
			return api.AddBookmarksFile(i, o, []pdfcpu.Bookmark{{PageFrom: 1, Title: "One"}, {PageFrom: 2, Title: "Two"}}, true, nil)
		}),
		inout("api.AddBoxesFile", small, func(i, o string) error {
			pb, err := api.PageBoundaries("crop:[10 10 200 200]", types.POINTS)
			if err != nil {
				return err
			}
			return api.AddBoxesFile(i, o, nil, pb, nil)
		}),
		inout("api.CropFile", small, func(i, o string) error {
			b, err := api.Box("[10 10 200 200]", types.POINTS)
			if err != nil {
				return err
			}
			return api.CropFile(i, o, nil, b, nil)
		}),
		inout("api.ResizeFile", small, func(i, o string) error {
			r, err := pdfcpu.ParseResizeConfig("scale:0.5", types.POINTS)
			if err != nil {
				return err
			}
			return api.ResizeFile(i, o, nil, r, nil)
		}),
		inout("api.ZoomFile", small, func(i, o string) error {
			z, err := pdfcpu.ParseZoomConfig("factor:0.5", types.POINTS)
			if err != nil {
				return err
			}
			return api.ZoomFile(i, o, nil, z, nil)
		}),
		inout("api.NUpFile", small, func(i, o string) error { return api.NUpFile([]string{i}, o, nil, nup(4), nil) }),
		inout("api.GridFile", small, func(i, o string) error {
			g, err := api.PDFGridConfig(1, 2, "", conf())
			if err != nil {
				return err
			}
			return api.GridFile([]string{i}, o, nil, g, nil)
		}),
		inout("api.BookletFile", small, func(i, o string) error {
			b, err := api.PDFBookletConfig(4, "", conf())
			if err != nil {
				return err
			}
			return api.BookletFile([]string{i}, o, nil, b, nil)
		}),
		inout("api.AddAnnotationsFile", small, func(i, o string) error {
			ann := model.NewTextAnnotation(*types.NewRectangle(10, 10, 50, 50), 0, "note", "id1", "", 0, nil, "", nil, nil, "", "", 0, 0, 0, true, "Comment")
			return api.AddAnnotationsFile(i, o, []string{"1"}, ann, nil, false)
		}),
		{Name: "api.AddAttachmentsFile", Class: "inout", In: small, Extra: map[string]string{"att/a.txt": "testdata/test.pdf"},
			Run: func(sb *fsx.Sandbox, i, o string) error { return api.AddAttachmentsFile(i, o, []string{sb.P("in/att/a.txt")}, false, nil) }},
		{Name: "api.MergeCreateFile", Class: "multiin", In: small, Extra: map[string]string{"in2.pdf": "testdata/testRot.pdf"},
			Run: func(sb *fsx.Sandbox, i, o string) error { return api.MergeCreateFile([]string{i, sb.P("in/in2.pdf")}, o, false, nil) }},
		{Name: "api.MergeCreateZipFile", Class: "multiin", In: small, Extra: map[string]string{"in2.pdf": "testdata/testRot.pdf"},
			Run: func(sb *fsx.Sandbox, i, o string) error { return api.MergeCreateZipFile(i, sb.P("in/in2.pdf"), o, nil) }},
		{Name: "api.MergeAppendFile", Class: "multiin", In: small, Extra: map[string]string{"in2.pdf": "testdata/testRot.pdf"},
			Run: func(sb *fsx.Sandbox, i, o string) error { return api.MergeAppendFile([]string{i, sb.P("in/in2.pdf")}, o, false, nil) }},
		{Name: "api.ImportImagesFile", Class: "multiin", In: "", Extra: map[string]string{"img.png": "testdata/resources/logoSmall.png"},
			Run: func(sb *fsx.Sandbox, i, o string) error { return api.ImportImagesFile([]string{sb.P("in/img.png")}, o, nil, nil) }},
		{Name: "api.SplitFile", Class: "outdir", In: small, Multi: true,
			Run: func(sb *fsx.Sandbox, i, o string) error { return api.SplitFile(i, o, 3, nil) }},
		{Name: "api.ExtractPagesFile", Class: "outdir", In: small, Multi: true,
			Run: func(sb *fsx.Sandbox, i, o string) error { return api.ExtractPagesFile(i, o, []string{"1-2"}, nil) }},
		{Name: "api.ExtractContentFile", Class: "outdir", In: small, Multi: true,
			Run: func(sb *fsx.Sandbox, i, o string) error { return api.ExtractContentFile(i, o, []string{"1-2"}, nil) }},
		{Name: "api.ExtractImagesFile", Class: "outdir", In: "testdata/testImage.pdf", Multi: true,
			Run: func(sb *fsx.Sandbox, i, o string) error { return api.ExtractImagesFile(i, o, nil, nil) }},
		{Name: "api.ExtractFontsFile", Class: "outdir", In: text, Multi: true,
			Run: func(sb *fsx.Sandbox, i, o string) error { return api.ExtractFontsFile(i, o, nil, nil) }},
		{Name: "api.ExtractMetadataFile", Class: "outdir", In: text, Multi: true,
			Run: func(sb *fsx.Sandbox, i, o string) error { return api.ExtractMetadataFile(i, o, nil) }},
		{Name: "api.NDownFile", Class: "outdir", In: "testdata/testRot.pdf", Multi: true,
			Run: func(sb *fsx.Sandbox, i, o string) error {
				c, err := pdfcpu.ParseCutConfigForN(2, "", types.POINTS)
				if err != nil {
					return err
				}
				return api.NDownFile(i, o, "nd", nil, 2, c, nil)
			}},
		{Name: "api.CutFile", Class: "outdir", In: "testdata/testRot.pdf", Multi: true,
			Run: func(sb *fsx.Sandbox, i, o string) error {
				c, err := pdfcpu.ParseCutConfig("hor:.5", types.POINTS)
				if err != nil {
					return err
				}
				return api.CutFile(i, o, "ct", nil, c, nil)
			}},
	}
	out := ops[:0]
	for _, o := range ops {
		if o.Run != nil {
			out = append(out, o)
		}
	}
	return out
}

// Find returns the op with the given name.
func Find(name string) *Op {
	for _, o := range Ops() {
		if o.Name == name {
			return &o
		}
	}
	return nil
}
