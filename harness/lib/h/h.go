// Package h holds small helpers shared by the per-property harness commands.
package h

import (
	"bufio"
	"encoding/json"
	"fmt"
	"os"
	"strconv"
)

// EachLine calls fn for every non-empty line of an ndjson file.
func EachLine(path string, fn func(line []byte) error) error {
	f, err := os.Open(path)
	if err != nil {
		return err
	}
	defer f.Close()
	sc := bufio.NewScanner(f)
	sc.Buffer(make([]byte, 1<<20), 1<<28)
	for sc.Scan() {
		b := sc.Bytes()
		if len(b) == 0 {
			continue
		}
		if err := fn(b); err != nil {
			return err
		}
	}
	return sc.Err()
}

// W is an ndjson writer.
type W struct {
	f *os.File
	w *bufio.Writer
	N int
}

func NewW(path string) *W {
	f, err := os.Create(path)
	if err != nil {
		Die("create %s: %v", path, err)
	}
	return &W{f: f, w: bufio.NewWriterSize(f, 1<<20)}
}

func (w *W) Put(v any) {
	b, err := json.Marshal(v)
	if err != nil {
		Die("marshal: %v", err)
	}
	w.w.Write(b)
	w.w.WriteByte('\n')
	w.N++
}

func (w *W) Close() {
	w.w.Flush()
	w.f.Close()
}

// Die reports a harness failure (exit 2: never a verdict).
func Die(format string, a ...any) {
	fmt.Fprintf(os.Stderr, "harness: "+format+"\n", a...)
	os.Exit(2)
}

// Summary prints the single JSON summary line the Python driver reads from stdout.
func Summary(v any) {
	b, _ := json.Marshal(v)
	fmt.Println("SUMMARY " + string(b))
}

func EnvInt(name string, def int) int {
	if s := os.Getenv(name); s != "" {
		if n, err := strconv.Atoi(s); err == nil {
			return n
		}
	}
	return def
}

// Arg returns the value following flag name in os.Args ("" if absent).
func Arg(name string) string {
	for i, a := range os.Args {
		if a == name && i+1 < len(os.Args) {
			return os.Args[i+1]
		}
	}
	return ""
}

func ArgInt(name string, def int) int {
	if s := Arg(name); s != "" {
		if n, err := strconv.Atoi(s); err == nil {
			return n
		}
	}
	return def
}
