// Package rawpdf emits small PDF files byte by byte, independent of pdfcpu's writer,
// so that generated inputs do not depend on the code under test.
package rawpdf

import (
	"bytes"
	"fmt"
	"strings"
)

// Doc collects numbered objects; object i (1-based) has body Objs[i-1] ("" = free/unused number).
type Doc struct {
	Objs    []string
	Root    int
	Info    int
	Trailer string // extra trailer entries, e.g. "/ID [<..> <..>]"
	Version string // default 1.7
}

// Add appends an object body (without "n 0 obj" / "endobj") and returns its number.
func (d *Doc) Add(body string) int {
	d.Objs = append(d.Objs, body)
	return len(d.Objs)
}

// Reserve allocates an object number to be filled later with Set.
func (d *Doc) Reserve() int { return d.Add("null") }

func (d *Doc) Set(n int, body string) { d.Objs[n-1] = body }

// AddStream adds a stream object; dict is the dictionary content without << >> and without /Length.
func (d *Doc) AddStream(dict string, data []byte) int {
	return d.Add(StreamBody(dict, data))
}

func StreamBody(dict string, data []byte) string {
	return fmt.Sprintf("<< %s /Length %d >>\nstream\n%s\nendstream", dict, len(data), data)
}

// Bytes serialises the document with a classic cross-reference table.
func (d *Doc) Bytes() []byte {
	var b bytes.Buffer
	v := d.Version
	if v == "" {
		v = "1.7"
	}
	fmt.Fprintf(&b, "%%PDF-%s\n%%\xe2\xe3\xcf\xd3\n", v)
	offs := make([]int, len(d.Objs)+1)
	for i, body := range d.Objs {
		if body == "" {
			continue
		}
		offs[i+1] = b.Len()
		fmt.Fprintf(&b, "%d 0 obj\n%s\nendobj\n", i+1, body)
	}
	xref := b.Len()
	fmt.Fprintf(&b, "xref\n0 %d\n", len(d.Objs)+1)
	// well-formed free list: 0 -> first free -> next free -> ... -> 0
	var free []int
	for i := 1; i <= len(d.Objs); i++ {
		if d.Objs[i-1] == "" {
			free = append(free, i)
		}
	}
	next := func(k int) int {
		if k+1 < len(free) {
			return free[k+1]
		}
		return 0
	}
	head := 0
	if len(free) > 0 {
		head = free[0]
	}
	fmt.Fprintf(&b, "%010d 65535 f \n", head)
	fi := 0
	for i := 1; i <= len(d.Objs); i++ {
		if d.Objs[i-1] == "" {
			fmt.Fprintf(&b, "%010d 00001 f \n", next(fi))
			fi++
			continue
		}
		fmt.Fprintf(&b, "%010d 00000 n \n", offs[i])
	}
	fmt.Fprintf(&b, "trailer\n<< /Size %d /Root %d 0 R", len(d.Objs)+1, d.Root)
	if d.Info != 0 {
		fmt.Fprintf(&b, " /Info %d 0 R", d.Info)
	}
	if d.Trailer != "" {
		b.WriteString(" " + d.Trailer)
	}
	fmt.Fprintf(&b, " >>\nstartxref\n%d\n%%%%EOF\n", xref)
	return b.Bytes()
}

// PageSpec describes one page of a marker document.
type PageSpec struct {
	Marker   string // unique text drawn on the page (ASCII, no parentheses)
	Rotate   int    // -1: no /Rotate entry on the page
	MediaBox string // "" : inherited from the parent node; else e.g. "[0 0 200 300]"
	CropBox  string
	Streams  int // number of content streams (default 1)
}

// MarkerOpts controls the page tree shape.
type MarkerOpts struct {
	Fanout        int    // kids per intermediate node (0: flat tree)
	InheritMedia  string // MediaBox placed on the root Pages node (default "[0 0 595 842]")
	InheritRotate int    // /Rotate on the root Pages node (0: none)
	InfoDict      string // content of the info dict (without << >>), "" none
	CatalogExtra  string // extra catalog entries
}

// MarkerContent is the content stream text for a marker.
func MarkerContent(marker string) string {
	return fmt.Sprintf("BT /F1 12 Tf 20 20 Td (%s) Tj ET", marker)
}

// MarkerDoc builds a document whose pages carry unique markers, with attributes inherited through the page tree.
func MarkerDoc(pages []PageSpec, o MarkerOpts) *Doc {
	d := &Doc{}
	catalog := d.Reserve()
	d.Root = catalog
	font := d.Add("<< /Type /Font /Subtype /Type1 /BaseFont /Helvetica >>")
	rootPages := d.Reserve()
	media := o.InheritMedia
	if media == "" {
		media = "[0 0 595 842]"
	}
	// leaves
	type node struct{ num, count int }
	mk := func(parent int, p PageSpec) int {
		n := p.Streams
		if n <= 0 {
			n = 1
		}
		var refs []string
		text := MarkerContent(p.Marker)
		if n == 1 {
			refs = append(refs, fmt.Sprintf("%d 0 R", d.AddStream("", []byte(text))))
		} else {
			// split the content over n streams at token boundaries
			toks := strings.Split(text, " ")
			per := (len(toks) + n - 1) / n
			for i := 0; i < len(toks); i += per {
				j := i + per
				if j > len(toks) {
					j = len(toks)
				}
				refs = append(refs, fmt.Sprintf("%d 0 R", d.AddStream("", []byte(strings.Join(toks[i:j], " ")))))
			}
		}
		contents := refs[0]
		if len(refs) > 1 {
			contents = "[" + strings.Join(refs, " ") + "]"
		}
		body := fmt.Sprintf("<< /Type /Page /Parent %d 0 R /Contents %s /Resources << /Font << /F1 %d 0 R >> >>", parent, contents, font)
		if p.MediaBox != "" {
			body += " /MediaBox " + p.MediaBox
		}
		if p.CropBox != "" {
			body += " /CropBox " + p.CropBox
		}
		if p.Rotate >= 0 {
			body += fmt.Sprintf(" /Rotate %d", p.Rotate)
		}
		return d.Add(body + " >>")
	}
	var kids []node
	if o.Fanout <= 0 || len(pages) <= o.Fanout {
		for _, p := range pages {
			kids = append(kids, node{mk(rootPages, p), 1})
		}
	} else {
		for i := 0; i < len(pages); i += o.Fanout {
			j := i + o.Fanout
			if j > len(pages) {
				j = len(pages)
			}
			mid := d.Reserve()
			var refs []string
			for _, p := range pages[i:j] {
				refs = append(refs, fmt.Sprintf("%d 0 R", mk(mid, p)))
			}
			d.Set(mid, fmt.Sprintf("<< /Type /Pages /Parent %d 0 R /Count %d /Kids [%s] >>", rootPages, j-i, strings.Join(refs, " ")))
			kids = append(kids, node{mid, j - i})
		}
	}
	var refs []string
	total := 0
	for _, k := range kids {
		refs = append(refs, fmt.Sprintf("%d 0 R", k.num))
		total += k.count
	}
	rp := fmt.Sprintf("<< /Type /Pages /Count %d /Kids [%s] /MediaBox %s", total, strings.Join(refs, " "), media)
	if o.InheritRotate != 0 {
		rp += fmt.Sprintf(" /Rotate %d", o.InheritRotate)
	}
	d.Set(rootPages, rp+" >>")
	d.Set(catalog, fmt.Sprintf("<< /Type /Catalog /Pages %d 0 R %s >>", rootPages, o.CatalogExtra))
	if o.InfoDict != "" {
		d.Info = d.Add("<< " + o.InfoDict + " >>")
	}
	return d
}

// Simple returns an n-page marker document with markers prefix-1 .. prefix-n.
func Simple(n int, prefix string) []byte {
	ps := make([]PageSpec, n)
	for i := range ps {
		ps[i] = PageSpec{Marker: fmt.Sprintf("%s-%d", prefix, i+1), Rotate: -1}
	}
	return MarkerDoc(ps, MarkerOpts{}).Bytes()
}
