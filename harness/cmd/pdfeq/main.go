// pdfeq: compare two PDFs on the abstract document state (pages: marker/content/rotation/boxes; keywords, properties,
// page layout/mode, encryption flag, attachment names). Used by C41 to compare stream-based with file-based CLI results.
// usage: pdfeq a.pdf b.pdf [upw opw]   -> prints one JSON object {"equal":bool,"why":string}
package main

import (
	"crypto/sha256"
	"encoding/json"
	"fmt"
	"os"
	"sort"

	"github.com/pdfcpu/pdfcpu/pkg/api"
	"github.com/pdfcpu/pdfcpu/pkg/pdfcpu/model"
	"verif/harness/lib/proj"
)

type abs struct {
	Pages      []string
	Keywords   []string
	Props      map[string]string
	Layout     string
	Mode       string
	Encrypted  bool
	Attach     []string
	Bookmarks  bool
}

func load(path, upw, opw string) (*abs, error) {
	var lastErr error
	for _, pw := range [][2]string{{upw, opw}, {"", ""}, {"u", "o"}, {"", "o"}} {
		c := model.NewDefaultConfiguration()
		c.ValidationMode = model.ValidationRelaxed
		c.UserPW, c.OwnerPW = pw[0], pw[1]
		ctx, err := proj.Context(path, c)
		if err != nil {
			lastErr = err
			continue
		}
		ps, err := proj.PagesOf(ctx)
		if err != nil {
			return nil, err
		}
		a := &abs{Props: map[string]string{}}
		for _, p := range ps {
			h := sha256.Sum256([]byte(proj.NormContent(p.Content)))
			a.Pages = append(a.Pages, fmt.Sprintf("%x|%d|%v|%v", h[:6], p.Rot, p.Media, p.Crop))
		}
		for k := range ctx.KeywordList {
			a.Keywords = append(a.Keywords, k)
		}
		sort.Strings(a.Keywords)
		for k, v := range ctx.Properties {
			a.Props[k] = v
		}
		if ctx.PageLayout != nil {
			a.Layout = ctx.PageLayout.String()
		}
		if ctx.PageMode != nil {
			a.Mode = ctx.PageMode.String()
		}
		a.Encrypted = ctx.Encrypt != nil
		a.Bookmarks = ctx.Outlines != nil
		if aa, err := ctx.ListAttachments(); err == nil {
			for _, x := range aa {
				a.Attach = append(a.Attach, x.FileName)
			}
			sort.Strings(a.Attach)
		}
		return a, nil
	}
	return nil, lastErr
}

func main() {
	api.DisableConfigDir()
	upw, opw := "", ""
	if len(os.Args) > 4 {
		upw, opw = os.Args[3], os.Args[4]
	}
	out := map[string]any{"equal": false, "why": ""}
	a, err := load(os.Args[1], upw, opw)
	if err != nil {
		out["why"] = "read " + os.Args[1] + ": " + err.Error()
	} else if b, err := load(os.Args[2], upw, opw); err != nil {
		out["why"] = "read " + os.Args[2] + ": " + err.Error()
	} else {
		ja, _ := json.Marshal(a)
		jb, _ := json.Marshal(b)
		if string(ja) == string(jb) {
			out["equal"] = true
			out["pages"] = len(a.Pages)
		} else {
			out["why"] = "abstract documents differ: " + string(ja) + " vs " + string(jb)
		}
	}
	j, _ := json.Marshal(out)
	fmt.Println(string(j))
}
