package main

// Encryption of a rawpdf.Doc with the standard security handler V4/R4 (128 bit) and freely chosen crypt filters for
// streams and strings (V2 = RC4, AESV2, Identity), written with the standard library only: inputs that pdfcpu itself never
// produces (its own encryption always uses one filter for both).

import (
	"bytes"
	"crypto/aes"
	"crypto/cipher"
	"crypto/md5"
	"crypto/rc4"
	"encoding/binary"
	"fmt"
	"sort"
	"strings"

	"verif/harness/lib/rawpdf"
	"verif/harness/lib/strictpdf"
)

var pwPad = []byte{0x28, 0xBF, 0x4E, 0x5E, 0x4E, 0x75, 0x8A, 0x41, 0x64, 0x00, 0x4E, 0x56, 0xFF, 0xFA, 0x01, 0x08,
	0x2E, 0x2E, 0x00, 0xB6, 0xD0, 0x68, 0x3E, 0x80, 0x2F, 0x0C, 0xA9, 0xFE, 0x64, 0x53, 0x69, 0x7A}

func padPW(pw string) []byte {
	b := append([]byte(pw), pwPad...)
	return b[:32]
}

func rc4x(key, data []byte) []byte {
	c, _ := rc4.NewCipher(key)
	out := make([]byte, len(data))
	c.XORKeyStream(out, data)
	return out
}

func xorKey(key []byte, i int) []byte {
	k := make([]byte, len(key))
	for j := range key {
		k[j] = key[j] ^ byte(i)
	}
	return k
}

type rawCrypt struct {
	key      []byte
	stm, str string
	iv       byte
}

func (rc *rawCrypt) objKey(n, g int, aesSalt bool) []byte {
	h := md5.New()
	h.Write(rc.key)
	h.Write([]byte{byte(n), byte(n >> 8), byte(n >> 16), byte(g), byte(g >> 8)})
	if aesSalt {
		h.Write([]byte("sAlT"))
	}
	return h.Sum(nil) // min(len(key)+5, 16) = 16 for a 128 bit key
}

func (rc *rawCrypt) enc(kind string, n, g int, data []byte) []byte {
	switch kind {
	case "V2":
		return rc4x(rc.objKey(n, g, false), data)
	case "AESV2":
		blk, _ := aes.NewCipher(rc.objKey(n, g, true))
		pad := 16 - len(data)%16
		p := append(append([]byte{}, data...), bytes.Repeat([]byte{byte(pad)}, pad)...)
		iv := make([]byte, 16)
		for i := range iv {
			rc.iv = rc.iv*31 + 7
			iv[i] = rc.iv | 0x40 // deterministic, never an EOL byte
		}
		out := make([]byte, len(p))
		cipher.NewCBCEncrypter(blk, iv).CryptBlocks(out, p)
		return append(iv, out...)
	}
	return data // Identity
}

func pdfName(s string) string {
	var b strings.Builder
	b.WriteByte('/')
	for i := 0; i < len(s); i++ {
		c := s[i]
		if c <= 32 || c >= 127 || strings.IndexByte("()<>[]{}/%#", c) >= 0 {
			fmt.Fprintf(&b, "#%02X", c)
		} else {
			b.WriteByte(c)
		}
	}
	return b.String()
}

// serialize writes a parsed object back, with every string encrypted for object n g.
func (rc *rawCrypt) serialize(o any, n, g int) string {
	switch o := o.(type) {
	case strictpdf.Null:
		return "null"
	case bool:
		return fmt.Sprint(o)
	case int64:
		return fmt.Sprint(o)
	case float64:
		return strings.TrimRight(strings.TrimRight(fmt.Sprintf("%.6f", o), "0"), ".")
	case strictpdf.Name:
		return pdfName(string(o))
	case strictpdf.Str:
		return fmt.Sprintf("<%X>", rc.enc(rc.str, n, g, []byte(o)))
	case strictpdf.Ref:
		return fmt.Sprintf("%d %d R", o.N, o.G)
	case strictpdf.Arr:
		parts := make([]string, len(o))
		for i, v := range o {
			parts[i] = rc.serialize(v, n, g)
		}
		return "[" + strings.Join(parts, " ") + "]"
	case strictpdf.Dict:
		keys := make([]string, 0, len(o))
		for k := range o {
			keys = append(keys, k)
		}
		sort.Strings(keys)
		var b strings.Builder
		b.WriteString("<<")
		for _, k := range keys {
			b.WriteString(" " + pdfName(k) + " " + rc.serialize(o[k], n, g))
		}
		b.WriteString(" >>")
		return b.String()
	}
	panic(fmt.Sprintf("serialize: %T", o))
}

// encryptDoc returns the classic-xref serialisation of d encrypted with crypt filters stm (streams) and str (strings).
func encryptDoc(d *rawpdf.Doc, stm, str string) []byte {
	id := []byte("verif-mixed-cf-0")
	p := int32(-1852)
	// algorithm 3: O
	h := md5.Sum(padPW(opw))
	for i := 0; i < 50; i++ {
		h = md5.Sum(h[:])
	}
	ov := rc4x(h[:], padPW(upw))
	for i := 1; i <= 19; i++ {
		ov = rc4x(xorKey(h[:], i), ov)
	}
	// algorithm 2: file key
	m := md5.New()
	m.Write(padPW(upw))
	m.Write(ov)
	var pb [4]byte
	binary.LittleEndian.PutUint32(pb[:], uint32(p))
	m.Write(pb[:])
	m.Write(id)
	k := m.Sum(nil)
	for i := 0; i < 50; i++ {
		s := md5.Sum(k[:16])
		k = s[:]
	}
	key := k[:16]
	// algorithm 5: U
	m = md5.New()
	m.Write(pwPad)
	m.Write(id)
	uv := rc4x(key, m.Sum(nil))
	for i := 1; i <= 19; i++ {
		uv = rc4x(xorKey(key, i), uv)
	}
	uv = append(uv, bytes.Repeat([]byte{0}, 16)...)
	rc := &rawCrypt{key: key, stm: stm, str: str}

	out := &rawpdf.Doc{Root: d.Root, Info: d.Info, Version: d.Version}
	out.Objs = make([]string, len(d.Objs))
	newLen := map[int]int{} // indirect /Length objects to update
	for i, body := range d.Objs {
		n := i + 1
		if body == "" {
			continue
		}
		o, used, err := strictpdf.ParseObject([]byte(body))
		if err != nil {
			panic(fmt.Sprintf("encryptDoc: object %d: %v", n, err))
		}
		rest := body[used:]
		si := strings.Index(rest, "stream\n")
		dict, isDict := o.(strictpdf.Dict)
		if !isDict || si < 0 || strings.TrimSpace(rest[:si]) != "" {
			out.Objs[i] = rc.serialize(o, n, 0)
			continue
		}
		var dl int
		switch l := dict["Length"].(type) {
		case int64:
			dl = int(l)
		case strictpdf.Ref:
			fmt.Sscanf(d.Objs[l.N-1], "%d", &dl)
		}
		data := []byte(rest[si+len("stream\n") : si+len("stream\n")+dl])
		kind := stm
		if t, _ := dict["Type"].(strictpdf.Name); t == "Metadata" {
			kind = stm // metadata streams are encrypted too (EncryptMetadata defaults to true)
		}
		e := rc.enc(kind, n, 0, data)
		if ref, ok := dict["Length"].(strictpdf.Ref); ok {
			newLen[ref.N] = len(e)
		} else {
			dict["Length"] = int64(len(e))
		}
		out.Objs[i] = rc.serialize(dict, n, 0) + "\nstream\n" + string(e) + "\nendstream"
	}
	for n, l := range newLen {
		out.Objs[n-1] = fmt.Sprint(l)
	}
	cf := func(name, kind string) string {
		return fmt.Sprintf("/%s << /Type /CryptFilter /CFM /%s /AuthEvent /DocOpen /Length 16 >>", name, kind)
	}
	fname := func(name, kind string) string {
		if kind == "Identity" {
			return "/Identity"
		}
		return "/" + name
	}
	cfs := ""
	if stm != "Identity" {
		cfs += cf("StmCF", stm) + " "
	}
	if str != "Identity" {
		cfs += cf("StrCF", str)
	}
	encObj := out.Add(fmt.Sprintf("<< /Filter /Standard /V 4 /R 4 /Length 128 /CF << %s >> /StmF %s /StrF %s /O <%X> /U <%X> /P %d >>",
		cfs, fname("StmCF", stm), fname("StrCF", str), ov, uv, p))
	out.Trailer = fmt.Sprintf("/Encrypt %d 0 R /ID [<%X> <%X>]", encObj, id, id)
	return out.Bytes()
}
