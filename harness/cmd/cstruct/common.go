package main

import (
	"fmt"
	"os"
	"path/filepath"
	"sort"
	"strings"

	"github.com/pdfcpu/pdfcpu/pkg/pdfcpu/model"
	"github.com/pdfcpu/pdfcpu/pkg/pdfcpu/types"
	"verif/harness/lib/h"
	"verif/harness/lib/rawpdf"
)

func repoDir() string {
	if d := os.Getenv("VERIF_REPO"); d != "" {
		return d
	}
	return "/repo"
}

// WCfg is one writer configuration.
type WCfg struct {
	XS  bool   `json:"xs"`  // conf.WriteXRefStream
	OS  bool   `json:"os"`  // conf.WriteObjectStream
	Eol string `json:"eol"` // LF CR CRLF
	Enc string `json:"enc"` // none aes256 aes128 rc4
}

func (c WCfg) String() string {
	b := func(x bool) string {
		if x {
			return "1"
		}
		return "0"
	}
	return "xs" + b(c.XS) + "-os" + b(c.OS) + "-" + c.Eol + "-" + c.Enc
}

const upw, opw = "upw", "opw"

// Conf builds a fresh configuration for the writer configuration.
func (c WCfg) Conf() *model.Configuration {
	var conf *model.Configuration
	switch c.Enc {
	case "aes256":
		conf = model.NewAESConfiguration(upw, opw, 256)
	case "aes128":
		conf = model.NewAESConfiguration(upw, opw, 128)
	case "rc4":
		conf = model.NewRC4Configuration(upw, opw, 128)
	default:
		conf = model.NewDefaultConfiguration()
	}
	conf.WriteXRefStream = c.XS
	conf.WriteObjectStream = c.OS
	switch c.Eol {
	case "CR":
		conf.Eol = types.EolCR
	case "CRLF":
		conf.Eol = types.EolCRLF
	default:
		conf.Eol = types.EolLF
	}
	conf.ValidationMode = model.ValidationRelaxed
	return conf
}

// AllCfgs enumerates writer configurations (object streams imply an xref stream).
func AllCfgs(encs []string) []WCfg {
	var r []WCfg
	for _, enc := range encs {
		for _, eol := range []string{"LF", "CR", "CRLF"} {
			for _, m := range [][2]bool{{false, false}, {true, false}, {true, true}} {
				r = append(r, WCfg{XS: m[0], OS: m[1], Eol: eol, Enc: enc})
			}
		}
	}
	return r
}

// Input is a named input document on disk.
type Input struct {
	Name       string
	Path       string
	Gen        bool // generated with rawpdf
	NoOptimize bool // run operations with conf.Optimize = false (references to free objects then reach the writer)
}

// corpus returns the testdata PDFs no larger than maxSize, smallest first.
func corpus(maxSize int64) []Input {
	dir := filepath.Join(repoDir(), "pkg", "testdata")
	es, err := os.ReadDir(dir)
	if err != nil {
		h.Die("corpus: %v", err)
	}
	type fe struct {
		n string
		s int64
	}
	var l []fe
	for _, e := range es {
		if e.IsDir() || !strings.HasSuffix(e.Name(), ".pdf") {
			continue
		}
		fi, err := e.Info()
		if err != nil || fi.Size() > maxSize {
			continue
		}
		l = append(l, fe{e.Name(), fi.Size()})
	}
	sort.Slice(l, func(i, j int) bool {
		if l[i].s != l[j].s {
			return l[i].s < l[j].s
		}
		return l[i].n < l[j].n
	})
	var r []Input
	for _, f := range l {
		r = append(r, Input{Name: "corpus:" + f.n, Path: filepath.Join(dir, f.n)})
	}
	return r
}

func must(err error) {
	if err != nil {
		h.Die("%v", err)
	}
}

func writeFile(path string, b []byte) {
	must(os.MkdirAll(filepath.Dir(path), 0755))
	must(os.WriteFile(path, b, 0644))
}

func copyFile(src, dst string) {
	b, err := os.ReadFile(src)
	must(err)
	writeFile(dst, b)
}

// rawInputs writes the generated documents used by the layout check into dir.
func rawInputs(dir string) []Input {
	var r []Input
	add := func(name string, b []byte) {
		p := filepath.Join(dir, name+".pdf")
		writeFile(p, b)
		r = append(r, Input{Name: "raw:" + name, Path: p, Gen: true})
	}
	add("simple3", rawpdf.Simple(3, "S"))
	// inherited attributes, several content streams, info dict
	add("tree5", rawpdf.MarkerDoc([]rawpdf.PageSpec{
		{Marker: "T-1", Rotate: -1}, {Marker: "T-2", Rotate: 90, MediaBox: "[0 0 200 300]"},
		{Marker: "T-3", Rotate: -1, CropBox: "[10 10 100 100]", Streams: 3}, {Marker: "T-4", Rotate: 180}, {Marker: "T-5", Rotate: -1},
	}, rawpdf.MarkerOpts{Fanout: 2, InheritRotate: 270, InfoDict: "/Title (Layout (test)) /Author <FEFF00410042> /Keywords (a, b)"}).Bytes())
	// the same kind of document kept in an object stream with a cross-reference stream
	add("objstm4", bytesObjStm(rawpdf.MarkerDoc([]rawpdf.PageSpec{
		{Marker: "O-1", Rotate: -1}, {Marker: "O-2", Rotate: 90}, {Marker: "O-3", Rotate: -1, Streams: 2}, {Marker: "O-4", Rotate: -1},
	}, rawpdf.MarkerOpts{Fanout: 2, InfoDict: "/Title (in object stream)"})))
	// every inheritable attribute sits on intermediate page tree nodes
	add("nested5", nestedDoc(5, "N").Bytes())
	// free objects, an unreferenced object, an indirect /Length, stream data starting with LF / ending with CR
	{
		d := rawpdf.MarkerDoc([]rawpdf.PageSpec{{Marker: "F-1", Rotate: -1}, {Marker: "F-2", Rotate: -1}}, rawpdf.MarkerOpts{InfoDict: "/Title (free)"})
		d.Add("")                                                                                     // free
		d.Add("<< /Unreferenced true >>")                                                             // unreferenced
		d.Add("")                                                                                     // free
		ln := d.Add("17")                                                                             // indirect length
		d.Add(fmt.Sprintf("<< /Length %d 0 R >>\nstream\n%s\nendstream", ln, "\n% seventeen b.\r\r")) // unreferenced stream
		add("free", d.Bytes())
	}
	// a page referencing a free object that is not the head of the free list; processed without the optimisation pass
	{
		d := rawpdf.MarkerDoc([]rawpdf.PageSpec{{Marker: "R-1", Rotate: -1}, {Marker: "R-2", Rotate: -1}}, rawpdf.MarkerOpts{InfoDict: "/Title (freeref)"})
		f1 := d.Add("")
		d.Add("")
		f3 := d.Add("")
		_ = f1
		for i, b := range d.Objs {
			if strings.HasPrefix(b, "<< /Type /Page /Parent") {
				d.Objs[i] = strings.TrimSuffix(b, ">>") + fmt.Sprintf("/Thumb %d 0 R >>", f3)
				break
			}
		}
		p := filepath.Join(dir, "freeref.pdf")
		writeFile(p, d.Bytes())
		r = append(r, Input{Name: "raw:freeref", Path: p, Gen: true, NoOptimize: true})
	}
	// page content that begins with LF and is not compressed; a second page whose content ends with CR
	{
		d := &rawpdf.Doc{}
		cat := d.Reserve()
		d.Root = cat
		font := d.Add("<< /Type /Font /Subtype /Type1 /BaseFont /Helvetica >>")
		pages := d.Reserve()
		c1 := d.AddStream("", []byte("\nBT /F1 12 Tf 20 20 Td (L-1) Tj ET"))
		c2 := d.AddStream("", []byte("BT /F1 12 Tf 20 20 Td (L-2) Tj ET\r"))
		p1 := d.Add(fmt.Sprintf("<< /Type /Page /Parent %d 0 R /Contents %d 0 R /Resources << /Font << /F1 %d 0 R >> >> >>", pages, c1, font))
		p2 := d.Add(fmt.Sprintf("<< /Type /Page /Parent %d 0 R /Contents %d 0 R /Resources << /Font << /F1 %d 0 R >> >> >>", pages, c2, font))
		d.Set(pages, fmt.Sprintf("<< /Type /Pages /Count 2 /Kids [%d 0 R %d 0 R] /MediaBox [0 0 300 300] >>", p1, p2))
		d.Set(cat, fmt.Sprintf("<< /Type /Catalog /Pages %d 0 R >>", pages))
		add("lfdata", d.Bytes())
	}
	// many small objects (more than one object stream of 100 members)
	{
		ps := make([]rawpdf.PageSpec, 60)
		for i := range ps {
			ps[i] = rawpdf.PageSpec{Marker: fmt.Sprintf("M-%d", i+1), Rotate: -1, Streams: 1 + i%2}
		}
		add("many60", rawpdf.MarkerDoc(ps, rawpdf.MarkerOpts{Fanout: 7}).Bytes())
	}
	return r
}
