package main

// Serialisation of a rawpdf.Doc with an object stream and a cross-reference stream (PDF 1.5 layout), independent of
// pdfcpu's writer: inputs whose objects pdfcpu's reader meets inside object streams.

import (
	"bytes"
	"fmt"
	"strings"

	"verif/harness/lib/rawpdf"
)

// bytesObjStm writes every non-stream object of d into one object stream and emits a cross-reference stream.
func bytesObjStm(d *rawpdf.Doc) []byte {
	var b bytes.Buffer
	b.WriteString("%PDF-1.7\n%\xe2\xe3\xcf\xd3\n")
	n := len(d.Objs)
	stmNr, xrefNr := n+1, n+2
	type ent struct {
		t, a, c int
	}
	ents := make([]ent, n+3)
	ents[0] = ent{0, 0, 65535}
	var members []int
	for i, body := range d.Objs {
		nr := i + 1
		switch {
		case body == "":
			ents[nr] = ent{0, 0, 0}
		case strings.Contains(body, "\nstream\n"):
			ents[nr] = ent{1, b.Len(), 0}
			fmt.Fprintf(&b, "%d 0 obj\n%s\nendobj\n", nr, body)
		default:
			ents[nr] = ent{2, stmNr, len(members)}
			members = append(members, nr)
		}
	}
	var head, data bytes.Buffer
	for _, nr := range members {
		fmt.Fprintf(&head, "%d %d ", nr, data.Len())
		data.WriteString(d.Objs[nr-1])
		data.WriteString("\n")
	}
	ents[stmNr] = ent{1, b.Len(), 0}
	fmt.Fprintf(&b, "%d 0 obj\n<< /Type /ObjStm /N %d /First %d /Length %d >>\nstream\n%s%s\nendstream\nendobj\n",
		stmNr, len(members), head.Len(), head.Len()+data.Len(), head.Bytes(), data.Bytes())
	ents[xrefNr] = ent{1, b.Len(), 0}
	var x bytes.Buffer
	for _, e := range ents {
		x.WriteByte(byte(e.t))
		x.Write([]byte{byte(e.a >> 16), byte(e.a >> 8), byte(e.a)})
		x.Write([]byte{byte(e.c >> 8), byte(e.c)})
	}
	tr := fmt.Sprintf("/Type /XRef /Size %d /W [1 3 2] /Root %d 0 R", n+3, d.Root)
	if d.Info != 0 {
		tr += fmt.Sprintf(" /Info %d 0 R", d.Info)
	}
	if d.Trailer != "" {
		tr += " " + d.Trailer
	}
	start := b.Len()
	fmt.Fprintf(&b, "%d 0 obj\n<< %s /Length %d >>\nstream\n", xrefNr, tr, x.Len())
	b.Write(x.Bytes())
	fmt.Fprintf(&b, "\nendstream\nendobj\nstartxref\n%d\n%%%%EOF\n", start)
	return b.Bytes()
}

// nestedDoc builds an n-page marker document whose pages inherit everything from INTERMEDIATE page tree nodes: the root
// /Pages node carries no inheritable attribute, first-level nodes (4 pages each) carry /MediaBox, second-level nodes
// (2 pages each) carry /Rotate and every other one a /CropBox; the page dictionaries carry none of them.
func nestedDoc(n int, prefix string) *rawpdf.Doc {
	d := &rawpdf.Doc{}
	cat := d.Reserve()
	d.Root = cat
	root := d.Reserve()
	font := d.Add("<< /Type /Font /Subtype /Type1 /BaseFont /Helvetica >>")
	var l1refs []string
	page := 0
	for a := 0; page < n; a++ {
		l1 := d.Reserve()
		var l2refs []string
		cnt1 := 0
		for b := 0; b < 2 && page < n; b++ {
			l2 := d.Reserve()
			var prefs []string
			for c := 0; c < 2 && page < n; c++ {
				page++
				cs := d.AddStream("", []byte(rawpdf.MarkerContent(fmt.Sprintf("%s-%d", prefix, page))))
				prefs = append(prefs, fmt.Sprintf("%d 0 R", d.Add(fmt.Sprintf(
					"<< /Type /Page /Parent %d 0 R /Contents %d 0 R /Resources << /Font << /F1 %d 0 R >> >> >>", l2, cs, font))))
			}
			body := fmt.Sprintf("<< /Type /Pages /Parent %d 0 R /Count %d /Kids [%s] /Rotate %d", l1, len(prefs), strings.Join(prefs, " "), 90*((a+b)%4))
			if b == 1 {
				body += " /CropBox [10 10 150 200]"
			}
			d.Set(l2, body+" >>")
			l2refs = append(l2refs, fmt.Sprintf("%d 0 R", l2))
			cnt1 += len(prefs)
		}
		media := "[0 0 595 842]"
		if a%2 == 1 {
			media = "[0 0 300 400]"
		}
		d.Set(l1, fmt.Sprintf("<< /Type /Pages /Parent %d 0 R /Count %d /Kids [%s] /MediaBox %s >>", root, cnt1, strings.Join(l2refs, " "), media))
		l1refs = append(l1refs, fmt.Sprintf("%d 0 R", l1))
	}
	d.Set(root, fmt.Sprintf("<< /Type /Pages /Count %d /Kids [%s] >>", n, strings.Join(l1refs, " ")))
	d.Set(cat, fmt.Sprintf("<< /Type /Catalog /Pages %d 0 R >>", root))
	d.Info = d.Add(fmt.Sprintf("<< /Title (nested %d) >>", n))
	return d
}
