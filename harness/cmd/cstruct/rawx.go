package main

// Serialisation of a rawpdf.Doc with an object stream and a cross-reference stream (PDF 1.5 layout), independent of
// pdfcpu's writer: inputs whose objects pdfcpu's reader meets inside object streams.

import (
	"bytes"
	"fmt"
	"strings"

	"verif/harness/lib/rawpdf"
)

// bytesObjStm writes every non-stream object of d into one object stream and emits a cross-reference stream.
func bytesObjStm(d *rawpdf.Doc) []byte {
	var b bytes.Buffer
	b.WriteString("%PDF-1.7\n%\xe2\xe3\xcf\xd3\n")
	n := len(d.Objs)
	stmNr, xrefNr := n+1, n+2
	type ent struct {
		t, a, c int
	}
	ents := make([]ent, n+3)
	ents[0] = ent{0, 0, 65535}
	var members []int
	for i, body := range d.Objs {
		nr := i + 1
		switch {
		case body == "":
			ents[nr] = ent{0, 0, 0}
		case strings.Contains(body, "\nstream\n"):
			ents[nr] = ent{1, b.Len(), 0}
			fmt.Fprintf(&b, "%d 0 obj\n%s\nendobj\n", nr, body)
		default:
			ents[nr] = ent{2, stmNr, len(members)}
			members = append(members, nr)
		}
	}
	var head, data bytes.Buffer
	for _, nr := range members {
		fmt.Fprintf(&head, "%d %d ", nr, data.Len())
		data.WriteString(d.Objs[nr-1])
		data.WriteString("\n")
	}
	ents[stmNr] = ent{1, b.Len(), 0}
	fmt.Fprintf(&b, "%d 0 obj\n<< /Type /ObjStm /N %d /First %d /Length %d >>\nstream\n%s%s\nendstream\nendobj\n",
		stmNr, len(members), head.Len(), head.Len()+data.Len(), head.Bytes(), data.Bytes())
	ents[xrefNr] = ent{1, b.Len(), 0}
	var x bytes.Buffer
	for _, e := range ents {
		x.WriteByte(byte(e.t))
		x.Write([]byte{byte(e.a >> 16), byte(e.a >> 8), byte(e.a)})
		x.Write([]byte{byte(e.c >> 8), byte(e.c)})
	}
	tr := fmt.Sprintf("/Type /XRef /Size %d /W [1 3 2] /Root %d 0 R", n+3, d.Root)
	if d.Info != 0 {
		tr += fmt.Sprintf(" /Info %d 0 R", d.Info)
	}
	if d.Trailer != "" {
		tr += " " + d.Trailer
	}
	start := b.Len()
	fmt.Fprintf(&b, "%d 0 obj\n<< %s /Length %d >>\nstream\n", xrefNr, tr, x.Len())
	b.Write(x.Bytes())
	fmt.Fprintf(&b, "\nendstream\nendobj\nstartxref\n%d\n%%%%EOF\n", start)
	return b.Bytes()
}
