package main

// Serialisation of a rawpdf.Doc with an object stream and a cross-reference stream (PDF 1.5 layout), independent of
// pdfcpu's writer: inputs whose objects pdfcpu's reader meets inside object streams.

import (
	"bytes"
	"fmt"
	"strings"

	"verif/harness/lib/rawpdf"
)

// bytesObjStm writes every non-stream object of d into one object stream and emits a cross-reference stream.
func bytesObjStm(d *rawpdf.Doc) []byte {
	var b bytes.Buffer
	b.WriteString("%PDF-1.7\n%\xe2\xe3\xcf\xd3\n")
	n := len(d.Objs)
	stmNr, xrefNr := n+1, n+2
	type ent struct {
		t, a, c int
	}
	ents := make([]ent, n+3)
	ents[0] = ent{0, 0, 65535}
	var members []int
	for i, body := range d.Objs {
		nr := i + 1
		switch {
		case body == "":
			ents[nr] = ent{0, 0, 0}
		case strings.Contains(body, "\nstream\n"):
			ents[nr] = ent{1, b.Len(), 0}
			fmt.Fprintf(&b, "%d 0 obj\n%s\nendobj\n", nr, body)
		default:
			ents[nr] = ent{2, stmNr, len(members)}
			members = append(members, nr)
		}
	}
	var head, data bytes.Buffer
	for _, nr := range members {
		fmt.Fprintf(&head, "%d %d ", nr, data.Len())
		data.WriteString(d.Objs[nr-1])
		data.WriteString("\n")
	}
	ents[stmNr] = ent{1, b.Len(), 0}
	fmt.Fprintf(&b, "%d 0 obj\n<< /Type /ObjStm /N %d /First %d /Length %d >>\nstream\n%s%s\nendstream\nendobj\n",
		stmNr, len(members), head.Len(), head.Len()+data.Len(), head.Bytes(), data.Bytes())
	ents[xrefNr] = ent{1, b.Len(), 0}
	var x bytes.Buffer
	for _, e := range ents {
		x.WriteByte(byte(e.t))
		x.Write([]byte{byte(e.a >> 16), byte(e.a >> 8), byte(e.a)})
		x.Write([]byte{byte(e.c >> 8), byte(e.c)})
	}
	tr := fmt.Sprintf("/Type /XRef /Size %d /W [1 3 2] /Root %d 0 R", n+3, d.Root)
	if d.Info != 0 {
		tr += fmt.Sprintf(" /Info %d 0 R", d.Info)
	}
	if d.Trailer != "" {
		tr += " " + d.Trailer
	}
	start := b.Len()
	fmt.Fprintf(&b, "%d 0 obj\n<< %s /Length %d >>\nstream\n", xrefNr, tr, x.Len())
	b.Write(x.Bytes())
	fmt.Fprintf(&b, "\nendstream\nendobj\nstartxref\n%d\n%%%%EOF\n", start)
	return b.Bytes()
}

// nestedDoc builds an n-page marker document whose pages inherit everything from INTERMEDIATE page tree nodes: the root
// /Pages node carries no inheritable attribute, first-level nodes (4 pages each) carry /MediaBox, second-level nodes
// (2 pages each) carry /Rotate and every other one a /CropBox; /Resources sits on first-level and on some second-level nodes;
// the page dictionaries carry none of them.
func nestedDoc(n int, prefix string) *rawpdf.Doc {
	d := &rawpdf.Doc{}
	cat := d.Reserve()
	d.Root = cat
	root := d.Reserve()
	font := d.Add("<< /Type /Font /Subtype /Type1 /BaseFont /Helvetica >>")
	var l1refs []string
	l2res := map[int]string{}
	page := 0
	for a := 0; page < n; a++ {
		l1 := d.Reserve()
		var l2refs []string
		cnt1 := 0
		for b := 0; b < 2 && page < n; b++ {
			l2 := d.Reserve()
			var prefs []string
			for c := 0; c < 2 && page < n; c++ {
				page++
				cs := d.AddStream("", []byte(rawpdf.MarkerContent(fmt.Sprintf("%s-%d", prefix, page))))
				prefs = append(prefs, fmt.Sprintf("%d 0 R", d.Add(fmt.Sprintf(
					"<< /Type /Page /Parent %d 0 R /Contents %d 0 R >>", l2, cs))))
			}
			// /Resources too is inherited: alternately from the second-level and from the first-level node
			if (a+b)%2 == 0 {
				body0 := fmt.Sprintf(" /Resources << /Font << /F1 %d 0 R >> >>", font)
				l2res[l2] = body0
			}
			body := fmt.Sprintf("<< /Type /Pages /Parent %d 0 R /Count %d /Kids [%s] /Rotate %d"+l2res[l2], l1, len(prefs), strings.Join(prefs, " "), 90*((a+b)%4))
			if b == 1 {
				body += " /CropBox [10 10 150 200]"
			}
			d.Set(l2, body+" >>")
			l2refs = append(l2refs, fmt.Sprintf("%d 0 R", l2))
			cnt1 += len(prefs)
		}
		media := "[0 0 595 842]"
		if a%2 == 1 {
			media = "[0 0 300 400]"
		}
		d.Set(l1, fmt.Sprintf("<< /Type /Pages /Parent %d 0 R /Count %d /Kids [%s] /MediaBox %s /Resources << /Font << /F1 %d 0 R >> /ProcSet [/PDF /Text] >> >>",
			root, cnt1, strings.Join(l2refs, " "), media, font))
		l1refs = append(l1refs, fmt.Sprintf("%d 0 R", l1))
	}
	d.Set(root, fmt.Sprintf("<< /Type /Pages /Count %d /Kids [%s] >>", n, strings.Join(l1refs, " ")))
	d.Set(cat, fmt.Sprintf("<< /Type /Catalog /Pages %d 0 R >>", root))
	d.Info = d.Add(fmt.Sprintf("<< /Title (nested %d) >>", n))
	return d
}

// formDoc builds a two page document with an AcroForm: a top-level text field on page 1 and a text field below a
// naming-only parent on page 2. formDA/formQ: the AcroForm carries a form-level /DA resp. /Q; topDA/nestedDA: the field
// has its own /DA (a document is only valid if every text field finds a /DA on itself or on the form).
func formDoc(prefix string, formDA, formQ, topDA, nestedDA bool) *rawpdf.Doc {
	d := &rawpdf.Doc{}
	cat := d.Reserve()
	d.Root = cat
	pages := d.Reserve()
	font := d.Add("<< /Type /Font /Subtype /Type1 /BaseFont /Helvetica /Encoding /WinAnsiEncoding >>")
	p1, p2 := d.Reserve(), d.Reserve()
	da := func(own bool) string {
		if own {
			return " /DA (/Helv 12 Tf 0 g)"
		}
		return ""
	}
	top := d.Add(fmt.Sprintf("<< /Type /Annot /Subtype /Widget /FT /Tx /T (%stop) /Rect [50 700 250 720] /P %d 0 R /F 4 /V (top value)%s >>", prefix, p1, da(topDA)))
	parent := d.Reserve()
	kid := d.Add(fmt.Sprintf("<< /Type /Annot /Subtype /Widget /FT /Tx /T (kid) /Parent %d 0 R /Rect [50 600 250 620] /P %d 0 R /F 4 /V (nested value)%s >>", parent, p2, da(nestedDA)))
	d.Set(parent, fmt.Sprintf("<< /T (%sgroup) /Kids [%d 0 R] >>", prefix, kid))
	for i, p := range []int{p1, p2} {
		cs := d.AddStream("", []byte(rawpdf.MarkerContent(fmt.Sprintf("%s-%d", prefix, i+1))))
		d.Set(p, fmt.Sprintf("<< /Type /Page /Parent %d 0 R /Contents %d 0 R /Resources << /Font << /F1 %d 0 R >> >> /Annots [%d 0 R] >>",
			pages, cs, font, []int{top, kid}[i]))
	}
	d.Set(pages, fmt.Sprintf("<< /Type /Pages /Count 2 /Kids [%d 0 R %d 0 R] /MediaBox [0 0 595 842] >>", p1, p2))
	af := fmt.Sprintf("<< /Fields [%d 0 R %d 0 R] /DR << /Font << /Helv %d 0 R >> >> /NeedAppearances true", top, parent, font)
	if formDA {
		af += " /DA (/Helv 10 Tf 0 g)"
	}
	if formQ {
		af += " /Q 1"
	}
	d.Set(cat, fmt.Sprintf("<< /Type /Catalog /Pages %d 0 R /AcroForm %s >> >>", pages, af))
	d.Info = d.Add(fmt.Sprintf("<< /Title (form %s) >>", prefix))
	return d
}
