// cstruct: Go side of the document-structure properties C18 (layout), C19 (roundtrip), C20 (optimize), C21 (valid).
package main

import (
	"encoding/json"
	"fmt"
	"os"

	"github.com/pdfcpu/pdfcpu/pkg/api"
	"github.com/pdfcpu/pdfcpu/pkg/pdfcpu/model"
	"verif/harness/lib/h"
	"verif/harness/lib/proj"
)

func main() {
	api.DisableConfigDir()
	if len(os.Args) < 2 {
		h.Die("usage: cstruct layout|parse|roundtrip|optimize|valid ...")
	}
	switch os.Args[1] {
	case "layout":
		layoutCmd()
	case "roundtrip":
		roundtripCmd()
	case "optimize":
		optimizeCmd()
	case "valid":
		validCmd()
	case "parse": // debugging aid: print the layout record of one file
		data, err := os.ReadFile(os.Args[2])
		must(err)
		b, _ := json.Marshal(project(data))
		fmt.Println(string(b))
	case "one": // debugging aid: run one layout operation and keep the output
		var cfg WCfg
		must(json.Unmarshal([]byte(h.Arg("--cfg")), &cfg))
		in := h.Arg("--in")
		w := &layoutWork{attach: in, second: in}
		if cfg.Enc != "none" {
			must(encryptInput(in, h.Arg("--out")+".enc", cfg))
			in = h.Arg("--out") + ".enc"
		}
		for _, op := range layoutOps() {
			if op.name == h.Arg("--op") && op.run != nil {
				must(op.run(in, h.Arg("--out"), cfg.Conf(), w))
			}
		}
	case "obj": // debugging aid: print one object as pdfcpu reads it
		ctx, err := readCtx(os.Args[2], nil)
		must(err)
		for _, a := range os.Args[3:] {
			var n int
			fmt.Sscanf(a, "%d", &n)
			e, ok := ctx.FindTableEntryLight(n)
			if !ok {
				fmt.Println(n, "no entry")
				continue
			}
			fmt.Printf("%d free=%v compressed=%v: %.600v\n", n, e.Free, e.Compressed, e.Object)
		}
	case "dangle": // debugging aid: dangling references after read+validate, after optimize (in memory), after write
		f, err := os.Open(os.Args[2])
		must(err)
		conf := WCfg{Eol: "LF", Enc: "none"}.Conf()
		conf.Cmd = model.OPTIMIZE
		ctx, err := api.ReadValidateAndOptimize(f, conf)
		must(err)
		n, _ := danglingRefs(ctx)
		fmt.Println("after ReadValidateAndOptimize:", n)
		must(api.WriteContextFile(ctx, os.Args[3]))
		c2, err := readCtx(os.Args[3], nil)
		must(err)
		n, _ = danglingRefs(c2)
		fmt.Println("after write+read:", n)
	case "pages": // debugging aid: abstract pages of a file as pdfcpu reads it
		ps, err := proj.Pages(os.Args[2], nil)
		must(err)
		for _, p := range ps {
			b, _ := json.Marshal(p)
			fmt.Printf("%s %q\n", b, p.Content)
		}
	default:
		h.Die("unknown sub-command %s", os.Args[1])
	}
}
