package main

// Annotation kinds x parameter classes of the ValidOps catalogue.
// class 0: every optional numeric entry zero / absent; class 1: boundary values (a length > 0 whose dependent offset is 0,
// opacity 0, intensity 0); class 2: everything > 0.

import (
	"github.com/pdfcpu/pdfcpu/pkg/pdfcpu/color"
	"github.com/pdfcpu/pdfcpu/pkg/pdfcpu/model"
	"github.com/pdfcpu/pdfcpu/pkg/pdfcpu/types"
)

func pick(cls int, a, b, c float64) float64 { return []float64{a, b, c}[cls] }

func annotFor(kind string, cls int) model.AnnotationRenderer {
	r := *types.NewRectangle(30, 30, 110, 110)
	id := "id-" + kind
	var ca *float64
	if cls > 0 {
		v := pick(cls, 0, 0, 0.5)
		ca = &v
	}
	var col, fill *color.SimpleColor
	if cls > 0 {
		col, fill = &color.Red, &color.Green
	}
	bw := pick(cls, 0, 1, 2.5) // border width
	rad := pick(cls, 0, 0, 3)  // border radius
	m1 := pick(cls, 0, 10, 5)  // first margin
	m := pick(cls, 0, 0, 6)    // other margins
	cloudy := cls > 0
	intensity := []int{0, 0, 2}[cls]
	leO, leB := model.LEOpenArrow, model.LEButt
	quad := types.QuadPoints{*types.NewQuadLiteralForRect(&r)}
	switch kind {
	case "link":
		return model.NewLinkAnnotation(r, 0, "link", id, "", 0, col, nil, "https://pdfcpu.io", nil, cls > 0, bw, model.BSSolid)
	case "square":
		return model.NewSquareAnnotation(r, 0, "square", id, "", 0, col, "t", nil, ca, "", "", fill, m1, m, m, m, bw, model.BSDashed, cloudy, intensity)
	case "circle":
		return model.NewCircleAnnotation(r, 0, "circle", id, "", 0, col, "t", nil, ca, "", "", fill, m1, m, m, m, bw, model.BSSolid, cloudy, intensity)
	case "line":
		return model.NewLineAnnotation(r, 0, "line", id, "", 0, col, "t", nil, ca, "", "",
			types.NewPoint(40, 40), types.NewPoint(100, 100), &leO, &leB,
			pick(cls, 0, 50, 50), pick(cls, 0, 0, 5), pick(cls, 0, 0, 10), // leader line length, offset, extension
			nil, nil, cls > 0, cls == 2, pick(cls, 0, 0, 3), pick(cls, 0, 0, 4), fill, bw, model.BSSolid)
	case "freetext":
		return model.NewFreeTextAnnotation(r, 0, "free", id, "", 0, col, "t", nil, ca, "", "", "free text", types.AlignCenter, "Helvetica", 12, col, "",
			nil, nil, nil, m1, m, m, m, bw, model.BSSolid, cloudy, intensity)
	case "polygon":
		return model.NewPolygonAnnotation(r, 0, "polygon", id, "", 0, col, "t", nil, ca, "", "", types.NewNumberArray(30, 30, 110, 110, 110, 30), nil, nil, nil,
			fill, bw, model.BSDashed, cloudy, intensity)
	case "polyline":
		return model.NewPolyLineAnnotation(r, 0, "polyline", id, "", 0, col, "t", nil, ca, "", "", types.NewNumberArray(30, 30, 110, 110, 110, 30), nil, nil, nil,
			fill, bw, model.BSDashed, &leB, &leO)
	case "highlight":
		return model.NewHighlightAnnotation(r, 0, "hl", id, "", 0, col, rad, rad, bw, "t", nil, ca, "", "s", quad)
	case "underline":
		return model.NewUnderlineAnnotation(r, 0, "ul", id, "", 0, col, rad, rad, bw, "t", nil, ca, "", "s", quad)
	case "squiggly":
		return model.NewSquigglyAnnotation(r, 0, "sq", id, "", 0, col, rad, rad, bw, "t", nil, ca, "", "s", quad)
	case "strikeout":
		return model.NewStrikeOutAnnotation(r, 0, "so", id, "", 0, col, rad, rad, bw, "t", nil, ca, "", "s", quad)
	case "caret":
		rd := types.NewRectangle(m1, m, m1, m)
		return model.NewCaretAnnotation(r, 0, "caret", id, "", 0, col, rad, rad, bw, "t", nil, ca, "", "", rd, cls > 0)
	case "ink":
		return model.NewInkAnnotation(r, 0, "ink", id, "", 0, col, "t", nil, ca, "", "",
			[]model.InkPath{{40, 40, 60, 80, 100, 40}, {40, 100, 100, 100}}, bw, model.BSSolid)
	}
	return model.NewTextAnnotation(r, 0, "note", id, "", 0, col, "t", nil, ca, "", "", rad, rad, bw, cls > 0, "Comment")
}
