package main

// Canonical form of the object graph reachable from the trailer of a pdfcpu context: renumbering-invariant
// (indirect objects are named by first-visit order of a deterministic traversal), used by C19 and C20.

import (
	"bytes"
	"compress/zlib"
	"crypto/sha256"
	"encoding/hex"
	"fmt"
	"io"
	"math"
	"sort"
	"strings"

	"github.com/pdfcpu/pdfcpu/pkg/pdfcpu/model"
	"github.com/pdfcpu/pdfcpu/pkg/pdfcpu/types"
)

type canonizer struct {
	ctx     *model.Context
	ids     map[int]int // object number -> canonical id
	lines   []string    // one line per indirect object, in id order
	skip    map[string]bool
	err     error
	skipAll map[string]bool // keys left out of every dictionary
	dang    map[int]bool    // object numbers referenced but free or absent from the cross-reference table
}

func sha(b []byte) string {
	h := sha256.Sum256(b)
	return hex.EncodeToString(h[:8])
}

// streamPayload returns a description of the decoded stream data (own zlib decoding for plain Flate streams).
func streamPayload(sd *types.StreamDict) string {
	raw := sd.Raw
	fp := sd.FilterPipeline
	if len(fp) == 0 {
		return fmt.Sprintf("data:%d:%s", len(raw), sha(raw))
	}
	if len(fp) == 1 && fp[0].Name == "FlateDecode" && len(fp[0].DecodeParms) == 0 {
		if zr, err := zlib.NewReader(bytes.NewReader(raw)); err == nil {
			if dec, err := io.ReadAll(zr); err == nil {
				return fmt.Sprintf("data:%d:%s", len(dec), sha(dec))
			}
		}
	}
	// other filters: decode with pdfcpu if possible, else compare the encoded bytes
	c := *sd
	c.Content = nil
	if err := c.Decode(); err == nil && c.Content != nil {
		return fmt.Sprintf("data:%d:%s", len(c.Content), sha(c.Content))
	}
	var names []string
	for _, f := range fp {
		names = append(names, f.Name)
	}
	return fmt.Sprintf("raw[%s]:%d:%s", strings.Join(names, ","), len(raw), sha(raw))
}

func fmtFloat(f float64) string {
	if f == math.Trunc(f) && math.Abs(f) < 1e15 {
		return fmt.Sprintf("n:%d", int64(f))
	}
	return fmt.Sprintf("n:%.5g", f)
}

func (c *canonizer) dict(d types.Dict, isStream bool, top bool) string {
	keys := make([]string, 0, len(d))
	for k := range d {
		keys = append(keys, k)
	}
	sort.Strings(keys)
	var b strings.Builder
	b.WriteString("<<")
	for _, k := range keys {
		if isStream && (k == "Length" || k == "Filter" || k == "DecodeParms" || k == "DL") {
			continue
		}
		if top && c.skip[k] {
			continue
		}
		if c.skipAll != nil && c.skipAll[k] {
			continue
		}
		v := c.obj(d[k])
		if v == "null" {
			continue // a null entry is equivalent to an absent one
		}
		b.WriteString("/" + k + " " + v + " ")
	}
	b.WriteString(">>")
	return b.String()
}

func (c *canonizer) obj(o types.Object) string {
	switch o := o.(type) {
	case nil:
		return "null"
	case types.IndirectRef:
		n := o.ObjectNumber.Value()
		if id, ok := c.ids[n]; ok {
			return fmt.Sprintf("R%d", id)
		}
		e, found := c.ctx.FindTableEntryLight(n)
		if !found || e.Free {
			if c.dang != nil {
				c.dang[n] = true
			}
			return "null"
		}
		if e.Object == nil {
			return "null"
		}
		if e.Generation != nil && *e.Generation != o.GenerationNumber.Value() {
			return "null"
		}
		t, err := c.ctx.Dereference(o)
		if err != nil {
			if c.err == nil {
				c.err = fmt.Errorf("dereference %d: %w", n, err)
			}
			return "null"
		}
		if t == nil {
			return "null"
		}
		id := len(c.ids)
		c.ids[n] = id
		c.lines = append(c.lines, "")
		body := c.obj(t) // may grow c.lines: evaluate before indexing
		c.lines[id] = fmt.Sprintf("%d: %s", id, body)
		return fmt.Sprintf("R%d", id)
	case types.Dict:
		return c.dict(o, false, false)
	case types.StreamDict:
		return c.dict(o.Dict, true, false) + streamPayload(&o)
	case *types.StreamDict:
		return c.dict(o.Dict, true, false) + streamPayload(o)
	case types.ObjectStreamDict:
		return "objstm"
	case types.XRefStreamDict:
		return "xrefstm"
	case types.Array:
		var b strings.Builder
		b.WriteString("[")
		for _, v := range o {
			b.WriteString(c.obj(v) + " ")
		}
		b.WriteString("]")
		return b.String()
	case types.Name:
		return "/" + hex.EncodeToString([]byte(o.Value()))
	case types.StringLiteral:
		bb, err := types.Unescape(o.Value())
		if err != nil {
			return "s?:" + hex.EncodeToString([]byte(o.Value()))
		}
		return "s:" + hex.EncodeToString(bb)
	case types.HexLiteral:
		bb, err := o.Bytes()
		if err != nil {
			return "h?:" + o.Value()
		}
		return "s:" + hex.EncodeToString(bb)
	case types.Integer:
		return fmt.Sprintf("n:%d", o.Value())
	case types.Float:
		return fmtFloat(o.Value())
	case types.Boolean:
		return fmt.Sprintf("b:%v", o.Value())
	}
	return fmt.Sprintf("?%T", o)
}

// Canon is the canonical form of a context's reachable graph.
type Canon struct {
	Root  []string // lines of the graph reachable from the catalog
	Info  string   // info dictionary without Producer / CreationDate / ModDate
	Nodes int
	Hash  string
}

// canonOf computes the canonical form; skipRoot lists catalog keys left out of the comparison.
func canonOf(ctx *model.Context, skipRoot ...string) (*Canon, error) {
	c := &canonizer{ctx: ctx, ids: map[int]int{}, skip: map[string]bool{}}
	for _, k := range skipRoot {
		c.skip[k] = true
	}
	if ctx.Root == nil {
		return nil, fmt.Errorf("no root")
	}
	rd, err := ctx.DereferenceDict(*ctx.Root)
	if err != nil || rd == nil {
		return nil, fmt.Errorf("root: %v", err)
	}
	c.ids[ctx.Root.ObjectNumber.Value()] = 0
	c.lines = append(c.lines, "")
	rootLine := c.dict(rd, false, true)
	c.lines[0] = "0: " + rootLine
	res := &Canon{Root: c.lines, Nodes: len(c.lines)}
	if ctx.Info != nil {
		ic := &canonizer{ctx: ctx, ids: map[int]int{}, skip: map[string]bool{"Producer": true, "CreationDate": true, "ModDate": true}}
		if id, err := ctx.DereferenceDict(*ctx.Info); err == nil && id != nil {
			res.Info = ic.dict(id, false, true)
			if len(ic.lines) > 0 {
				res.Info += " | " + strings.Join(ic.lines, " | ")
			}
		}
	}
	if res.Info == "" {
		res.Info = "<<>>"
	}
	res.Hash = sha([]byte(strings.Join(c.lines, "\n") + "\n#" + res.Info))
	return res, c.err
}

// firstDiff describes the first differing node of two canonical forms.
func firstDiff(a, b *Canon) string {
	if a.Info != b.Info {
		return fmt.Sprintf("info: %.300s  =/=  %.300s", a.Info, b.Info)
	}
	for i := 0; i < len(a.Root) && i < len(b.Root); i++ {
		if a.Root[i] != b.Root[i] {
			return fmt.Sprintf("node %.400s  =/=  %.400s", a.Root[i], b.Root[i])
		}
	}
	return fmt.Sprintf("node count %d =/= %d", len(a.Root), len(b.Root))
}

// canonAt computes the canonical form of the graph reachable from an arbitrary object (info dictionary included).
func canonAt(ctx *model.Context, o types.Object, skipAll ...string) (*Canon, error) {
	c := &canonizer{ctx: ctx, ids: map[int]int{}, skip: map[string]bool{}}
	if len(skipAll) > 0 {
		c.skipAll = map[string]bool{}
		for _, k := range skipAll {
			c.skipAll[k] = true
		}
	}
	top := c.obj(o)
	lines := append([]string{"top: " + top}, c.lines...)
	res := &Canon{Root: lines, Nodes: len(lines), Info: "<<>>"}
	if ctx.Info != nil {
		ic := &canonizer{ctx: ctx, ids: map[int]int{}, skip: map[string]bool{"Producer": true, "CreationDate": true, "ModDate": true}}
		if id, err := ctx.DereferenceDict(*ctx.Info); err == nil && id != nil {
			res.Info = ic.dict(id, false, true)
		}
	}
	res.Hash = sha([]byte(strings.Join(lines, "\n") + "\n#" + res.Info))
	return res, c.err
}

// danglingRefs returns how many distinct object numbers reachable from the catalog are free or have no xref entry.
func danglingRefs(ctx *model.Context) (int, error) {
	c := &canonizer{ctx: ctx, ids: map[int]int{}, skip: map[string]bool{}, dang: map[int]bool{}}
	if ctx.Root == nil {
		return 0, fmt.Errorf("no root")
	}
	c.obj(*ctx.Root)
	return len(c.dang), c.err
}
