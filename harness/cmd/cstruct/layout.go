package main

// C18: outputs of real writing operations under every writer configuration, parsed with the strict parser
// (verif/harness/lib/strictpdf) into the abstract layout record judged by spec/Layout.tla.

import (
	"fmt"
	"math/rand"
	"os"
	"path/filepath"
	"strings"

	"github.com/pdfcpu/pdfcpu/pkg/api"
	"github.com/pdfcpu/pdfcpu/pkg/pdfcpu"
	"github.com/pdfcpu/pdfcpu/pkg/pdfcpu/model"
	"github.com/pdfcpu/pdfcpu/pkg/pdfcpu/types"
	"verif/harness/lib/h"
	"verif/harness/lib/strictpdf"
)

type secRec struct {
	Off    int64  `json:"off"`
	Kind   string `json:"kind"`
	OK     bool   `json:"ok"`
	Prev   int64  `json:"prev"`
	Size   int64  `json:"size"`
	SelfN  int    `json:"selfn"`
	TailOK bool   `json:"tailok"`
}

type compRec struct {
	N        int  `json:"n"`
	Stm      int  `json:"stm"`
	Idx      int  `json:"idx"`
	IsObjStm bool `json:"isobjstm"`
	Cnt      int  `json:"cnt"`
	Dec      bool `json:"dec"`
	Num      int  `json:"num"`
	OK       bool `json:"ok"`
}

type streamRec struct {
	N      int     `json:"n"`
	Len    int64   `json:"len"`
	Counts []int64 `json:"counts"`
	Eol    string  `json:"eol"`
	EndOK  bool    `json:"endok"`
}

type layoutRec struct {
	ID        string      `json:"id"`
	Op        string      `json:"op"`
	Input     string      `json:"input"`
	Cfg       WCfg        `json:"cfg"`
	Header    bool        `json:"header"`
	Tail      bool        `json:"tail"`
	StartXRef int64       `json:"startxref"`
	Size      int64       `json:"size"`
	Secs      []secRec    `json:"secs"`
	ET        []int       `json:"et"`
	EA        []int64     `json:"ea"`
	EB        []int       `json:"eb"`
	FN        []int       `json:"fn"`
	FG        []int       `json:"fg"`
	FOK       []bool      `json:"fok"`
	Comp      []compRec   `json:"comp"`
	Streams   []streamRec `json:"streams"`
	Diag      []string    `json:"diag"`
	Bytes     int         `json:"bytes"`
	Encrypted bool        `json:"encrypted"`
}

// project builds the abstract layout record of a file.
func project(data []byte) layoutRec {
	f := strictpdf.Parse(data)
	r := layoutRec{Header: f.HeaderOK, Tail: f.TailOK, StartXRef: f.StartXRef, Size: -1, Bytes: len(data), Encrypted: f.Encrypted,
		Secs: []secRec{}, ET: []int{}, EA: []int64{}, EB: []int{}, FN: []int{}, FG: []int{}, FOK: []bool{}, Comp: []compRec{}, Streams: []streamRec{}, Diag: []string{}}
	diag := func(format string, a ...any) {
		if len(r.Diag) < 12 {
			r.Diag = append(r.Diag, fmt.Sprintf(format, a...))
		}
	}
	if f.ChainErr != "" {
		diag("chain: %s", f.ChainErr)
	}
	for i, s := range f.Secs {
		r.Secs = append(r.Secs, secRec{Off: s.Off, Kind: s.Kind, OK: s.Err == "", Prev: s.Prev, Size: s.Size, SelfN: s.SelfN, TailOK: s.TailOK})
		if s.Err != "" {
			diag("section %d at %d: %s", i, s.Off, s.Err)
		}
	}
	if len(f.Secs) > 0 {
		r.Size = f.Secs[0].Size
	}
	n := f.MaxN + 1
	r.ET, r.EA, r.EB = make([]int, n), make([]int64, n), make([]int, n)
	r.FN, r.FG, r.FOK = make([]int, n), make([]int, n), make([]bool, n)
	founds := map[int]strictpdf.Found{}
	for i := 0; i < n; i++ {
		r.ET[i], r.FN[i], r.FG[i] = -1, -1, -1
		e, ok := f.Table[i]
		if !ok {
			continue
		}
		r.ET[i], r.EA[i], r.EB[i] = e.T, e.A, e.B
		if e.T != 1 {
			continue
		}
		fd := f.ObjectAt(e.A)
		founds[i] = fd
		r.FN[i], r.FG[i], r.FOK[i] = fd.N, fd.G, fd.Parsed
		if fd.N != i || fd.G != e.B || !fd.Parsed {
			diag("object %d generation %d at %d: found header %d %d obj, %s", i, e.B, e.A, fd.N, fd.G, fd.Err)
		}
		if si := fd.Stream; si != nil {
			c := si.Counts
			if c == nil {
				c = []int64{}
			}
			r.Streams = append(r.Streams, streamRec{N: i, Len: si.Len, Counts: c, Eol: si.StartEol, EndOK: si.EndOK})
		}
	}
	stms := map[int]*strictpdf.ObjStm{}
	for i := 0; i < n; i++ {
		if r.ET[i] != 2 {
			continue
		}
		c := compRec{N: i, Stm: int(r.EA[i]), Idx: r.EB[i], Cnt: -1, Num: -1}
		if fd, ok := founds[c.Stm]; ok {
			st, seen := stms[c.Stm]
			if !seen {
				st = f.ObjStmAt(fd)
				stms[c.Stm] = st
				if st.Err != "" && st.Err != "encrypted" {
					diag("object stream %d: %s", c.Stm, st.Err)
				}
			}
			c.IsObjStm, c.Cnt, c.Dec = st.IsObjStm, st.N, st.Decodable && st.HeaderOK
			if c.Dec && c.Idx >= 0 && c.Idx < len(st.Nums) {
				c.Num = st.Nums[c.Idx]
				c.OK = st.MemberOK[c.Idx]
			}
		}
		r.Comp = append(r.Comp, c)
	}
	return r
}

// ------------------------------------------------------------------------------------ operations

type layoutOp struct {
	name string
	run  func(in, out string, conf *model.Configuration, w *layoutWork) error
	incr bool
	// hist: a history of writes of ONE context; every output (out-1.pdf, out-2.pdf, ...) is judged
	hist func(in, outBase string, conf *model.Configuration, w *layoutWork) ([]string, error)
}

// nextXSOS rotates the (xref stream, object stream) setting: 00 -> 10 -> 11 -> 00.
func nextXSOS(xs, os bool, steps int) (bool, bool) {
	for ; steps > 0; steps-- {
		switch {
		case !xs:
			xs, os = true, false
		case !os:
			xs, os = true, true
		default:
			xs, os = false, false
		}
	}
	return xs, os
}

// rewriteHistory reads in once and writes the same context twice: under conf, then (after ResetWriteContext) under the
// writer setting `steps` positions further in the rotation xref table -> xref stream -> xref stream + object streams.
func rewriteHistory(steps int) func(in, outBase string, conf *model.Configuration, w *layoutWork) ([]string, error) {
	return func(in, outBase string, conf *model.Configuration, w *layoutWork) ([]string, error) {
		f, err := os.Open(in)
		if err != nil {
			return nil, err
		}
		defer f.Close()
		conf.Cmd = model.OPTIMIZE
		ctx, err := api.ReadValidateAndOptimize(f, conf)
		if err != nil {
			return nil, err
		}
		var outs []string
		o1 := outBase + "-1.pdf"
		if err := api.WriteContextFile(ctx, o1); err != nil {
			return outs, err
		}
		outs = append(outs, o1)
		ctx.ResetWriteContext()
		ctx.WriteXRefStream, ctx.WriteObjectStream = nextXSOS(conf.WriteXRefStream, conf.WriteObjectStream, steps)
		o2 := outBase + "-2.pdf"
		if err := api.WriteContextFile(ctx, o2); err != nil {
			return outs, err
		}
		return append(outs, o2), nil
	}
}

type layoutWork struct {
	dir    string
	attach string
	second string // a second PDF for merge
}

func textAnn() model.AnnotationRenderer {
	return model.NewTextAnnotation(*types.NewRectangle(10, 10, 50, 50), 0, "note", "id1", "", 0, nil, "", nil, nil, "", "", 0, 0, 0, true, "Comment")
}

func layoutOps() []layoutOp {
	return []layoutOp{
		{name: "optimize", run: func(i, o string, c *model.Configuration, w *layoutWork) error { return api.OptimizeFile(i, o, c) }},
		{name: "rotate", run: func(i, o string, c *model.Configuration, w *layoutWork) error {
			return api.RotateFile(i, o, 90, nil, c)
		}},
		{name: "watermark", run: func(i, o string, c *model.Configuration, w *layoutWork) error {
			return api.AddTextWatermarksFile(i, o, nil, true, "Draft", "scale:0.5, op:0.4", c)
		}},
		{name: "keywords", run: func(i, o string, c *model.Configuration, w *layoutWork) error {
			return api.AddKeywordsFile(i, o, []string{"alpha", "b(e)ta"}, c)
		}},
		{name: "attach", run: func(i, o string, c *model.Configuration, w *layoutWork) error {
			return api.AddAttachmentsFile(i, o, []string{w.attach}, false, c)
		}},
		{name: "merge", run: func(i, o string, c *model.Configuration, w *layoutWork) error {
			return api.MergeCreateFile([]string{i, w.second}, o, false, c)
		}},
		{name: "incrannot", incr: true, run: func(i, o string, c *model.Configuration, w *layoutWork) error {
			// base written by pdfcpu under the same configuration, then an incremental update appended in place
			if err := api.OptimizeFile(i, o, c); err != nil {
				return err
			}
			return api.AddAnnotationsFile(o, "", []string{"1"}, textAnn(), c, true)
		}},
		{name: "trim", run: func(i, o string, c *model.Configuration, w *layoutWork) error {
			return api.TrimFile(i, o, []string{"1"}, c)
		}},
		{name: "bookmarks", run: func(i, o string, c *model.Configuration, w *layoutWork) error {
			return api.AddBookmarksFile(i, o, []pdfcpu.Bookmark{{PageFrom: 1, Title: "One"}}, true, c)
		}},
		{name: "annot", run: func(i, o string, c *model.Configuration, w *layoutWork) error {
			return api.AddAnnotationsFile(i, o, []string{"1"}, textAnn(), c, false)
		}},
		{name: "nup", run: func(i, o string, c *model.Configuration, w *layoutWork) error {
			nup, err := api.PDFNUpConfig(2, "", c)
			if err != nil {
				return err
			}
			return api.NUpFile([]string{i}, o, nil, nup, c)
		}},
		{name: "insert", run: func(i, o string, c *model.Configuration, w *layoutWork) error {
			return api.InsertPagesFile(i, o, []string{"1"}, true, nil, c)
		}},
		{name: "rewrite1", hist: rewriteHistory(1)},
		{name: "rewrite2", hist: rewriteHistory(2)},
		{name: "properties", run: func(i, o string, c *model.Configuration, w *layoutWork) error {
			return api.AddPropertiesFile(i, o, map[string]string{"k1": "v(1)"}, c)
		}},
	}
}

// encryptInput produces the encrypted variant of an input under the configuration (itself a checked output).
func encryptInput(in, out string, cfg WCfg) error {
	return api.EncryptFile(in, out, cfg.Conf())
}

func layoutCmd() {
	outPath := h.Arg("--out")
	tier := h.Arg("--tier")
	seed := int64(h.ArgInt("--seed", 1))
	work := h.Arg("--work")
	limit := h.ArgInt("--limit", 0)
	must(os.MkdirAll(work, 0755))
	rng := rand.New(rand.NewSource(seed))
	w := &layoutWork{dir: work, attach: filepath.Join(work, "attach.txt"), second: filepath.Join(repoDir(), "pkg", "testdata", "testRot.pdf")}
	writeFile(w.attach, []byte("attachment data\nline 2\n"))

	raws := rawInputs(filepath.Join(work, "raw"))
	var inputs []Input
	var cfgs []WCfg
	ops := layoutOps()
	if tier == "quick" {
		inputs = append(raws, corpus(60000)...)
		cfgs = AllCfgs([]string{"none", "aes256"})
	} else {
		inputs = append(raws, corpus(260000)...)
		cfgs = AllCfgs([]string{"none", "aes256", "aes128", "rc4"})
	}

	// the full product is the space; quick samples it (seeded), thorough takes all of it up to the limit
	type job struct {
		in    Input
		cfg   WCfg
		op    layoutOp
		noopt bool // conf.Optimize, OptimizeBeforeWriting, OptimizeResourceDicts switched off
	}
	var jobs []job
	for _, in := range inputs {
		for _, cfg := range cfgs {
			for _, op := range ops {
				for _, noopt := range []bool{false, true} {
					if in.NoOptimize && !noopt {
						continue
					}
					jobs = append(jobs, job{in, cfg, op, noopt})
				}
			}
		}
	}
	space := len(jobs)
	if limit > 0 && len(jobs) > limit {
		// covering core: every (generated input, operation) pair, the configurations rotated so that every generated input
		// meets every xref/object stream setting, both optimisation settings and most eol/encryption settings;
		// then a seeded random fill from the whole space (corpus inputs included)
		var core []job
		used := map[string]bool{}
		gi := 0
		for _, in := range inputs {
			if !in.Gen {
				continue
			}
			for k, op := range ops {
				cfg := cfgs[(gi*7+k*5+int(seed))%len(cfgs)]
				noopt := in.NoOptimize || (gi+k+int(seed))%2 == 0
				core = append(core, job{in, cfg, op, noopt})
				used[fmt.Sprintf("%s|%v|%s|%v", in.Name, cfg, op.name, noopt)] = true
			}
			gi++
		}
		rng.Shuffle(len(jobs), func(i, j int) { jobs[i], jobs[j] = jobs[j], jobs[i] })
		for _, j := range jobs {
			if len(core) >= limit {
				break
			}
			if !used[fmt.Sprintf("%s|%v|%s|%v", j.in.Name, j.cfg, j.op.name, j.noopt)] {
				core = append(core, j)
			}
		}
		jobs = core
	}

	out := h.NewW(outPath)
	defer out.Close()
	failed := h.NewW(outPath + ".failed") // history steps whose write failed after an earlier write of the same context succeeded
	defer failed.Close()
	stats := map[string]int{}
	encCache := map[string]string{} // input|cfg -> encrypted file ("" if encryption failed)
	emit := func(id, op string, in Input, cfg WCfg, path string) {
		data, err := os.ReadFile(path)
		if err != nil {
			h.Die("read output %s: %v", path, err)
		}
		r := project(data)
		r.ID, r.Op, r.Input, r.Cfg = id, op, in.Name, cfg
		out.Put(r)
		stats["records"]++
		stats["objects"] += len(r.ET)
		stats["compressed"] += len(r.Comp)
		stats["streams"] += len(r.Streams)
		if len(r.Secs) > 1 {
			stats["incremental"]++
		}
		if r.Encrypted {
			stats["encrypted"]++
		}
		if len(r.Secs) > 0 && r.Secs[0].Kind == "stream" {
			stats["xrefstream"]++
		}
		if len(r.Secs) > 0 && r.Secs[0].Kind == "table" {
			stats["xreftable"]++
		}
		for i, t := range r.ET {
			if i > 0 && t == 0 {
				stats["freeentries"]++
			}
		}
	}
	for k, j := range jobs {
		src := j.in.Path
		if j.cfg.Enc != "none" {
			key := j.in.Name + "|" + j.cfg.String()
			enc, ok := encCache[key]
			if !ok {
				enc = filepath.Join(work, fmt.Sprintf("enc-%d.pdf", len(encCache)))
				if err := encryptInput(src, enc, j.cfg); err != nil {
					stats["encrypt_failed"]++
					enc = ""
				} else {
					emit("encrypt|"+j.in.Name+"|"+j.cfg.String(), "encrypt", j.in, j.cfg, enc)
				}
				encCache[key] = enc
			}
			if enc == "" {
				continue
			}
			src = enc
		}
		o := filepath.Join(work, fmt.Sprintf("out-%d.pdf", k))
		conf := j.cfg.Conf()
		tag := j.cfg.String()
		if j.noopt {
			conf.Optimize, conf.OptimizeBeforeWriting, conf.OptimizeResourceDicts = false, false, false
			tag += "-noopt"
			stats["noopt_jobs"]++
		}
		if j.op.hist != nil {
			outs, err := j.op.hist(src, strings.TrimSuffix(o, ".pdf"), conf, w)
			for n, f := range outs {
				emit(fmt.Sprintf("%s#%d|%s|%s", j.op.name, n+1, j.in.Name, tag), j.op.name, j.in, j.cfg, f)
				os.Remove(f)
				stats["history_outputs"]++
			}
			if err != nil {
				// a write that fails leaves no file to judge; the failure itself is reported as an unwritable history step
				stats["op_failed"]++
				stats["history_write_failed"]++
				failed.Put(map[string]any{"id": fmt.Sprintf("%s#%d|%s|%s", j.op.name, len(outs)+1, j.in.Name, tag), "err": err.Error()})
			}
			continue
		}
		err := j.op.run(src, o, conf, w)
		if err != nil {
			stats["op_failed"]++
			if os.Getenv("VERIF_DEBUG") != "" {
				fmt.Fprintf(os.Stderr, "op failed: %s %s %s: %v\n", j.op.name, j.in.Name, tag, err)
			}
			os.Remove(o)
			continue
		}
		emit(j.op.name+"|"+j.in.Name+"|"+tag, j.op.name, j.in, j.cfg, o)
		os.Remove(o)
	}
	sm := map[string]any{"space": space, "jobs": len(jobs), "inputs": len(inputs), "cfgs": len(cfgs), "ops": len(ops)}
	for k, v := range stats {
		sm[k] = v
	}
	h.Summary(sm)
}
