// filter: drives the real pdfcpu stream filters for the properties C15 (round trip), C16 (decode limits,
// bounded decoding) and C17 (predictors).  Cases come from TLC (spec/FilterGen.tla) or a seeded grid (C17);
// everything observed is written as records that TLC judges with the operators of spec/Filter.tla.
// No verdict is computed here: Go only reports what the real code did (bytes, lengths, error kinds, equalities).
package main

import (
	"bytes"
	"compress/zlib"
	"encoding/json"
	"errors"
	"fmt"
	"io"
	"math/rand"
	"os"
	"strings"

	"github.com/pdfcpu/pdfcpu/pkg/api"
	"github.com/pdfcpu/pdfcpu/pkg/filter"
	"github.com/pdfcpu/pdfcpu/pkg/pdfcpu/model"
	"github.com/pdfcpu/pdfcpu/pkg/pdfcpu/types"
	"verif/harness/lib/h"
	"verif/harness/lib/rawpdf"
)

var fname = map[string]string{"A85": filter.ASCII85, "AHx": filter.ASCIIHex, "RL": filter.RunLength, "LZW": filter.LZW, "Fl": filter.Flate}

// stage is one entry of a Filter array with its decode parameters; -1 = entry absent.
type stage struct {
	F      string `json:"f"`
	EC     int    `json:"ec"`
	Pred   int    `json:"pred"`
	Colors int    `json:"colors"`
	BPC    int    `json:"bpc"`
	Cols   int    `json:"cols"`
}

func (s stage) parms() map[string]int {
	m := map[string]int{}
	if s.EC != -1 {
		m["EarlyChange"] = s.EC
	}
	if s.Pred != -1 {
		m["Predictor"] = s.Pred
	}
	if s.Colors != -1 {
		m["Colors"] = s.Colors
	}
	if s.BPC != -1 {
		m["BitsPerComponent"] = s.BPC
	}
	if s.Cols != -1 {
		m["Columns"] = s.Cols
	}
	return m
}

func (s stage) dict() types.Dict {
	m := s.parms()
	if len(m) == 0 {
		return nil
	}
	d := types.NewDict()
	for k, v := range m {
		d[k] = types.Integer(v)
	}
	return d
}

func (s stage) pdfParms() string {
	m := s.parms()
	if len(m) == 0 {
		return "null"
	}
	var b strings.Builder
	b.WriteString("<<")
	for _, k := range []string{"EarlyChange", "Predictor", "Colors", "BitsPerComponent", "Columns"} {
		if v, ok := m[k]; ok {
			fmt.Fprintf(&b, " /%s %d", k, v)
		}
	}
	b.WriteString(" >>")
	return b.String()
}

func def(v, d int) int {
	if v == -1 {
		return d
	}
	return v
}

// rowSize / rowLen for well-formed parameters (as ISO 32000 Table 8 defines them).
func (s stage) rowSize() int {
	return (def(s.Colors, 1)*def(s.BPC, 8)*def(s.Cols, 1) + 7) / 8
}
func (s stage) rowLen() int {
	if def(s.Pred, 1) >= 10 {
		return s.rowSize() + 1
	}
	return s.rowSize()
}

type inp struct {
	Kind string `json:"kind"`
	N    int    `json:"n"`
	A    int    `json:"a"`
	B    int    `json:"b"`
}

type tcase struct {
	Pipe []stage `json:"pipe"`
	Inp  inp     `json:"inp"`
	Edit string  `json:"edit"`
}

func pipeline(p []stage) []types.PDFFilter {
	pl := make([]types.PDFFilter, len(p))
	for i, s := range p {
		pl[i] = types.PDFFilter{Name: fname[s.F], DecodeParms: s.dict()}
	}
	return pl
}

func ints(b []byte) []int {
	r := make([]int, len(b))
	for i, x := range b {
		r[i] = int(x)
	}
	return r
}

// expand materialises an input description (the classes enumerated by FilterGen.tla).
func expand(in inp, seed int64) []byte {
	n := in.N
	out := make([]byte, 0, n)
	switch in.Kind {
	case "empty":
	case "run":
		out = bytes.Repeat([]byte{byte(in.A)}, n)
	case "alt":
		for i := 0; i < n; i++ {
			if i%2 == 0 {
				out = append(out, byte(in.A))
			} else {
				out = append(out, byte(in.B))
			}
		}
	case "ramp":
		for i := 0; i < n; i++ {
			out = append(out, byte(in.B+i*in.A))
		}
	case "rnd":
		rng := rand.New(rand.NewSource(seed*1000003 + int64(n)*131 + int64(in.A)*7 + int64(in.B)))
		for i := 0; i < n; i++ {
			out = append(out, byte(rng.Intn(256)))
		}
	case "uniq":
		// all adjacent byte pairs distinct: LZW emits one code per byte, so n controls the table size
		rng := rand.New(rand.NewSource(seed*7919 + int64(in.A)))
		seen := make([]bool, 65536)
		prev := -1
		for i := 0; i < n; i++ {
			c := rng.Intn(256)
			if prev >= 0 {
				for k := 0; k < 256 && seen[prev<<8|c]; k++ {
					c = (c + 1) % 256
				}
				seen[prev<<8|c] = true
			}
			out = append(out, byte(c))
			prev = c
		}
	case "zeros":
		// n non-zero bytes except for a block of B zero bytes at offset A (ASCII85 writes an aligned group of four zero bytes as 'z')
		rng := rand.New(rand.NewSource(seed*31 + int64(n)*17 + int64(in.A)*5 + int64(in.B)))
		for i := 0; i < n; i++ {
			if i >= in.A && i < in.A+in.B {
				out = append(out, 0)
			} else {
				out = append(out, byte(1+rng.Intn(255)))
			}
		}
	case "runs":
		// n blocks: a run of A equal bytes followed by B pairwise different bytes
		for k := 0; k < n; k++ {
			out = append(out, bytes.Repeat([]byte{byte(200 + k)}, in.A)...)
			for j := 0; j < in.B; j++ {
				out = append(out, byte(j+k))
			}
		}
	default:
		h.Die("unknown input kind %q", in.Kind)
	}
	return out
}

type outcome struct {
	data  []byte
	err   error
	panic string
}

func guard(f func() (io.Reader, error)) (o outcome) {
	defer func() {
		if r := recover(); r != nil {
			o = outcome{panic: fmt.Sprint(r)}
		}
	}()
	r, err := f()
	if err != nil {
		return outcome{err: err}
	}
	if r == nil {
		return outcome{err: errors.New("nil reader without error")}
	}
	b, err := io.ReadAll(r)
	if err != nil {
		return outcome{err: err}
	}
	return outcome{data: b}
}

func (o outcome) ok() bool { return o.err == nil && o.panic == "" }

func (o outcome) kind() string {
	switch {
	case o.panic != "":
		return "panic"
	case o.err == nil:
		return "ok"
	case errors.Is(o.err, filter.ErrDecodeLimitExceeded):
		return "limit"
	case errors.Is(o.err, io.EOF), errors.Is(o.err, io.ErrUnexpectedEOF):
		return "short"
	default:
		return "err"
	}
}

func (o outcome) msg() string {
	if o.panic != "" {
		return "panic: " + o.panic
	}
	if o.err != nil {
		return o.err.Error()
	}
	return ""
}

func reader(b []byte, buffered bool) io.Reader {
	if buffered {
		return bytes.NewBuffer(append([]byte{}, b...))
	}
	return bytes.NewReader(b)
}

func newFilter(s stage, limit ...int64) filter.Filter {
	f, err := filter.NewFilter(fname[s.F], s.parms(), limit...)
	if err != nil {
		h.Die("NewFilter(%s): %v", s.F, err)
	}
	return f
}

func encodeStage(s stage, in []byte) outcome {
	f := newFilter(s)
	return guard(func() (io.Reader, error) { return f.Encode(reader(in, true)) })
}

func decodeStage(s stage, in []byte, limit ...int64) outcome {
	f := newFilter(s, limit...)
	return guard(func() (io.Reader, error) { return f.Decode(reader(in, false)) })
}

// ---------------------------------------------------------------------------------------- C15

type obs struct {
	F   string `json:"f"`
	K   int    `json:"k"`
	In  []int  `json:"inp"`
	Out []int  `json:"out"`
}

type rec15 struct {
	ID    int     `json:"id"`
	Pipe  []stage `json:"pipe"`
	Inp   inp     `json:"inp"`
	N     int     `json:"n"`
	Small bool    `json:"small"` // orig / dec / enc given as byte sequences
	Orig  []int   `json:"orig"`
	EncOk bool    `json:"encOk"`
	Enc   []int   `json:"enc"`
	DecOk bool    `json:"decOk"`
	Dec   []int   `json:"dec"`
	Eq    bool    `json:"eq"` // bytes.Equal(decoded, original), filter level
	Obs   []obs   `json:"obs"`
	// whole stream objects
	SdEncOk    bool   `json:"sdEncOk"`
	SdRawEq    bool   `json:"sdRawEq"` // StreamDict.Encode produced the same bytes as the filter chain
	SdLenOk    bool   `json:"sdLenOk"` // Length entry and StreamLength = len(Raw)
	SdDecOk    bool   `json:"sdDecOk"`
	SdEq       bool   `json:"sdEq"`       // decoded content of a fresh stream object = original
	InLens     []int  `json:"inLens"`     // bytes reaching every stage's encoder (original content), -1 = stage not reached
	ModInLens  []int  `json:"modInLens"`  // the same for the edited content
	FStage     string `json:"fstage"`     // file level: "skip" | "ok" | the step that failed (read, stream1, decode1, differs1, reencode, write, reread, stream2, decode2, differs2)
	Edit       string `json:"edit"`       // the edit of the decode - edit - encode step (class Edits of Filter.tla)
	Mod        []int  `json:"mod"`        // content the Go side expects after the edit (small cases; TLC compares with ApplyEdit)
	ModDec     []int  `json:"modDec"`     // what the re-encoded stream decodes to (small cases)
	SdModEncOk bool   `json:"sdModEncOk"` // edit -> Encode returned no error
	SdModOk    bool   `json:"sdModOk"`    // edit -> Encode -> Decode ran without error
	SdModEq    bool   `json:"sdModEq"`    // ... and returned the edited content
	SdModFresh bool   `json:"sdModFresh"` // ... Raw after re-encoding = the filter chain's encoding of the edited content
	SdModLen   bool   `json:"sdModLen"`   // ... Length entry and StreamLength = len(Raw)
	File       string `json:"file"`       // "skip" | "ok" | failure description (write -> read of a PDF file)
	Err        string `json:"err"`
}

// editedContent is the content expected after an edit (mirrors ApplyEdit of spec/Filter.tla; TLC compares the two).
func editedContent(edit string, x []byte) []byte {
	m := append([]byte{}, x...)
	switch edit {
	case "append":
		return append(m, 0x00, 0x80, 0xff, byte(len(x)))
	case "prepend":
		return append([]byte{37, 0}, m...)
	case "replace":
		for i := range m {
			if (i+1)%3 == 2 {
				m[i] += 90
			}
		}
		return m
	case "trunc1":
		if len(m) > 1 {
			m = m[:1]
		}
		return m
	case "trunc0slice", "trunc0new":
		return []byte{}
	case "nilthen":
		return append(m, 1)
	case "grow":
		for i := 1; i <= 131; i++ {
			m = append(m, byte(3*i))
		}
		return m
	}
	h.Die("unknown edit %q", edit)
	return nil
}

// applyEdit performs the edit on a decoded stream object the way the edit's name says.
func applyEdit(edit string, sd *types.StreamDict, orig []byte) {
	switch edit {
	case "append":
		sd.Content = append(sd.Content, 0x00, 0x80, 0xff, byte(len(orig)))
	case "prepend":
		sd.Content = append([]byte{37, 0}, sd.Content...)
	case "replace":
		for i := range sd.Content {
			if (i+1)%3 == 2 {
				sd.Content[i] += 90
			}
		}
	case "trunc1":
		if len(sd.Content) > 1 {
			sd.Content = sd.Content[:1]
		}
	case "trunc0slice":
		sd.Content = sd.Content[:0]
	case "trunc0new":
		sd.Content = []byte{}
	case "nilthen":
		c := editedContent(edit, orig)
		sd.Content = nil
		sd.Content = c
	case "grow":
		for i := 1; i <= 131; i++ {
			sd.Content = append(sd.Content, byte(3*i))
		}
	default:
		h.Die("unknown edit %q", edit)
	}
}

func lengthFits(sd *types.StreamDict) bool {
	l := sd.IntEntry("Length")
	return l != nil && *l == len(sd.Raw) && sd.StreamLength != nil && *sd.StreamLength == int64(len(sd.Raw))
}

func unreached(n int) []int {
	l := make([]int, n)
	for i := range l {
		l[i] = -1
	}
	return l
}

// encodeChain encodes x with the filter chain (last array entry first); lens[i] = bytes that reached stage i (-1: not reached).
func encodeChain(pipe []stage, x []byte) (enc []byte, lens []int, ok bool) {
	lens = unreached(len(pipe))
	cur := x
	for i := len(pipe) - 1; i >= 0; i-- {
		lens[i] = len(cur)
		o := encodeStage(pipe[i], cur)
		if !o.ok() {
			return nil, lens, false
		}
		cur = o.data
	}
	return cur, lens, true
}

func newSD(p []stage) *types.StreamDict {
	sd := types.NewStreamDict(types.NewDict(), 0, nil, nil, pipeline(p))
	return &sd
}

func sdDo(f func() error) (err error) {
	defer func() {
		if r := recover(); r != nil {
			err = fmt.Errorf("panic: %v", r)
		}
	}()
	return f()
}

func runC15(casesPath, outPath string, seed int64, capBytes int, withFile bool) {
	w := h.NewW(outPath)
	defer w.Close()
	n, nontriv := 0, 0
	kinds := map[string]int{}
	distinct := map[string]bool{}
	var batch []*rec15
	var batchData [][]byte
	flush := func() {
		if len(batch) > 0 {
			fileRoundTrip(batch, batchData)
		}
		for _, r := range batch {
			w.Put(r)
		}
		batch, batchData = nil, nil
	}
	err := h.EachLine(casesPath, func(line []byte) error {
		var c tcase
		if err := json.Unmarshal(line, &c); err != nil {
			return err
		}
		n++
		x0 := expand(c.Inp, seed)
		r := &rec15{ID: n, Pipe: c.Pipe, Inp: c.Inp, N: len(x0), Obs: []obs{}, Orig: []int{}, Enc: []int{}, Dec: []int{}, Mod: []int{}, ModDec: []int{}, Edit: c.Edit, File: "skip", FStage: "skip"}
		var errs []string
		// filter level: encode with the last array entry first
		cur := x0
		r.EncOk = true
		r.InLens = unreached(len(c.Pipe))
		for i := len(c.Pipe) - 1; i >= 0; i-- {
			r.InLens[i] = len(cur)
			o := encodeStage(c.Pipe[i], cur)
			if !o.ok() {
				r.EncOk = false
				errs = append(errs, fmt.Sprintf("encode[%d] %s: %s", i, c.Pipe[i].F, o.msg()))
				break
			}
			if f := c.Pipe[i].F; (f == "A85" || f == "AHx" || f == "RL") && len(cur) <= capBytes && len(o.data) <= 3*capBytes {
				r.Obs = append(r.Obs, obs{F: f, K: i + 1, In: ints(cur), Out: ints(o.data)})
			}
			cur = o.data
		}
		enc := cur
		var dec []byte
		if r.EncOk {
			r.DecOk = true
			cur = enc
			for i := 0; i < len(c.Pipe); i++ {
				o := decodeStage(c.Pipe[i], cur)
				if !o.ok() {
					r.DecOk = false
					errs = append(errs, fmt.Sprintf("decode[%d] %s: %s", i, c.Pipe[i].F, o.msg()))
					break
				}
				cur = o.data
			}
			if r.DecOk {
				dec = cur
				r.Eq = bytes.Equal(dec, x0)
			}
		}
		r.Small = len(x0) <= capBytes && len(enc) <= 4*capBytes && len(dec) <= 2*capBytes
		if r.Small {
			r.Orig = ints(x0)
			if r.EncOk {
				r.Enc = ints(enc)
			}
			if r.DecOk {
				r.Dec = ints(dec)
			}
		}
		// the edited content and its encoding by the filter chain
		mod := editedContent(c.Edit, x0)
		modEnc, modLens, modEncOk := encodeChain(c.Pipe, mod)
		r.ModInLens = modLens
		if r.Small {
			r.Mod = ints(mod)
		}
		// whole stream objects
		sd := newSD(c.Pipe)
		sd.Content = x0
		if err := sdDo(sd.Encode); err != nil {
			errs = append(errs, "sd.Encode: "+err.Error())
		} else {
			r.SdEncOk = true
			r.SdRawEq = r.EncOk && bytes.Equal(sd.Raw, enc)
			l := sd.IntEntry("Length")
			r.SdLenOk = l != nil && *l == len(sd.Raw) && sd.StreamLength != nil && *sd.StreamLength == int64(len(sd.Raw))
			// sd2: the stream object as a reader hands it out (Raw, Length entry and StreamLength present, no Content)
			sd2 := newSD(c.Pipe)
			sd2.Raw = append([]byte{}, sd.Raw...)
			rl := int64(len(sd2.Raw))
			sd2.StreamLength = &rl
			sd2.Dict["Length"] = types.Integer(rl)
			if err := sdDo(sd2.Decode); err != nil {
				errs = append(errs, "sd.Decode: "+err.Error())
			} else {
				r.SdDecOk = true
				r.SdEq = bytes.Equal(sd2.Content, x0)
				applyEdit(c.Edit, sd2, x0)
				if err := sdDo(sd2.Encode); err != nil {
					errs = append(errs, "edited sd.Encode: "+err.Error())
				} else {
					r.SdModEncOk = true
					sd3 := newSD(c.Pipe)
					sd3.Raw = append([]byte{}, sd2.Raw...)
					if err := sdDo(sd3.Decode); err != nil {
						errs = append(errs, "edited sd.Decode: "+err.Error())
					} else {
						r.SdModOk = true
						r.SdModEq = bytes.Equal(sd3.Content, mod)
						r.SdModFresh = modEncOk && bytes.Equal(modEnc, sd2.Raw)
						r.SdModLen = lengthFits(sd2)
						if r.Small {
							r.ModDec = ints(sd3.Content)
						}
					}
				}
			}
		}
		r.Err = strings.Join(errs, "; ")
		kinds[c.Inp.Kind]++
		if len(x0) > 1 {
			b, _ := json.Marshal(c)
			if !distinct[string(b)] {
				distinct[string(b)] = true
				nontriv++
			}
		}
		if withFile && r.EncOk {
			batch = append(batch, r)
			batchData = append(batchData, x0)
			if len(batch) >= 64 {
				flush()
			}
		} else {
			flush()
			w.Put(r)
		}
		return nil
	})
	flush()
	if err != nil {
		h.Die("c15: %v", err)
	}
	h.Summary(map[string]any{"cases": n, "nontrivial": nontriv, "kinds": kinds})
}

// streamDictText renders /Filter and /DecodeParms of a pipeline (single: name + dict form instead of arrays).
func streamDictText(pipe []stage, single bool) string {
	var fa, pa []string
	anyParms := false
	for _, s := range pipe {
		fa = append(fa, "/"+fname[s.F])
		pa = append(pa, s.pdfParms())
		if len(s.parms()) > 0 {
			anyParms = true
		}
	}
	dict := ""
	if single && len(pipe) == 1 {
		dict = "/Filter " + fa[0]
		if anyParms {
			dict += " /DecodeParms " + pa[0]
		}
	} else {
		dict = "/Filter [" + strings.Join(fa, " ") + "]"
		if anyParms {
			dict += " /DecodeParms [" + strings.Join(pa, " ") + "]"
		}
	}
	return dict
}

// onePageDoc: a PDF whose only stream is the page content stream with the given dictionary entries and data.
func onePageDoc(dict string, data []byte) []byte {
	doc := &rawpdf.Doc{}
	root := doc.Reserve()
	pages := doc.Reserve()
	doc.Root = root
	c := doc.AddStream(dict, data)
	p := doc.Add(fmt.Sprintf("<< /Type /Page /Parent %d 0 R /MediaBox [0 0 100 100] /Resources << >> /Contents %d 0 R >>", pages, c))
	doc.Set(pages, fmt.Sprintf("<< /Type /Pages /Count 1 /Kids [%d 0 R] >>", p))
	doc.Set(root, fmt.Sprintf("<< /Type /Catalog /Pages %d 0 R >>", pages))
	return doc.Bytes()
}

func pageContentSD(ctx *model.Context, page int) (*types.StreamDict, int, error) {
	d, _, _, err := ctx.PageDict(page, false)
	if err != nil {
		return nil, 0, err
	}
	ir := d.IndirectRefEntry("Contents")
	if ir == nil {
		return nil, 0, errors.New("no Contents reference")
	}
	sd, _, err := ctx.DereferenceStreamDict(*ir)
	if err != nil || sd == nil {
		return nil, 0, fmt.Errorf("dereference stream: %v", err)
	}
	return sd, ir.ObjectNumber.Value(), nil
}

// fileRoundTrip: the encoded streams of a batch become the page content streams of one PDF file emitted
// byte by byte (rawpdf); pdfcpu reads the file, every stream is decoded (expected: the original), modified,
// re-encoded, the context is written, read again and decoded (expected: the modified content).
func fileRoundTrip(batch []*rec15, data [][]byte) {
	fail := func(msg string) {
		for _, r := range batch {
			r.File = msg
			r.FStage = "read"
		}
	}
	defer func() {
		if rc := recover(); rc != nil {
			fail(fmt.Sprintf("panic: %v", rc))
		}
	}()
	doc := &rawpdf.Doc{}
	root := doc.Reserve()
	pages := doc.Reserve()
	doc.Root = root
	var kids []string
	for i, r := range batch {
		// the encoded bytes come from the real encoder chain (filter level), re-done here from the record's case
		cur := data[i]
		for k := len(r.Pipe) - 1; k >= 0; k-- {
			cur = encodeStage(r.Pipe[k], cur).data
		}
		dict := streamDictText(r.Pipe, len(r.Pipe) == 1 && i%2 == 0)
		c := doc.AddStream(dict, cur)
		p := doc.Add(fmt.Sprintf("<< /Type /Page /Parent %d 0 R /MediaBox [0 0 100 100] /Resources << >> /Contents %d 0 R >>", pages, c))
		kids = append(kids, fmt.Sprintf("%d 0 R", p))
	}
	doc.Set(pages, fmt.Sprintf("<< /Type /Pages /Count %d /Kids [%s] >>", len(kids), strings.Join(kids, " ")))
	doc.Set(root, fmt.Sprintf("<< /Type /Catalog /Pages %d 0 R >>", pages))

	conf := model.NewDefaultConfiguration()
	conf.ValidationMode = model.ValidationRelaxed
	conf.Cmd = model.OPTIMIZE
	conf.Optimize = false
	ctx, err := api.ReadContext(bytes.NewReader(doc.Bytes()), conf)
	if err != nil {
		fail("read: " + err.Error())
		return
	}
	if err := ctx.EnsurePageCount(); err != nil {
		fail("page count: " + err.Error())
		return
	}
	live := map[int]bool{}
	for i, r := range batch {
		sd, objNr, err := pageContentSD(ctx, i+1)
		if err != nil {
			r.File = "read stream: " + err.Error()
			r.FStage = "stream1"
			continue
		}
		if err := sdDo(sd.Decode); err != nil {
			r.File = "decode after read: " + err.Error()
			r.FStage = "decode1"
			continue
		}
		if !bytes.Equal(sd.Content, data[i]) {
			r.File = "content after read differs from the original"
			r.FStage = "differs1"
			continue
		}
		applyEdit(r.Edit, sd, data[i])
		if err := sdDo(sd.Encode); err != nil {
			r.File = "re-encode: " + err.Error()
			r.FStage = "reencode"
			continue
		}
		e, ok := ctx.FindTableEntryLight(objNr)
		if !ok {
			r.File = "no xref entry"
			r.FStage = "stream1"
			continue
		}
		e.Object = *sd
		live[i] = true
	}
	var buf bytes.Buffer
	if err := api.WriteContext(ctx, &buf); err != nil {
		for i, r := range batch {
			if live[i] {
				r.File = "write: " + err.Error()
				r.FStage = "write"
			}
		}
		return
	}
	conf2 := model.NewDefaultConfiguration()
	conf2.ValidationMode = model.ValidationRelaxed
	ctx2, err := api.ReadContext(bytes.NewReader(buf.Bytes()), conf2)
	if err != nil {
		for i, r := range batch {
			if live[i] {
				r.File = "re-read: " + err.Error()
				r.FStage = "reread"
			}
		}
		return
	}
	if err := ctx2.EnsurePageCount(); err != nil || ctx2.PageCount != len(batch) {
		for i, r := range batch {
			if live[i] {
				r.File = fmt.Sprintf("re-read: page count %d (%v)", ctx2.PageCount, err)
				r.FStage = "reread"
			}
		}
		return
	}
	for i, r := range batch {
		if !live[i] {
			continue
		}
		sd, _, err := pageContentSD(ctx2, i+1)
		if err != nil {
			r.File = "re-read stream: " + err.Error()
			r.FStage = "stream2"
			continue
		}
		if err := sdDo(sd.Decode); err != nil {
			r.File = "decode after write: " + err.Error()
			r.FStage = "decode2"
			continue
		}
		if !bytes.Equal(sd.Content, editedContent(r.Edit, data[i])) {
			r.File = "content after write differs from the edited content (edit " + r.Edit + ")"
			r.FStage = "differs2"
			continue
		}
		r.File = "ok"
		r.FStage = "ok"
	}
}

// ---------------------------------------------------------------------------------------- C16

type rec16 struct {
	ID   int     `json:"id"`
	API  string  `json:"api"`  // "F" filter.NewFilter(...).Decode/DecodeLength, "SD" StreamDict.DecodeLengthWithLimit on a fresh object, "SDH" a later call of a history on one object, "CFG" Configuration.Limits while reading a file
	Mode string  `json:"mode"` // "limit" (unbounded decode under limit arg) | "bounded" (DecodeLength arg)
	Pipe []stage `json:"pipe"`
	Ds   []int   `json:"ds"` // decoded output length of every stage (unlimited decode), last = D
	D    int     `json:"D"`
	Arg  int     `json:"arg"`
	Kind string  `json:"kind"` // ok | limit | short | err | panic
	Len  int     `json:"len"`
	Got  []int   `json:"got"`
	Full []int   `json:"full"`
	Err  string  `json:"err"`
	Prev []int   `json:"prev"` // api "SDH": the calls made before on the SAME StreamDict object, flattened (0 = bounded | 1 = limit, argument)
}

// predicted builds whole rows of predictor-encoded data from arbitrary bytes (valid PNG filter types).
func predicted(s stage, x []byte) []byte {
	rl := s.rowLen()
	rows := len(x) / rl
	out := append([]byte{}, x[:rows*rl]...)
	if def(s.Pred, 1) >= 10 {
		for r := 0; r < rows; r++ {
			out[r*rl] %= 5
		}
	}
	return out
}

func zlibBytes(b []byte) []byte {
	var buf bytes.Buffer
	w := zlib.NewWriter(&buf)
	w.Write(b)
	w.Close()
	return buf.Bytes()
}

func runC16(casesPath, outPath string, seed int64, maxD int) {
	w := h.NewW(outPath)
	defer w.Close()
	ncases, nrec := 0, 0
	kinds := map[string]int{}
	distinct := map[string]bool{}
	err := h.EachLine(casesPath, func(line []byte) error {
		var c tcase
		if err := json.Unmarshal(line, &c); err != nil {
			return err
		}
		ncases++
		last := len(c.Pipe) - 1
		var x0 []byte
		if c.Inp.Kind == "rows" {
			// n whole rows of predictor-encoded data for the last stage
			x0 = expand(inp{Kind: "rnd", N: c.Inp.N * c.Pipe[last].rowLen(), A: c.Inp.A, B: ncases}, seed)
		} else {
			x0 = expand(c.Inp, seed)
		}
		// encoded input: the last stage decodes to the final data
		cur := x0
		for i := last; i >= 0; i-- {
			s := c.Pipe[i]
			if i == last && s.F == "Fl" && def(s.Pred, 1) >= 2 {
				cur = zlibBytes(predicted(s, x0)) // independent of pdfcpu's encoder (which does not predict)
				continue
			}
			o := encodeStage(s, cur)
			if !o.ok() {
				h.Die("c16: encode failed for %s: %s", line, o.msg())
			}
			cur = o.data
		}
		enc := cur
		// unlimited reference decode, stage by stage (limit -1 = no limit)
		ds := []int{}
		cur = enc
		for i := 0; i <= last; i++ {
			o := decodeStage(c.Pipe[i], cur, -1)
			if !o.ok() {
				h.Die("c16: unlimited decode failed for %s: %s", line, o.msg())
			}
			cur = o.data
			ds = append(ds, len(cur))
		}
		full := cur
		D := len(full)
		if D > maxD {
			h.Die("c16: case decodes to %d > %d bytes: %s", D, maxD, line)
		}
		put := func(api, mode string, arg int, o outcome) {
			nrec++
			r := rec16{ID: ncases, API: api, Mode: mode, Pipe: c.Pipe, Ds: ds, D: D, Arg: arg, Kind: o.kind(), Len: len(o.data),
				Got: ints(o.data), Full: ints(full), Err: o.msg(), Prev: []int{}}
			kinds[mode+"/"+api+"/"+r.Kind]++
			if r.Kind != "ok" || (r.Len > 0 && r.Len < D) {
				distinct[fmt.Sprintf("%d/%s/%s/%d", ncases, api, mode, arg)] = true
			}
			w.Put(r)
		}
		sdDecode := func(maxLen, limit int64) outcome {
			sd := newSD(c.Pipe)
			sd.Raw = append([]byte{}, enc...)
			return guard(func() (io.Reader, error) {
				b, err := sd.DecodeLengthWithLimit(maxLen, limit)
				if err != nil {
					return nil, err
				}
				return bytes.NewReader(b), nil
			})
		}
		lims := map[int]bool{}
		for L := 0; L <= D+2; L++ {
			lims[L] = true
		}
		for _, d := range ds {
			for _, L := range []int{d - 1, d, d + 1} {
				if L >= 0 {
					lims[L] = true
				}
			}
		}
		for L := range lims {
			if len(c.Pipe) == 1 {
				put("F", "limit", L, decodeStage(c.Pipe[0], enc, int64(L)))
			}
			put("SD", "limit", L, sdDecode(-1, int64(L)))
		}
		put("SD", "limit", -1, sdDecode(-1, -1))
		// the limit given as model.Configuration.Limits.MaxDecodeBytes while reading a PDF file whose only stream is this one
		pdf := onePageDoc(streamDictText(c.Pipe, ncases%2 == 0), enc)
		cfgLims := map[int]bool{}
		for _, d := range ds {
			for _, L := range []int{d - 1, d, d + 1} {
				if L >= 1 {
					cfgLims[L] = true
				}
			}
		}
		for L := range cfgLims {
			put("CFG", "limit", L, guard(func() (io.Reader, error) {
				conf := model.NewDefaultConfiguration()
				conf.ValidationMode = model.ValidationRelaxed
				conf.DecodeAllStreams = true
				conf.Limits.MaxDecodeBytes = int64(L)
				ctx, err := api.ReadContext(bytes.NewReader(pdf), conf)
				if err != nil {
					return nil, err
				}
				if err := ctx.EnsurePageCount(); err != nil {
					return nil, fmt.Errorf("harness: %v", err)
				}
				sd, _, err := pageContentSD(ctx, 1)
				if err != nil {
					return nil, fmt.Errorf("harness: %v", err)
				}
				return bytes.NewReader(sd.Content), nil
			}))
		}
		for n := 0; n <= D+2; n++ {
			if len(c.Pipe) == 1 {
				f := newFilter(c.Pipe[0])
				put("F", "bounded", n, guard(func() (io.Reader, error) { return f.DecodeLength(reader(enc, false), int64(n)) }))
			}
			put("SD", "bounded", n, sdDecode(int64(n), filter.DefaultMaxDecodeBytes))
		}
		// call histories on ONE stream object: every later call is judged like a call on a fresh object
		type call struct {
			mode string // "bounded": DecodeLength(arg) | "limit": Decode() for arg 0, DecodeWithLimit(arg) otherwise
			arg  int
		}
		history := func(calls ...call) {
			sd := newSD(c.Pipe)
			sd.Raw = append([]byte{}, enc...)
			prev := []int{}
			for i, cl := range calls {
				o := guard(func() (io.Reader, error) {
					var b []byte
					var err error
					switch {
					case cl.mode == "bounded":
						b, err = sd.DecodeLength(int64(cl.arg))
					case cl.arg == 0:
						if err = sd.Decode(); err == nil {
							b = sd.Content
						}
					default:
						if err = sd.DecodeWithLimit(int64(cl.arg)); err == nil {
							b = sd.Content
						}
					}
					if err != nil {
						return nil, err
					}
					return bytes.NewReader(b), nil
				})
				if i > 0 {
					nrec++
					r := rec16{ID: ncases, API: "SDH", Mode: cl.mode, Pipe: c.Pipe, Ds: ds, D: D, Arg: cl.arg, Kind: o.kind(), Len: len(o.data),
						Got: ints(o.data), Full: ints(full), Err: o.msg(), Prev: append([]int{}, prev...)}
					kinds[cl.mode+"/SDH/"+r.Kind]++
					distinct[fmt.Sprintf("%d/SDH/%v/%s/%d", ncases, prev, cl.mode, cl.arg)] = true
					w.Put(r)
				}
				m := 0
				if cl.mode == "limit" {
					m = 1
				}
				prev = append(prev, m, cl.arg)
			}
		}
		lowLimit := D - 1 // a limit below the decoded length (if there is one) ...
		if lowLimit < 1 {
			lowLimit = 1
		}
		for n := 0; n <= D+1; n++ {
			history(call{"bounded", n}, call{"limit", 0})
			switch n % 3 {
			case 0:
				history(call{"bounded", n}, call{"limit", lowLimit}, call{"limit", D + 1})
			case 1:
				history(call{"bounded", n}, call{"bounded", D}, call{"bounded", n})
			default:
				history(call{"bounded", n}, call{"bounded", n + 1}, call{"limit", 0})
			}
		}
		for _, n := range []int{0, (D + 1) / 2, D, D + 1} {
			history(call{"limit", 0}, call{"bounded", n})
		}
		return nil
	})
	if err != nil {
		h.Die("c16: %v", err)
	}
	h.Summary(map[string]any{"cases": ncases, "records": nrec, "kinds": kinds, "nontrivial": len(distinct)})
}

// ---------------------------------------------------------------------------------------- C17

type rec17 struct {
	ID     int    `json:"id"`
	F      string `json:"f"`
	EC     int    `json:"ec"`
	Pred   int    `json:"pred"`
	Colors int    `json:"colors"`
	BPC    int    `json:"bpc"`
	Cols   int    `json:"cols"`
	Rows   int    `json:"rows"`
	Raw    []int  `json:"raw"`
	Ok     bool   `json:"ok"`
	Out    []int  `json:"out"`
	Err    string `json:"err"`
}

var edgeBytes = []byte{0, 1, 2, 3, 127, 128, 129, 253, 254, 255}

func runC17(outPath string, seed int64, n int, reps int) {
	rng := rand.New(rand.NewSource(seed))
	w := h.NewW(outPath)
	defer w.Close()
	type pc struct {
		f                             string
		pred, colors, bpc, cols, rows int
	}
	var grid []pc
	for _, f := range []string{"Fl", "LZW"} {
		for _, p := range []int{1, 2, 10, 11, 12, 13, 14, 15} {
			for co := 1; co <= 4; co++ {
				for _, b := range []int{1, 2, 4, 8, 16} {
					for w := 1; w <= 8; w++ {
						for r := 1; r <= 3; r++ {
							grid = append(grid, pc{f, p, co, b, w, r})
						}
					}
				}
			}
		}
	}
	var cases []pc
	for k := 0; k < reps; k++ {
		cases = append(cases, grid...)
	}
	rng.Shuffle(len(cases), func(i, j int) { cases[i], cases[j] = cases[j], cases[i] })
	if n > 0 && n < len(cases) {
		cases = cases[:n]
	}
	id, okN, errN, invalidFT, odd := 0, 0, 0, 0, 0
	distinct := map[string]bool{}
	emit := func(s stage, rows int, raw []byte) {
		id++
		var enc []byte
		if s.F == "Fl" {
			enc = zlibBytes(raw)
		} else {
			o := encodeStage(stage{F: "LZW", EC: s.EC, Pred: -1, Colors: -1, BPC: -1, Cols: -1}, raw)
			if !o.ok() {
				h.Die("c17: LZW encode: %s", o.msg())
			}
			enc = o.data
		}
		o := decodeStage(s, enc)
		r := rec17{ID: id, F: s.F, EC: s.EC, Pred: s.Pred, Colors: s.Colors, BPC: s.BPC, Cols: s.Cols, Rows: rows,
			Raw: ints(raw), Ok: o.ok(), Out: ints(o.data), Err: o.msg()}
		if r.Ok {
			okN++
		} else {
			errN++
		}
		distinct[fmt.Sprintf("%s/%d/%d/%d/%d/%d", s.F, s.Pred, s.Colors, s.BPC, s.Cols, rows)] = true
		w.Put(r)
	}
	for _, c := range cases {
		s := stage{F: c.f, EC: -1, Pred: c.pred, Colors: c.colors, BPC: c.bpc, Cols: c.cols}
		if c.f == "LZW" {
			s.EC = rng.Intn(3) - 1
		}
		// sometimes leave defaulted entries out
		if c.colors == 1 && rng.Intn(3) == 0 {
			s.Colors = -1
		}
		if c.bpc == 8 && rng.Intn(3) == 0 {
			s.BPC = -1
		}
		if c.cols == 1 && rng.Intn(3) == 0 {
			s.Cols = -1
		}
		if c.pred == 1 && rng.Intn(3) == 0 {
			s.Pred = -1
		}
		rs := s.rowSize()
		rl := s.rowLen()
		raw := make([]byte, c.rows*rl)
		style := rng.Intn(4)
		for i := range raw {
			switch {
			case style == 0 || (style == 1 && rng.Intn(2) == 0):
				raw[i] = edgeBytes[rng.Intn(len(edgeBytes))]
			default:
				raw[i] = byte(rng.Intn(256))
			}
		}
		if c.pred >= 10 {
			bad := rng.Intn(12) == 0
			for r := 0; r < c.rows; r++ {
				raw[r*rl] = byte(rng.Intn(5))
			}
			if bad {
				raw[rng.Intn(c.rows)*rl] = byte(5 + rng.Intn(251))
				invalidFT++
			}
		}
		_ = rs
		emit(s, c.rows, raw)
	}
	// parameter combinations outside ISO 32000 Table 8 (the outcome is not constrained, they are recorded for the error side)
	for k := 0; k < len(cases)/40+8; k++ {
		s := stage{F: []string{"Fl", "LZW"}[rng.Intn(2)], EC: -1, Pred: []int{0, 3, 9, 16, 12, 2}[rng.Intn(6)], Colors: []int{0, -2, 1, 2}[rng.Intn(4)],
			BPC: []int{0, 3, 5, 32, 8}[rng.Intn(5)], Cols: []int{0, -3, 2}[rng.Intn(3)]}
		raw := make([]byte, 12)
		rng.Read(raw)
		raw[0] %= 5
		odd++
		emit(s, 1, raw)
	}
	h.Summary(map[string]any{"records": id, "ok": okN, "errors": errN, "invalidFilterType": invalidFT, "outsideTable8": odd, "distinctParams": len(distinct)})
}

func main() {
	api.DisableConfigDir()
	if len(os.Args) < 2 {
		h.Die("usage: filter c15|c16|c17 ...")
	}
	seed := int64(h.ArgInt("--seed", 1))
	switch os.Args[1] {
	case "c15":
		runC15(h.Arg("--cases"), h.Arg("--out"), seed, h.ArgInt("--cap", 48), h.Arg("--file") != "0")
	case "c16":
		runC16(h.Arg("--cases"), h.Arg("--out"), seed, h.ArgInt("--maxd", 64))
	case "c17":
		runC17(h.Arg("--out"), seed, h.ArgInt("--n", 2000), h.ArgInt("--reps", 1))
	default:
		h.Die("usage: filter c15|c16|c17 ...")
	}
}
