// Command conc drives the real pdfcpu code for C40 (concurrent use of the API is race-free and deterministic).
// It is meant to be built with -race (vlib.build_bin("conc", race=True)).
//
//	conc fonts   --work DIR --out hist.ndjson --seed S --rounds R
//	     Binding 1: goroutines doing user-font lookups concurrently with font.ReloadUserFonts over a font directory
//	     whose content changes between generations. Every operation is logged with call / return values of ONE atomic
//	     logical clock; one ndjson line per round = one history (<= 16 operations) for spec/ConcTrace.tla.
//	conc ops     --work DIR --out res.ndjson --seed S --mode solo|conc --sizes 2,8,32
//	     Binding 2: every goroutine runs one API operation on its OWN copy of an input in its own directory (font lookups
//	     and reloads included in the mix); normalised output digests are written for comparison with the solo run.
//	conc control
//	     positive control for the race detector: a usage the model (spec/Conc.tla, Break = "late_disable") says is racy.
package main

import (
	"bytes"
	"compress/lzw"
	"compress/zlib"
	"crypto/sha256"
	"encoding/ascii85"
	"encoding/hex"
	"encoding/json"
	"fmt"
	"math/rand"
	"os"
	"path/filepath"
	"regexp"
	"runtime"
	"sort"
	"strconv"
	"strings"
	"sync"
	"sync/atomic"
	"syscall"
	"time"

	"github.com/pdfcpu/pdfcpu/pkg/api"
	"github.com/pdfcpu/pdfcpu/pkg/font"
	"github.com/pdfcpu/pdfcpu/pkg/pdfcpu/model"
	"verif/harness/lib/fontgen"
	"verif/harness/lib/h"
	"verif/harness/lib/proj"
	"verif/harness/lib/rawpdf"
)

func repoDir() string {
	if d := os.Getenv("VERIF_REPO"); d != "" {
		return d
	}
	return "/repo"
}

func must(err error, what string) {
	if err != nil {
		h.Die("%s: %v", what, err)
	}
}

func main() {
	if len(os.Args) < 2 {
		h.Die("usage: conc fonts|ops|control ...")
	}
	// documented mode for multi-threaded use: set once, before any goroutine is started
	api.DisableConfigDir()
	switch os.Args[1] {
	case "fonts":
		cmdFonts()
	case "ops":
		cmdOps()
	case "control":
		cmdControl()
	case "life":
		cmdLife()
	case "stage":
		stageFonts(h.Arg("--work"), h.ArgInt("--n", 9))
		h.Summary(map[string]any{"staged": h.ArgInt("--n", 9)})
	default:
		h.Die("unknown sub-command %s", os.Args[1])
	}
}

// ------------------------------------------------------------------------------------------------ font pool

const unknownFont = 99

// fontName returns the 14-character PostScript name of pool font i (i >= 1).
func fontName(i int) string { return fmt.Sprintf("VfC40-Font-%03d", i) }

func fontIndex(name string) int {
	if len(name) == 14 && strings.HasPrefix(name, "VfC40-Font-") {
		if n, err := strconv.Atoi(name[11:]); err == nil && n >= 1 && n < unknownFont {
			return n
		}
	}
	return unknownFont
}

// stageFonts installs pool fonts 1..n with the real font.InstallTrueTypeFont into dir/stage (one .gob each).
func stageFonts(dir string, n int) string {
	stage := filepath.Join(dir, "stage")
	if st := h.Arg("--stage"); st != "" {
		// staged once per check run by "conc stage" (same real installer)
		for i := 1; i <= n; i++ {
			if _, err := os.Stat(filepath.Join(st, fontName(i)+".gob")); err != nil {
				h.Die("staged font missing: %v", err)
			}
		}
		return st
	}
	src := filepath.Join(dir, "ttf")
	must(os.MkdirAll(stage, 0755), "mkdir")
	must(os.MkdirAll(src, 0755), "mkdir")
	roboto := fontgen.Roboto()
	for i := 1; i <= n; i++ {
		p := filepath.Join(src, fontName(i)+".ttf")
		must(os.WriteFile(p, fontgen.Renamed(roboto, fontName(i)), 0644), "write ttf")
		rep, err := font.InstallTrueTypeFont(stage, p)
		must(err, "InstallTrueTypeFont")
		if len(rep.Fonts) != 1 || rep.Fonts[0].PostScriptName != fontName(i) {
			h.Die("unexpected install report %+v", rep)
		}
		if _, err := os.Stat(filepath.Join(stage, fontName(i)+".gob")); err != nil {
			h.Die("installed font file missing: %v", err)
		}
	}
	return stage
}

// generations: every generation has exactly 3 fonts: the common font 1 and two of its own. No proper subset of a
// generation and no mixture of two generations is itself a generation.
func generations(ng int) [][]int {
	g := make([][]int, ng)
	for i := range g {
		g[i] = []int{1, 2 + 2*i, 3 + 2*i}
	}
	return g
}

type fontDir struct {
	mu    sync.RWMutex // harness discipline: the directory is not modified while a (re)load is reading it
	live  string
	stage string
	gens  [][]int
}

// set makes the live directory hold exactly generation g (hard links: each file appears / disappears atomically).
func (d *fontDir) set(g int) error {
	want := map[string]bool{}
	for _, f := range d.gens[g] {
		want[fontName(f)+".gob"] = true
	}
	es, err := os.ReadDir(d.live)
	if err != nil {
		return err
	}
	for _, e := range es {
		if !want[e.Name()] {
			if err := os.Remove(filepath.Join(d.live, e.Name())); err != nil {
				return err
			}
		}
		delete(want, e.Name())
	}
	for n := range want {
		if err := os.Link(filepath.Join(d.stage, n), filepath.Join(d.live, n)); err != nil {
			return err
		}
	}
	return nil
}

// ------------------------------------------------------------------------------------------------ Binding 1

type opRec struct {
	ID    int    `json:"id"`
	Op    string `json:"op"`    // names | has | isuser | load | reload | setdir
	G     int    `json:"g"`     // goroutine
	Seq   int    `json:"seq"`   // position in the goroutine's program
	Call  int64  `json:"call"`  // logical clock at call
	Ret   int64  `json:"ret"`   // logical clock at return
	Arg   int    `json:"arg"`   // font index (has/isuser), generation (setdir), else 0
	Obs   []int  `json:"obs"`   // names: sorted font indices seen
	Found int    `json:"found"` // has/isuser: 0 not found, 1 found (and metrics consistent), 2 found but inconsistent copy
	Err   string `json:"err"`
}

type initRec struct {
	Dir   int `json:"dir"`
	Cache int `json:"cache"` // -1: user fonts not loaded yet in this process
}

type histRec struct {
	H         int      `json:"h"`
	Procs     int      `json:"procs"`
	Synthetic string   `json:"synthetic"`
	Gens      [][]int  `json:"gens"`
	Init      initRec  `json:"init"`
	Ops       []opRec  `json:"ops"`
	Names     []string `json:"names"`
}

type prog struct {
	ops  []string
	args []int
}

func cmdFonts() {
	work := h.Arg("--work")
	out := h.Arg("--out")
	seed := int64(h.ArgInt("--seed", 1))
	rounds := h.ArgInt("--rounds", 20)
	base := h.ArgInt("--base", 0)
	const ng = 3
	gens := generations(ng)
	nfonts := 3 + 2*(ng-1)
	stage := stageFonts(work, nfonts)
	live := filepath.Join(work, "fonts")
	must(os.MkdirAll(live, 0755), "mkdir")
	fd := &fontDir{live: live, stage: stage, gens: gens}
	font.UserFontDir = live // set once, before any goroutine is started

	rng := rand.New(rand.NewSource(seed*7919 + int64(runtime.GOMAXPROCS(0))))
	w := h.NewW(out)
	defer w.Close()
	var clk atomic.Int64
	names := make([]string, nfonts)
	for i := range names {
		names[i] = fontName(i + 1)
	}
	stats := map[string]int{}
	overlaps := 0
	for r := 0; r < rounds; r++ {
		// quiescent set-up of a known state
		ini := initRec{}
		gA, gB := rng.Intn(ng), rng.Intn(ng)
		if r == 0 {
			// first round of the process: nothing loaded yet (sync.Once not done)
			must(fd.set(gB), "setdir")
			ini = initRec{Dir: gB, Cache: -1}
		} else {
			must(fd.set(gA), "setdir")
			must(font.ReloadUserFonts(), "ReloadUserFonts (set-up)")
			if rng.Intn(2) == 0 {
				gB = gA
			}
			must(fd.set(gB), "setdir")
			ini = initRec{Dir: gB, Cache: gA}
		}
		// programs: readers, reloaders, one mutator; <= 16 operations in total
		var progs []prog
		total := 0
		nread := 2 + rng.Intn(3)
		nrel := 1 + rng.Intn(2)
		budget := 16
		add := func(p prog) {
			if total+len(p.ops) > budget {
				p.ops, p.args = p.ops[:budget-total], p.args[:budget-total]
			}
			if len(p.ops) > 0 {
				progs = append(progs, p)
				total += len(p.ops)
			}
		}
		for i := 0; i < nrel; i++ {
			p := prog{}
			for k := 0; k < 2; k++ {
				p.ops, p.args = append(p.ops, "reload"), append(p.args, 0)
			}
			add(p)
		}
		mut := prog{}
		for k := 0; k < 2; k++ {
			mut.ops, mut.args = append(mut.ops, "setdir"), append(mut.args, rng.Intn(ng))
		}
		add(mut)
		for i := 0; i < nread; i++ {
			p := prog{}
			n := 2 + rng.Intn(2)
			for k := 0; k < n; k++ {
				switch rng.Intn(6) {
				case 0, 1, 2:
					p.ops, p.args = append(p.ops, "names"), append(p.args, 0)
				case 3:
					p.ops, p.args = append(p.ops, "has"), append(p.args, 1+rng.Intn(nfonts))
				case 4:
					p.ops, p.args = append(p.ops, "isuser"), append(p.args, 1+rng.Intn(nfonts))
				default:
					p.ops, p.args = append(p.ops, "load"), append(p.args, 0)
				}
			}
			add(p)
		}
		recs := make([][]opRec, len(progs))
		firstRound := r == 0
		var wg sync.WaitGroup
		start := make(chan struct{})
		for gi := range progs {
			delays := make([]time.Duration, len(progs[gi].ops))
			for k := range delays {
				delays[k] = time.Duration(rng.Intn(300)) * time.Microsecond
			}
			wg.Add(1)
			go func(gi int, p prog, delays []time.Duration) {
				defer wg.Done()
				<-start
				for k, op := range p.ops {
					// harness discipline: the directory is not modified while pdfcpu reads it. Lookups read it only when
					// the user fonts are not loaded yet (first round of the process).
					if firstRound && op != "reload" && op != "setdir" {
						fd.mu.RLock()
					}
					if delays[k] > 200*time.Microsecond {
						runtime.Gosched()
					} else {
						time.Sleep(delays[k])
					}
					rec := opRec{Op: op, G: gi, Seq: k, Arg: p.args[k], Obs: []int{}}
					switch op {
					case "names":
						rec.Call = clk.Add(1)
						ss, err := font.UserFontNames()
						rec.Ret = clk.Add(1)
						if err != nil {
							rec.Err = err.Error()
						}
						for _, s := range ss {
							rec.Obs = append(rec.Obs, fontIndex(s))
						}
						sort.Ints(rec.Obs)
					case "has":
						name := fontName(p.args[k])
						rec.Call = clk.Add(1)
						ttf, ok, err := font.UserFont(name)
						rec.Ret = clk.Add(1)
						if err != nil {
							rec.Err = err.Error()
						}
						if ok {
							rec.Found = 1
							if ttf.PostscriptName != name || ttf.GlyphCount <= 0 || len(ttf.GlyphWidths) != ttf.GlyphCount || len(ttf.Chars) == 0 {
								rec.Found = 2
							}
						}
					case "isuser":
						name := fontName(p.args[k])
						rec.Call = clk.Add(1)
						ok, err := font.IsUserFont(name)
						rec.Ret = clk.Add(1)
						if err != nil {
							rec.Err = err.Error()
						}
						if ok {
							rec.Found = 1
						}
					case "load":
						rec.Call = clk.Add(1)
						err := font.LoadUserFonts()
						rec.Ret = clk.Add(1)
						if err != nil {
							rec.Err = err.Error()
						}
					case "reload":
						rec.Call = clk.Add(1)
						fd.mu.RLock()
						err := font.ReloadUserFonts()
						fd.mu.RUnlock()
						rec.Ret = clk.Add(1)
						if err != nil {
							rec.Err = err.Error()
						}
					case "setdir":
						rec.Call = clk.Add(1)
						fd.mu.Lock()
						err := fd.set(p.args[k])
						fd.mu.Unlock()
						rec.Ret = clk.Add(1)
						if err != nil {
							h.Die("setdir: %v", err)
						}
					}
					if firstRound && op != "reload" && op != "setdir" {
						fd.mu.RUnlock()
					}
					recs[gi] = append(recs[gi], rec)
				}
			}(gi, progs[gi], delays)
		}
		close(start)
		if !waitOrHang(&wg, time.Duration(h.ArgInt("--watchdog", 90))*time.Second) {
			w.Close()
			var ps []string
			for _, p := range progs {
				ps = append(ps, strings.Join(p.ops, ","))
			}
			h.Summary(map[string]any{"hang": true, "round": r, "first_round": firstRound, "programs": ps, "stacks": blockedStacks("pdfcpu/pkg/font."), "procs": runtime.GOMAXPROCS(0)})
			os.Exit(0)
		}
		hr := histRec{H: base + r + 1, Procs: runtime.GOMAXPROCS(0), Gens: gens, Init: ini, Names: names}
		for _, rs := range recs {
			hr.Ops = append(hr.Ops, rs...)
		}
		sort.Slice(hr.Ops, func(i, j int) bool { return hr.Ops[i].Call < hr.Ops[j].Call })
		for i := range hr.Ops {
			hr.Ops[i].ID = i + 1
			stats[hr.Ops[i].Op]++
		}
		for i := range hr.Ops {
			for j := range hr.Ops {
				if i < j && hr.Ops[i].G != hr.Ops[j].G && hr.Ops[j].Call < hr.Ops[i].Ret {
					overlaps++
				}
			}
		}
		w.Put(hr)
	}
	h.Summary(map[string]any{"histories": rounds, "ops": stats, "overlapping_pairs": overlaps, "procs": runtime.GOMAXPROCS(0)})
}

// ------------------------------------------------------------------------------------------------ Binding 2

var opKinds = []string{"read", "validate", "optimize", "stamp", "fill", "encrypt", "merge", "split", "rmpages", "ustamp", "pdfstamp", "imgstamp", "content", "fnames", "fwidth", "freload"}

// freeing: operations that free objects of the context they work on (merge frees the appended catalog in the destination,
// page removal and optimization free the dropped objects)
var freeing = map[string]bool{"merge": true, "rmpages": true, "optimize": true}

// headlessDoc: a valid 3-page document, hand-built, whose single classic xref section starts at object 1 (no entry for
// object 0, the head of the free list). pdfcpu repairs this silently on reading ("repaired input").
func headlessDoc() []byte {
	content := func(s string) string {
		c := rawpdf.MarkerContent(s)
		return fmt.Sprintf("<< /Length %d >>\nstream\n%s\nendstream", len(c), c)
	}
	page := func(c int) string {
		return fmt.Sprintf("<< /Type /Page /Parent 2 0 R /MediaBox [0 0 300 400] /Contents %d 0 R /Resources << /Font << /F1 6 0 R >> >> >>", c)
	}
	objs := []string{
		"<< /Type /Catalog /Pages 2 0 R >>",
		"<< /Type /Pages /Kids [3 0 R 4 0 R 5 0 R] /Count 3 >>",
		page(7), page(8), page(9),
		"<< /Type /Font /Subtype /Type1 /BaseFont /Helvetica >>",
		content("C40H1"), content("C40H2"), content("C40H3"),
	}
	var b bytes.Buffer
	b.WriteString("%PDF-1.4\n%\xe2\xe3\xcf\xd3\n")
	offs := make([]int, len(objs))
	for i, o := range objs {
		offs[i] = b.Len()
		fmt.Fprintf(&b, "%d 0 obj\n%s\nendobj\n", i+1, o)
	}
	xref := b.Len()
	fmt.Fprintf(&b, "xref\n1 %d\n", len(objs))
	for _, o := range offs {
		fmt.Fprintf(&b, "%010d 00000 n \n", o)
	}
	fmt.Fprintf(&b, "trailer\n<< /Size %d /Root 1 0 R >>\nstartxref\n%d\n%%%%EOF\n", len(objs)+1, xref)
	return b.Bytes()
}

// applicable: which (operation, input index) pairs exist
func applicable(op string, ii int) bool {
	if ii >= 4 { // the filter documents: decoding of their page content is what matters
		return op == "content" || op == "optimize" || op == "split"
	}
	switch {
	case op == "content":
		return false
	case op == "fill" || strings.HasPrefix(op, "f"):
		return ii == 0
	case op == "ustamp":
		return ii == 1
	case op == "pdfstamp":
		return ii == 0 || ii == 1 || ii == 3
	case op == "imgstamp":
		return ii == 0 || ii == 1
	case op == "rmpages":
		return ii == 0 || ii == 3 // needs more than one page
	}
	return true
}

// ---- hand-built documents whose page content streams use every stream filter (encoders independent of pdfcpu)

func encHex(b []byte) []byte {
	var o bytes.Buffer
	for i, c := range b {
		fmt.Fprintf(&o, "%02X", c)
		if i%32 == 31 {
			o.WriteByte('\n')
		}
	}
	o.WriteByte('>')
	return o.Bytes()
}

func enc85(b []byte) []byte {
	var o bytes.Buffer
	e := ascii85.NewEncoder(&o)
	e.Write(b)
	e.Close()
	o.WriteString("~>")
	return o.Bytes()
}

func encRunLength(b []byte) []byte {
	var o bytes.Buffer
	for i := 0; i < len(b); {
		j := i
		for j < len(b) && b[j] == b[i] && j-i < 128 {
			j++
		}
		if j-i >= 3 { // a run
			o.WriteByte(byte(257 - (j - i)))
			o.WriteByte(b[i])
			i = j
			continue
		}
		k := i
		for k < len(b) && k-i < 128 && !(k+2 < len(b) && b[k] == b[k+1] && b[k] == b[k+2]) {
			k++
		}
		o.WriteByte(byte(k - i - 1))
		o.Write(b[i:k])
		i = k
	}
	o.WriteByte(128)
	return o.Bytes()
}

func encLZW(b []byte) []byte { // compress/lzw = PDF LZW with /EarlyChange 0
	var o bytes.Buffer
	w := lzw.NewWriter(&o, lzw.MSB, 8)
	w.Write(b)
	w.Close()
	return o.Bytes()
}

func encFlate(b []byte) []byte {
	var o bytes.Buffer
	w := zlib.NewWriter(&o)
	w.Write(b)
	w.Close()
	return o.Bytes()
}

// pngUp applies the PNG "Up" predictor (rows of cols bytes); the data is padded with blanks to full rows.
func pngUp(b []byte, cols int) []byte {
	for len(b)%cols != 0 {
		b = append(b, ' ')
	}
	prev := make([]byte, cols)
	var o []byte
	for r := 0; r < len(b); r += cols {
		o = append(o, 2)
		for c := 0; c < cols; c++ {
			o = append(o, b[r+c]-prev[c])
		}
		prev = b[r : r+cols]
	}
	return o
}

// filterDoc: 7 pages, one per filter (chain); every page draws its own marker and tag-specific filler text.
func filterDoc(tag string, lines int) []byte {
	d := &rawpdf.Doc{}
	cat, pages := d.Reserve(), d.Reserve()
	font := d.Add("<< /Type /Font /Subtype /Type1 /BaseFont /Helvetica >>")
	type enc struct {
		dict string
		f    func([]byte) []byte
	}
	encs := []enc{
		{"/Filter /ASCIIHexDecode", encHex},
		{"/Filter /ASCII85Decode", enc85},
		{"/Filter /RunLengthDecode", encRunLength},
		{"/Filter /LZWDecode /DecodeParms << /EarlyChange 0 >>", encLZW},
		{"/Filter /FlateDecode", encFlate},
		{"/Filter /FlateDecode /DecodeParms << /Predictor 12 /Columns 16 >>", func(b []byte) []byte { return encFlate(pngUp(append([]byte(nil), b...), 16)) }},
		{"/Filter [/ASCIIHexDecode /FlateDecode]", func(b []byte) []byte { return encHex(encFlate(b)) }},
	}
	var kids []string
	for i, e := range encs {
		var c bytes.Buffer
		fmt.Fprintf(&c, "BT /F1 12 Tf 20 20 Td (%s-P%d) Tj ET\n", tag, i+1)
		for l := 0; l < lines; l++ {
			fmt.Fprintf(&c, "BT /F1 8 Tf 20 %d Td (%s filler %d of page %d %s) Tj ET\n", 40+l%700, tag, l, i+1, strings.Repeat("=", l%17))
		}
		cs := d.AddStream(e.dict, e.f(c.Bytes()))
		pg := d.Add(fmt.Sprintf("<< /Type /Page /Parent %d 0 R /MediaBox [0 0 400 800] /Contents %d 0 R /Resources << /Font << /F1 %d 0 R >> >> >>", pages, cs, font))
		kids = append(kids, fmt.Sprintf("%d 0 R", pg))
	}
	d.Set(pages, fmt.Sprintf("<< /Type /Pages /Kids [%s] /Count %d >>", strings.Join(kids, " "), len(kids)))
	d.Set(cat, fmt.Sprintf("<< /Type /Catalog /Pages %d 0 R >>", pages))
	d.Root = cat
	return d.Bytes()
}

// checkFilterDoc: pdfcpu (alone, before any goroutine is started) must decode every page of a filter document to the
// content that was encoded, otherwise the hand-built encoders are wrong (harness failure, not a verdict).
func checkFilterDoc(work string, in input, tag string) {
	p := filepath.Join(work, "check-"+in.name)
	must(os.WriteFile(p, in.bytes, 0644), "write")
	ps, err := proj.Pages(p, plainConf())
	must(err, "filter document "+in.name)
	for i, pg := range ps {
		if pg.Marker != fmt.Sprintf("%s-P%d", tag, i+1) || !strings.Contains(pg.Content, fmt.Sprintf("filler 3 of page %d", i+1)) {
			h.Die("filter document %s page %d does not decode to its content (marker %q)", in.name, i+1, pg.Marker)
		}
	}
	if len(ps) != 7 {
		h.Die("filter document %s: %d pages", in.name, len(ps))
	}
}

type input struct {
	name  string
	bytes []byte
}

type world struct {
	inputs   []input // generic inputs
	second   input   // second file for merge
	form     input
	fillJS   []byte
	fontDir  string
	stampPDF string
	stampImg string
}

func plainConf() *model.Configuration {
	c := model.NewDefaultConfiguration()
	c.WriteObjectStream = false
	c.WriteXRefStream = false
	return c
}

func buildWorld(work string) *world {
	w := &world{}
	must(os.MkdirAll(work, 0755), "mkdir")
	rd := func(rel string) []byte {
		b, err := os.ReadFile(filepath.Join(repoDir(), rel))
		must(err, "read input")
		return b
	}
	var ps []rawpdf.PageSpec
	for i := 0; i < 5; i++ {
		ps = append(ps, rawpdf.PageSpec{Marker: fmt.Sprintf("C40P%d", i+1), Rotate: []int{-1, 90, 0, 270, 180}[i], MediaBox: "[0 0 595 842]"})
	}
	w.inputs = []input{
		{"marker5.pdf", rawpdf.MarkerDoc(ps, rawpdf.MarkerOpts{Fanout: 2, InfoDict: "/Title (C40 marker) /CreationDate (D:20200101000000Z)"}).Bytes()},
		{"test.pdf", rd("pkg/testdata/test.pdf")},
		{"testRot.pdf", rd("pkg/testdata/testRot.pdf")},
		{"headless.pdf", headlessDoc()},
		{"filtA.pdf", filterDoc("FA", 60)},
		{"filtB.pdf", filterDoc("FB", 90)},
		{"filtC.pdf", filterDoc("FC", 120)},
	}
	for i, tag := range []string{"FA", "FB", "FC"} {
		checkFilterDoc(work, w.inputs[4+i], tag)
	}
	// ONE stamp PDF and ONE stamp image shared (by file name) by all goroutines of the process
	w.stampPDF = filepath.Join(work, "shared-stamp.pdf")
	must(os.WriteFile(w.stampPDF, rd("pkg/testdata/testRot.pdf"), 0644), "write stamp pdf")
	w.stampImg = filepath.Join(work, "shared-stamp.png")
	must(os.WriteFile(w.stampImg, rd("pkg/testdata/resources/github.png"), 0644), "write stamp image")
	w.second = input{"simple3.pdf", rawpdf.Simple(3, "C40S")}
	// fonts for ustamp / fnames / freload: constant directory content
	stage := stageFonts(work, 3)
	w.fontDir = stage
	font.UserFontDir = stage
	must(font.LoadUserFonts(), "LoadUserFonts")
	// form + fill JSON: the first sample form that can really be filled in this sandbox (core fonts only); the fill JSON is
	// the form's own export with changed values (made once, sequentially, before any goroutine is started)
	var tried []string
	for _, rel := range []string{"pkg/samples/form/demo/english.pdf", "pkg/samples/form/primitives/textfield.pdf",
		"pkg/samples/form/primitives/checkbox.pdf", "pkg/samples/form/fill/person.pdf", "pkg/samples/form/fill/english.pdf"} {
		b, err := os.ReadFile(filepath.Join(repoDir(), rel))
		if err != nil {
			tried = append(tried, rel+": "+err.Error())
			continue
		}
		fp := filepath.Join(work, "form-src.pdf")
		must(os.WriteFile(fp, b, 0644), "write")
		ej := filepath.Join(work, "form-export.json")
		if err := api.ExportFormFile(fp, ej, nil); err != nil {
			tried = append(tried, rel+": export: "+err.Error())
			continue
		}
		eb, err := os.ReadFile(ej)
		must(err, "read export")
		js, changed := tweakFill(eb)
		fj := filepath.Join(work, "form-fill.json")
		must(os.WriteFile(fj, js, 0644), "write")
		if err := api.FillFormFile(fp, fj, filepath.Join(work, "form-probe.pdf"), plainConf()); err != nil || changed == 0 {
			tried = append(tried, fmt.Sprintf("%s: fill (%d changed fields): %v", rel, changed, err))
			continue
		}
		w.form = input{filepath.Base(filepath.Dir(rel)) + "-" + filepath.Base(rel), b}
		w.fillJS = js
		break
	}
	if w.fillJS == nil {
		h.Die("no fillable sample form: %v", tried)
	}
	return w
}

// tweakFill changes the values of the unlocked text fields and check boxes of an export JSON so that filling really
// modifies the form. Returns the JSON and the number of changed fields.
func tweakFill(b []byte) ([]byte, int) {
	var doc map[string]any
	must(json.Unmarshal(b, &doc), "export json")
	forms, _ := doc["forms"].([]any)
	n := 0
	for _, f := range forms {
		fm, _ := f.(map[string]any)
		tfs, _ := fm["textfield"].([]any)
		for _, t := range tfs {
			tm, _ := t.(map[string]any)
			if lk, _ := tm["locked"].(bool); lk {
				continue
			}
			if ml, _ := tm["multiline"].(bool); ml {
				continue
			}
			n++
			tm["value"] = fmt.Sprintf("C40 v%v", tm["id"]) // by field id: the export order is not deterministic
		}
		cbs, _ := fm["checkbox"].([]any)
		for _, t := range cbs {
			tm, _ := t.(map[string]any)
			if lk, _ := tm["locked"].(bool); lk {
				continue
			}
			v, _ := tm["value"].(bool)
			tm["value"] = !v
			n++
		}
	}
	out, err := json.Marshal(doc)
	must(err, "marshal")
	return out, n
}

// canonExport: form export without its header, field lists sorted by field id (the export order follows map iteration).
func canonExport(b []byte) []byte {
	var doc map[string]any
	if json.Unmarshal(b, &doc) != nil {
		return b
	}
	delete(doc, "header")
	forms, _ := doc["forms"].([]any)
	for _, f := range forms {
		fm, _ := f.(map[string]any)
		for _, v := range fm {
			l, ok := v.([]any)
			if !ok {
				continue
			}
			sort.SliceStable(l, func(i, j int) bool {
				a, _ := l[i].(map[string]any)
				c, _ := l[j].(map[string]any)
				return fmt.Sprint(a["id"]) < fmt.Sprint(c["id"])
			})
		}
	}
	out, _ := json.Marshal(doc)
	return out
}

var (
	reID    = regexp.MustCompile(`/ID\s*\[\s*<[0-9a-fA-F]*>\s*<[0-9a-fA-F]*>\s*\]`)
	reDate  = regexp.MustCompile(`/(CreationDate|ModDate)\s*\(D:[^)]*\)`)
	reXMP   = regexp.MustCompile(`<(xmp|xap):(CreateDate|ModifyDate|MetadataDate)>[^<]*</`)
	reXMPa  = regexp.MustCompile(`(xmp|xap):(CreateDate|ModifyDate|MetadataDate)="[^"]*"`)
	reDocID = regexp.MustCompile(`(xmpMM|xapMM):(DocumentID|InstanceID)>[^<]*<`)
)

func normBytes(b []byte) []byte {
	b = reID.ReplaceAll(b, []byte("/ID[]"))
	b = reDate.ReplaceAll(b, []byte("/$1()"))
	b = reXMP.ReplaceAll(b, []byte("<$1:$2></"))
	b = reXMPa.ReplaceAll(b, []byte(`$1:$2=""`))
	b = reDocID.ReplaceAll(b, []byte("$1:$2><"))
	return b
}

var (
	reObj = regexp.MustCompile(`(?s)\d+ \d+ obj\b(.*?)\bendobj`)
	reRef = regexp.MustCompile(`\b\d+ \d+ R\b`)
)

// bagDigest: digest of the multiset of object bodies with indirect references erased - insensitive to object
// numbering (pdfcpu's writer numbers objects in map-iteration order in places), sensitive to any object's content.
func bagDigest(b []byte) string {
	var bodies []string
	for _, m := range reObj.FindAllSubmatch(b, -1) {
		bodies = append(bodies, string(reRef.ReplaceAll(m[1], []byte("R"))))
	}
	sort.Strings(bodies)
	return hexsum([]byte(strings.Join(bodies, "\x00")), []byte(strconv.Itoa(len(bodies))))
}

func hexsum(parts ...[]byte) string {
	s := sha256.New()
	for _, p := range parts {
		s.Write(p)
		s.Write([]byte{0})
	}
	return hex.EncodeToString(s.Sum(nil))[:24]
}

// projection of a PDF file: validation verdict + page list (decoded content, boxes, rotation)
func projDigest(path string, c *model.Configuration) (string, int) {
	if err := api.ValidateFile(path, c); err != nil {
		return "invalid: " + err.Error(), 0
	}
	ps, err := proj.Pages(path, c)
	if err != nil {
		return "unreadable: " + err.Error(), 0
	}
	var b bytes.Buffer
	for _, p := range ps {
		fmt.Fprintf(&b, "%d|%v|%v|%v|%s\n", p.Rot, p.Media, p.Crop, p.HasCrop, hexsum([]byte(p.Content)))
	}
	return hexsum(b.Bytes()), len(ps)
}

type taskRes struct {
	Round  int    `json:"round"`
	N      int    `json:"n"` // goroutines in the round
	G      int    `json:"g"`
	Op     string `json:"op"`
	Input  string `json:"input"`
	Err    string `json:"err"`
	Strict string `json:"strict"` // digest of the normalised output bytes
	Bag    string `json:"bag"`    // digest of the multiset of object bodies, references erased
	Proj   string `json:"proj"`   // digest of the semantic projection
	Pages  int    `json:"pages"`
	Ms     int64  `json:"ms"`
}

func errStr(err error, dir string) string {
	if err == nil {
		return ""
	}
	return strings.ReplaceAll(err.Error(), dir, "$DIR")
}

// runTask performs one operation in its own directory and digests the result.
func runTask(w *world, dir string, op string, in input) (res taskRes) {
	res.Op, res.Input = op, in.name
	must(os.MkdirAll(dir, 0755), "mkdir")
	inp := filepath.Join(dir, "in.pdf")
	out := filepath.Join(dir, "out.pdf")
	if op == "fill" {
		in = w.form
		res.Input = in.name
	}
	must(os.WriteFile(inp, in.bytes, 0644), "write input")
	c := plainConf()
	fileRes := func(err error, path string) {
		res.Err = errStr(err, dir)
		if err != nil {
			return
		}
		b, e := os.ReadFile(path)
		if e != nil {
			res.Err = "output missing: " + errStr(e, dir)
			return
		}
		res.Strict = hexsum(normBytes(b))
		res.Bag = bagDigest(normBytes(b))
		res.Proj, res.Pages = projDigest(path, plainConf())
	}
	switch op {
	case "read":
		ctx, err := api.ReadContextFile(inp)
		res.Err = errStr(err, dir)
		if err == nil {
			v := fmt.Sprintf("%d|%d|%v", ctx.PageCount, *ctx.XRefTable.Size, ctx.HeaderVersion)
			res.Strict, res.Proj, res.Pages = hexsum([]byte(v)), hexsum([]byte(v)), ctx.PageCount
		}
	case "validate":
		err := api.ValidateFile(inp, c)
		res.Err = errStr(err, dir)
		res.Strict, res.Proj = hexsum([]byte(res.Err)), hexsum([]byte(res.Err))
	case "optimize":
		fileRes(api.OptimizeFile(inp, out, c), out)
	case "stamp":
		fileRes(api.AddTextWatermarksFile(inp, out, nil, true, "Draft C40", "font:Helvetica, points:36, scale:0.5 abs, op:0.4, rot:30", c), out)
	case "ustamp":
		fileRes(api.AddTextWatermarksFile(inp, out, nil, false, "User C40", "font:"+fontName(1)+", points:24, scale:0.5 abs, op:0.6", c), out)
	case "fill":
		js := filepath.Join(dir, "fill.json")
		must(os.WriteFile(js, w.fillJS, 0644), "write json")
		err := api.FillFormFile(inp, js, out, c)
		fileRes(err, out)
		if err == nil {
			ej := filepath.Join(dir, "export.json")
			if e := api.ExportFormFile(out, ej, plainConf()); e != nil {
				res.Proj += "|export: " + errStr(e, dir)
			} else {
				b, _ := os.ReadFile(ej)
				res.Proj += "|" + hexsum(canonExport(b))
			}
		}
	case "encrypt":
		ec := model.NewAESConfiguration("upw", "opw", 256)
		ec.WriteObjectStream, ec.WriteXRefStream = false, false
		enc := filepath.Join(dir, "enc.pdf")
		err := api.EncryptFile(inp, enc, ec)
		if err == nil {
			b, _ := os.ReadFile(enc)
			if !bytes.Contains(b, []byte("/Encrypt")) {
				err = fmt.Errorf("output of EncryptFile is not encrypted")
			}
		}
		if err == nil {
			dc := plainConf()
			dc.UserPW, dc.OwnerPW = "upw", "opw"
			err = api.DecryptFile(enc, out, dc)
		}
		fileRes(err, out)
	case "merge":
		sec := filepath.Join(dir, "second.pdf")
		must(os.WriteFile(sec, w.second.bytes, 0644), "write second")
		fileRes(api.MergeCreateFile([]string{inp, sec}, out, false, c), out)
	case "pdfstamp":
		fileRes(api.AddPDFWatermarksFile(inp, out, nil, true, w.stampPDF+":1", "scale:0.4 abs, pos:tl, rot:0", c), out)
	case "imgstamp":
		fileRes(api.AddImageWatermarksFile(inp, out, nil, false, w.stampImg, "scale:0.3 abs, pos:br, rot:0", c), out)
	case "content":
		ps, err := proj.Pages(inp, c)
		res.Err = errStr(err, dir)
		if err == nil {
			var b bytes.Buffer
			for _, p := range ps {
				fmt.Fprintf(&b, "%s|%s\n", p.Marker, hexsum([]byte(p.Content)))
			}
			res.Strict, res.Proj, res.Bag, res.Pages = hexsum(b.Bytes()), hexsum(b.Bytes()), "", len(ps)
		}
	case "rmpages":
		fileRes(api.RemovePagesFile(inp, out, []string{"2"}, c), out)
	case "split":
		od := filepath.Join(dir, "split")
		must(os.MkdirAll(od, 0755), "mkdir")
		err := api.SplitFile(inp, od, 2, c)
		res.Err = errStr(err, dir)
		if err == nil {
			es, _ := os.ReadDir(od)
			var st, pj, bg [][]byte
			for _, e := range es { // ReadDir sorts by name
				b, _ := os.ReadFile(filepath.Join(od, e.Name()))
				st = append(st, []byte(e.Name()), normBytes(b))
				bg = append(bg, []byte(e.Name()), []byte(bagDigest(normBytes(b))))
				d, n := projDigest(filepath.Join(od, e.Name()), plainConf())
				pj = append(pj, []byte(e.Name()), []byte(d))
				res.Pages += n
			}
			res.Strict, res.Proj, res.Bag = hexsum(st...), hexsum(pj...), hexsum(bg...)
		}
	case "fnames":
		ss, err := font.UserFontNames()
		res.Err = errStr(err, dir)
		sort.Strings(ss)
		v := strings.Join(ss, ",")
		ok, err2 := font.IsUserFont(fontName(2))
		v += fmt.Sprintf("|%v|%v", ok, err2)
		res.Strict, res.Proj = hexsum([]byte(v)), hexsum([]byte(v))
	case "fwidth":
		var b bytes.Buffer
		for _, fn := range []string{"Helvetica", "Times-Roman", "Courier", fontName(1), fontName(3)} {
			wd, err := font.TextWidth("Concurrent C40", fn, 12)
			bb, err2 := font.BoundingBox(fn)
			fmt.Fprintf(&b, "%s %.4f %v %v %v\n", fn, wd, err, bb, err2)
		}
		ttf, ok, err := font.UserFont(fontName(2))
		fmt.Fprintf(&b, "%v %v %d %d %s\n", ok, err, ttf.GlyphCount, len(ttf.Chars), ttf.PostscriptName)
		res.Strict, res.Proj = hexsum(b.Bytes()), hexsum(b.Bytes())
	case "freload":
		err := font.ReloadUserFonts()
		res.Err = errStr(err, dir)
		res.Strict, res.Proj = hexsum([]byte(res.Err)), hexsum([]byte(res.Err))
	default:
		h.Die("unknown op %s", op)
	}
	return res
}

func cmdOps() {
	work := h.Arg("--work")
	outp := h.Arg("--out")
	seed := int64(h.ArgInt("--seed", 1))
	mode := h.Arg("--mode")
	w := buildWorld(work)
	out := h.NewW(outp)
	defer out.Close()
	if mode == "solo" {
		// every (operation, input) alone; the driver runs this twice (--rep 0 / 1): the second run tells whether the
		// strict byte digest is stable at all
		n := 0
		rep0 := h.ArgInt("--rep", 0)
		for rep := rep0; rep <= rep0; rep++ {
			for _, op := range opKinds {
				for ii, in := range w.inputs {
					if !applicable(op, ii) {
						continue
					}
					if only := h.Arg("--only"); only != "" && only != op+":"+in.name && !(op == "fill" && strings.HasPrefix(only, "fill:")) {
						continue
					}
					t0 := time.Now()
					r := runTask(w, filepath.Join(work, fmt.Sprintf("solo%d-%s-%d", rep, op, ii)), op, in)
					r.Round, r.G, r.N, r.Ms = rep, 0, 1, time.Since(t0).Milliseconds()
					out.Put(r)
					n++
				}
			}
		}
		h.Summary(map[string]any{"tasks": n, "procs": runtime.GOMAXPROCS(0)})
		return
	}
	var sizes []int
	for _, s := range strings.Split(h.Arg("--sizes"), ",") {
		n, err := strconv.Atoi(strings.TrimSpace(s))
		if err != nil || n < 2 || n > 32 {
			h.Die("bad --sizes")
		}
		sizes = append(sizes, n)
	}
	rng := rand.New(rand.NewSource(seed*104729 + int64(runtime.GOMAXPROCS(0))))
	total := 0
	for round, n := range sizes {
		type task struct {
			op    string
			in    input
			delay time.Duration
		}
		tasks := make([]task, n)
		perm := rng.Perm(len(opKinds))
		nust := 0
		for i := range tasks {
			// cover the operation kinds round-robin from a seeded permutation, inputs at random
			op := opKinds[perm[(i+round)%len(perm)]]
			if n > len(opKinds) && i >= len(opKinds) {
				op = opKinds[rng.Intn(len(opKinds))]
			}
			if op == "ustamp" {
				nust++
				if nust > 2 { // embedding a user font is slow under the race detector
					op = "stamp"
				}
			}
			ii := rng.Intn(len(w.inputs))
			if op == "content" {
				ii = 4 + rng.Intn(3)
			}
			if freeing[op] && rng.Intn(2) == 0 {
				ii = 3 // object-freeing operations on the repaired input, half of the time
			}
			for !applicable(op, ii) {
				ii = (ii + 1) % len(w.inputs)
			}
			in := w.inputs[ii]
			tasks[i] = task{op, in, time.Duration(rng.Intn(3000)) * time.Microsecond}
		}
		// shared-resource pairs: every round has at least two goroutines that use the SAME stamp file / image / user font, or
		// that decode DIFFERENT documents with every stream filter, at the same time
		switch (round + int(seed) + map[int]int{1: 0, 2: 1, 4: 2, 16: 3}[runtime.GOMAXPROCS(0)]) % 4 {
		case 0:
			tasks[0].op, tasks[0].in, tasks[1].op, tasks[1].in = "pdfstamp", w.inputs[0], "pdfstamp", w.inputs[1]
		case 1:
			tasks[0].op, tasks[0].in, tasks[1].op, tasks[1].in = "content", w.inputs[4], "optimize", w.inputs[5]
			if n > 2 {
				tasks[2].op, tasks[2].in = "content", w.inputs[6]
			}
		case 2:
			tasks[0].op, tasks[0].in, tasks[1].op, tasks[1].in = "imgstamp", w.inputs[0], "imgstamp", w.inputs[1]
		case 3:
			tasks[0].op, tasks[0].in, tasks[1].op, tasks[1].in = "content", w.inputs[5], "content", w.inputs[6]
			if n > 3 {
				tasks[2].op, tasks[2].in, tasks[3].op, tasks[3].in = "pdfstamp", w.inputs[3], "pdfstamp", w.inputs[0]
			}
		}
		if n >= 2 {
			tasks[0].delay, tasks[1].delay = 0, 0
		}
		res := make([]taskRes, n)
		var wg sync.WaitGroup
		start := make(chan struct{})
		for i := range tasks {
			wg.Add(1)
			go func(i int) {
				defer wg.Done()
				<-start
				time.Sleep(tasks[i].delay)
				t0 := time.Now()
				r := runTask(w, filepath.Join(work, fmt.Sprintf("r%d-g%d", round, i)), tasks[i].op, tasks[i].in)
				r.Round, r.G, r.N, r.Ms = round, i, n, time.Since(t0).Milliseconds()
				res[i] = r
			}(i)
		}
		close(start)
		if !waitOrHang(&wg, time.Duration(h.ArgInt("--watchdog", 600))*time.Second) {
			out.Close()
			var ts []string
			for _, t := range tasks {
				ts = append(ts, t.op+":"+t.in.name)
			}
			h.Summary(map[string]any{"hang": true, "round": round, "programs": ts, "stacks": blockedStacks("github.com/pdfcpu/pdfcpu/"), "procs": runtime.GOMAXPROCS(0)})
			os.Exit(0)
		}
		for _, r := range res {
			out.Put(r)
			total++
		}
	}
	// after the concurrent phase, in the SAME process: the cheap operations once more, one at a time (state left behind by
	// the concurrent phase or by an earlier operation shows up here); object-freeing operations first, then the readers
	post := 0
	type pair struct {
		op string
		ii int
	}
	// an object-freeing operation on the repaired input is directly followed by a reader of an xref-stream input
	plan := []pair{{"merge", 3}, {"read", 1}, {"rmpages", 3}, {"validate", 1}, {"optimize", 3}, {"read", 2}, {"split", 1}}
	seen := map[pair]bool{}
	for _, p := range plan {
		seen[p] = true
	}
	for _, op := range []string{"merge", "rmpages", "optimize", "read", "validate", "split", "encrypt"} {
		for ii := range w.inputs {
			if h.Arg("--post") == "full" && applicable(op, ii) && !seen[pair{op, ii}] {
				plan = append(plan, pair{op, ii})
			}
		}
	}
	for _, p := range plan {
		t0 := time.Now()
		r := runTask(w, filepath.Join(work, fmt.Sprintf("post-%s-%d", p.op, p.ii)), p.op, w.inputs[p.ii])
		r.Round, r.G, r.N, r.Ms = -1, post, 1, time.Since(t0).Milliseconds()
		out.Put(r)
		post++
	}
	h.Summary(map[string]any{"tasks": total, "post": post, "procs": runtime.GOMAXPROCS(0)})
}

// ------------------------------------------------------------------------------------------------ lifecycle replay

// One schedule of spec/ConcLife.tla replayed in THIS fresh process (the sync.Once state of the font cache exists once per
// process): calls (first lookup / lookup / reload) are started one after the other; the directory scan of whichever call
// loads the fonts is held open at a gate - the first .gob of the font directory is a named pipe, the harness holds its
// write end and feeds the font only when the schedule says Open. A watchdog decides "hang".
type lifeCase struct {
	ID     int      `json:"id"`
	Kinds  []string `json:"kinds"`  // "lookup" | "reload", in start order
	OpenAt int      `json:"openAt"` // the gate opens after this many calls were started
	Expect []struct {
		Obs   []int `json:"obs"`
		Found int   `json:"found"`
	} `json:"expect"`
}

type lifeCall struct {
	Kind          string `json:"kind"`
	API           string `json:"api"`
	Returned      bool   `json:"returned"`
	BeforeOpen    bool   `json:"before_open"` // had returned when the gate was still closed
	Obs           []int  `json:"obs"`
	Found         int    `json:"found"`
	Err           string `json:"err"`
	Ms            int64  `json:"ms"`
	StartedClosed bool   `json:"started_closed"`
}

type lifeRes struct {
	ID      int        `json:"id"`
	Kinds   []string   `json:"kinds"`
	OpenAt  int        `json:"openAt"`
	Procs   int        `json:"procs"`
	Arrived bool       `json:"arrived"` // the first call reached the directory scan (or no gate was needed)
	Hang    bool       `json:"hang"`
	Calls   []lifeCall `json:"calls"`
	Stacks  string     `json:"stacks"`
}

// blockedStacks: one line per goroutine whose stack contains the marker: header + the first functions of the stack.
func blockedStacks(marker string) string {
	buf := make([]byte, 1<<20)
	buf = buf[:runtime.Stack(buf, true)]
	var keep []string
	for _, g := range strings.Split(string(buf), "\n\n") {
		if strings.Contains(g, marker) {
			ls := strings.Split(g, "\n")
			var fn []string
			for _, l := range ls {
				if !strings.HasPrefix(l, "\t") && !strings.HasPrefix(l, "goroutine ") && !strings.HasPrefix(l, "created by") {
					if k := strings.LastIndex(l, "("); k > 0 {
						l = l[:k]
					}
					fn = append(fn, l)
				}
			}
			if len(fn) > 8 {
				fn = fn[:8]
			}
			keep = append(keep, ls[0]+" "+strings.Join(fn, " < "))
		}
	}
	if len(keep) > 12 {
		keep = keep[:12]
	}
	return strings.Join(keep, " || ")
}

// waitOrHang waits for wg; false when the watchdog expires first.
func waitOrHang(wg *sync.WaitGroup, d time.Duration) bool {
	ch := make(chan struct{})
	go func() { wg.Wait(); close(ch) }()
	select {
	case <-ch:
		return true
	case <-time.After(d):
		return false
	}
}

func cmdLife() {
	work, stage, out := h.Arg("--work"), h.Arg("--stage"), h.Arg("--out")
	watchdog := time.Duration(h.ArgInt("--watchdog", 20)) * time.Second
	var c lifeCase
	must(json.Unmarshal([]byte(h.Arg("--case")), &c), "case json")
	live := filepath.Join(work, "fonts")
	must(os.MkdirAll(live, 0755), "mkdir")
	fifo := filepath.Join(live, fontName(1)+".gob")
	gate := filepath.Join(work, "gate.fifo")
	must(syscall.Mkfifo(fifo, 0644), "mkfifo")
	must(os.Link(fifo, gate), "link fifo")
	for _, i := range []int{2, 3} {
		must(os.Link(filepath.Join(stage, fontName(i)+".gob"), filepath.Join(live, fontName(i)+".gob")), "link font")
	}
	gob1, err := os.ReadFile(filepath.Join(stage, fontName(1)+".gob"))
	must(err, "read staged font")
	font.UserFontDir = live // set once, before any goroutine is started

	n := len(c.Kinds)
	res := lifeRes{ID: c.ID, Kinds: c.Kinds, OpenAt: c.OpenAt, Procs: runtime.GOMAXPROCS(0), Calls: make([]lifeCall, n), Arrived: true}
	returned := make([]atomic.Bool, n)
	results := make([]lifeCall, n)
	done := make(chan int, n)
	var opened atomic.Bool
	var wfd *os.File
	feed := func(f *os.File) {
		f.Write(gob1)
		f.Close()
	}
	openGate := func() {
		for i := 0; i < n; i++ {
			res.Calls[i].BeforeOpen = returned[i].Load()
		}
		opened.Store(true)
		// scans that start from now on find a regular file
		tmp := filepath.Join(work, "font1.tmp")
		must(os.Link(filepath.Join(stage, fontName(1)+".gob"), tmp), "link font")
		must(os.Rename(tmp, fifo), "rename over fifo")
		// one feeder (never two writers at a time); a scan that resolved the name to the pipe just before the rename is
		// served as well
		held := wfd
		go func() {
			if held != nil {
				feed(held)
			}
			for {
				if f, err := os.OpenFile(gate, os.O_WRONLY|syscall.O_NONBLOCK, 0); err == nil {
					feed(f)
				}
				time.Sleep(2 * time.Millisecond)
			}
		}()
	}
	startCall := func(i int) {
		api := c.Kinds[i]
		if api == "lookup" {
			api = []string{"names", "isuser", "width"}[(c.ID+i)%3]
		}
		closed := !opened.Load()
		go func() {
			r := lifeCall{Kind: c.Kinds[i], API: api, Obs: []int{}, StartedClosed: closed}
			t0 := time.Now()
			var err error
			switch api {
			case "reload":
				err = font.ReloadUserFonts()
			case "names":
				var ss []string
				ss, err = font.UserFontNames()
				for _, s := range ss {
					r.Obs = append(r.Obs, fontIndex(s))
				}
				sort.Ints(r.Obs)
			case "isuser":
				var ok bool
				ok, err = font.IsUserFont(fontName(1))
				if ok {
					r.Found = 1
				}
			case "width":
				var wd float64
				wd, err = font.TextWidth("C40", fontName(1), 12)
				if err == nil && wd > 0 {
					r.Found = 1
				}
			}
			if err != nil {
				r.Err = err.Error()
			}
			r.Ms = time.Since(t0).Milliseconds()
			r.Returned = true
			results[i] = r
			returned[i].Store(true)
			done <- i
		}()
	}
	for i := 0; i < n; i++ {
		if i == c.OpenAt {
			openGate()
		}
		startCall(i)
		if !opened.Load() && wfd == nil {
			// wait until the loading call sits in the directory scan: its open of the pipe is answered by our write end
			res.Arrived = false
			for t0 := time.Now(); time.Since(t0) < 10*time.Second; time.Sleep(time.Millisecond) {
				if f, err := os.OpenFile(gate, os.O_WRONLY|syscall.O_NONBLOCK, 0); err == nil {
					wfd, res.Arrived = f, true
					break
				}
			}
		}
		time.Sleep(30 * time.Millisecond)
	}
	if c.OpenAt >= n {
		openGate()
	}
	got := 0
	timer := time.After(watchdog)
wait:
	for got < n {
		select {
		case <-done:
			got++
		case <-timer:
			res.Hang = true
			break wait
		}
	}
	for i := 0; i < n; i++ {
		bo := res.Calls[i].BeforeOpen
		if returned[i].Load() {
			res.Calls[i] = results[i]
		} else {
			res.Calls[i] = lifeCall{Kind: c.Kinds[i], API: c.Kinds[i], Obs: []int{}}
		}
		res.Calls[i].BeforeOpen = bo
	}
	if res.Hang {
		res.Stacks = blockedStacks("pdfcpu/pkg/font.")
	}
	w := h.NewW(out)
	w.Put(res)
	w.Close()
	h.Summary(map[string]any{"life": c.ID, "hang": res.Hang})
	os.Exit(0) // goroutines of a hung schedule never end
}

// ------------------------------------------------------------------------------------------------ control

// cmdControl: api.DisableConfigDir() called while other goroutines already run operations (the NOTE at
// mutexDisableConfigDir says it is no guard for model.ConfigPath). spec/Conc.tla with Break = "late_disable" predicts a
// race on the flag; the race detector must report it - this shows the detector is active in this binary.
func cmdControl() {
	var wg sync.WaitGroup
	for i := 0; i < 4; i++ {
		wg.Add(1)
		go func() {
			defer wg.Done()
			for k := 0; k < 200; k++ {
				_ = model.NewDefaultConfiguration()
			}
		}()
	}
	wg.Add(1)
	go func() {
		defer wg.Done()
		for k := 0; k < 50; k++ {
			api.DisableConfigDir()
			time.Sleep(50 * time.Microsecond)
		}
	}()
	wg.Wait()
	h.Summary(map[string]any{"control": "done"})
}
