package main

import (
	"bytes"
	"compress/zlib"
	"crypto/sha256"
	"encoding/hex"
	"encoding/json"
	"fmt"
	"io"
	"os"
	"path/filepath"
	"regexp"
	"sort"

	"github.com/pdfcpu/pdfcpu/pkg/api"
	"github.com/pdfcpu/pdfcpu/pkg/pdfcpu/model"
	"github.com/pdfcpu/pdfcpu/pkg/pdfcpu/types"
	"verif/harness/lib/h"
	"verif/harness/lib/proj"
)

type lkCase struct {
	Loc     string `json:"loc"`
	Alg     string `json:"alg"`
	Layout  string `json:"layout"`
	Emd     bool   `json:"emd"`
	Form    string `json:"form"`
	Upw     string `json:"upw"`
	Write   int    `json:"write"`
	MayLeak bool   `json:"mayleak"`
}

type lkRec struct {
	Loc     string `json:"loc"`
	Alg     string `json:"alg"`
	Layout  string `json:"layout"`
	Emd     bool   `json:"emd"`
	Form    string `json:"form"`
	Upw     string `json:"upw"`
	Write   int    `json:"write"` // 1: output of api.EncryptFile; 2: second write of one encrypting context
	Marker  string `json:"marker"`
	Carried bool   `json:"carried"` // the marker is in the document again after opening the output with the password
	Visible bool   `json:"visible"` // the marker can be found in the output without the key
	How     string `json:"how"`
}

var streamRe = regexp.MustCompile(`(?s)stream\r?\n(.*?)\r?\n?endstream`)

func contains(data []byte, forms [][]byte) bool {
	for _, f := range forms {
		if bytes.Contains(data, f) {
			return true
		}
	}
	return false
}

// unfiltered returns the readings of raw stream data that need no key: as is, inflated, hex-decoded.
func unfiltered(raw []byte) map[string][]byte {
	out := map[string][]byte{}
	if r, err := zlib.NewReader(bytes.NewReader(raw)); err == nil {
		if b, _ := io.ReadAll(r); len(b) > 0 {
			out["inflated stream"] = b
			// object streams and the like may hold hex strings
		}
	}
	clean := bytes.Map(func(r rune) rune {
		if r == ' ' || r == '\n' || r == '\r' || r == '>' {
			return -1
		}
		return r
	}, raw)
	if len(clean) > 0 && len(clean)%2 == 0 {
		if b, err := hex.DecodeString(string(clean)); err == nil {
			out["hex-decoded stream"] = b
		}
	}
	return out
}

// visibleIn searches the encrypted file for the marker without using any key.
func visibleIn(file []byte, marker string) (bool, string) {
	forms := markerForms(marker)
	if contains(file, forms) {
		return true, "raw bytes"
	}
	for _, m := range streamRe.FindAllSubmatch(file, -1) {
		for how, data := range unfiltered(m[1]) {
			if contains(data, forms) {
				return true, how
			}
		}
	}
	return false, ""
}

// carriedIn reports whether the marker is present in the opened (decrypted in memory) document.
func carriedIn(ctx *model.Context, marker string) bool {
	forms := markerForms(marker)
	nums := make([]int, 0, len(ctx.XRefTable.Table))
	for n := range ctx.XRefTable.Table {
		nums = append(nums, n)
	}
	sort.Ints(nums)
	for _, n := range nums {
		o, err := ctx.Dereference(*types.NewIndirectRef(n, 0))
		if err != nil || o == nil {
			continue
		}
		if sd, ok := o.(types.StreamDict); ok {
			if contains([]byte(sd.Dict.PDFString()), forms) {
				return true
			}
			if err := sd.Decode(); err == nil && contains(sd.Content, forms) {
				return true
			}
			if contains(sd.Raw, forms) {
				return true
			}
			continue
		}
		if contains([]byte(o.PDFString()), forms) {
			return true
		}
	}
	return false
}

func c23(in, out string, shard, of int) {
	dir, err := os.MkdirTemp("", "sec-c23-")
	if err != nil {
		h.Die("tmp: %v", err)
	}
	defer os.RemoveAll(dir)
	w := h.NewW(out)
	defer w.Close()
	seed := h.ArgInt("--seed", 1)
	// group the cases by document: (algorithm, layout, string form, user password kind)
	type gkey struct{ alg, layout, form, upw string }
	groups := map[gkey][]lkCase{}
	var order []gkey
	total := 0
	err = h.EachLine(in, func(line []byte) error {
		var c lkCase
		if err := json.Unmarshal(line, &c); err != nil {
			return err
		}
		total++
		k := gkey{c.Alg, c.Layout, c.Form, c.Upw}
		if _, ok := groups[k]; !ok {
			order = append(order, k)
		}
		groups[k] = append(groups[k], c)
		return nil
	})
	if err != nil {
		h.Die("c23: %v", err)
	}
	sort.Slice(order, func(i, j int) bool { return fmt.Sprint(order[i]) < fmt.Sprint(order[j]) })
	n, docs, visible, carried := 0, 0, 0, 0
	for gi, k := range order {
		if gi%of != shard {
			continue
		}
		mk := func(loc string) string {
			s := sha256.Sum256([]byte(fmt.Sprintf("%d/%s/%s/%s/%s/%s", seed, k.alg, k.layout, k.form, k.upw, loc)))
			return hex.EncodeToString(s[:16])
		}
		version := "1.7"
		if k.alg == "aes_256_r6" {
			version = "2.0"
		}
		upw := ""
		if k.upw == "set" {
			upw = "user-pw"
		}
		// two documents: without and with a signature field (signed documents may be treated differently)
		type output struct {
			ctx  *model.Context // the output opened with the owner password (nil: it does not open)
			file []byte
		}
		type built struct{ out [3]*output } // by write number
		reopen := func(file []byte, name string) *output {
			p := filepath.Join(dir, name)
			if err := os.WriteFile(p, file, 0o644); err != nil {
				h.Die("write: %v", err)
			}
			ctx, err := proj.Context(p, pwConf("", "owner-pw"))
			if err != nil {
				// the output cannot be opened any more: nothing is carried, visibility is still judged
				ctx = nil
			}
			return &output{ctx, file}
		}
		build := func(sig bool) *built {
			d := richDocForm(version, mk, sig, k.form, true)
			b := d.Bytes()
			if k.layout == "objstm" {
				b = xrefStreamBytes(d)
			}
			src := filepath.Join(dir, "src.pdf")
			enc := filepath.Join(dir, "enc.pdf")
			os.Remove(enc)
			if err := os.WriteFile(src, b, 0o644); err != nil {
				h.Die("write: %v", err)
			}
			// write 1: the encrypt operation of the file API
			if err := api.EncryptFile(src, enc, encConf(k.alg, upw, "owner-pw")); err != nil {
				h.Die("cannot encrypt the generated document (%v, sig=%v): %v", k, sig, err)
			}
			docs++
			file, _ := os.ReadFile(enc)
			res := &built{}
			res.out[1] = reopen(file, "enc1.pdf")
			// write 2: one encrypting context written to two destinations (write, reset the write context, write again);
			// the second output is the one judged
			conf := encConf(k.alg, upw, "owner-pw")
			conf.Cmd = model.ENCRYPT
			ctx, err := api.ReadValidateAndOptimize(bytes.NewReader(b), conf)
			if err != nil {
				h.Die("cannot read the generated document for encryption (%v, sig=%v): %v", k, sig, err)
			}
			var first, second bytes.Buffer
			if err := api.WriteContext(ctx, &first); err != nil {
				h.Die("first write of the encrypting context (%v, sig=%v): %v", k, sig, err)
			}
			ctx.ResetWriteContext()
			if err := api.WriteContext(ctx, &second); err != nil {
				h.Die("second write of the encrypting context (%v, sig=%v): %v", k, sig, err)
			}
			docs++
			res.out[2] = reopen(second.Bytes(), "enc2.pdf")
			return res
		}
		var plain, signed *built
		for _, c := range groups[k] {
			n++
			var bt *built
			if c.Loc == "sigcontents" || c.Loc == "sigwidget" || c.Loc == "sigmeta" {
				if signed == nil {
					signed = build(true)
				}
				bt = signed
			} else {
				if plain == nil {
					plain = build(false)
				}
				bt = plain
			}
			if c.Write < 1 || c.Write > 2 {
				h.Die("unknown write number %d", c.Write)
			}
			b := bt.out[c.Write]
			m := mk(c.Loc)
			r := lkRec{Loc: c.Loc, Alg: c.Alg, Layout: c.Layout, Emd: c.Emd, Form: c.Form, Upw: c.Upw, Write: c.Write, Marker: m}
			r.Visible, r.How = visibleIn(b.file, m)
			if b.ctx != nil {
				r.Carried = carriedIn(b.ctx, m)
			}
			if r.Visible {
				visible++
			}
			if r.Carried {
				carried++
			}
			w.Put(r)
		}
	}
	h.Summary(map[string]any{"total": total, "cases": n, "docs": docs, "visible": visible, "carried": carried})
}
