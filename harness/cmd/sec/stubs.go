package main

func c26(in, out string, shard, of int) {}
func c22(in, out string, shard, of int) {}
func c23(in, out string, shard, of int) {}
