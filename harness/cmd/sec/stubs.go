package main

func c23(in, out string, shard, of int) {}
