package main

import (
	"fmt"
	"os"
	"strings"

	"github.com/pdfcpu/pdfcpu/pkg/api"
	"github.com/pdfcpu/pdfcpu/pkg/pdfcpu/model"
	"github.com/pdfcpu/pdfcpu/pkg/pdfcpu/types"
	"verif/harness/lib/rawpdf"
)

func get(f string, c *model.Configuration) string {
	fh, _ := os.Open(f)
	defer fh.Close()
	ctx, err := api.ReadAndValidate(fh, c)
	if err != nil {
		return "ERR " + err.Error()
	}
	d, _ := ctx.DereferenceDict(*ctx.Info)
	o := d["Title"]
	if sl, ok := o.(types.StringLiteral); ok {
		return sl.Value()
	}
	return fmt.Sprintf("%T %v", o, o)
}

func main() {
	api.DisableConfigDir()
	d := "/tmp/sec-probe/"
	for _, n := range []int{100, 1000, 4000, 8000, 12000, 16000, 20000} {
		s := strings.Repeat("abcdefghij", n/10)
		doc := rawpdf.MarkerDoc([]rawpdf.PageSpec{{Marker: "m", Rotate: -1}}, rawpdf.MarkerOpts{InfoDict: "/Title (" + s + ")"})
		os.WriteFile(d+"l.pdf", doc.Bytes(), 0o644)
		for _, alg := range []string{"aes", "rc4"} {
			c := model.NewAESConfiguration("u", "o", 256)
			if alg == "rc4" {
				c = model.NewRC4Configuration("u", "o", 128)
			}
			os.Remove(d + "le.pdf")
			err := api.EncryptFile(d+"l.pdf", d+"le.pdf", c)
			c2 := model.NewDefaultConfiguration()
			c2.UserPW = "u"
			got := get(d+"le.pdf", c2)
			ok := got == s
			if len(got) > 60 {
				got = got[:60]
			}
			fmt.Printf("n=%d %s enc=%v same=%v got=%q\n", n, alg, err, ok, got)
		}
	}
}
