package main

import (
	"fmt"
	"os"
	"strings"

	"github.com/pdfcpu/pdfcpu/pkg/api"
	"github.com/pdfcpu/pdfcpu/pkg/pdfcpu/model"
)

func dump(f string, c *model.Configuration) {
	fh, _ := os.Open(f)
	ctx, err := api.ReadAndValidate(fh, c)
	if err != nil {
		fmt.Println(f, err)
		return
	}
	for n := 1; n < *ctx.XRefTable.Size; n++ {
		e, ok := ctx.XRefTable.Table[n]
		if !ok || e.Object == nil {
			continue
		}
		s := e.Object.PDFString()
		if i := strings.Index(s, "AAPL:AKAnnotationObject"); i >= 0 && n == 136 {
			j := i + 90
			if j > len(s) {
				j = len(s)
			}
			fmt.Printf("%s obj %d len=%d: %q\n", f, n, len(s), s[i:j])
		}
	}
}

func main() {
	api.DisableConfigDir()
	src := os.Args[1]
	d := "/tmp/sec-probe/"
	dump(src, model.NewDefaultConfiguration())
	for _, alg := range []string{"aes", "rc4"} {
		c := model.NewAESConfiguration("u", "o", 256)
		if alg == "rc4" {
			c = model.NewRC4Configuration("u", "o", 128)
		}
		fmt.Println("enc", api.EncryptFile(src, d+"e.pdf", c))
		c2 := model.NewDefaultConfiguration()
		c2.UserPW = "u"
		dump(d+"e.pdf", c2)
	}
	fmt.Println("opt", api.OptimizeFile(src, d+"o.pdf", model.NewDefaultConfiguration()))
	dump(d+"o.pdf", model.NewDefaultConfiguration())
}
