package main

import (
	"fmt"
	"os"
	"strings"

	"github.com/pdfcpu/pdfcpu/pkg/api"
	"github.com/pdfcpu/pdfcpu/pkg/pdfcpu/model"
	"github.com/pdfcpu/pdfcpu/pkg/pdfcpu/types"
)

func scan(f string, c *model.Configuration) {
	fh, _ := os.Open(f)
	defer fh.Close()
	ctx, err := api.ReadAndValidate(fh, c)
	if err != nil {
		fmt.Println("ERR", err)
		return
	}
	okc, bad := 0, []string{}
	for n := 1; n < *ctx.XRefTable.Size; n++ {
		e, ok := ctx.XRefTable.Table[n]
		if !ok || e.Object == nil {
			continue
		}
		d, isd := e.Object.(types.Dict)
		if !isd {
			continue
		}
		if _, has := d["AAPL:AKAnnotationObject"]; !has {
			if len(d) == 0 {
				bad = append(bad, fmt.Sprintf("%d:emptydict(compressed=%v)", n, e.Compressed))
			}
			continue
		}
		s := d["AAPL:AKAnnotationObject"].(types.StringLiteral).Value()
		if strings.HasPrefix(s, "YnBsaXN0") {
			okc++
		} else {
			bad = append(bad, fmt.Sprintf("%d:len%d(compressed=%v)", n, len(s), e.Compressed))
		}
	}
	fmt.Println(f, "ok", okc, "bad", bad)
}

func main() {
	api.DisableConfigDir()
	src := os.Args[1]
	d := "/tmp/sec-probe/"
	scan(src, model.NewDefaultConfiguration())
	for _, alg := range []string{"aes", "rc4"} {
		c := model.NewAESConfiguration("u", "o", 256)
		if alg == "rc4" {
			c = model.NewRC4Configuration("u", "o", 128)
		}
		os.Remove(d + "e.pdf")
		fmt.Println("enc", api.EncryptFile(src, d+"e.pdf", c))
		c2 := model.NewDefaultConfiguration()
		c2.UserPW = "u"
		scan(d+"e.pdf", c2)
	}
}
