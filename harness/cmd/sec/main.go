// sec: bindings of the Sec.tla family of specifications (C22 C23 C25 C26) to the real pdfcpu code.
//
//	sec c25split --in cases.ndjson --prefix p --n k                 distribute the SecHist.tla cases over k shard files
//	sec c25 --in shard.ndjson --out mism.ndjson --shard i --of n   replay TLC histories (SecHist.tla) through the *File API
//	sec c26 --in cases.ndjson --out records.ndjson                 end-to-end permission matrix records (judged by SecPermTrace.tla)
//	sec c22 --in cases.ndjson --out mism.ndjson                    encrypt/open/decrypt round trips (SecRT.tla cases)
//	sec c23 --in cases.ndjson --out records.ndjson                 plaintext-marker visibility records (judged by SecLeakTrace.tla)
package main

import (
	"errors"
	"os"

	"github.com/pdfcpu/pdfcpu/pkg/api"
	"github.com/pdfcpu/pdfcpu/pkg/pdfcpu"
	"github.com/pdfcpu/pdfcpu/pkg/pdfcpu/model"
	"verif/harness/lib/h"
)

// cls maps an error of the real API to the outcome classes of Sec.tla.
func cls(err error) string {
	switch {
	case err == nil:
		return "ok"
	case errors.Is(err, pdfcpu.ErrWrongPassword):
		return "ErrWrongPassword"
	case errors.Is(err, pdfcpu.ErrOwnerPasswordRequired):
		return "ErrOwnerPasswordRequired"
	case errors.Is(err, pdfcpu.ErrPermissionDenied):
		return "ErrPermissionDenied"
	case errors.Is(err, pdfcpu.ErrNotEncrypted):
		return "ErrNotEncrypted"
	case errors.Is(err, pdfcpu.ErrEncrypted):
		return "ErrEncrypted"
	}
	return "other: " + err.Error()
}

// encConf returns the configuration selecting one of the algorithm / key length pairs of Sec!Algs.
func encConf(alg, u, o string) *model.Configuration {
	var c *model.Configuration
	switch alg {
	case "rc4_40":
		c = model.NewRC4Configuration(u, o, 40)
	case "rc4_128":
		c = model.NewRC4Configuration(u, o, 128)
	case "aes_128":
		c = model.NewAESConfiguration(u, o, 128)
	case "aes_256", "aes_256_r6":
		c = model.NewAESConfiguration(u, o, 256)
	default:
		h.Die("unknown algorithm %q", alg)
	}
	return c
}

// pwConf is a plain configuration carrying the supplied passwords.
func pwConf(u, o string) *model.Configuration {
	c := model.NewDefaultConfiguration()
	c.UserPW, c.OwnerPW = u, o
	return c
}

// permFlags converts a signed /P value of the model to the 16-bit flag form the API takes (e.g. -3901 -> 0xF0C3).
func permFlags(p int) model.PermissionFlags { return model.PermissionFlags(uint16(int16(p))) }

func main() {
	api.DisableConfigDir()
	if len(os.Args) < 2 {
		h.Die("usage: sec c25|c26|c22|c23 ...")
	}
	switch os.Args[1] {
	case "c25split":
		c25split(h.Arg("--in"), h.Arg("--prefix"), h.ArgInt("--n", 1))
	case "c25":
		c25(h.Arg("--in"), h.Arg("--out"), h.ArgInt("--shard", 0), h.ArgInt("--of", 1))
	case "c26":
		c26(h.Arg("--in"), h.Arg("--out"), h.ArgInt("--shard", 0), h.ArgInt("--of", 1))
	case "c22":
		c22(h.Arg("--in"), h.Arg("--out"), h.ArgInt("--shard", 0), h.ArgInt("--of", 1))
	case "c23":
		c23(h.Arg("--in"), h.Arg("--out"), h.ArgInt("--shard", 0), h.ArgInt("--of", 1))
	default:
		h.Die("usage: sec c25|c26|c22|c23 ...")
	}
}
