package main

import (
	"bytes"
	"encoding/json"
	"errors"
	"fmt"
	"os"
	"path/filepath"
	"sort"

	"github.com/pdfcpu/pdfcpu/pkg/api"
	"github.com/pdfcpu/pdfcpu/pkg/pdfcpu"
	"github.com/pdfcpu/pdfcpu/pkg/pdfcpu/model"
	"github.com/pdfcpu/pdfcpu/pkg/pdfcpu/types"
	"verif/harness/lib/h"
	"verif/harness/lib/proj"
	"verif/harness/lib/rawpdf"
)

// The command modes of Sec.tla (NeedsTable and Unclassified) by name.
var modeByName = map[string]model.CommandMode{
	"VALIDATE": model.VALIDATE, "LISTINFO": model.LISTINFO, "OPTIMIZE": model.OPTIMIZE, "SPLIT": model.SPLIT,
	"SPLITBYPAGENR": model.SPLITBYPAGENR, "MERGECREATE": model.MERGECREATE, "MERGECREATEZIP": model.MERGECREATEZIP,
	"MERGEAPPEND": model.MERGEAPPEND, "EXTRACTIMAGES": model.EXTRACTIMAGES, "EXTRACTFONTS": model.EXTRACTFONTS,
	"EXTRACTPAGES": model.EXTRACTPAGES, "EXTRACTCONTENT": model.EXTRACTCONTENT, "EXTRACTMETADATA": model.EXTRACTMETADATA,
	"TRIM": model.TRIM, "LISTATTACHMENTS": model.LISTATTACHMENTS, "EXTRACTATTACHMENTS": model.EXTRACTATTACHMENTS,
	"ADDATTACHMENTS": model.ADDATTACHMENTS, "ADDATTACHMENTSPORTFOLIO": model.ADDATTACHMENTSPORTFOLIO,
	"REMOVEATTACHMENTS": model.REMOVEATTACHMENTS, "LISTPERMISSIONS": model.LISTPERMISSIONS, "SETPERMISSIONS": model.SETPERMISSIONS,
	"ADDWATERMARKS": model.ADDWATERMARKS, "REMOVEWATERMARKS": model.REMOVEWATERMARKS, "IMPORTIMAGES": model.IMPORTIMAGES,
	"INSERTPAGESBEFORE": model.INSERTPAGESBEFORE, "INSERTPAGESAFTER": model.INSERTPAGESAFTER, "REMOVEPAGES": model.REMOVEPAGES,
	"LISTKEYWORDS": model.LISTKEYWORDS, "ADDKEYWORDS": model.ADDKEYWORDS, "REMOVEKEYWORDS": model.REMOVEKEYWORDS,
	"LISTPROPERTIES": model.LISTPROPERTIES, "ADDPROPERTIES": model.ADDPROPERTIES, "REMOVEPROPERTIES": model.REMOVEPROPERTIES,
	"COLLECT": model.COLLECT, "CROP": model.CROP, "LISTBOXES": model.LISTBOXES, "ADDBOXES": model.ADDBOXES,
	"REMOVEBOXES": model.REMOVEBOXES, "LISTANNOTATIONS": model.LISTANNOTATIONS, "ADDANNOTATIONS": model.ADDANNOTATIONS,
	"REMOVEANNOTATIONS": model.REMOVEANNOTATIONS, "ROTATE": model.ROTATE, "NUP": model.NUP, "GRID": model.GRID,
	"BOOKLET": model.BOOKLET, "LISTBOOKMARKS": model.LISTBOOKMARKS, "ADDBOOKMARKS": model.ADDBOOKMARKS,
	"REMOVEBOOKMARKS": model.REMOVEBOOKMARKS, "IMPORTBOOKMARKS": model.IMPORTBOOKMARKS, "EXPORTBOOKMARKS": model.EXPORTBOOKMARKS,
	"LISTIMAGES": model.LISTIMAGES, "UPDATEIMAGES": model.UPDATEIMAGES, "CREATE": model.CREATE, "DUMP": model.DUMP,
	"LISTFORMFIELDS": model.LISTFORMFIELDS, "REMOVEFORMFIELDS": model.REMOVEFORMFIELDS, "LOCKFORMFIELDS": model.LOCKFORMFIELDS,
	"UNLOCKFORMFIELDS": model.UNLOCKFORMFIELDS, "RESETFORMFIELDS": model.RESETFORMFIELDS, "EXPORTFORMFIELDS": model.EXPORTFORMFIELDS,
	"FILLFORMFIELDS": model.FILLFORMFIELDS, "MULTIFILLFORMFIELDS": model.MULTIFILLFORMFIELDS, "ENCRYPT": model.ENCRYPT,
	"DECRYPT": model.DECRYPT, "CHANGEUPW": model.CHANGEUPW, "CHANGEOPW": model.CHANGEOPW, "CHEATSHEETSFONTS": model.CHEATSHEETSFONTS,
	"INSTALLFONTS": model.INSTALLFONTS, "LISTFONTS": model.LISTFONTS, "RESIZE": model.RESIZE, "POSTER": model.POSTER,
	"NDOWN": model.NDOWN, "CUT": model.CUT, "LISTPAGELAYOUT": model.LISTPAGELAYOUT, "SETPAGELAYOUT": model.SETPAGELAYOUT,
	"RESETPAGELAYOUT": model.RESETPAGELAYOUT, "LISTPAGEMODE": model.LISTPAGEMODE, "SETPAGEMODE": model.SETPAGEMODE,
	"RESETPAGEMODE": model.RESETPAGEMODE, "LISTVIEWERPREFERENCES": model.LISTVIEWERPREFERENCES,
	"SETVIEWERPREFERENCES": model.SETVIEWERPREFERENCES, "RESETVIEWERPREFERENCES": model.RESETVIEWERPREFERENCES, "ZOOM": model.ZOOM,
	"LISTCERTIFICATES": model.LISTCERTIFICATES, "INSPECTCERTIFICATES": model.INSPECTCERTIFICATES,
	"IMPORTCERTIFICATES": model.IMPORTCERTIFICATES, "VALIDATESIGNATURES": model.VALIDATESIGNATURES,
	"REMOVESIGNATURES": model.REMOVESIGNATURES, "ADDSIGNATURE": model.ADDSIGNATURE,
}

// fileOp is a real file operation of the public API belonging to one command mode.
type fileOp struct {
	mode string
	name string
	run  func(in, outDir string, c *model.Configuration) error
}

func fileOps() []fileOp {
	out := func(d string) string { return filepath.Join(d, "out.pdf") }
	mk := func(mode, name string, f func(in, outDir string, c *model.Configuration) error) fileOp {
		return fileOp{mode, name, f}
	}
	return []fileOp{
		mk("VALIDATE", "ValidateFile", func(in, d string, c *model.Configuration) error { return api.ValidateFile(in, c) }),
		mk("OPTIMIZE", "OptimizeFile", func(in, d string, c *model.Configuration) error { return api.OptimizeFile(in, out(d), c) }),
		mk("SPLIT", "SplitFile", func(in, d string, c *model.Configuration) error { return api.SplitFile(in, d, 1, c) }),
		mk("SPLITBYPAGENR", "SplitByPageNrFile", func(in, d string, c *model.Configuration) error { return api.SplitByPageNrFile(in, d, []int{2}, c) }),
		mk("EXTRACTIMAGES", "ExtractImagesFile", func(in, d string, c *model.Configuration) error { return api.ExtractImagesFile(in, d, nil, c) }),
		mk("EXTRACTFONTS", "ExtractFontsFile", func(in, d string, c *model.Configuration) error { return api.ExtractFontsFile(in, d, nil, c) }),
		mk("EXTRACTPAGES", "ExtractPagesFile", func(in, d string, c *model.Configuration) error { return api.ExtractPagesFile(in, d, []string{"1"}, c) }),
		mk("EXTRACTCONTENT", "ExtractContentFile", func(in, d string, c *model.Configuration) error { return api.ExtractContentFile(in, d, []string{"1"}, c) }),
		mk("EXTRACTMETADATA", "ExtractMetadataFile", func(in, d string, c *model.Configuration) error { return api.ExtractMetadataFile(in, d, c) }),
		mk("TRIM", "TrimFile", func(in, d string, c *model.Configuration) error { return api.TrimFile(in, out(d), []string{"1"}, c) }),
		mk("EXTRACTATTACHMENTS", "ExtractAttachmentsFile", func(in, d string, c *model.Configuration) error { return api.ExtractAttachmentsFile(in, d, nil, c) }),
		mk("ADDATTACHMENTS", "AddAttachmentsFile", func(in, d string, c *model.Configuration) error {
			a := filepath.Join(d, "att.txt")
			if err := os.WriteFile(a, []byte("attachment"), 0o644); err != nil {
				return err
			}
			return api.AddAttachmentsFile(in, out(d), []string{a}, false, c)
		}),
		mk("REMOVEATTACHMENTS", "RemoveAttachmentsFile", func(in, d string, c *model.Configuration) error { return api.RemoveAttachmentsFile(in, out(d), nil, c) }),
		mk("SETPERMISSIONS", "SetPermissionsFile", func(in, d string, c *model.Configuration) error {
			c.Permissions = model.PermissionsAll
			return api.SetPermissionsFile(in, out(d), c)
		}),
		mk("ADDWATERMARKS", "AddTextWatermarksFile", func(in, d string, c *model.Configuration) error {
			return api.AddTextWatermarksFile(in, out(d), nil, true, "Draft", "scale:0.5", c)
		}),
		mk("REMOVEWATERMARKS", "RemoveWatermarksFile", func(in, d string, c *model.Configuration) error { return api.RemoveWatermarksFile(in, out(d), nil, c) }),
		mk("INSERTPAGESBEFORE", "InsertPagesFile(before)", func(in, d string, c *model.Configuration) error { return api.InsertPagesFile(in, out(d), []string{"1"}, true, nil, c) }),
		mk("INSERTPAGESAFTER", "InsertPagesFile(after)", func(in, d string, c *model.Configuration) error { return api.InsertPagesFile(in, out(d), []string{"1"}, false, nil, c) }),
		mk("REMOVEPAGES", "RemovePagesFile", func(in, d string, c *model.Configuration) error { return api.RemovePagesFile(in, out(d), []string{"2"}, c) }),
		mk("ADDKEYWORDS", "AddKeywordsFile", func(in, d string, c *model.Configuration) error { return api.AddKeywordsFile(in, out(d), []string{"alpha"}, c) }),
		mk("REMOVEKEYWORDS", "RemoveKeywordsFile", func(in, d string, c *model.Configuration) error { return api.RemoveKeywordsFile(in, out(d), nil, c) }),
		mk("ADDPROPERTIES", "AddPropertiesFile", func(in, d string, c *model.Configuration) error {
			return api.AddPropertiesFile(in, out(d), map[string]string{"k1": "v1"}, c)
		}),
		mk("REMOVEPROPERTIES", "RemovePropertiesFile", func(in, d string, c *model.Configuration) error { return api.RemovePropertiesFile(in, out(d), nil, c) }),
		mk("COLLECT", "CollectFile", func(in, d string, c *model.Configuration) error { return api.CollectFile(in, out(d), []string{"2", "1"}, c) }),
		mk("CROP", "CropFile", func(in, d string, c *model.Configuration) error {
			b, err := api.Box("[10 10 200 200]", types.POINTS)
			if err != nil {
				h.Die("box: %v", err)
			}
			return api.CropFile(in, out(d), nil, b, c)
		}),
		mk("LISTBOXES", "ListBoxesFile", func(in, d string, c *model.Configuration) error {
			pb, err := api.PageBoundariesFromBoxList("crop")
			if err != nil {
				h.Die("pb: %v", err)
			}
			_, err = api.ListBoxesFile(in, nil, pb, c)
			return err
		}),
		mk("ADDBOXES", "AddBoxesFile", func(in, d string, c *model.Configuration) error {
			pb, err := api.PageBoundaries("crop:[10 10 200 200]", types.POINTS)
			if err != nil {
				h.Die("pb: %v", err)
			}
			return api.AddBoxesFile(in, out(d), nil, pb, c)
		}),
		mk("REMOVEBOXES", "RemoveBoxesFile", func(in, d string, c *model.Configuration) error {
			pb, err := api.PageBoundariesFromBoxList("crop")
			if err != nil {
				h.Die("pb: %v", err)
			}
			return api.RemoveBoxesFile(in, out(d), nil, pb, c)
		}),
		mk("ADDANNOTATIONS", "AddAnnotationsFile", func(in, d string, c *model.Configuration) error {
			ann := model.NewTextAnnotation(*types.NewRectangle(10, 10, 50, 50), 0, "note", "id1", "", 0, nil, "", nil, nil, "", "", 0, 0, 0, true, "Comment")
			return api.AddAnnotationsFile(in, out(d), []string{"1"}, ann, c, false)
		}),
		mk("REMOVEANNOTATIONS", "RemoveAnnotationsFile", func(in, d string, c *model.Configuration) error {
			return api.RemoveAnnotationsFile(in, out(d), nil, nil, nil, c, false)
		}),
		mk("ROTATE", "RotateFile", func(in, d string, c *model.Configuration) error { return api.RotateFile(in, out(d), 90, nil, c) }),
		mk("NUP", "NUpFile", func(in, d string, c *model.Configuration) error {
			n, err := api.PDFNUpConfig(2, "", model.NewDefaultConfiguration())
			if err != nil {
				h.Die("nup: %v", err)
			}
			return api.NUpFile([]string{in}, out(d), nil, n, c)
		}),
		mk("GRID", "GridFile", func(in, d string, c *model.Configuration) error {
			g, err := api.PDFGridConfig(1, 2, "", model.NewDefaultConfiguration())
			if err != nil {
				h.Die("grid: %v", err)
			}
			return api.GridFile([]string{in}, out(d), nil, g, c)
		}),
		mk("BOOKLET", "BookletFile", func(in, d string, c *model.Configuration) error {
			b, err := api.PDFBookletConfig(4, "", model.NewDefaultConfiguration())
			if err != nil {
				h.Die("booklet: %v", err)
			}
			return api.BookletFile([]string{in}, out(d), nil, b, c)
		}),
		mk("LISTBOOKMARKS", "ListBookmarksFile", func(in, d string, c *model.Configuration) error {
			_, err := api.ListBookmarksFile(in, c)
			return err
		}),
		mk("ADDBOOKMARKS", "AddBookmarksFile", func(in, d string, c *model.Configuration) error {
			return api.AddBookmarksFile(in, out(d), []pdfcpu.Bookmark{{PageFrom: 1, Title: "One"}}, true, c)
		}),
		mk("REMOVEBOOKMARKS", "RemoveBookmarksFile", func(in, d string, c *model.Configuration) error { return api.RemoveBookmarksFile(in, out(d), c) }),
		mk("EXPORTBOOKMARKS", "ExportBookmarksFile", func(in, d string, c *model.Configuration) error {
			return api.ExportBookmarksFile(in, filepath.Join(d, "bm.json"), c)
		}),
		mk("REMOVEFORMFIELDS", "RemoveFormFieldsFile", func(in, d string, c *model.Configuration) error {
			return api.RemoveFormFieldsFile(in, out(d), []string{"f1"}, c)
		}),
		mk("LOCKFORMFIELDS", "LockFormFieldsFile", func(in, d string, c *model.Configuration) error { return api.LockFormFieldsFile(in, out(d), nil, c) }),
		mk("UNLOCKFORMFIELDS", "UnlockFormFieldsFile", func(in, d string, c *model.Configuration) error { return api.UnlockFormFieldsFile(in, out(d), nil, c) }),
		mk("RESETFORMFIELDS", "ResetFormFieldsFile", func(in, d string, c *model.Configuration) error { return api.ResetFormFieldsFile(in, out(d), nil, c) }),
		mk("EXPORTFORMFIELDS", "ExportFormFile", func(in, d string, c *model.Configuration) error {
			return api.ExportFormFile(in, filepath.Join(d, "form.json"), c)
		}),
		mk("DECRYPT", "DecryptFile", func(in, d string, c *model.Configuration) error { return api.DecryptFile(in, out(d), c) }),
		mk("CHANGEUPW", "ChangeUserPasswordFile", func(in, d string, c *model.Configuration) error {
			return api.ChangeUserPasswordFile(in, out(d), c.UserPW, "new", c)
		}),
		mk("CHANGEOPW", "ChangeOwnerPasswordFile", func(in, d string, c *model.Configuration) error {
			return api.ChangeOwnerPasswordFile(in, out(d), c.OwnerPW, "new", c)
		}),
		mk("ENCRYPT", "EncryptFile", func(in, d string, c *model.Configuration) error {
			if c.OwnerPW == "" {
				c.OwnerPW = "x"
			}
			return api.EncryptFile(in, out(d), c)
		}),
		mk("RESIZE", "ResizeFile", func(in, d string, c *model.Configuration) error {
			r, err := pdfcpu.ParseResizeConfig("scale:0.5", types.POINTS)
			if err != nil {
				h.Die("resize: %v", err)
			}
			return api.ResizeFile(in, out(d), nil, r, c)
		}),
		mk("LISTPAGELAYOUT", "ListPageLayoutFile", func(in, d string, c *model.Configuration) error {
			_, err := api.ListPageLayoutFile(in, c)
			return err
		}),
		mk("SETPAGELAYOUT", "SetPageLayoutFile", func(in, d string, c *model.Configuration) error {
			return api.SetPageLayoutFile(in, out(d), model.PageLayoutTwoColumnLeft, c)
		}),
		mk("RESETPAGELAYOUT", "ResetPageLayoutFile", func(in, d string, c *model.Configuration) error { return api.ResetPageLayoutFile(in, out(d), c) }),
		mk("LISTPAGEMODE", "ListPageModeFile", func(in, d string, c *model.Configuration) error {
			_, err := api.ListPageModeFile(in, c)
			return err
		}),
		mk("SETPAGEMODE", "SetPageModeFile", func(in, d string, c *model.Configuration) error {
			return api.SetPageModeFile(in, out(d), model.PageModeUseOutlines, c)
		}),
		mk("RESETPAGEMODE", "ResetPageModeFile", func(in, d string, c *model.Configuration) error { return api.ResetPageModeFile(in, out(d), c) }),
		mk("LISTVIEWERPREFERENCES", "ListViewerPreferencesFile", func(in, d string, c *model.Configuration) error {
			_, err := api.ListViewerPreferencesFile(in, true, false, c)
			return err
		}),
		mk("RESETVIEWERPREFERENCES", "ResetViewerPreferencesFile", func(in, d string, c *model.Configuration) error {
			return api.ResetViewerPreferencesFile(in, out(d), c)
		}),
		mk("ZOOM", "ZoomFile", func(in, d string, c *model.Configuration) error {
			z, err := pdfcpu.ParseZoomConfig("factor:0.5", types.POINTS)
			if err != nil {
				h.Die("zoom: %v", err)
			}
			return api.ZoomFile(in, out(d), nil, z, c)
		}),
	}
}

type pdoc struct {
	Alg string `json:"alg"`
	P   int    `json:"p"`
	API bool   `json:"api"`
}

// prec is one record: a really encrypted document, a supplied password pair and the outcome for every command mode
// (via "read") or every catalogued file operation (via "api").
type prec struct {
	Alg  string  `json:"alg"`
	Upw  string  `json:"upw"`
	Opw  string  `json:"opw"`
	P    int     `json:"p"`
	U    string  `json:"u"`
	O    string  `json:"o"`
	Via  string  `json:"via"`
	Outs []pitem `json:"outs"`
}

type pitem struct {
	Mode string `json:"mode"`
	Out  string `json:"out"`
	Op   string `json:"op"`
}

// patchEncDict rewrites entries of the encryption dictionary in place (old/new pairs of equal length), e.g. an
// RC4-128 document (V4/R4, crypt filter V2) into the equivalent V2/R3 form: same key derivation, same byte offsets.
func patchEncDict(b []byte, pairs ...string) []byte {
	i := bytes.Index(b, []byte("/Filter/Standard"))
	if i < 0 {
		h.Die("no encryption dictionary found")
	}
	// the dictionary object starts at the preceding "obj"
	st := bytes.LastIndex(b[:i], []byte(" obj"))
	j := i + bytes.Index(b[i:], []byte("endobj"))
	seg := append([]byte{}, b[st:j]...)
	for k := 0; k+1 < len(pairs); k += 2 {
		if !bytes.Contains(seg, []byte(pairs[k])) || len(pairs[k]) != len(pairs[k+1]) {
			h.Die("unexpected encryption dictionary (no %s): %s", pairs[k], seg)
		}
		seg = bytes.Replace(seg, []byte(pairs[k]), []byte(pairs[k+1]), 1)
	}
	out := append([]byte{}, b[:st]...)
	out = append(out, seg...)
	return append(out, b[j:]...)
}

func outClass(err error) string {
	c := cls(err)
	if len(c) > 6 && c[:6] == "other:" {
		return "other"
	}
	return c
}

func c26(in, out string, shard, of int) {
	dir, err := os.MkdirTemp("", "sec-c26-")
	if err != nil {
		h.Die("tmp: %v", err)
	}
	defer os.RemoveAll(dir)
	w := h.NewW(out)
	defer w.Close()
	names := make([]string, 0, len(modeByName))
	for n := range modeByName {
		names = append(names, n)
	}
	sort.Strings(names)
	ops := fileOps()
	srcs := map[string]string{}
	src := func(alg string) string {
		if p, ok := srcs[alg]; ok {
			return p
		}
		p := filepath.Join(dir, "src-"+alg+".pdf")
		if err := os.WriteFile(p, sourceDoc(alg), 0o644); err != nil {
			h.Die("write: %v", err)
		}
		srcs[alg] = p
		return p
	}
	type variant struct {
		upw, opw string
		pairs    [][2]string
		apiPairs [][2]string
		optional bool // the algorithm may refuse this password at encryption time
	}
	variants := []variant{
		{"a", "b", [][2]string{{"a", ""}, {"", "b"}, {"a", "long"}}, [][2]string{{"a", ""}, {"", "b"}}, false},
		{"", "b", [][2]string{{"", ""}, {"", "long"}}, [][2]string{{"", "long"}}, false},
		// user passwords consisting of white space only are not empty: permissions apply
		{"sp", "b", [][2]string{{"sp", ""}, {"sp", "long"}}, [][2]string{{"sp", ""}}, true},
		{"tab", "b", [][2]string{{"tab", ""}}, nil, true},
	}
	if h.Arg("--pairs") == "full" {
		variants[0].pairs = append(variants[0].pairs, [2]string{"b", ""}, [2]string{"a", "b"}, [2]string{"long", "long"})
		variants[1].pairs = append(variants[1].pairs, [2]string{"", "b"}, [2]string{"b", ""})
		variants[0].apiPairs = append(variants[0].apiPairs, [2]string{"a", "b"})
		variants[1].apiPairs = append(variants[1].apiPairs, [2]string{"", ""})
	}
	docs, reads, apis, denied, refusedOther, skipped := 0, 0, 0, 0, 0, 0
	lineNo := 0
	err = h.EachLine(in, func(line []byte) error {
		lineNo++
		if (lineNo-1)%of != shard {
			return nil
		}
		var d pdoc
		if err := json.Unmarshal(line, &d); err != nil {
			return err
		}
		docs++
		encAlg := d.Alg
		switch d.Alg {
		case "rc4_128_r3":
			encAlg = "rc4_128"
		case "rc4_40_v2":
			encAlg = "rc4_40"
		}
		for vi, v := range variants {
			enc := filepath.Join(dir, fmt.Sprintf("enc%d.pdf", vi))
			os.Remove(enc)
			if d.Alg == "rc4_40_r3" {
				// /V 1 /R 3: encrypted by the harness itself (pdfcpu does not write this pairing)
				src := rawpdf.MarkerDoc([]rawpdf.PageSpec{{Marker: "mk-1", Rotate: -1}, {Marker: "mk-2", Rotate: 90}}, rawpdf.MarkerOpts{})
				if err := os.WriteFile(enc, encryptV1R3(src, pw(v.upw), pw(v.opw), int32(d.P)), 0o644); err != nil {
					h.Die("write: %v", err)
				}
				if m, err := proj.Markers(enc, pwConf("", pw(v.opw))); err != nil || len(m) != 2 || m[0] != "mk-1" {
					h.Die("the /V 1 /R 3 document of the harness cannot be read back with its owner password: %v %v", m, err)
				}
			} else {
				c := encConf(encAlg, pw(v.upw), pw(v.opw))
				c.Permissions = permFlags(d.P)
				if err := api.EncryptFile(src(encAlg), enc, c); err != nil {
					if v.optional {
						skipped++
						continue
					}
					h.Die("cannot encrypt the document for %s P=%d: %v", d.Alg, d.P, err)
				}
			}
			switch d.Alg {
			case "rc4_128_r3":
				b, _ := os.ReadFile(enc)
				if err := os.WriteFile(enc, patchEncDict(b, "/R 4", "/R 3", "/V 4", "/V 2"), 0o644); err != nil {
					h.Die("write: %v", err)
				}
			case "rc4_40_v2":
				b, _ := os.ReadFile(enc)
				if err := os.WriteFile(enc, patchEncDict(b, "/V 1", "/V 2"), 0o644); err != nil {
					h.Die("write: %v", err)
				}
			}
			// the /P the model computes with must be what the document really carries
			pp, err := api.GetPermissionsFile(enc, pwConf("", pw(v.opw)))
			if err != nil || pp == nil {
				h.Die("cannot read back permissions of %s P=%d: %v", d.Alg, d.P, err)
			}
			if int(*pp) != int(int16(d.P)) {
				h.Die("document for %s carries P=%d instead of %d", d.Alg, *pp, d.P)
			}
			for _, pr := range v.pairs {
				rec := prec{d.Alg, v.upw, v.opw, d.P, pr[0], pr[1], "read", nil}
				for _, name := range names {
					f, err := os.Open(enc)
					if err != nil {
						h.Die("open: %v", err)
					}
					conf := pwConf(pw(pr[0]), pw(pr[1]))
					conf.Cmd = modeByName[name]
					_, rerr := api.ReadValidateAndOptimize(f, conf)
					f.Close()
					o := outClass(rerr)
					if name == "REMOVESIGNATURES" && errors.Is(rerr, api.ErrNoSignatures) {
						o = "ok" // the document was opened and checked; there is just nothing to remove
					}
					reads++
					if o == "ErrPermissionDenied" {
						denied++
					} else if o != "ok" {
						refusedOther++
					}
					rec.Outs = append(rec.Outs, pitem{name, o, ""})
				}
				w.Put(rec)
			}
			if !d.API {
				continue
			}
			for _, pr := range v.apiPairs {
				rec := prec{d.Alg, v.upw, v.opw, d.P, pr[0], pr[1], "api", nil}
				for _, op := range ops {
					od := filepath.Join(dir, "out")
					os.RemoveAll(od)
					if err := os.MkdirAll(od, 0o755); err != nil {
						h.Die("mkdir: %v", err)
					}
					before, _ := os.ReadFile(enc)
					oerr := op.run(enc, od, pwConf(pw(pr[0]), pw(pr[1])))
					o := outClass(oerr)
					apis++
					if o == "ErrPermissionDenied" {
						denied++
						// a refused operation must not have produced anything
						if ents, _ := os.ReadDir(od); len(ents) > 0 && op.mode != "ADDATTACHMENTS" {
							o = "refused-but-output-written"
						}
					}
					after, _ := os.ReadFile(enc)
					if !bytes.Equal(before, after) {
						o = "input-modified"
					}
					rec.Outs = append(rec.Outs, pitem{op.mode, o, op.name})
				}
				w.Put(rec)
			}
		}
		return nil
	})
	if err != nil {
		h.Die("c26: %v", err)
	}
	h.Summary(map[string]any{"docs": docs, "reads": reads, "apis": apis, "denied": denied, "refused_other": refusedOther,
		"modes": len(names), "ops": len(ops), "skipped_variants": skipped})
}
