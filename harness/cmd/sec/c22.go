package main

import (
	"encoding/json"
	"fmt"
	"os"
	"path/filepath"
	"reflect"
	"strings"

	"github.com/pdfcpu/pdfcpu/pkg/api"
	"github.com/pdfcpu/pdfcpu/pkg/pdfcpu/model"
	"verif/harness/lib/h"
	"verif/harness/lib/proj"
)

// Real passwords for the password classes of SecRT.tla, per role. User and owner passwords of the long classes differ
// within their first 32 bytes (revisions <= 4 only look at those).
func classPW(class, role string) string {
	switch class {
	case "empty":
		return ""
	case "ascii":
		return role + "Pw-1"
	case "blank": // white space only (not empty)
		if role == "user" {
			return "  "
		}
		return "   "
	case "space":
		return role + " pass phrase"
	case "unicode": // non-ASCII, unchanged by NFKC
		return role + "-pässwörd-ключ"
	case "saslprep": // changed by the SASLprep/NFKC preparation of revision 6: ligature fi, feminine ordinal, decomposed e-acute
		return role + "-\ufb01x-\u00aa-e\u0301"
	case "long40":
		return role + "-" + strings.Repeat("0123456789", 4)[:40-len(role)-1]
	case "long130":
		return role + "-" + strings.Repeat("abcdefghij", 13)[:130-len(role)-1]
	}
	h.Die("unknown password class %q", class)
	return ""
}

type rtExp struct {
	Enc   string `json:"enc"`
	OpenU string `json:"open_u"`
	OpenO string `json:"open_o"`
	OpenB string `json:"open_b"`
	DecU  string `json:"dec_u"`
	DecO  string `json:"dec_o"`
	After bool   `json:"after"`
	Perm  int    `json:"perm"`
}

type rtCase struct {
	Alg string `json:"alg"`
	U   string `json:"u"`
	O   string `json:"o"`
	P   int    `json:"p"`
	Doc string `json:"doc"`
	Exp rtExp  `json:"exp"`
}

type rtMism struct {
	Case rtCase `json:"case"`
	Key  string `json:"key"`
	What string `json:"what"`
	Want any    `json:"want"`
	Got  any    `json:"got"`
}

type docView struct {
	canon string
	pages []proj.Page
}

func viewOf(ctx *model.Context) (docView, []string) {
	c, errs := canonOf(ctx)
	pages, err := proj.PagesOf(ctx)
	if err != nil {
		errs = append(errs, "pages: "+err.Error())
	}
	return docView{c, pages}, errs
}

// sameView compares two views; on a difference it returns a description and the place (page or dictionary key).
func sameView(a, b docView) (bool, string, string) {
	if len(a.pages) != len(b.pages) {
		return false, fmt.Sprintf("page count %d vs %d", len(a.pages), len(b.pages)), "pagecount"
	}
	for i := range a.pages {
		if !reflect.DeepEqual(a.pages[i].Markers, b.pages[i].Markers) || a.pages[i].Rot != b.pages[i].Rot || a.pages[i].Media != b.pages[i].Media ||
			proj.NormContent(a.pages[i].Content) != proj.NormContent(b.pages[i].Content) {
			return false, fmt.Sprintf("page %d differs", i+1), fmt.Sprintf("page%d", i+1)
		}
	}
	if a.canon != b.canon {
		return false, firstDiff(a.canon, b.canon), diffWhere(a.canon, b.canon)
	}
	return true, "", ""
}

func c22(in, out string, shard, of int) {
	dir, err := os.MkdirTemp("", "sec-c22-")
	if err != nil {
		h.Die("tmp: %v", err)
	}
	defer os.RemoveAll(dir)
	w := h.NewW(out)
	defer w.Close()
	repo := os.Getenv("VERIF_REPO")
	if repo == "" {
		repo = "/repo"
	}
	type srcT struct {
		path string
		view docView
	}
	srcs := map[string]*srcT{}
	source := func(alg, doc string) *srcT {
		k := doc
		if doc == "rich" && alg == "aes_256_r6" {
			k = "rich20"
		}
		if s, ok := srcs[k]; ok {
			return s
		}
		p := filepath.Join(dir, "src-"+k+".pdf")
		var b []byte
		switch k {
		case "rich":
			b = richDoc("1.7", fixedMarker, false).Bytes()
		case "rich20":
			b = richDoc("2.0", fixedMarker, false).Bytes()
		case "rich_objstm":
			b = xrefStreamBytes(richDoc("1.7", fixedMarker, false))
		default:
			b, err = os.ReadFile(filepath.Join(repo, "pkg", "testdata", doc))
			if err != nil {
				h.Die("corpus: %v", err)
			}
		}
		if err := os.WriteFile(p, b, 0o644); err != nil {
			h.Die("write: %v", err)
		}
		ctx, err := proj.Context(p, nil)
		if err != nil {
			h.Die("source document %s unreadable: %v", k, err)
		}
		v, errs := viewOf(ctx)
		if len(errs) > 0 {
			h.Die("source document %s: %v", k, errs)
		}
		srcs[k] = &srcT{p, v}
		return srcs[k]
	}
	n, bad, checks := 0, 0, 0
	distinct := map[string]bool{}
	lineNo := 0
	err = h.EachLine(in, func(line []byte) error {
		lineNo++
		if (lineNo-1)%of != shard {
			return nil
		}
		var c rtCase
		if err := json.Unmarshal(line, &c); err != nil {
			return err
		}
		n++
		// PDF 2.0 documents other than the generated one cannot select revision 6; corpus files use revision 5
		alg := c.Alg
		if c.Doc != "rich" && alg == "aes_256_r6" {
			return nil
		}
		fail := func(key, what string, want, got any) {
			bad++
			if bad <= 3000 {
				w.Put(rtMism{c, key, what, want, got})
			}
		}
		upw := classPW(c.U, "user")
		opw := upw
		if c.O != "same" {
			opw = classPW(c.O, "owner")
		}
		src := source(alg, c.Doc)
		enc := filepath.Join(dir, "enc.pdf")
		os.Remove(enc)
		conf := encConf(alg, upw, opw)
		conf.Permissions = permFlags(c.P)
		eerr := api.EncryptFile(src.path, enc, conf)
		checks++
		if got := cls(eerr); got != c.Exp.Enc {
			fail(fmt.Sprintf("%s|encrypt|user=%s,owner=%s", alg, c.U, c.O), "EncryptFile outcome", c.Exp.Enc, got)
			return nil
		}
		distinct[fmt.Sprintf("%s/%s/%s/%d", alg, c.U, c.O, c.P)] = true
		pwKey := func(role, class string) string { return fmt.Sprintf("%s|pw=%s", alg, class) }
		type probe struct {
			name, u, o, want, key string
		}
		oclass := c.O
		if c.O == "same" {
			oclass = c.U
		}
		probes := []probe{
			{"open with the user password", upw, "", c.Exp.OpenU, pwKey("user", c.U)},
			{"open with the owner password", "", opw, c.Exp.OpenO, pwKey("owner", oclass)},
			{"open with both passwords", upw, opw, c.Exp.OpenB, pwKey("owner", oclass)},
		}
		for pi, p := range probes {
			checks++
			ctx, err := proj.Context(enc, pwConf(p.u, p.o))
			if got := cls(err); got != p.want {
				fail(p.key, p.name+" after encryption", p.want, got)
				continue
			}
			v, errs := viewOf(ctx)
			if len(errs) > 0 {
				fail(fmt.Sprintf("content|%s", c.Doc), p.name+": content unreadable", nil, errs)
				continue
			}
			if ok, diff, where := sameView(src.view, v); !ok {
				fail(fmt.Sprintf("content|%s|%s", c.Doc, where), p.name+": document differs from the original", nil, diff)
			}
			// what the opened document says about its permissions; the listing API itself once per case
			if ctx.E == nil || int(int16(ctx.E.P)) != c.Exp.Perm {
				fail(fmt.Sprintf("%s|permissions", alg), "permissions of the opened document ("+p.name+")", c.Exp.Perm, fmt.Sprint(ctx.E))
			}
			if pi != n%len(probes) {
				continue
			}
			checks++
			pp, err := api.GetPermissionsFile(enc, pwConf(p.u, p.o))
			if err != nil || pp == nil {
				fail(p.key, "GetPermissionsFile ("+p.name+")", c.Exp.Perm, fmt.Sprint(err))
			} else if int(*pp) != c.Exp.Perm {
				fail(fmt.Sprintf("%s|permissions", alg), "reported permissions ("+p.name+")", c.Exp.Perm, int(*pp))
			}
		}
		decs := []probe{
			{"decrypt with the user password", upw, "", c.Exp.DecU, pwKey("user", c.U)},
			{"decrypt with the owner password", "", opw, c.Exp.DecO, pwKey("owner", oclass)},
		}
		for _, p := range decs {
			checks++
			dec := filepath.Join(dir, "dec.pdf")
			os.Remove(dec)
			derr := api.DecryptFile(enc, dec, pwConf(p.u, p.o))
			if got := cls(derr); got != p.want {
				fail(p.key, p.name, p.want, got)
				continue
			}
			// the result must open without any password, be unencrypted and equal the original
			ctx, err := proj.Context(dec, pwConf("", ""))
			if err != nil {
				fail(fmt.Sprintf("content|%s", c.Doc), p.name+": result unreadable", "ok", err.Error())
				continue
			}
			if (ctx.E != nil || ctx.Encrypt != nil) != c.Exp.After {
				fail(fmt.Sprintf("content|%s", c.Doc), p.name+": result still encrypted", c.Exp.After, true)
			}
			v, errs := viewOf(ctx)
			if len(errs) > 0 {
				fail(fmt.Sprintf("content|%s", c.Doc), p.name+": content unreadable", nil, errs)
				continue
			}
			if ok, diff, where := sameView(src.view, v); !ok {
				fail(fmt.Sprintf("content|%s|%s", c.Doc, where), p.name+": document differs from the original", nil, diff)
			}
		}
		return nil
	})
	if err != nil {
		h.Die("c22: %v", err)
	}
	h.Summary(map[string]any{"cases": n, "mismatches": bad, "checks": checks, "nontrivial": len(distinct)})
}
