package main

// An encryptor for the standard security handler with /V 1 /R 3 (40-bit RC4 key, revision 3 key derivation and
// permission layout), written from ISO 32000-1 algorithms 1, 2, 3 and 5 with the standard library only.
// pdfcpu never writes this legal pairing; C26 needs such documents to check that the permission layout follows /R.

import (
	"bytes"
	"crypto/md5"
	"crypto/rc4"
	"encoding/hex"
	"fmt"
	"strings"

	"verif/harness/lib/h"
	"verif/harness/lib/rawpdf"
)

var pwPad = []byte{
	0x28, 0xBF, 0x4E, 0x5E, 0x4E, 0x75, 0x8A, 0x41, 0x64, 0x00, 0x4E, 0x56, 0xFF, 0xFA, 0x01, 0x08,
	0x2E, 0x2E, 0x00, 0xB6, 0xD0, 0x68, 0x3E, 0x80, 0x2F, 0x0C, 0xA9, 0xFE, 0x64, 0x53, 0x69, 0x7A,
}

func pad32(pw string) []byte {
	b := append([]byte(pw), pwPad...)
	return b[:32]
}

func rc4x(key, data []byte) []byte {
	c, err := rc4.NewCipher(key)
	if err != nil {
		h.Die("rc4: %v", err)
	}
	out := make([]byte, len(data))
	c.XORKeyStream(out, data)
	return out
}

func rc4x20(key, data []byte) []byte {
	out := rc4x(key, data)
	for i := 1; i <= 19; i++ {
		k := make([]byte, len(key))
		for j := range key {
			k[j] = key[j] ^ byte(i)
		}
		out = rc4x(k, out)
	}
	return out
}

// encryptV1R3 returns doc (which must not contain string objects) encrypted with a 40-bit key, /V 1 /R 3.
func encryptV1R3(doc *rawpdf.Doc, upw, opw string, p int32) []byte {
	const n = 5
	id := md5.Sum([]byte("verif file identifier"))
	// algorithm 3: O
	ow := opw
	if ow == "" {
		ow = upw
	}
	ok := md5.Sum(pad32(ow))
	for i := 0; i < 50; i++ {
		ok = md5.Sum(ok[:])
	}
	o := rc4x20(ok[:n], pad32(upw))
	// algorithm 2: file key
	hsh := md5.New()
	hsh.Write(pad32(upw))
	hsh.Write(o)
	q := uint32(p)
	hsh.Write([]byte{byte(q), byte(q >> 8), byte(q >> 16), byte(q >> 24)})
	hsh.Write(id[:])
	key := hsh.Sum(nil)
	for i := 0; i < 50; i++ {
		s := md5.Sum(key[:n])
		key = s[:]
	}
	key = key[:n]
	// algorithm 5: U
	hsh = md5.New()
	hsh.Write(pwPad)
	hsh.Write(id[:])
	u := append(rc4x20(key, hsh.Sum(nil)), make([]byte, 16)...)

	out := &rawpdf.Doc{Root: doc.Root, Info: doc.Info, Version: doc.Version}
	for i, body := range doc.Objs {
		num := i + 1
		j := strings.Index(body, "\nstream\n")
		if j < 0 {
			if strings.ContainsAny(body, "(") {
				h.Die("encryptV1R3: object %d contains strings", num)
			}
			out.Objs = append(out.Objs, body)
			continue
		}
		k := strings.LastIndex(body, "\nendstream")
		data := []byte(body[j+8 : k])
		// algorithm 1: object key
		ok := md5.Sum(append(append([]byte{}, key...), byte(num), byte(num>>8), byte(num>>16), 0, 0))
		enc := rc4x(ok[:n+5], data)
		var b bytes.Buffer
		b.WriteString(body[:j+8])
		b.Write(enc)
		b.WriteString(body[k:])
		out.Objs = append(out.Objs, b.String())
	}
	encObj := out.Add(fmt.Sprintf("<< /Filter /Standard /V 1 /R 3 /Length 40 /O <%s> /U <%s> /P %d >>", hex.EncodeToString(o), hex.EncodeToString(u), p))
	out.Trailer = fmt.Sprintf("/Encrypt %d 0 R /ID [<%s> <%s>]", encObj, hex.EncodeToString(id[:]), hex.EncodeToString(id[:]))
	return out.Bytes()
}
