package main

import (
	"bytes"
	"compress/zlib"
	"crypto/sha256"
	"encoding/hex"
	"fmt"
	"regexp"
	"sort"
	"strings"

	"github.com/pdfcpu/pdfcpu/pkg/pdfcpu/model"
	"github.com/pdfcpu/pdfcpu/pkg/pdfcpu/types"
	"verif/harness/lib/h"
	"verif/harness/lib/rawpdf"
)

// Locations of document text in the generated "rich" document (the location kinds of SecLeak.tla).
var richLocs = []string{
	"info", "content", "annot", "form", "names", "embfile", "embname", "nested", "hexstr", "streamdict",
	"flate", "asciihex", "outline", "xmp", "sigcontents", "sigwidget", "sigmeta",
	"indstr_annot", "indstr_array", "indstr_info", "indstr_page", "indstr_catalog",
}

func zlibBytes(b []byte) []byte {
	var buf bytes.Buffer
	w := zlib.NewWriter(&buf)
	w.Write(b)
	w.Close()
	return buf.Bytes()
}

// richDoc builds a two-page document carrying the text mk(loc) at every location kind. Strings are placed in the
// info dict, nested arrays and dicts, annotations, form fields, a names tree, a file specification, outlines, a
// stream dictionary, as hex strings; stream data in content streams, an embedded file, Flate and ASCIIHex streams and
// an XMP metadata stream. Empty strings and strings with escapes are included (fixed text, not markers).
// sig adds a signature field whose value dictionary has a /Contents hex string.
func richDoc(version string, mk func(loc string) string, sig bool) *rawpdf.Doc {
	return richDocForm(version, mk, sig, "literal", false)
}

// pdfString renders text as a PDF string object in the given form: "literal" (..), "hex" <..> or "utf16" (hex string
// holding the UTF-16BE text string with byte order mark).
func pdfString(text, form string) string {
	switch form {
	case "hex":
		return "<" + hex.EncodeToString([]byte(text)) + ">"
	case "utf16":
		var b strings.Builder
		b.WriteString("<FEFF")
		for _, r := range text {
			fmt.Fprintf(&b, "%04X", r)
		}
		return b.String() + ">"
	}
	return "(" + text + ")"
}

// markerForms lists the byte patterns under which text would be visible in a file if it were not encrypted.
func markerForms(text string) [][]byte {
	u16 := []byte{}
	for _, r := range text {
		u16 = append(u16, byte(r>>8), byte(r))
	}
	hx := hex.EncodeToString([]byte(text))
	hx16 := hex.EncodeToString(u16)
	return [][]byte{[]byte(text), []byte(hx), []byte(strings.ToUpper(hx)), u16, []byte(hx16), []byte(strings.ToUpper(hx16))}
}

// privRoots additionally hangs indirect string objects on private entries of the catalog and of a page dictionary
// (pdfcpu does not carry those over, so they are used for the visibility check only, not for the round trip).
func richDocForm(version string, mk func(loc string) string, sig bool, form string, privRoots bool) *rawpdf.Doc {
	S := func(loc string) string { return pdfString(mk(loc), form) }
	d := &rawpdf.Doc{Version: version}
	catalog := d.Reserve()
	d.Root = catalog
	font := d.Add("<< /Type /Font /Subtype /Type1 /BaseFont /Helvetica >>")
	pages := d.Reserve()
	page1, page2 := d.Reserve(), d.Reserve()

	c1 := d.AddStream("", []byte(rawpdf.MarkerContent(mk("content"))))
	fl := zlibBytes([]byte(rawpdf.MarkerContent(mk("flate"))))
	c2 := d.AddStream("/Filter /FlateDecode", fl)
	hx := strings.ToUpper(hex.EncodeToString([]byte("% "+mk("asciihex")+"\n"))) + ">"
	c3 := d.AddStream("/Filter /ASCIIHexDecode", []byte(hx))

	// private application data: nested arrays / dictionaries of strings and two streams, reachable only through a
	// vendor-specific annotation entry (a processor that does not know the key never looks inside; pdfcpu's optimizer
	// deliberately deletes /PieceInfo, so that is not used)
	sdict := d.AddStream(fmt.Sprintf("/VerifNote %s /VerifList [(in-stream-dict) << /K (v) >>]", S("streamdict")), []byte("stream with strings in its dictionary"))
	empty := d.AddStream("", nil)
	// streams exempt from encryption (Identity crypt filter): their data stays as it is, the strings of their dictionaries do not
	cryptIdent := d.AddStream(fmt.Sprintf("/Filter /Crypt /DecodeParms << /Name /Identity >> /VerifNote %s /VerifList [(identity) << /K <4b4c> >>]", S("streamdict")),
		[]byte("stream data exempt from encryption"))
	cryptEF := d.AddStream("/Type /EmbeddedFile /Filter [/Crypt] /DecodeParms [<< /Type /CryptFilterDecodeParms /Name /Identity >>] "+
		"/Params << /Size 28 /ModDate (D:20240102030405Z) /CheckSum <00112233445566778899aabbccddeeff> >>", []byte("exempt embedded file content\n"))
	// block-boundary classes for the block ciphers: strings and (unfiltered and Flate-coded) streams of 0, 1, 15, 16, 17,
	// 31, 32, 33, 48 bytes ending in 0x01, LF, CR, 0x10 (the values a PKCS#7 pad byte can take) or a letter
	var blockStrs, blockStreams []string
	for _, n := range []int{0, 1, 15, 16, 17, 31, 32, 33, 48} {
		for _, last := range []byte{0x01, 0x0a, 0x0d, 0x10, 'z'} {
			if n == 0 && last != 'z' {
				continue
			}
			data := blockData(n, last)
			blockStrs = append(blockStrs, "<"+hex.EncodeToString(data)+">")
			if n == 16 || n == 32 {
				blockStrs = append(blockStrs, "("+escapeLiteral(data)+")")
			}
			blockStreams = append(blockStreams, fmt.Sprintf("%d 0 R", d.AddStream("", data)))
			if n == 16 || n == 33 {
				blockStreams = append(blockStreams, fmt.Sprintf("%d 0 R", d.AddStream("/Filter /FlateDecode", zlibBytes(data))))
			}
		}
	}
	blocks := d.Add(fmt.Sprintf("<< /Strings [%s] /Streams [%s] >>", strings.Join(blockStrs, " "), strings.Join(blockStreams, " ")))
	priv := d.Add(fmt.Sprintf("<< /Blocks %d 0 R /A [ %s [ (level two \\(with parens\\) \\\\ and \\101 octal) << /K %s /E () /H <> /Bin (\\000\\001\\377\\376) >> ] ] "+
		"/D << /D2 << /S (deep string) /Hex <%s> /U16 <FEFF00500044004600E4> >> >> /Streams [%d 0 R %d 0 R %d 0 R %d 0 R] >>",
		blocks, S("nested"), S("nested"), hex.EncodeToString([]byte(mk("hexstr"))), sdict, empty, cryptIdent, cryptEF))
	// indirect scalar objects: strings that are objects of their own (members of the object stream in that layout),
	// referenced only from private keys of an annotation, a nested array, the info dict, a page and the catalog
	indAnnot := d.Add(S("indstr_annot"))
	indAnnotHex := d.Add(pdfString(mk("indstr_annot"), "hex"))
	indArr1 := d.Add(S("indstr_array"))
	indArr2 := d.Add(pdfString(mk("indstr_array"), "utf16"))
	indArr := d.Add(fmt.Sprintf("[ %d 0 R [ %d 0 R /Tag ] ]", indArr1, indArr2))
	annot := d.Add(fmt.Sprintf("<< /Type /Annot /Subtype /Text /Rect [10 10 40 40] /Contents %s /T (verif) /NM (a1) /P %d 0 R /VERIF:Extras %d 0 R "+
		"/VERIF:AppNote %d 0 R /VERIF:AppTag %d 0 R /VERIF:AppList %d 0 R >>", S("annot"), page1, priv, indAnnot, indAnnotHex, indArr))
	field := d.Add(fmt.Sprintf("<< /Type /Annot /Subtype /Widget /FT /Tx /T (f1) /TU (tooltip) /V %s /DV %s /DA (/Helv 12 Tf 0 g) /Rect [50 50 250 80] /P %d 0 R >>",
		S("form"), S("form"), page1))
	annots1 := fmt.Sprintf("%d 0 R %d 0 R", annot, field)
	fields := fmt.Sprintf("%d 0 R", field)
	if sig {
		sigv := d.Add(fmt.Sprintf("<< /Type /Sig /Filter /Adobe.PPKLite /SubFilter /adbe.pkcs7.detached /ByteRange [0 10 20 10] /Contents <%s> /Name %s /Reason %s /Location %s /ContactInfo %s /M (D:20240101000000Z) >>",
			hex.EncodeToString([]byte(mk("sigcontents"))), S("sigmeta"), S("sigmeta"), S("sigmeta"), S("sigmeta")))
		sigf := d.Add(fmt.Sprintf("<< /Type /Annot /Subtype /Widget /FT /Sig /T (sig1) /Contents %s /V %d 0 R /F 132 /Rect [0 0 0 0] /P %d 0 R >>", S("sigwidget"), sigv, page1))
		annots1 += fmt.Sprintf(" %d 0 R", sigf)
		fields += fmt.Sprintf(" %d 0 R", sigf)
	}
	pagePriv, catPriv := "", ""
	if privRoots {
		pagePriv = fmt.Sprintf(" /VERIF:PageNote %d 0 R", d.Add(S("indstr_page")))
		catPriv = fmt.Sprintf(" /VERIF:CatNote %d 0 R", d.Add(S("indstr_catalog")))
	}
	res := fmt.Sprintf("/Resources << /Font << /F1 %d 0 R /Helv %d 0 R >> >>", font, font)
	d.Set(page1, fmt.Sprintf("<< /Type /Page /Parent %d 0 R /Contents [%d 0 R %d 0 R] %s /Annots [%s]%s >>", pages, c1, c3, res, annots1, pagePriv))
	d.Set(page2, fmt.Sprintf("<< /Type /Page /Parent %d 0 R /Contents %d 0 R %s /Rotate 90 >>", pages, c2, res))
	d.Set(pages, fmt.Sprintf("<< /Type /Pages /Count 2 /Kids [%d 0 R %d 0 R] /MediaBox [0 0 300 400] >>", page1, page2))

	ef := d.AddStream("/Type /EmbeddedFile /Params << /Size 40 >>", []byte("attachment "+mk("embfile")+"\n"))
	fs := d.Add(fmt.Sprintf("<< /Type /Filespec /F %s /UF %s /Desc %s /EF << /F %d 0 R /UF %d 0 R >> >>", S("embname"), S("embname"), S("embname"), ef, ef))
	names := d.Add(fmt.Sprintf("<< /EmbeddedFiles << /Names [%s %d 0 R] >> >>", S("names"), fs))

	ol1 := d.Reserve()
	outlines := d.Add(fmt.Sprintf("<< /Type /Outlines /First %d 0 R /Last %d 0 R /Count 1 >>", ol1, ol1))
	d.Set(ol1, fmt.Sprintf("<< /Title %s /Parent %d 0 R /Dest [%d 0 R /Fit] >>", S("outline"), outlines, page2))

	xmp := "<?xpacket begin='' id='W5M0MpCehiHzreSzNTczkc9d'?><x:xmpmeta xmlns:x='adobe:ns:meta/'><rdf:RDF xmlns:rdf='http://www.w3.org/1999/02/22-rdf-syntax-ns#'>" +
		"<rdf:Description rdf:about='' xmlns:dc='http://purl.org/dc/elements/1.1/'><dc:title><rdf:Alt><rdf:li xml:lang='x-default'>" + mk("xmp") +
		"</rdf:li></rdf:Alt></dc:title></rdf:Description></rdf:RDF></x:xmpmeta><?xpacket end='w'?>"
	meta := d.AddStream("/Type /Metadata /Subtype /XML", []byte(xmp))

	d.Set(catalog, fmt.Sprintf("<< /Type /Catalog /Pages %d 0 R /Names %d 0 R /Outlines %d 0 R /Metadata %d 0 R /AcroForm << /Fields [%s] /DA (/Helv 12 Tf 0 g) /DR << /Font << /Helv %d 0 R >> >> >>%s >>",
		pages, names, outlines, meta, fields, font, catPriv))
	if version != "2.0" {
		d.Info = d.Add(fmt.Sprintf("<< /Title %s /Subject (sub \\(ject\\)) /Keywords () /VerifCustom %s /Author <FEFF004100FC> /VerifRef %d 0 R >>", S("info"), S("info"), d.Add(S("indstr_info"))))
	} else {
		d.Info = d.Add("<< /CreationDate (D:20240101000000Z) >>")
	}
	return d
}

// blockData is n bytes of text ending in the byte last.
func blockData(n int, last byte) []byte {
	if n == 0 {
		return nil
	}
	b := []byte(strings.Repeat("block-data-0123456789-", 4)[:n])
	b[n-1] = last
	return b
}

// escapeLiteral writes bytes as the body of a PDF literal string (octal escapes for everything unusual).
func escapeLiteral(data []byte) string {
	var b strings.Builder
	for _, c := range data {
		if c < 0x20 || c > 0x7e || c == '(' || c == ')' || c == '\\' {
			fmt.Fprintf(&b, "\\%03o", c)
		} else {
			b.WriteByte(c)
		}
	}
	return b.String()
}

func fixedMarker(loc string) string { return "marker-" + loc }

// canon renders everything reachable from the catalog and the info dict as a canonical text: strings as decoded
// bytes, streams by the hash of their decoded content, indirect references replaced by the (expanded) content of
// their target, so that neither object numbers nor the sharing of equal objects matter; a reference to an object
// that is being expanded is written as the distance up the expansion path. /Parent links are structural and left
// out, as are entries that pdfcpu maintains itself when writing (Producer, dates, trailer ID, encryption, filters
// and lengths).
type canon struct {
	ctx   *model.Context
	stack []int
	memo  map[int]string
	esc   int // smallest stack index referenced by a cycle marker inside the subtree being expanded
	b     strings.Builder
	errs  []string
}

var canonSkip = map[string]bool{"Length": true, "Filter": true, "DecodeParms": true}

const noEsc = 1 << 30

func (c *canon) ref(n int, v types.IndirectRef) {
	for i, m := range c.stack {
		if m == n {
			if i < c.esc {
				c.esc = i
			}
			fmt.Fprintf(&c.b, "up%d", len(c.stack)-i)
			return
		}
	}
	if t, ok := c.memo[n]; ok {
		c.b.WriteString(t)
		return
	}
	if c.b.Len() > 64<<20 {
		h.Die("canonical text too large")
	}
	start, idx, saved := c.b.Len(), len(c.stack), c.esc
	c.stack = append(c.stack, n)
	c.esc = noEsc
	c.b.WriteString("{")
	t, err := c.ctx.Dereference(v)
	if err != nil {
		c.errs = append(c.errs, err.Error())
		c.b.WriteString("<error>")
	} else {
		c.obj(t, "")
	}
	c.b.WriteString("}")
	c.stack = c.stack[:idx]
	if c.esc >= idx {
		c.memo[n] = c.b.String()[start:]
	}
	if saved < c.esc {
		c.esc = saved
	}
}

func (c *canon) obj(o types.Object, top string) {
	switch v := o.(type) {
	case nil:
		c.b.WriteString("null")
	case types.IndirectRef:
		c.ref(v.ObjectNumber.Value(), v)
	case types.Dict:
		c.dict(v, top)
	case types.StreamDict:
		c.b.WriteString("stream")
		c.dict(v.Dict, "stream")
		sd := v
		if len(sd.FilterPipeline) == 1 && sd.FilterPipeline[0].Name == "Crypt" {
			sd.Content = sd.Raw // Identity crypt filter: the data is what is stored
		} else if err := sd.Decode(); err != nil {
			c.errs = append(c.errs, "decode: "+err.Error())
		}
		sum := sha256.Sum256(sd.Content)
		fmt.Fprintf(&c.b, "[%d:%x]", len(sd.Content), sum[:8])
	case types.Array:
		c.b.WriteString("[")
		for i, e := range v {
			if i > 0 {
				c.b.WriteString(" ")
			}
			c.obj(e, "")
		}
		c.b.WriteString("]")
	case types.StringLiteral:
		bb, err := types.Unescape(v.Value())
		if err != nil {
			c.errs = append(c.errs, "unescape: "+err.Error())
		}
		fmt.Fprintf(&c.b, "s<%x>", bb)
	case types.HexLiteral:
		bb, err := v.Bytes()
		if err != nil {
			c.errs = append(c.errs, "hex: "+err.Error())
		}
		fmt.Fprintf(&c.b, "s<%x>", bb)
	case types.Name:
		c.b.WriteString("/" + v.Value())
	case types.Integer:
		fmt.Fprintf(&c.b, "%d", v.Value())
	case types.Float:
		fmt.Fprintf(&c.b, "%g", v.Value())
	case types.Boolean:
		fmt.Fprintf(&c.b, "%t", v.Value())
	default:
		fmt.Fprintf(&c.b, "?%T", o)
	}
}

func (c *canon) dict(d types.Dict, kind string) {
	keys := make([]string, 0, len(d))
	for k := range d {
		if kind == "stream" && canonSkip[k] || k == "Parent" {
			continue
		}
		if kind == "info" && (k == "Producer" || k == "ModDate" || k == "CreationDate") {
			continue
		}
		keys = append(keys, k)
	}
	sort.Strings(keys)
	c.b.WriteString("<<")
	for _, k := range keys {
		c.b.WriteString("/" + k + " ")
		c.obj(d[k], "")
		c.b.WriteString(" ")
	}
	c.b.WriteString(">>")
}

// canonOf returns the canonical text of a read context and its digest.
func canonOf(ctx *model.Context) (string, []string) {
	c := &canon{ctx: ctx, memo: map[int]string{}, esc: noEsc}
	if ctx.Root == nil {
		h.Die("context without catalog")
	}
	c.b.WriteString("ROOT ")
	c.obj(*ctx.Root, "")
	c.b.WriteString("\nINFO ")
	if ctx.Info != nil {
		if d, err := ctx.DereferenceDict(*ctx.Info); err == nil && d != nil {
			c.dict(d, "info")
		}
	}
	return c.b.String(), c.errs
}

// xrefStreamBytes serialises d with a cross-reference stream and one (unfiltered) object stream holding every
// non-stream object except the catalog - the layout for which pdfcpu writes object streams itself.
func xrefStreamBytes(d *rawpdf.Doc) []byte {
	var b bytes.Buffer
	v := d.Version
	if v == "" {
		v = "1.7"
	}
	fmt.Fprintf(&b, "%%PDF-%s\n%%\xe2\xe3\xcf\xd3\n", v)
	n := len(d.Objs)
	osNum, xrNum := n+1, n+2
	type ent struct{ typ, a, b int }
	ents := make([]ent, n+3)
	ents[0] = ent{0, 0, 65535}
	var inStm []int
	for i, body := range d.Objs {
		num := i + 1
		if body == "" {
			ents[num] = ent{0, 0, 0}
			continue
		}
		if strings.Contains(body, "\nstream\n") || num == d.Root {
			ents[num] = ent{1, b.Len(), 0}
			fmt.Fprintf(&b, "%d 0 obj\n%s\nendobj\n", num, body)
			continue
		}
		inStm = append(inStm, num)
	}
	var head, data bytes.Buffer
	for idx, num := range inStm {
		fmt.Fprintf(&head, "%d %d ", num, data.Len())
		data.WriteString(d.Objs[num-1])
		data.WriteString("\n")
		ents[num] = ent{2, osNum, idx}
	}
	head.WriteString("\n")
	ents[osNum] = ent{1, b.Len(), 0}
	fmt.Fprintf(&b, "%d 0 obj\n<< /Type /ObjStm /N %d /First %d /Length %d >>\nstream\n%s%s\nendstream\nendobj\n",
		osNum, len(inStm), head.Len(), head.Len()+data.Len(), head.Bytes(), data.Bytes())
	xrOff := b.Len()
	ents[xrNum] = ent{1, xrOff, 0}
	var xr bytes.Buffer
	for _, e := range ents {
		xr.WriteByte(byte(e.typ))
		xr.Write([]byte{byte(e.a >> 24), byte(e.a >> 16), byte(e.a >> 8), byte(e.a)})
		xr.Write([]byte{byte(e.b >> 8), byte(e.b)})
	}
	info := ""
	if d.Info != 0 {
		info = fmt.Sprintf(" /Info %d 0 R", d.Info)
	}
	fmt.Fprintf(&b, "%d 0 obj\n<< /Type /XRef /Size %d /W [1 4 2] /Root %d 0 R%s /Length %d >>\nstream\n", xrNum, n+3, d.Root, info, xr.Len())
	b.Write(xr.Bytes())
	fmt.Fprintf(&b, "\nendstream\nendobj\nstartxref\n%d\n%%%%EOF\n", xrOff)
	return b.Bytes()
}

// firstDiff locates the first difference of two canonical texts for reporting.
func firstDiff(a, b string) string {
	n := len(a)
	if len(b) < n {
		n = len(b)
	}
	i := 0
	for i < n && a[i] == b[i] {
		i++
	}
	lo := i - 60
	if lo < 0 {
		lo = 0
	}
	cut := func(s string) string {
		hi := i + 60
		if hi > len(s) {
			hi = len(s)
		}
		if lo > len(s) {
			return ""
		}
		return s[lo:hi]
	}
	return fmt.Sprintf("at %d: want ...%s... got ...%s...", i, cut(a), cut(b))
}

var keyRe = regexp.MustCompile(`/([A-Za-z0-9:_.]+) `)

// diffWhere names the dictionary key under which two canonical texts first differ (stable part of a finding key).
func diffWhere(a, b string) string {
	n := len(a)
	if len(b) < n {
		n = len(b)
	}
	i := 0
	for i < n && a[i] == b[i] {
		i++
	}
	m := keyRe.FindAllStringSubmatch(a[:i], -1)
	if len(m) == 0 {
		return "start"
	}
	return m[len(m)-1][1]
}
