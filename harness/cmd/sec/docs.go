package main

import (
	"bytes"
	"compress/zlib"
	"crypto/sha256"
	"encoding/hex"
	"fmt"
	"sort"
	"strings"

	"github.com/pdfcpu/pdfcpu/pkg/pdfcpu/model"
	"github.com/pdfcpu/pdfcpu/pkg/pdfcpu/types"
	"verif/harness/lib/h"
	"verif/harness/lib/rawpdf"
)

// Locations of document text in the generated "rich" document (the location kinds of SecLeak.tla).
var richLocs = []string{
	"info", "content", "annot", "form", "names", "embfile", "embname", "nested", "hexstr", "streamdict",
	"flate", "asciihex", "outline", "xmp", "sigcontents", "sigwidget",
}

func zlibBytes(b []byte) []byte {
	var buf bytes.Buffer
	w := zlib.NewWriter(&buf)
	w.Write(b)
	w.Close()
	return buf.Bytes()
}

// richDoc builds a two-page document carrying the text mk(loc) at every location kind. Strings are placed in the
// info dict, nested arrays and dicts, annotations, form fields, a names tree, a file specification, outlines, a
// stream dictionary, as hex strings; stream data in content streams, an embedded file, Flate and ASCIIHex streams and
// an XMP metadata stream. Empty strings and strings with escapes are included (fixed text, not markers).
// sig adds a signature field whose value dictionary has a /Contents hex string.
func richDoc(version string, mk func(loc string) string, sig bool) *rawpdf.Doc {
	d := &rawpdf.Doc{Version: version}
	catalog := d.Reserve()
	d.Root = catalog
	font := d.Add("<< /Type /Font /Subtype /Type1 /BaseFont /Helvetica >>")
	pages := d.Reserve()
	page1, page2 := d.Reserve(), d.Reserve()

	c1 := d.AddStream("", []byte(rawpdf.MarkerContent(mk("content"))))
	fl := zlibBytes([]byte(rawpdf.MarkerContent(mk("flate"))))
	c2 := d.AddStream("/Filter /FlateDecode", fl)
	hx := strings.ToUpper(hex.EncodeToString([]byte("% "+mk("asciihex")+"\n"))) + ">"
	c3 := d.AddStream("/Filter /ASCIIHexDecode", []byte(hx))

	annot := d.Add(fmt.Sprintf("<< /Type /Annot /Subtype /Text /Rect [10 10 40 40] /Contents (%s) /T (verif) /NM (a1) /P %d 0 R >>", mk("annot"), page1))
	field := d.Add(fmt.Sprintf("<< /Type /Annot /Subtype /Widget /FT /Tx /T (f1) /TU (tooltip) /V (%s) /DV (%s) /DA (/Helv 12 Tf 0 g) /Rect [50 50 250 80] /P %d 0 R >>",
		mk("form"), mk("form"), page1))
	annots1 := fmt.Sprintf("%d 0 R %d 0 R", annot, field)
	fields := fmt.Sprintf("%d 0 R", field)
	if sig {
		sigv := d.Add(fmt.Sprintf("<< /Type /Sig /Filter /Adobe.PPKLite /SubFilter /adbe.pkcs7.detached /ByteRange [0 10 20 10] /Contents <%s> /Name (signer) /M (D:20240101000000Z) >>",
			hex.EncodeToString([]byte(mk("sigcontents")))))
		sigf := d.Add(fmt.Sprintf("<< /Type /Annot /Subtype /Widget /FT /Sig /T (sig1) /Contents (%s) /V %d 0 R /F 132 /Rect [0 0 0 0] /P %d 0 R >>", mk("sigwidget"), sigv, page1))
		annots1 += fmt.Sprintf(" %d 0 R", sigf)
		fields += fmt.Sprintf(" %d 0 R", sigf)
	}
	res := fmt.Sprintf("/Resources << /Font << /F1 %d 0 R /Helv %d 0 R >> >>", font, font)
	d.Set(page1, fmt.Sprintf("<< /Type /Page /Parent %d 0 R /Contents [%d 0 R %d 0 R] %s /Annots [%s] >>", pages, c1, c3, res, annots1))
	d.Set(page2, fmt.Sprintf("<< /Type /Page /Parent %d 0 R /Contents %d 0 R %s /Rotate 90 >>", pages, c2, res))
	d.Set(pages, fmt.Sprintf("<< /Type /Pages /Count 2 /Kids [%d 0 R %d 0 R] /MediaBox [0 0 300 400] >>", page1, page2))

	ef := d.AddStream("/Type /EmbeddedFile /Params << /Size 40 >>", []byte("attachment "+mk("embfile")+"\n"))
	fs := d.Add(fmt.Sprintf("<< /Type /Filespec /F (%s.txt) /UF (%s.txt) /Desc (%s) /EF << /F %d 0 R /UF %d 0 R >> >>", mk("embname"), mk("embname"), mk("embname"), ef, ef))
	names := d.Add(fmt.Sprintf("<< /EmbeddedFiles << /Names [(%s) %d 0 R] >> >>", mk("names"), fs))

	ol1 := d.Reserve()
	outlines := d.Add(fmt.Sprintf("<< /Type /Outlines /First %d 0 R /Last %d 0 R /Count 1 >>", ol1, ol1))
	d.Set(ol1, fmt.Sprintf("<< /Title (%s) /Parent %d 0 R /Dest [%d 0 R /Fit] >>", mk("outline"), outlines, page2))

	xmp := "<?xpacket begin='' id='W5M0MpCehiHzreSzNTczkc9d'?><x:xmpmeta xmlns:x='adobe:ns:meta/'><rdf:RDF xmlns:rdf='http://www.w3.org/1999/02/22-rdf-syntax-ns#'>" +
		"<rdf:Description rdf:about='' xmlns:dc='http://purl.org/dc/elements/1.1/'><dc:title><rdf:Alt><rdf:li xml:lang='x-default'>" + mk("xmp") +
		"</rdf:li></rdf:Alt></dc:title></rdf:Description></rdf:RDF></x:xmpmeta><?xpacket end='w'?>"
	meta := d.AddStream("/Type /Metadata /Subtype /XML", []byte(xmp))

	sdict := d.AddStream(fmt.Sprintf("/VerifNote (%s) /VerifList [(in-stream-dict) << /K (v) >>]", mk("streamdict")), []byte("stream with strings in its dictionary"))
	empty := d.AddStream("", nil)
	priv := d.Add(fmt.Sprintf("<< /A [ (%s) [ (level two \\(with parens\\) \\\\ and \\101 octal) << /K (%s) /E () /H <> /Bin (\\000\\001\\377\\376) >> ] ] "+
		"/D << /D2 << /S (deep string) /Hex <%s> /U16 <FEFF00500044004600E4> >> >> /Streams [%d 0 R %d 0 R] >>",
		mk("nested"), mk("nested"), hex.EncodeToString([]byte(mk("hexstr"))), sdict, empty))

	d.Set(catalog, fmt.Sprintf("<< /Type /Catalog /Pages %d 0 R /Names %d 0 R /Outlines %d 0 R /Metadata %d 0 R /AcroForm << /Fields [%s] /DA (/Helv 12 Tf 0 g) /DR << /Font << /Helv %d 0 R >> >> >> /VerifData %d 0 R >>",
		pages, names, outlines, meta, fields, font, priv))
	if version != "2.0" {
		d.Info = d.Add(fmt.Sprintf("<< /Title (%s) /Subject (sub \\(ject\\)) /Keywords () /VerifCustom (%s) /Author <FEFF004100FC> >>", mk("info"), mk("info")))
	} else {
		d.Info = d.Add("<< /CreationDate (D:20240101000000Z) >>")
	}
	return d
}

func fixedMarker(loc string) string { return "marker-" + loc }

// canon renders everything reachable from the catalog and the info dict as a canonical text: strings as decoded
// bytes, streams by the hash of their decoded content, references by order of first visit. Entries that pdfcpu
// maintains itself when writing (Producer, ModDate, trailer ID, encryption, filters and lengths) are left out.
type canon struct {
	ctx  *model.Context
	ids  map[int]int
	b    strings.Builder
	errs []string
}

var canonSkip = map[string]bool{"Length": true, "Filter": true, "DecodeParms": true}

func (c *canon) obj(o types.Object, top string) {
	switch v := o.(type) {
	case nil:
		c.b.WriteString("null")
	case types.IndirectRef:
		n := v.ObjectNumber.Value()
		if id, ok := c.ids[n]; ok {
			fmt.Fprintf(&c.b, "ref#%d", id)
			return
		}
		id := len(c.ids) + 1
		c.ids[n] = id
		fmt.Fprintf(&c.b, "obj#%d=", id)
		t, err := c.ctx.Dereference(v)
		if err != nil {
			c.errs = append(c.errs, err.Error())
			c.b.WriteString("<error>")
			return
		}
		c.obj(t, "")
	case types.Dict:
		c.dict(v, top)
	case types.StreamDict:
		c.b.WriteString("stream")
		c.dict(v.Dict, "stream")
		sd := v
		if err := sd.Decode(); err != nil {
			c.errs = append(c.errs, "decode: "+err.Error())
		}
		sum := sha256.Sum256(sd.Content)
		fmt.Fprintf(&c.b, "[%d:%x]", len(sd.Content), sum[:8])
	case types.Array:
		c.b.WriteString("[")
		for i, e := range v {
			if i > 0 {
				c.b.WriteString(" ")
			}
			c.obj(e, "")
		}
		c.b.WriteString("]")
	case types.StringLiteral:
		bb, err := types.Unescape(v.Value())
		if err != nil {
			c.errs = append(c.errs, "unescape: "+err.Error())
		}
		fmt.Fprintf(&c.b, "s<%x>", bb)
	case types.HexLiteral:
		bb, err := v.Bytes()
		if err != nil {
			c.errs = append(c.errs, "hex: "+err.Error())
		}
		fmt.Fprintf(&c.b, "s<%x>", bb)
	case types.Name:
		c.b.WriteString("/" + v.Value())
	case types.Integer:
		fmt.Fprintf(&c.b, "%d", v.Value())
	case types.Float:
		fmt.Fprintf(&c.b, "%g", v.Value())
	case types.Boolean:
		fmt.Fprintf(&c.b, "%t", v.Value())
	default:
		fmt.Fprintf(&c.b, "?%T", o)
	}
}

func (c *canon) dict(d types.Dict, kind string) {
	keys := make([]string, 0, len(d))
	for k := range d {
		if kind == "stream" && canonSkip[k] {
			continue
		}
		if kind == "info" && (k == "Producer" || k == "ModDate" || k == "CreationDate") {
			continue
		}
		keys = append(keys, k)
	}
	sort.Strings(keys)
	c.b.WriteString("<<")
	for _, k := range keys {
		c.b.WriteString("/" + k + " ")
		c.obj(d[k], "")
		c.b.WriteString(" ")
	}
	c.b.WriteString(">>")
}

// canonOf returns the canonical text of a read context and its digest.
func canonOf(ctx *model.Context) (string, []string) {
	c := &canon{ctx: ctx, ids: map[int]int{}}
	if ctx.Root == nil {
		h.Die("context without catalog")
	}
	c.b.WriteString("ROOT ")
	c.obj(*ctx.Root, "")
	c.b.WriteString("\nINFO ")
	if ctx.Info != nil {
		n := ctx.Info.ObjectNumber.Value()
		if _, seen := c.ids[n]; !seen {
			c.ids[n] = len(c.ids) + 1
			if d, err := ctx.DereferenceDict(*ctx.Info); err == nil && d != nil {
				c.dict(d, "info")
			}
		}
	}
	return c.b.String(), c.errs
}

// firstDiff locates the first difference of two canonical texts for reporting.
func firstDiff(a, b string) string {
	n := len(a)
	if len(b) < n {
		n = len(b)
	}
	i := 0
	for i < n && a[i] == b[i] {
		i++
	}
	lo := i - 60
	if lo < 0 {
		lo = 0
	}
	cut := func(s string) string {
		hi := i + 60
		if hi > len(s) {
			hi = len(s)
		}
		if lo > len(s) {
			return ""
		}
		return s[lo:hi]
	}
	return fmt.Sprintf("at %d: want ...%s... got ...%s...", i, cut(a), cut(b))
}
