package main

import (
	"bytes"
	"encoding/json"
	"fmt"
	"hash/fnv"
	"os"
	"path/filepath"
	"reflect"
	"strings"

	"github.com/pdfcpu/pdfcpu/pkg/api"
	"verif/harness/lib/h"
	"verif/harness/lib/proj"
	"verif/harness/lib/rawpdf"
)

// The password alphabet of SecHist.tla is symbolic; these are the real passwords.
var pwReal = map[string]string{
	"":     "",
	"a":    "a",
	"b":    "A", // differs from "a" only in letter case: passwords are case sensitive
	"uni":  "pässwörd-ключ", // non-ASCII, already in NFKC form
	"sp":   " ",   // white space only, not empty
	"tab":  "\t ", // white space only, not empty
	"long": "0123456789abcdefghijABCDEFGHIJ0123456789", // 40 bytes (> 32)
}

func pw(sym string) string {
	r, ok := pwReal[sym]
	if !ok {
		h.Die("unknown symbolic password %q", sym)
	}
	return r
}

// sizedPW builds a password of exactly n bytes starting with first: ASCII, or mostly two-byte UTF-8 letters (NFKC-stable).
func sizedPW(n int, multiByte bool, first byte) string {
	b := []byte{first}
	for i := 0; len(b) < n; i++ {
		if multiByte && len(b)+2 <= n {
			b = append(b, []byte([]string{"é", "ж", "ö"}[i%3])...)
		} else {
			b = append(b, "0123456789"[i%10])
		}
	}
	return string(b)
}

// pw realises a symbolic password for this history: "a" and "b" by the realisation the model chose (they differ in
// their first byte - letter case - whatever their length), the others by the fixed table.
func (c *hcase) pw(sym string) string {
	switch sym {
	case "a":
		return sizedPW(c.La, c.MBa, 'a')
	case "b":
		return sizedPW(c.Lb, c.MBb, 'A')
	}
	return pw(sym)
}

// akey identifies algorithm and realisation (the root of a family of histories).
func (c *hcase) akey() string { return fmt.Sprintf("%s#r%d", c.Alg, c.Real) }

type hstep struct {
	Op  string `json:"op"`
	Alg string `json:"alg"`
	U   string `json:"u"`
	O   string `json:"o"`
	N   string `json:"n"`
	P   int    `json:"p"`
}

type hdoc struct {
	Enc  bool   `json:"enc"`
	Alg  string `json:"alg"`
	Upw  string `json:"upw"`
	Opw  string `json:"opw"`
	Perm int    `json:"perm"`
}

type hprobe struct {
	U   string `json:"u"`
	O   string `json:"o"`
	Out string `json:"out"`
	Acc string `json:"acc"`
}

type hcase struct {
	Alg   string   `json:"alg"`
	Real  int      `json:"real"` // password realisation (Sec!PwLens): byte lengths and kind of the passwords "a" and "b"
	La    int      `json:"la"`
	Lb    int      `json:"lb"`
	MBa   bool     `json:"mba"`
	MBb   bool     `json:"mbb"`
	Steps []hstep  `json:"steps"`
	Out   string   `json:"out"`
	Post  hdoc     `json:"post"`
	Opens []hprobe `json:"opens"`

	kids []*hcase
}

type hmism struct {
	Alg   string  `json:"alg"`
	Real  int     `json:"real"`
	PwA   string  `json:"pw_a"`
	PwB   string  `json:"pw_b"`
	Steps []hstep `json:"steps"`
	What  string  `json:"what"`
	Want  any     `json:"want"`
	Got   any     `json:"got"`
}

func (s hstep) String() string {
	switch s.Op {
	case "Encrypt":
		return fmt.Sprintf("Encrypt(u=%q,o=%q,p=%d)", s.U, s.O, s.P)
	case "Decrypt":
		return fmt.Sprintf("Decrypt(u=%q,o=%q)", s.U, s.O)
	case "SetPerms":
		return fmt.Sprintf("SetPerms(u=%q,o=%q,p=%d)", s.U, s.O, s.P)
	}
	return fmt.Sprintf("%s(u=%q,o=%q,new=%q)", s.Op, s.U, s.O, s.N)
}

func stepsKey(alg string, ss []hstep) string {
	var b strings.Builder
	b.WriteString(alg)
	for _, s := range ss {
		b.WriteString(";" + s.String())
	}
	return b.String()
}

// sourceDoc is the unencrypted marker document for an algorithm (PDF 2.0 for revision 6).
func sourceDoc(alg string) []byte {
	ps := []rawpdf.PageSpec{{Marker: "mk-1", Rotate: -1}, {Marker: "mk-2", Rotate: 90}}
	d := rawpdf.MarkerDoc(ps, rawpdf.MarkerOpts{InfoDict: "/Title (sec history)"})
	if alg == "aes_256_r6" {
		d = rawpdf.MarkerDoc(ps, rawpdf.MarkerOpts{})
		d.Version = "2.0"
	}
	return d.Bytes()
}

// runStep applies one step of the model through the real *File API. out == "" means in place.
func runStep(c *hcase, s hstep, in, out string) error {
	pw := c.pw
	u, o := pw(s.U), pw(s.O)
	switch s.Op {
	case "Encrypt":
		c := encConf(s.Alg, u, o)
		c.Permissions = permFlags(s.P)
		return api.EncryptFile(in, out, c)
	case "Decrypt":
		return api.DecryptFile(in, out, pwConf(u, o))
	case "SetPerms":
		c := pwConf(u, o)
		c.Permissions = permFlags(s.P)
		return api.SetPermissionsFile(in, out, c)
	case "ChangeUPW":
		return api.ChangeUserPasswordFile(in, out, u, pw(s.N), pwConf("", o))
	case "ChangeOPW":
		return api.ChangeOwnerPasswordFile(in, out, o, pw(s.N), pwConf(u, ""))
	}
	h.Die("unknown op %q", s.Op)
	return nil
}

type c25run struct {
	w        *h.W
	dir      string
	n, bad   int
	probes   int
	okSteps  int
	changed  map[string]bool // distinct histories whose last step succeeded in changing credentials/permissions
	rejected int             // probes expected (and found) to be rejected
	seq      int
	primary  bool // this shard judges the length-1 histories (every shard executes them)
	orig     map[string][]proj.Page
}

func (r *c25run) fail(c *hcase, what string, want, got any) {
	if len(c.Steps) == 1 && !r.primary {
		return
	}
	r.bad++
	if r.bad <= 300 {
		r.w.Put(hmism{c.Alg, c.Real, c.pw("a"), c.pw("b"), c.Steps, what, want, got})
	}
}

func pagesEq(a, b []proj.Page) bool {
	if len(a) != len(b) {
		return false
	}
	for i := range a {
		if !reflect.DeepEqual(a[i].Markers, b[i].Markers) || a[i].Rot != b[i].Rot || a[i].Media != b[i].Media ||
			proj.NormContent(a[i].Content) != proj.NormContent(b[i].Content) {
			return false
		}
	}
	return true
}

// probe opens file with every password pair of the case and compares class, content and reported permissions.
func (r *c25run) probe(c *hcase, file string) {
	pw := c.pw
	permSeen := false
	counted := len(c.Steps) > 1 || r.primary
	for _, p := range c.Opens {
		if counted {
			r.probes++
		}
		conf := pwConf(pw(p.U), pw(p.O))
		ctx, err := proj.Context(file, conf)
		got := cls(err)
		if got != p.Out {
			r.fail(c, fmt.Sprintf("open(u=%q,o=%q) outcome", p.U, p.O), p.Out, got)
			continue
		}
		if err != nil {
			if ctx != nil {
				r.fail(c, fmt.Sprintf("open(u=%q,o=%q) rejected but a context was returned", p.U, p.O), nil, "context")
			}
			if counted {
				r.rejected++
			}
			continue
		}
		pages, err := proj.PagesOf(ctx)
		if err != nil {
			r.fail(c, fmt.Sprintf("open(u=%q,o=%q) content unreadable", p.U, p.O), "pages", err.Error())
			continue
		}
		if !pagesEq(pages, r.orig[c.Alg]) {
			r.fail(c, fmt.Sprintf("open(u=%q,o=%q) content differs from the original", p.U, p.O), r.orig[c.Alg], pages)
		}
		if !permSeen {
			permSeen = true
			pp, err := api.GetPermissionsFile(file, pwConf(pw(p.U), pw(p.O)))
			switch {
			case err != nil:
				r.fail(c, "GetPermissionsFile", "ok", err.Error())
			case !c.Post.Enc && pp != nil:
				r.fail(c, "permissions reported for an unencrypted document", nil, *pp)
			case c.Post.Enc && pp == nil:
				r.fail(c, "no permissions reported for an encrypted document", c.Post.Perm, nil)
			case c.Post.Enc && int(*pp) != c.Post.Perm:
				r.fail(c, "reported permissions", c.Post.Perm, int(*pp))
			}
		}
	}
}

// visit executes the last step of c on the parent's file and recurses into the continuations.
func (r *c25run) visit(c *hcase, parent string) {
	counted := len(c.Steps) > 1 || r.primary
	if counted {
		r.n++
	}
	s := c.Steps[len(c.Steps)-1]
	r.seq++
	child := filepath.Join(r.dir, fmt.Sprintf("n%d.pdf", r.seq))
	before, err := os.ReadFile(parent)
	if err != nil {
		h.Die("read %s: %v", parent, err)
	}
	inplace := len(c.Steps)%2 == 0
	var opErr error
	if inplace {
		if err := os.WriteFile(child, before, 0o644); err != nil {
			h.Die("write: %v", err)
		}
		opErr = runStep(c, s, child, "")
	} else {
		opErr = runStep(c, s, parent, child)
	}
	got := cls(opErr)
	if got != c.Out {
		r.fail(c, "outcome of "+s.String(), c.Out, got)
		os.Remove(child)
		return
	}
	if opErr != nil {
		// a refused step must leave nothing behind and must not touch its input
		if inplace {
			after, _ := os.ReadFile(child)
			if !bytes.Equal(before, after) {
				r.fail(c, "refused in-place step modified the file", len(before), len(after))
			}
		} else if _, err := os.Stat(child); err == nil {
			r.fail(c, "refused step left an output file", nil, child)
		}
		after, _ := os.ReadFile(parent)
		if !bytes.Equal(before, after) {
			r.fail(c, "refused step modified its input", len(before), len(after))
		}
		os.Remove(child)
		if len(c.kids) > 0 {
			h.Die("model continued a history after a refused step: %s", stepsKey(c.akey(), c.Steps))
		}
		return
	}
	if counted {
		r.okSteps++
	}
	if len(c.Steps) > 1 {
		r.changed[stepsKey(c.akey(), c.Steps)] = true
	}
	r.probe(c, child)
	for _, k := range c.kids {
		r.visit(k, child)
	}
	os.Remove(child)
}

// c25split distributes the cases over n shard files: histories of length >= 2 by a hash of their first two steps,
// histories of length 1 into every shard (they are the parents; only shard 0 judges them).
func c25split(in, prefix string, n int) {
	ws := make([]*h.W, n)
	for i := range ws {
		ws[i] = h.NewW(fmt.Sprintf("%s%d.ndjson", prefix, i))
	}
	total := 0
	err := h.EachLine(in, func(line []byte) error {
		total++
		var c hcase
		if err := json.Unmarshal(line, &c); err != nil {
			return err
		}
		if len(c.Steps) == 1 {
			for _, w := range ws {
				w.Put(json.RawMessage(line))
			}
			return nil
		}
		hh := fnv.New32a()
		hh.Write([]byte(stepsKey(c.akey(), c.Steps[:2])))
		ws[int(hh.Sum32()%uint32(n))].Put(json.RawMessage(line))
		return nil
	})
	if err != nil {
		h.Die("split: %v", err)
	}
	for _, w := range ws {
		w.Close()
	}
	h.Summary(map[string]any{"total": total})
}

func c25(in, out string, shard, of int) {
	dir, err := os.MkdirTemp("", "sec-c25-")
	if err != nil {
		h.Die("tmp: %v", err)
	}
	defer os.RemoveAll(dir)
	r := &c25run{w: h.NewW(out), dir: dir, primary: shard == 0, changed: map[string]bool{}, orig: map[string][]proj.Page{}}
	defer r.w.Close()

	byKey := map[string]*hcase{}
	var all []*hcase
	total := 0
	err = h.EachLine(in, func(line []byte) error {
		total++
		c := &hcase{}
		if err := json.Unmarshal(line, c); err != nil {
			return err
		}
		byKey[stepsKey(c.akey(), c.Steps)] = c
		all = append(all, c)
		return nil
	})
	if err != nil {
		h.Die("read cases: %v", err)
	}
	var roots []*hcase
	for _, c := range all {
		if len(c.Steps) == 1 {
			roots = append(roots, c)
			continue
		}
		p := byKey[stepsKey(c.akey(), c.Steps[:len(c.Steps)-1])]
		if p == nil {
			h.Die("case without its prefix: %s", stepsKey(c.akey(), c.Steps))
		}
		p.kids = append(p.kids, c)
	}
	srcs := map[string]string{}
	for _, c := range roots {
		if _, ok := srcs[c.Alg]; ok {
			continue
		}
		p := filepath.Join(dir, "src-"+c.Alg+".pdf")
		if err := os.WriteFile(p, sourceDoc(c.Alg), 0o644); err != nil {
			h.Die("write: %v", err)
		}
		pages, err := proj.Pages(p, nil)
		if err != nil {
			h.Die("source document for %s unreadable: %v", c.Alg, err)
		}
		srcs[c.Alg] = p
		r.orig[c.Alg] = pages
	}
	for _, c := range roots {
		if !r.primary && len(c.kids) == 0 {
			continue // a length-1 history none of whose continuations belongs to this shard (shard 0 judges it)
		}
		r.visit(c, srcs[c.Alg])
	}
	h.Summary(map[string]any{"lines": total, "cases": r.n, "mismatches": r.bad, "probes": r.probes, "ok_steps": r.okSteps,
		"nontrivial": len(r.changed), "rejected_probes": r.rejected})
}
