package main

// C38: replay of TLC-generated add/remove watermark sequences (spec/Watermarks.tla) on unrotated marker documents
// with single and multiple content streams through api.Add{Text,Image,PDF}WatermarksFile / RemoveWatermarksFile /
// HasWatermarksFile; after every step the projected state (pages carrying a watermark artifact, normalised
// content of the other pages, detection result) is compared with the model's.

import (
	"encoding/json"
	"fmt"
	"os"
	"path/filepath"
	"strings"
	"sync"

	"github.com/pdfcpu/pdfcpu/pkg/api"
	"github.com/pdfcpu/pdfcpu/pkg/pdfcpu/model"
	"verif/harness/lib/h"
	"verif/harness/lib/proj"
	"verif/harness/lib/rawpdf"
)

type wmOp struct {
	Op    string   `json:"op"`
	Kind  string   `json:"kind"`
	OnTop bool     `json:"ontop"`
	Sel   []string `json:"sel"`
	Desc  string   `json:"desc"`
	Pages []int    `json:"pages"`
	Fails bool     `json:"fails"`
	W     []int    `json:"w"`
}

type wmCase struct {
	NP      int    `json:"np"`
	Fanout  int    `json:"fanout"`
	Streams []int  `json:"streams"`
	Ops     []wmOp `json:"ops"`
}

type wmMismatch struct {
	Key  string `json:"key"`
	What string `json:"what"`
	Step int    `json:"step"`
	Case wmCase `json:"case"`
	Got  any    `json:"got"`
}

const wmArtifact = "/Artifact <</Subtype /Watermark"

func repoPath(rel string) string {
	r := os.Getenv("VERIF_REPO")
	if r == "" {
		r = "/repo"
	}
	return filepath.Join(r, rel)
}

// wmClass is the stable class of a finding on page p after step `upto`: single/multi content streams and the
// onTop flags (T stamp, B background watermark) of the adds that hit the page so far.
func wmClass(c wmCase, upto, p int) string {
	cls := "single"
	if p >= 1 && p <= len(c.Streams) && c.Streams[p-1] > 1 {
		cls = "multi"
	}
	var hits []string
	for i := 0; i <= upto && i < len(c.Ops); i++ {
		o := c.Ops[i]
		if o.Op != "add" {
			continue
		}
		for _, q := range o.Pages {
			if q == p {
				if o.OnTop {
					hits = append(hits, "T")
				} else {
					hits = append(hits, "B")
				}
			}
		}
	}
	return cls + "|" + strings.Join(hits, ",")
}

func wmKey(c wmCase, upto int) string {
	var sb strings.Builder
	fmt.Fprintf(&sb, "fanout=%d;streams=%v", c.Fanout, c.Streams)
	for i := 0; i <= upto && i < len(c.Ops); i++ {
		o := c.Ops[i]
		if o.Op == "add" {
			fmt.Fprintf(&sb, ";add(%s,top=%v,[%s])", o.Kind, o.OnTop, strings.Join(o.Sel, ","))
		} else {
			fmt.Fprintf(&sb, ";remove([%s])", strings.Join(o.Sel, ","))
		}
	}
	return sb.String()
}

// wconf: default configuration for single-step cases and first steps with a selection, classic xref / no object streams otherwise
// (much less deflate work; both writer paths see watermarks).
func wconf(step int, c wmCase) *model.Configuration {
	if (step+len(c.Ops)+len(c.Ops[0].Sel))%3 == 0 {
		return nil
	}
	return plainConf()
}

func wmRun(dir string, c wmCase, fail func(step int, key, what string, got any)) {
	pageKey := func(kind string, step, p int) string { return kind + "|" + wmClass(c, step, p) }
	ps := make([]rawpdf.PageSpec, c.NP)
	for i := range ps {
		ps[i] = rawpdf.PageSpec{Marker: fmt.Sprintf("wm-%d", i+1), Rotate: -1, Streams: c.Streams[i]}
	}
	cur := filepath.Join(dir, "d0.pdf")
	if err := os.WriteFile(cur, rawpdf.MarkerDoc(ps, rawpdf.MarkerOpts{Fanout: c.Fanout}).Bytes(), 0644); err != nil {
		h.Die("write: %v", err)
	}
	orig, err := proj.Pages(cur, nil)
	if err != nil {
		h.Die("marker document unreadable: %v", err)
	}
	if has, err := api.HasWatermarksFile(cur, nil); err != nil || has {
		fail(-1, "has-initial", "HasWatermarksFile on a fresh document", fmt.Sprint(has, err))
	}
	for i, o := range c.Ops {
		next := filepath.Join(dir, fmt.Sprintf("d%d.pdf", i+1))
		os.Remove(next)
		var err error
		switch {
		case o.Op == "add" && o.Kind == "text":
			err = api.AddTextWatermarksFile(cur, next, o.Sel, o.OnTop, fmt.Sprintf("Draft %d", i), o.Desc, wconf(i, c))
		case o.Op == "add" && o.Kind == "image":
			img := "pkg/testdata/resources/github.png"
			if i == 0 && len(o.Sel) == 0 {
				img = "pkg/testdata/resources/logoSmall.png"
			}
			err = api.AddImageWatermarksFile(cur, next, o.Sel, o.OnTop, repoPath(img), o.Desc, wconf(i, c))
		case o.Op == "add" && o.Kind == "pdf":
			err = api.AddPDFWatermarksFile(cur, next, o.Sel, o.OnTop, repoPath("pkg/testdata/test.pdf")+":1", o.Desc, wconf(i, c))
		case o.Op == "remove":
			err = api.RemoveWatermarksFile(cur, next, o.Sel, wconf(i, c))
		default:
			h.Die("unknown op %s", o.Op)
		}
		if o.Fails {
			if err == nil {
				fail(i, "remove-nothing-accepted", "removing watermarks from pages that carry none succeeded", nil)
				cur = next
			}
			// a failed call leaves the document as it was: keep checking `cur`
		} else {
			if err != nil {
				fail(i, o.Op+"-error", fmt.Sprintf("%s failed: %v", o.Op, err), err.Error())
				return
			}
			cur = next
		}
		// projection of the real document
		pages, err := proj.Pages(cur, nil)
		if err != nil {
			fail(i, "unreadable", "document unreadable after "+o.Op, err.Error())
			return
		}
		if len(pages) != c.NP {
			fail(i, "pagecount", "page count changed", len(pages))
			return
		}
		expW := map[int]bool{}
		for _, p := range o.W {
			expW[p] = true
		}
		for p := 1; p <= c.NP; p++ {
			got := strings.Contains(pages[p-1].Content, wmArtifact)
			if got != expW[p] {
				if got {
					fail(i, pageKey("wm-remains", i, p), fmt.Sprintf("page %d carries a watermark although the model has none there after %s", p, o.Op), pages[p-1].Content)
				} else {
					fail(i, pageKey("wm-missing", i, p), fmt.Sprintf("page %d carries no watermark although the model has one there after %s", p, o.Op), pages[p-1].Content)
				}
				continue
			}
			if !got && proj.NormContent(pages[p-1].Content) != proj.NormContent(orig[p-1].Content) {
				fail(i, pageKey("content", i, p), fmt.Sprintf("page %d (no watermark) differs from its original content after %s: %q expected", p, o.Op, proj.NormContent(orig[p-1].Content)),
					pages[p-1].Content)
			}
		}
		has, err := api.HasWatermarksFile(cur, nil)
		if err != nil {
			fail(i, "has-error", "HasWatermarksFile failed", err.Error())
		} else if has != (len(o.W) > 0) {
			shape := "flat"
			if c.Fanout > 0 {
				shape = "nested"
			}
			fail(i, fmt.Sprintf("has-wrong|%s page tree|reports %v", shape, has), fmt.Sprintf("HasWatermarksFile = %v but the watermarked pages are %v", has, o.W), has)
		}
	}
}

func wmReplay(in, out string, workers int) {
	wr := h.NewW(out)
	defer wr.Close()
	var mu sync.Mutex
	n, bad, steps, nested := 0, 0, 0, 0
	distinct := map[string]bool{}
	ch := make(chan []byte, 64)
	var wg sync.WaitGroup
	for i := 0; i < workers; i++ {
		wg.Add(1)
		go func() {
			defer wg.Done()
			dir, err := os.MkdirTemp("", "wm-replay-")
			if err != nil {
				h.Die("tmp: %v", err)
			}
			defer os.RemoveAll(dir)
			for line := range ch {
				var c wmCase
				if err := json.Unmarshal(line, &c); err != nil {
					h.Die("case: %v", err)
				}
				var local []wmMismatch
				wmRun(dir, c, func(step int, key, what string, got any) {
					local = append(local, wmMismatch{key, what + " [" + wmKey(c, step) + "]", step, c, got})
				})
				mu.Lock()
				n++
				steps += len(c.Ops)
				if c.Fanout > 0 {
					nested++
				}
				multi := false
				for _, o := range c.Ops {
					for _, p := range o.W {
						if c.Streams[p-1] > 1 {
							multi = true
						}
					}
				}
				if multi {
					distinct[wmKey(c, len(c.Ops))] = true
				}
				for _, m := range local {
					bad++
					if bad <= 5000 {
						wr.Put(m)
					}
				}
				mu.Unlock()
			}
		}()
	}
	err := h.EachLine(in, func(line []byte) error {
		ch <- append([]byte(nil), line...)
		return nil
	})
	close(ch)
	wg.Wait()
	if err != nil {
		h.Die("replay: %v", err)
	}
	h.Summary(map[string]any{"cases": n, "steps": steps, "mismatches": bad, "nontrivial": len(distinct), "nested": nested})
}
