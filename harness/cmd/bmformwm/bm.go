package main

// C36: replay of TLC-generated bookmark forests (spec/Bookmarks.tla) through the real
// api.ImportBookmarksFile / api.ExportBookmarksFile, and of TLC-generated (possibly cyclic) outline graphs
// (spec/BookmarksRobust.tla) through api.ExportBookmarksFile / api.ListBookmarksFile under a deadline.

import (
	"encoding/json"
	"errors"
	"fmt"
	"os"
	"path/filepath"
	"reflect"
	"regexp"
	"strings"
	"sync"
	"unicode/utf16"

	"github.com/pdfcpu/pdfcpu/pkg/api"
	"github.com/pdfcpu/pdfcpu/pkg/pdfcpu/model"
	"github.com/pdfcpu/pdfcpu/pkg/pdfcpu/types"
	"verif/harness/lib/h"
	"verif/harness/lib/rawpdf"
)

// bmNode is a node of the model's forest (titles are code point sequences, colours per mille).
type bmNode struct {
	Title  []int    `json:"title"`
	Page   int      `json:"page"`
	Bold   bool     `json:"bold"`
	Italic bool     `json:"italic"`
	Color  []int    `json:"color"`
	Kids   []bmNode `json:"kids"`
}

type bmCase struct {
	N          int      `json:"n"`
	NP         int      `json:"np"`
	Depth      int      `json:"depth"`
	Importable bool     `json:"importable"`
	ExpImp     bool     `json:"expimportable"`
	Tree       []bmNode `json:"tree"`
	Exp        []bmNode `json:"exp"`
}

type bmMismatch struct {
	Key  string `json:"key"`
	What string `json:"what"`
	Case bmCase `json:"case"`
	Got  any    `json:"got"`
}

func cpString(cps []int) string {
	var sb strings.Builder
	for _, c := range cps {
		sb.WriteRune(rune(c))
	}
	return sb.String()
}

// pdfcpu's JSON shape (pkg/pdfcpu/bookmark.go: BookmarkTree / Bookmark)
type jsColor struct {
	R float64 `json:"R"`
	G float64 `json:"G"`
	B float64 `json:"B"`
}
type jsBM struct {
	Title  string   `json:"title"`
	Page   int      `json:"page"`
	Bold   bool     `json:"bold,omitempty"`
	Italic bool     `json:"italic,omitempty"`
	Color  *jsColor `json:"color,omitempty"`
	Kids   []jsBM   `json:"kids,omitempty"`
}
type jsTree struct {
	Header    map[string]any `json:"header,omitempty"`
	Bookmarks []jsBM         `json:"bookmarks"`
}

func toJS(f []bmNode) []jsBM {
	out := make([]jsBM, 0, len(f))
	for _, n := range f {
		j := jsBM{Title: cpString(n.Title), Page: n.Page, Bold: n.Bold, Italic: n.Italic}
		if len(n.Color) == 3 {
			j.Color = &jsColor{float64(n.Color[0]) / 1000, float64(n.Color[1]) / 1000, float64(n.Color[2]) / 1000}
		}
		if len(n.Kids) > 0 {
			j.Kids = toJS(n.Kids)
		}
		out = append(out, j)
	}
	return out
}

func permille(x float64) int {
	if x < 0 {
		return int(x*1000 - 0.5)
	}
	return int(x*1000 + 0.5)
}

// fromJS converts an exported tree back into the model's vocabulary.
func fromJS(f []jsBM) []bmNode {
	out := make([]bmNode, 0, len(f))
	for _, j := range f {
		n := bmNode{Page: j.Page, Bold: j.Bold, Italic: j.Italic, Color: []int{}, Title: []int{}}
		for _, r := range j.Title {
			n.Title = append(n.Title, int(r))
		}
		if j.Color != nil {
			n.Color = []int{permille(j.Color.R), permille(j.Color.G), permille(j.Color.B)}
		}
		n.Kids = fromJS(j.Kids)
		out = append(out, n)
	}
	return out
}

func normForest(f []bmNode) []bmNode {
	out := make([]bmNode, 0, len(f))
	for _, n := range f {
		if n.Title == nil {
			n.Title = []int{}
		}
		if n.Color == nil {
			n.Color = []int{}
		}
		n.Kids = normForest(n.Kids)
		out = append(out, n)
	}
	return out
}

func readExport(path string) ([]jsBM, error) {
	b, err := os.ReadFile(path)
	if err != nil {
		return nil, err
	}
	var t jsTree
	if err := json.Unmarshal(b, &t); err != nil {
		return nil, err
	}
	return t.Bookmarks, nil
}

func stripCtl(t []int) []int {
	out := []int{}
	for _, c := range t {
		if c >= 32 {
			out = append(out, c)
		}
	}
	return out
}

// diffAt describes the first difference between two forests: text, the differing attribute and the (expected) title there.
type diffAt struct {
	Text  string
	Attr  string // count | title | page | bold | italic | colour
	Title string
}

func firstDiffAt(a, b []bmNode, path string) *diffAt {
	if len(a) != len(b) {
		return &diffAt{fmt.Sprintf("%s: %d items expected, %d found", path, len(a), len(b)), "count", ""}
	}
	for i := range a {
		p := fmt.Sprintf("%s/%d", path, i)
		x, y := a[i], b[i]
		t := cpString(x.Title)
		switch {
		case !reflect.DeepEqual(x.Title, y.Title):
			return &diffAt{fmt.Sprintf("%s: title %q expected, %q found", p, t, cpString(y.Title)), "title", t}
		case x.Page != y.Page && len(stripCtl(x.Title)) > 0: // an item without visible title is never exported; its destination is not observable
			return &diffAt{fmt.Sprintf("%s: page %d expected, %d found", p, x.Page, y.Page), "page", t}
		case x.Bold != y.Bold:
			return &diffAt{fmt.Sprintf("%s: bold %v expected, %v found", p, x.Bold, y.Bold), "bold", t}
		case x.Italic != y.Italic:
			return &diffAt{fmt.Sprintf("%s: italic %v expected, %v found", p, x.Italic, y.Italic), "italic", t}
		case !reflect.DeepEqual(x.Color, y.Color):
			return &diffAt{fmt.Sprintf("%s: colour %v expected, %v found", p, x.Color, y.Color), "colour", t}
		}
		if d := firstDiffAt(x.Kids, y.Kids, p); d != nil {
			return d
		}
	}
	return nil
}

func firstDiff(a, b []bmNode, path string) string {
	if d := firstDiffAt(a, b, path); d != nil {
		return d.Text
	}
	return ""
}

var quotedRe = regexp.MustCompile(`"(?:[^"\\]|\\.)*"`)
var digitsRe = regexp.MustCompile(`[0-9]+`)

// errClass reduces an error message to its stable skeleton (no quoted values, no numbers), keeping the innermost part.
func errClass(msg string) string {
	m := digitsRe.ReplaceAllString(quotedRe.ReplaceAllString(msg, "_"), "#")
	parts := strings.Split(m, ": ")
	if len(parts) > 3 {
		parts = parts[len(parts)-3:]
	}
	return strings.Join(parts, ": ")
}

func titleCount(f []bmNode, t string) int {
	n := 0
	for _, x := range f {
		if cpString(x.Title) == t {
			n++
		}
		n += titleCount(x.Kids, t)
	}
	return n
}

// diffClass is the stable class of a tree difference: the attribute and whether the item's title occurs more than once
// in the forest (items with equal titles share the key of their named destination).
func diffClass(forest []bmNode, d *diffAt) string {
	if d == nil {
		return "none"
	}
	if d.Attr == "count" {
		return "count"
	}
	if titleCount(forest, d.Title) > 1 {
		return d.Attr + "|duplicate-title"
	}
	return d.Attr + "|unique-title"
}

// ---------------------------------------------------------------- raw documents with outlines

func utf16be(cps []int) []byte {
	rs := make([]rune, len(cps))
	for i, c := range cps {
		rs[i] = rune(c)
	}
	u := utf16.Encode(rs)
	b := []byte{0xFE, 0xFF}
	for _, x := range u {
		b = append(b, byte(x>>8), byte(x))
	}
	return b
}

func litString(b []byte) string {
	var sb strings.Builder
	sb.WriteByte('(')
	for _, c := range b {
		switch {
		case c == '(' || c == ')' || c == '\\':
			sb.WriteByte('\\')
			sb.WriteByte(c)
		case c < 32 || c > 126:
			fmt.Fprintf(&sb, "\\%03o", c)
		default:
			sb.WriteByte(c)
		}
	}
	sb.WriteByte(')')
	return sb.String()
}

func rawTitle(cps []int, variant int) string {
	ascii := true
	for _, c := range cps {
		if c > 126 {
			ascii = false
		}
	}
	switch variant % 3 {
	case 1:
		return litString(utf16be(cps))
	case 2:
		if ascii {
			b := make([]byte, len(cps))
			for i, c := range cps {
				b[i] = byte(c)
			}
			return litString(b)
		}
	}
	return fmt.Sprintf("<%X>", utf16be(cps))
}

// rawBase builds an n-page document; returns the doc, the catalog object number, the pages node and the page object numbers.
func rawBase(n int) (*rawpdf.Doc, int, int, []int) {
	d := &rawpdf.Doc{}
	cat := d.Reserve()
	d.Root = cat
	font := d.Add("<< /Type /Font /Subtype /Type1 /BaseFont /Helvetica >>")
	pages := d.Reserve()
	var nums []int
	var refs []string
	for i := 1; i <= n; i++ {
		c := d.AddStream("", []byte(rawpdf.MarkerContent(fmt.Sprintf("p-%d", i))))
		p := d.Add(fmt.Sprintf("<< /Type /Page /Parent %d 0 R /Contents %d 0 R /Resources << /Font << /F1 %d 0 R >> >> >>", pages, c, font))
		nums = append(nums, p)
		refs = append(refs, fmt.Sprintf("%d 0 R", p))
	}
	d.Set(pages, fmt.Sprintf("<< /Type /Pages /Count %d /Kids [%s] /MediaBox [0 0 595 842] >>", n, strings.Join(refs, " ")))
	d.Set(cat, fmt.Sprintf("<< /Type /Catalog /Pages %d 0 R >>", pages))
	return d, cat, pages, nums
}

func countDesc(f []bmNode) int {
	c := 0
	for _, n := range f {
		c += 1 + countDesc(n.Kids)
	}
	return c
}

// rawOutlineDoc writes the model forest as hand-made outline dictionaries (explicit destinations).
func rawOutlineDoc(np int, f []bmNode) []byte {
	d, cat, pages, pnums := rawBase(np)
	root := d.Reserve()
	seq := 0
	var emit func(list []bmNode, parent int) (first, last int)
	emit = func(list []bmNode, parent int) (int, int) {
		nums := make([]int, len(list))
		for i := range list {
			nums[i] = d.Reserve()
		}
		for i, n := range list {
			seq++
			v := seq
			body := fmt.Sprintf("<< /Title %s /Parent %d 0 R", rawTitle(n.Title, v), parent)
			pref := fmt.Sprintf("%d 0 R", pnums[n.Page-1])
			if v%2 == 0 {
				body += fmt.Sprintf(" /Dest [%s /Fit]", pref)
			} else {
				body += fmt.Sprintf(" /A << /S /GoTo /D [%s /XYZ 0 0 0] >>", pref)
			}
			if i > 0 {
				body += fmt.Sprintf(" /Prev %d 0 R", nums[i-1])
			}
			if i < len(list)-1 {
				body += fmt.Sprintf(" /Next %d 0 R", nums[i+1])
			}
			st := 0
			if n.Bold {
				st += 2
			}
			if n.Italic {
				st++
			}
			if st > 0 {
				body += fmt.Sprintf(" /F %d", st)
			}
			if len(n.Color) == 3 {
				body += fmt.Sprintf(" /C [%s %s %s]", pm(n.Color[0]), pm(n.Color[1]), pm(n.Color[2]))
			}
			if len(n.Kids) > 0 {
				fk, lk := emit(n.Kids, nums[i])
				body += fmt.Sprintf(" /First %d 0 R /Last %d 0 R /Count %d", fk, lk, countDesc(n.Kids))
			}
			d.Set(nums[i], body+" >>")
		}
		return nums[0], nums[len(nums)-1]
	}
	fk, lk := emit(f, root)
	d.Set(root, fmt.Sprintf("<< /Type /Outlines /First %d 0 R /Last %d 0 R /Count %d >>", fk, lk, countDesc(f)))
	d.Set(cat, fmt.Sprintf("<< /Type /Catalog /Pages %d 0 R /Outlines %d 0 R >>", pages, root))
	return d.Bytes()
}

func pm(v int) string {
	if v%1000 == 0 {
		return fmt.Sprintf("%d", v/1000)
	}
	return fmt.Sprintf("%d.%03d", v/1000, v%1000)
}

// ---------------------------------------------------------------- projection of a written PDF's outline (independent of pdfcpu's exporter)

func projTitle(o types.Object) ([]int, error) {
	var b []byte
	var err error
	switch s := o.(type) {
	case types.StringLiteral:
		b, err = types.Unescape(s.Value())
	case types.HexLiteral:
		b, err = s.Bytes()
	default:
		return nil, fmt.Errorf("title is %T", o)
	}
	if err != nil {
		return nil, err
	}
	out := []int{}
	if len(b) >= 2 && b[0] == 0xFE && b[1] == 0xFF {
		var u []uint16
		for i := 2; i+1 < len(b); i += 2 {
			u = append(u, uint16(b[i])<<8|uint16(b[i+1]))
		}
		for _, r := range utf16.Decode(u) {
			out = append(out, int(r))
		}
		return out, nil
	}
	for _, c := range b {
		out = append(out, int(c))
	}
	return out, nil
}

func lookupName(ctx *model.Context, node types.Dict, key string, depth int) (types.Object, error) {
	if depth > 50 {
		return nil, errors.New("name tree too deep")
	}
	if a := node.ArrayEntry("Names"); a != nil {
		for i := 0; i+1 < len(a); i += 2 {
			k, err := ctx.Dereference(a[i])
			if err != nil {
				return nil, err
			}
			var ks string
			switch s := k.(type) {
			case types.StringLiteral:
				b, _ := types.Unescape(s.Value())
				ks = string(b)
			case types.HexLiteral:
				b, _ := s.Bytes()
				ks = string(b)
			}
			if ks == key {
				return ctx.Dereference(a[i+1])
			}
		}
	}
	if a := node.ArrayEntry("Kids"); a != nil {
		for _, k := range a {
			kd, err := ctx.DereferenceDict(k)
			if err != nil {
				return nil, err
			}
			if o, err := lookupName(ctx, kd, key, depth+1); err == nil && o != nil {
				return o, nil
			}
		}
	}
	return nil, nil
}

func projOutline(path string) ([]bmNode, error) {
	ctx, err := api.ReadContextFile(path)
	if err != nil {
		return nil, err
	}
	cat, err := ctx.Catalog()
	if err != nil {
		return nil, err
	}
	// page object number -> page number
	pageNr := map[int]int{}
	var walk func(o types.Object, depth int) error
	walk = func(o types.Object, depth int) error {
		if depth > 50 {
			return errors.New("page tree too deep")
		}
		ir, ok := o.(types.IndirectRef)
		if !ok {
			return fmt.Errorf("page tree kid is %T", o)
		}
		d, err := ctx.DereferenceDict(ir)
		if err != nil {
			return err
		}
		if t := d.NameEntry("Type"); t != nil && *t == "Page" {
			pageNr[ir.ObjectNumber.Value()] = len(pageNr) + 1
			return nil
		}
		for _, k := range d.ArrayEntry("Kids") {
			if err := walk(k, depth+1); err != nil {
				return err
			}
		}
		return nil
	}
	if err := walk(cat["Pages"], 0); err != nil {
		return nil, err
	}
	od, err := ctx.DereferenceDict(cat["Outlines"])
	if err != nil || od == nil {
		return nil, fmt.Errorf("no outlines dict: %v", err)
	}
	var dests types.Dict
	if nd, _ := ctx.DereferenceDict(cat["Names"]); nd != nil {
		dests, _ = ctx.DereferenceDict(nd["Dests"])
	}
	seen := map[int]bool{}
	var list func(first types.Object, parent int, depth int) ([]bmNode, error)
	list = func(first types.Object, parent int, depth int) ([]bmNode, error) {
		out := []bmNode{}
		prev := 0
		for cur := first; cur != nil; {
			ir, ok := cur.(types.IndirectRef)
			if !ok {
				return nil, fmt.Errorf("outline link is %T", cur)
			}
			nr := ir.ObjectNumber.Value()
			if seen[nr] || depth > 50 {
				return nil, fmt.Errorf("outline item %d reached twice", nr)
			}
			seen[nr] = true
			d, err := ctx.DereferenceDict(ir)
			if err != nil || d == nil {
				return nil, fmt.Errorf("outline item %d: %v", nr, err)
			}
			if p := d.IndirectRefEntry("Parent"); p == nil || p.ObjectNumber.Value() != parent {
				return nil, fmt.Errorf("outline item %d: wrong Parent", nr)
			}
			if p := d.IndirectRefEntry("Prev"); (p == nil) != (prev == 0) || (p != nil && p.ObjectNumber.Value() != prev) {
				return nil, fmt.Errorf("outline item %d: wrong Prev", nr)
			}
			n := bmNode{Color: []int{}}
			to, err := ctx.Dereference(d["Title"])
			if err != nil {
				return nil, err
			}
			if n.Title, err = projTitle(to); err != nil {
				return nil, err
			}
			if f := d.IntEntry("F"); f != nil {
				n.Bold = *f&2 != 0
				n.Italic = *f&1 != 0
			}
			if c := d.ArrayEntry("C"); len(c) == 3 {
				for _, x := range c {
					switch v := x.(type) {
					case types.Float:
						n.Color = append(n.Color, permille(v.Value()))
					case types.Integer:
						n.Color = append(n.Color, v.Value()*1000)
					}
				}
			}
			dest, err := ctx.Dereference(d["Dest"])
			if err != nil {
				return nil, err
			}
			for hops := 0; hops < 3; hops++ {
				var key string
				switch s := dest.(type) {
				case types.StringLiteral:
					b, _ := types.Unescape(s.Value())
					key = string(b)
				case types.HexLiteral:
					b, _ := s.Bytes()
					key = string(b)
				case types.Name:
					key = s.Value()
				case types.Dict:
					dest, _ = ctx.Dereference(s["D"])
					continue
				default:
					hops = 3
					continue
				}
				if key == "" {
					dest = nil
					break
				}
				if dests == nil {
					return nil, fmt.Errorf("outline item %d: named destination without name tree", nr)
				}
				if dest, err = lookupName(ctx, dests, key, 0); err != nil || dest == nil {
					return nil, fmt.Errorf("outline item %d: destination %q not in the name tree (%v)", nr, key, err)
				}
			}
			if dest != nil {
				arr, ok := dest.(types.Array)
				if !ok || len(arr) == 0 {
					return nil, fmt.Errorf("outline item %d: destination is %T", nr, dest)
				}
				pir, ok := arr[0].(types.IndirectRef)
				if !ok {
					return nil, fmt.Errorf("outline item %d: destination page is %T", nr, arr[0])
				}
				n.Page = pageNr[pir.ObjectNumber.Value()]
			}
			if fk := d["First"]; fk != nil {
				if n.Kids, err = list(fk, nr, depth+1); err != nil {
					return nil, err
				}
				if l := d.IndirectRefEntry("Last"); l == nil {
					return nil, fmt.Errorf("outline item %d: First without Last", nr)
				}
			} else {
				n.Kids = []bmNode{}
			}
			out = append(out, n)
			prev = nr
			cur = d["Next"]
		}
		return out, nil
	}
	rootNr := 0
	if ir, ok := cat["Outlines"].(types.IndirectRef); ok {
		rootNr = ir.ObjectNumber.Value()
	}
	return list(od["First"], rootNr, 0)
}

// ---------------------------------------------------------------- replay

type bmWorker struct {
	n     int
	dir   string
	bases map[int]string
}

// plainConf writes classic xref tables and no object streams (default configuration otherwise).
func plainConf() *model.Configuration {
	c := model.NewDefaultConfiguration()
	c.WriteObjectStream = false
	c.WriteXRefStream = false
	return c
}

// conf alternates between the default configuration (nil) and plainConf, so that both writer paths carry bookmarks.
func (w *bmWorker) conf(c *bmCase) *model.Configuration {
	w.n++
	if w.n%4 == 0 {
		return nil
	}
	return plainConf()
}

// base returns an np-page document; fanout 0: flat page tree, k: nested page tree with k pages per intermediate node.
func (w *bmWorker) base(np, fanout int) string {
	key := np*10 + fanout
	if p, ok := w.bases[key]; ok {
		return p
	}
	p := filepath.Join(w.dir, fmt.Sprintf("base%d-%d.pdf", np, fanout))
	ps := make([]rawpdf.PageSpec, np)
	for i := range ps {
		ps[i] = rawpdf.PageSpec{Marker: fmt.Sprintf("p-%d", i+1), Rotate: -1}
	}
	if err := os.WriteFile(p, rawpdf.MarkerDoc(ps, rawpdf.MarkerOpts{Fanout: fanout}).Bytes(), 0644); err != nil {
		h.Die("write base: %v", err)
	}
	w.bases[key] = p
	return p
}

func writeBMJSON(path string, f []bmNode) {
	b, err := json.Marshal(jsTree{Bookmarks: toJS(f)})
	if err != nil {
		h.Die("marshal: %v", err)
	}
	if err := os.WriteFile(path, b, 0644); err != nil {
		h.Die("write: %v", err)
	}
}

// roundTrip: export src -> J1 (must equal exp), import J1 into `target` (replace) -> export J2 == J1.
func (w *bmWorker) roundTrip(tag string, c *bmCase, src, target string, exp []bmNode, expImportable bool, reimport bool, fail func(key, what string, got any)) {
	j1 := filepath.Join(w.dir, tag+"-e1.json")
	os.Remove(j1)
	err := api.ExportBookmarksFile(src, j1, nil)
	if len(exp) == 0 {
		if err == nil || !errors.Is(err, api.ErrNoBookmarks) {
			fail(tag+"-export-empty", "export of a document whose exportable forest is empty must report 'no bookmarks'", fmt.Sprint(err))
		}
		return
	}
	if err != nil {
		fail(tag+"-export-error", "ExportBookmarksFile failed", err.Error())
		return
	}
	e1, err := readExport(j1)
	if err != nil {
		fail(tag+"-export-json", "exported JSON unreadable", err.Error())
		return
	}
	m1 := fromJS(e1)
	if d := firstDiffAt(exp, m1, ""); d != nil {
		fail(tag+"-export-tree|"+diffClass(c.Tree, d), "exported tree differs from the model's Export: "+d.Text, m1)
		return
	}
	if !reimport {
		return
	}
	// import the export into a document with the same pages that already has bookmarks (replace)
	out := filepath.Join(w.dir, tag+"-d2.pdf")
	os.Remove(out)
	err = api.ImportBookmarksFile(target, j1, out, true, plainConf())
	if !expImportable {
		if err == nil {
			fail(tag+"-reimport-accepted", "import of an exported tree violating the importer's page order precondition was accepted", nil)
		}
		return
	}
	if err != nil {
		fail(tag+"-reimport-error|"+errClass(err.Error()), "importing the exported JSON failed: "+err.Error(), err.Error())
		return
	}
	j2 := filepath.Join(w.dir, tag+"-e2.json")
	os.Remove(j2)
	if err = api.ExportBookmarksFile(out, j2, nil); err != nil {
		fail(tag+"-reexport-error", "export after import failed", err.Error())
		return
	}
	e2, err := readExport(j2)
	if err != nil {
		fail(tag+"-reexport-json", "exported JSON unreadable", err.Error())
		return
	}
	if !reflect.DeepEqual(e1, e2) {
		d := firstDiffAt(m1, fromJS(e2), "")
		fail(tag+"-roundtrip|"+diffClass(c.Tree, d), "Export(Import(Export(d))) differs from Export(d): "+firstDiff(m1, fromJS(e2), ""), fromJS(e2))
	}
	if c.N > 2 {
		return
	}
	// without replace the import must be refused on a document with bookmarks
	out3 := filepath.Join(w.dir, tag+"-d3.pdf")
	os.Remove(out3)
	if err = api.ImportBookmarksFile(out, j1, out3, false, nil); err == nil {
		fail(tag+"-noreplace", "import without replace into a document with bookmarks succeeded", nil)
	}
}

func (w *bmWorker) run(c *bmCase, decoy string, fail func(key, what string, got any)) (nontrivial bool) {
	c.Tree = normForest(c.Tree)
	c.Exp = normForest(c.Exp)
	base := w.base(c.NP, 2*(w.n%2)) // every other case imports into a document with a nested page tree
	js := filepath.Join(w.dir, "in.json")
	writeBMJSON(js, c.Tree)
	d1 := filepath.Join(w.dir, "d1.pdf")
	os.Remove(d1)
	err := api.ImportBookmarksFile(base, js, d1, true, w.conf(c))
	if !c.Importable {
		if err == nil {
			fail("import-accepted", "import of a forest violating the precondition (page exists, pages ordered) was accepted", nil)
		}
		if _, e := os.Stat(d1); e == nil && err != nil {
			fail("import-rejected-output", "rejected import left an output file", nil)
		}
	} else if err != nil {
		fail("import-error|"+errClass(err.Error()), "import of a valid forest failed: "+err.Error(), err.Error())
	} else {
		// the written outline, read without pdfcpu's exporter, is the imported forest
		got, perr := projOutline(d1)
		if perr != nil {
			fail("import-outline", "outline written by import is malformed: "+perr.Error(), nil)
		} else if d := firstDiffAt(c.Tree, got, ""); d != nil {
			fail("import-outline-tree|"+diffClass(c.Tree, d), "outline written by import differs from the imported forest: "+d.Text, got)
		}
		w.roundTrip("imp", c, d1, decoy, c.Exp, c.ExpImp, true, fail)
		nontrivial = len(c.Exp) > 0
	}
	// hand-made outline (export independent of import)
	inRange := true
	var chk func(f []bmNode)
	chk = func(f []bmNode) {
		for _, n := range f {
			if n.Page < 1 || n.Page > c.NP {
				inRange = false
			}
			chk(n.Kids)
		}
	}
	chk(c.Tree)
	if inRange {
		r1 := filepath.Join(w.dir, "r1.pdf")
		if err := os.WriteFile(r1, rawOutlineDoc(c.NP, c.Tree), 0644); err != nil {
			h.Die("write: %v", err)
		}
		// the re-import of an export equal to the model's is the same experiment as above unless the import path was not taken
		w.roundTrip("raw", c, r1, decoy, c.Exp, c.ExpImp, !c.Importable, fail)
	}
	return nontrivial
}

func bmReplay(in, out string, workers int) {
	wr := h.NewW(out)
	defer wr.Close()
	var mu sync.Mutex
	n, bad, nontrivial, rejected := 0, 0, 0, 0
	distinct := map[string]bool{}
	ch := make(chan []byte, 64)
	var wg sync.WaitGroup
	for i := 0; i < workers; i++ {
		wg.Add(1)
		go func() {
			defer wg.Done()
			dir, err := os.MkdirTemp("", "bm-replay-")
			if err != nil {
				h.Die("tmp: %v", err)
			}
			defer os.RemoveAll(dir)
			w := &bmWorker{dir: dir, bases: map[int]string{}}
			decoys := map[int]string{}
			for line := range ch {
				var c bmCase
				if err := json.Unmarshal(line, &c); err != nil {
					h.Die("case: %v", err)
				}
				dec, ok := decoys[c.NP]
				if !ok {
					dec = filepath.Join(dir, fmt.Sprintf("decoy%d.pdf", c.NP))
					dj := filepath.Join(dir, "decoy.json")
					writeBMJSON(dj, []bmNode{{Title: []int{111, 108, 100}, Page: 1, Bold: true, Color: []int{0, 1000, 0},
						Kids: []bmNode{{Title: []int{100, 117, 112}, Page: c.NP}}}, {Title: []int{100, 117, 112}, Page: 1}})
					if err := api.ImportBookmarksFile(w.base(c.NP, 0), dj, dec, true, nil); err != nil {
						h.Die("decoy: %v", err)
					}
					decoys[c.NP] = dec
				}
				var local []bmMismatch
				nt := w.run(&c, dec, func(key, what string, got any) {
					local = append(local, bmMismatch{key, what, c, got})
				})
				mu.Lock()
				n++
				if nt {
					nontrivial++
					b, _ := json.Marshal(c.Exp)
					distinct[string(b)] = true
				}
				if !c.Importable {
					rejected++
				}
				for _, m := range local {
					bad++
					if bad <= 3000 {
						wr.Put(m)
					}
				}
				mu.Unlock()
			}
		}()
	}
	err := h.EachLine(in, func(line []byte) error {
		ch <- append([]byte(nil), line...)
		return nil
	})
	close(ch)
	wg.Wait()
	if err != nil {
		h.Die("replay: %v", err)
	}
	h.Summary(map[string]any{"cases": n, "mismatches": bad, "nontrivial": nontrivial, "distinct": len(distinct), "rejected": rejected})
}
