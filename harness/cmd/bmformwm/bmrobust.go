package main

// C36, second part: outline graphs enumerated by TLC (spec/BookmarksRobust.tla) are written as raw outline
// dictionaries; api.ExportBookmarksFile and api.ListBookmarksFile must return (result or error) within a deadline.
// The calls run in child processes so that an endless loop or a fatal stack overflow is observed, not suffered.

import (
	"bufio"
	"encoding/json"
	"fmt"
	"os"
	"os/exec"
	"os/signal"
	"path/filepath"
	"regexp"
	"runtime"
	"strconv"
	"strings"
	"sync"
	"syscall"
	"time"

	"github.com/pdfcpu/pdfcpu/pkg/api"
	"github.com/pdfcpu/pdfcpu/pkg/pdfcpu"
	"github.com/pdfcpu/pdfcpu/pkg/pdfcpu/model"
	"verif/harness/lib/h"
)

type graphCase struct {
	N      int    `json:"n"`
	RT     bool   `json:"rt"`
	Ptr    []int  `json:"ptr"`
	Status string `json:"status"`
	Out    []int  `json:"out"`
	Steps  int    `json:"steps"`
}

type graphResult struct {
	Idx       int      `json:"idx"`
	Case      graphCase `json:"case"`
	Outcome   string   `json:"outcome"` // returned | hang | crash
	Op        string   `json:"op"`      // operation in progress when hang/crash was observed
	ExportErr string   `json:"exporterr"`
	ListErr   string   `json:"listerr"`
	Titles    []string `json:"titles"` // exported titles in preorder
	Listed    []string `json:"listed"`
	ReadErr   string   `json:"readerr"`   // pdfcpu.BookmarksForOutlineItem on the unvalidated context
	ReadItems []string `json:"readitems"` // titles it returned (preorder)
	Ms        int64    `json:"ms"`
	Detail    string   `json:"detail"`
	Where     string   `json:"where"` // innermost pdfcpu function at the time of a hang / crash
	Stack     []string `json:"stack"` // pdfcpu frames at that time, innermost first
}

func graphPDF(c graphCase) []byte {
	d, cat, pages, pnums := rawBase(1)
	root := d.Reserve()
	nums := make([]int, c.N+1)
	nums[0] = root
	for i := 1; i <= c.N; i++ {
		nums[i] = d.Reserve()
	}
	ref := func(key string, v int) string {
		if v < 0 || v > c.N {
			return ""
		}
		return fmt.Sprintf(" /%s %d 0 R", key, nums[v])
	}
	rootExtra := ""
	if c.RT {
		rootExtra = fmt.Sprintf(" /Title (N0) /Dest [%d 0 R /Fit]", pnums[0])
	}
	d.Set(root, "<< /Type /Outlines"+rootExtra+ref("First", c.Ptr[0])+ref("Last", c.Ptr[1])+fmt.Sprintf(" /Count %d >>", c.N))
	for i := 1; i <= c.N; i++ {
		o := 2 + 4*(i-1)
		parent := 0
		switch i % 3 {
		case 1:
			parent = 0
		case 2:
			parent = i
		default:
			if c.Ptr[o] >= 0 {
				parent = c.Ptr[o]
			}
		}
		body := fmt.Sprintf("<< /Title (N%d) /Dest [%d 0 R /Fit]", i, pnums[0]) + ref("Parent", parent) +
			ref("First", c.Ptr[o]) + ref("Last", c.Ptr[o+1]) + ref("Next", c.Ptr[o+2]) + ref("Prev", c.Ptr[o+3])
		if c.Ptr[o] >= 0 {
			body += " /Count 1"
		}
		d.Set(nums[i], body+" >>")
	}
	d.Set(cat, fmt.Sprintf("<< /Type /Catalog /Pages %d 0 R /Outlines %d 0 R >>", pages, root))
	return d.Bytes()
}

// readRaw parses a file without validating (validation repairs or drops corrupt outlines).
func readRaw(path string) (*model.Context, error) {
	f, err := os.Open(path)
	if err != nil {
		return nil, err
	}
	defer f.Close()
	return api.ReadContext(f, model.NewDefaultConfiguration())
}

func flatTitles(f []jsBM, out *[]string) {
	for _, b := range f {
		*out = append(*out, b.Title)
		flatTitles(b.Kids, out)
	}
}

// bmRobustChild processes cases start, start+stride, ... sequentially and prints one line per phase:
// "BEGIN idx op" before each real call and "END idx <json result>" after the case.
func bmRobustChild(in string, start, stride int) {
	dir, err := os.MkdirTemp("", "bm-robust-")
	if err != nil {
		h.Die("tmp: %v", err)
	}
	defer os.RemoveAll(dir)
	w := bufio.NewWriter(os.Stdout)
	// on SIGUSR1 (sent by the parent when a call does not return) dump every goroutine's stack and exit
	sig := make(chan os.Signal, 1)
	signal.Notify(sig, syscall.SIGUSR1)
	go func() {
		<-sig
		buf := make([]byte, 1<<20)
		n := runtime.Stack(buf, true)
		os.Stderr.Write(buf[:n])
		os.Exit(3)
	}()
	idx := -1
	err = h.EachLine(in, func(line []byte) error {
		idx++
		if idx < start || (idx-start)%stride != 0 {
			return nil
		}
		var c graphCase
		if err := json.Unmarshal(line, &c); err != nil {
			return err
		}
		pdf := filepath.Join(dir, "g.pdf")
		if err := os.WriteFile(pdf, graphPDF(c), 0644); err != nil {
			return err
		}
		r := graphResult{Idx: idx, Outcome: "returned", Titles: []string{}, Listed: []string{}}
		t0 := time.Now()
		fmt.Fprintf(w, "BEGIN %d export\n", idx)
		w.Flush()
		js := filepath.Join(dir, "g.json")
		os.Remove(js)
		if err := api.ExportBookmarksFile(pdf, js, nil); err != nil {
			r.ExportErr = err.Error()
		} else if bms, err := readExport(js); err != nil {
			r.ExportErr = "unreadable export: " + err.Error()
		} else {
			flatTitles(bms, &r.Titles)
		}
		fmt.Fprintf(w, "BEGIN %d list\n", idx)
		w.Flush()
		if ss, err := api.ListBookmarksFile(pdf, nil); err != nil {
			r.ListErr = err.Error()
		} else {
			for _, s := range ss {
				r.Listed = append(r.Listed, strings.TrimSpace(s))
			}
		}
		// the reader itself, on the raw (not validated, not repaired) graph
		fmt.Fprintf(w, "BEGIN %d read\n", idx)
		w.Flush()
		r.ReadItems = []string{}
		if ctx, err := readRaw(pdf); err != nil {
			r.ReadErr = "read context: " + err.Error()
		} else if err := ctx.EnsurePageCount(); err != nil {
			r.ReadErr = "read context: " + err.Error()
		} else if cat, err := ctx.Catalog(); err != nil {
			r.ReadErr = "read context: " + err.Error()
		} else if od, err := ctx.DereferenceDict(cat["Outlines"]); err != nil || od == nil {
			r.ReadErr = fmt.Sprintf("read context: outlines: %v", err)
		} else if first := od.IndirectRefEntry("First"); first == nil {
			r.ReadErr = "no first item"
		} else if bms, err := pdfcpu.BookmarksForOutlineItem(ctx, first, nil); err != nil {
			r.ReadErr = err.Error()
		} else {
			var fl func(bs []pdfcpu.Bookmark)
			fl = func(bs []pdfcpu.Bookmark) {
				for _, b := range bs {
					r.ReadItems = append(r.ReadItems, b.Title)
					fl(b.Kids)
				}
			}
			fl(bms)
		}
		r.Ms = time.Since(t0).Milliseconds()
		b, _ := json.Marshal(r)
		fmt.Fprintf(w, "END %d %s\n", idx, b)
		w.Flush()
		return nil
	})
	if err != nil {
		h.Die("robust child: %v", err)
	}
}

// childCPU returns the CPU time (user+system) consumed so far by process pid.
func childCPU(pid int) time.Duration {
	b, err := os.ReadFile(fmt.Sprintf("/proc/%d/stat", pid))
	if err != nil {
		return 0
	}
	s := string(b)
	i := strings.LastIndexByte(s, ')')
	if i < 0 {
		return 0
	}
	f := strings.Fields(s[i+1:])
	if len(f) < 13 {
		return 0
	}
	ut, _ := strconv.ParseInt(f[11], 10, 64)
	st, _ := strconv.ParseInt(f[12], 10, 64)
	return time.Duration(ut+st) * 10 * time.Millisecond // USER_HZ = 100
}

var pdfcpuFrame = regexp.MustCompile(`github\.com/pdfcpu/pdfcpu/pkg/([A-Za-z0-9_/]+)\.([A-Za-z0-9_.()*]+)\(`)

// culprit extracts the innermost pdfcpu function of the goroutine that was executing the case from a Go traceback.
func culprit(trace string) string {
	for _, g := range strings.Split(trace, "\n\n") {
		if !strings.Contains(g, "main.bmRobustChild") {
			continue
		}
		for _, m := range pdfcpuFrame.FindAllStringSubmatch(g, -1) {
			pkg := filepath.Base(m[1])
			if pkg == "types" || pkg == "model" || pkg == "log" {
				continue // utility layers called from the loop
			}
			return pkg + "." + m[2]
		}
	}
	return "unknown"
}

// frames lists the pdfcpu functions (innermost first) on the stack of the goroutine that executed the case.
func frames(trace string) []string {
	out := []string{}
	for _, g := range strings.Split(trace, "\n\n") {
		if !strings.Contains(g, "main.bmRobustChild") {
			continue
		}
		for _, m := range pdfcpuFrame.FindAllStringSubmatch(g, -1) {
			out = append(out, filepath.Base(m[1])+"."+m[2])
			if len(out) >= 14 {
				break
			}
		}
	}
	return out
}

// bmRobust drives the children and writes one result per case.  A case is a hang when the child burns more than
// cpuBudget of CPU time inside one call (immune to machine load) or does not report for wallLimit (blocked).
func bmRobust(in, out string, workers int, cpuBudget, wallLimit time.Duration) {
	var cases []graphCase
	if err := h.EachLine(in, func(line []byte) error {
		var c graphCase
		if err := json.Unmarshal(line, &c); err != nil {
			return err
		}
		cases = append(cases, c)
		return nil
	}); err != nil {
		h.Die("cases: %v", err)
	}
	results := make([]*graphResult, len(cases))
	exe, _ := os.Executable()
	var wg sync.WaitGroup
	for k := 0; k < workers; k++ {
		wg.Add(1)
		go func(k int) {
			defer wg.Done()
			start := k
			for start < len(cases) {
				cmd := exec.Command(exe, "bm-robust-child", "--in", in, "--start", strconv.Itoa(start), "--stride", strconv.Itoa(workers))
				cmd.Env = append(os.Environ(), "GOMAXPROCS=2", "GOTRACEBACK=all")
				stdout, err := cmd.StdoutPipe()
				if err != nil {
					h.Die("pipe: %v", err)
				}
				var stderr strings.Builder
				cmd.Stderr = &limitedWriter{sb: &stderr, max: 1 << 16}
				if err := cmd.Start(); err != nil {
					h.Die("start child: %v", err)
				}
				lines := make(chan string, 16)
				go func() {
					sc := bufio.NewScanner(stdout)
					sc.Buffer(make([]byte, 1<<20), 1<<26)
					for sc.Scan() {
						lines <- sc.Text()
					}
					close(lines)
				}()
				cur, op := start, "start"
				restart := -1
				hang := ""
				lastLine := time.Now()
				cpu0 := childCPU(cmd.Process.Pid)
				tick := time.NewTicker(25 * time.Millisecond)
			loop:
				for {
					select {
					case l, ok := <-lines:
						if !ok {
							break loop
						}
						lastLine = time.Now()
						cpu0 = childCPU(cmd.Process.Pid)
						f := strings.SplitN(l, " ", 3)
						if len(f) < 3 {
							continue
						}
						i, _ := strconv.Atoi(f[1])
						switch f[0] {
						case "BEGIN":
							cur, op = i, f[2]
						case "END":
							var r graphResult
							if err := json.Unmarshal([]byte(f[2]), &r); err != nil {
								h.Die("child result: %v", err)
							}
							r.Case = cases[i]
							results[i] = &r
							cur, op = i+workers, "start"
						}
					case <-tick.C:
						used := childCPU(cmd.Process.Pid) - cpu0
						if op == "start" {
							if time.Since(lastLine) > 5*wallLimit {
								h.Die("robust child does not start")
							}
						} else if used > cpuBudget {
							hang = fmt.Sprintf("no return after %s of CPU time in one call", used)
						} else if time.Since(lastLine) > wallLimit {
							hang = fmt.Sprintf("no return and no progress for %s", wallLimit)
						}
						if hang != "" {
							cmd.Process.Signal(syscall.SIGUSR1) // the child dumps all goroutine stacks and exits
							go func() {
								time.Sleep(5 * time.Second)
								cmd.Process.Kill()
							}()
							for range lines {
							}
							break loop
						}
					}
				}
				tick.Stop()
				err = cmd.Wait()
				switch {
				case hang != "":
					if cur < len(cases) {
						results[cur] = &graphResult{Idx: cur, Case: cases[cur], Outcome: "hang", Op: op, Titles: []string{}, Listed: []string{}, ReadItems: []string{},
							Detail: hang, Where: culprit(stderr.String()), Stack: frames(stderr.String())}
					}
					restart = cur + workers
				case err != nil && cur < len(cases) && results[cur] == nil && op != "start":
					tr := stderr.String()
					first := tr
					if i := strings.IndexByte(first, '\n'); i > 0 {
						first = first[:i]
					}
					results[cur] = &graphResult{Idx: cur, Case: cases[cur], Outcome: "crash", Op: op, Titles: []string{}, Listed: []string{}, ReadItems: []string{},
						Detail: err.Error() + ": " + first, Where: culprit(tr), Stack: frames(tr)}
					restart = cur + workers
				case err != nil:
					h.Die("robust child failed outside a case: %v %s", err, stderr.String())
				}
				if restart < 0 {
					break
				}
				start = restart
			}
		}(k)
	}
	wg.Wait()
	wr := h.NewW(out)
	defer wr.Close()
	sum := map[string]int{}
	agree := map[string]int{}
	for i, r := range results {
		if r == nil {
			h.Die("no result for graph %d", i)
		}
		sum[r.Outcome]++
		if r.Outcome == "returned" {
			k := "model=" + r.Case.Status + "/" + strconv.Itoa(len(r.Case.Out)) + " real="
			if r.ExportErr != "" {
				k += "error"
			} else {
				k += "ok/" + strconv.Itoa(len(r.Titles))
			}
			agree[k]++
		}
		wr.Put(r)
	}
	h.Summary(map[string]any{"cases": len(cases), "outcomes": sum, "matrix": agree})
}

type limitedWriter struct {
	sb  *strings.Builder
	max int
}

func (l *limitedWriter) Write(p []byte) (int, error) {
	if l.sb.Len() < l.max {
		n := l.max - l.sb.Len()
		if n > len(p) {
			n = len(p)
		}
		l.sb.Write(p[:n])
	}
	return len(p), nil
}
