package main

// C36, second part: outline graphs enumerated by TLC (spec/BookmarksRobust.tla) are written as raw outline
// dictionaries; api.ExportBookmarksFile and api.ListBookmarksFile must return (result or error) within a deadline.
// The calls run in child processes so that an endless loop or a fatal stack overflow is observed, not suffered.

import (
	"bufio"
	"encoding/json"
	"fmt"
	"os"
	"os/exec"
	"os/signal"
	"path/filepath"
	"regexp"
	"runtime"
	"strconv"
	"strings"
	"sync"
	"sync/atomic"
	"syscall"
	"time"

	"github.com/pdfcpu/pdfcpu/pkg/api"
	"github.com/pdfcpu/pdfcpu/pkg/pdfcpu"
	"github.com/pdfcpu/pdfcpu/pkg/pdfcpu/model"
	"verif/harness/lib/h"
)

type graphCase struct {
	N      int    `json:"n"`
	RT     bool   `json:"rt"`
	Ptr    []int  `json:"ptr"`
	Status string `json:"status"`
	Out    []int  `json:"out"`
	Steps  int    `json:"steps"`
}

type graphResult struct {
	Idx       int      `json:"idx"`
	Case      graphCase `json:"case"`
	Outcome   string   `json:"outcome"` // returned | hang | crash
	Op        string   `json:"op"`      // operation in progress when hang/crash was observed
	ExportErr string   `json:"exporterr"`
	ListErr   string   `json:"listerr"`
	Titles    []string `json:"titles"` // exported titles in preorder
	Listed    []string `json:"listed"`
	ReadErr   string   `json:"readerr"`   // pdfcpu.BookmarksForOutlineItem on the unvalidated context
	ReadItems []string `json:"readitems"` // titles it returned (preorder)
	Ms        int64    `json:"ms"`
	Detail    string   `json:"detail"`
	Where     string   `json:"where"` // innermost pdfcpu function at the time of a hang / crash
	Stack     []string `json:"stack"` // pdfcpu frames at that time, innermost first
}

func graphPDF(c graphCase) []byte {
	d, cat, pages, pnums := rawBase(1)
	root := d.Reserve()
	nums := make([]int, c.N+1)
	nums[0] = root
	for i := 1; i <= c.N; i++ {
		nums[i] = d.Reserve()
	}
	ref := func(key string, v int) string {
		if v < 0 || v > c.N {
			return ""
		}
		return fmt.Sprintf(" /%s %d 0 R", key, nums[v])
	}
	rootExtra := ""
	if c.RT {
		rootExtra = fmt.Sprintf(" /Title (N0) /Dest [%d 0 R /Fit]", pnums[0])
	}
	d.Set(root, "<< /Type /Outlines"+rootExtra+ref("First", c.Ptr[0])+ref("Last", c.Ptr[1])+fmt.Sprintf(" /Count %d >>", c.N))
	for i := 1; i <= c.N; i++ {
		o := 2 + 4*(i-1)
		parent := 0
		switch i % 3 {
		case 1:
			parent = 0
		case 2:
			parent = i
		default:
			if c.Ptr[o] >= 0 {
				parent = c.Ptr[o]
			}
		}
		body := fmt.Sprintf("<< /Title (N%d) /Dest [%d 0 R /Fit]", i, pnums[0]) + ref("Parent", parent) +
			ref("First", c.Ptr[o]) + ref("Last", c.Ptr[o+1]) + ref("Next", c.Ptr[o+2]) + ref("Prev", c.Ptr[o+3])
		if c.Ptr[o] >= 0 {
			body += " /Count 1"
		}
		d.Set(nums[i], body+" >>")
	}
	d.Set(cat, fmt.Sprintf("<< /Type /Catalog /Pages %d 0 R /Outlines %d 0 R >>", pages, root))
	return d.Bytes()
}

// readRaw parses a file without validating (validation repairs or drops corrupt outlines).
func readRaw(path string) (*model.Context, error) {
	f, err := os.Open(path)
	if err != nil {
		return nil, err
	}
	defer f.Close()
	return api.ReadContext(f, model.NewDefaultConfiguration())
}

func flatTitles(f []jsBM, out *[]string) {
	for _, b := range f {
		*out = append(*out, b.Title)
		flatTitles(b.Kids, out)
	}
}

func selfCPU() time.Duration {
	var ru syscall.Rusage
	if err := syscall.Getrusage(syscall.RUSAGE_SELF, &ru); err != nil {
		return 0
	}
	return time.Duration(ru.Utime.Nano() + ru.Stime.Nano())
}

var pdfcpuFrame = regexp.MustCompile(`github\.com/pdfcpu/pdfcpu/pkg/([A-Za-z0-9_/]+)\.([A-Za-z0-9_.()*]+)\(`)

// caseFrames lists the pdfcpu functions (innermost first) on the stack of the goroutine that executes the cases.
func caseFrames(trace string) []string {
	out := []string{}
	for _, g := range strings.Split(trace, "\n\n") {
		if !strings.Contains(g, "main.bmRobustChild") {
			continue
		}
		for _, m := range pdfcpuFrame.FindAllStringSubmatch(g, -1) {
			out = append(out, filepath.Base(m[1])+"."+m[2])
			if len(out) >= 16 {
				break
			}
		}
	}
	return out
}

// culprit is the innermost frame outside the utility layers (types, model, log).
func culprit(fr []string) string {
	for _, f := range fr {
		pkg := strings.SplitN(f, ".", 2)[0]
		if pkg == "types" || pkg == "model" || pkg == "log" {
			continue
		}
		return f
	}
	return "unknown"
}

type hangInfo struct {
	Why   string   `json:"why"`
	Where string   `json:"where"`
	Stack []string `json:"stack"`
}

// bmRobustChild processes cases start, start+stride, ... (or only one) sequentially and prints "BEGIN idx op" before each real
// call and "END idx <json result>" after the case.  A watchdog inside the process measures the CPU time the process burns
// within one call (immune to machine load and to a starved parent); beyond the budget it prints "HANG idx op <json>" with the
// stack of the case goroutine and exits.  SIGUSR1 (sent by the parent when nothing is reported for a long time) does the same.
func bmRobustChild(in string, start, stride, only int, budget time.Duration) {
	dir, err := os.MkdirTemp("", "bm-robust-")
	if err != nil {
		h.Die("tmp: %v", err)
	}
	defer os.RemoveAll(dir)
	var mu sync.Mutex
	w := bufio.NewWriter(os.Stdout)
	say := func(format string, a ...any) {
		mu.Lock()
		fmt.Fprintf(w, format, a...)
		w.Flush()
		mu.Unlock()
	}
	var curIdx, curStart atomic.Int64 // curStart: CPU ns at the start of the call, 0 = no call in progress
	var curOp atomic.Value
	curOp.Store("")
	giveUp := func(why string) {
		buf := make([]byte, 1<<20)
		n := runtime.Stack(buf, true)
		fr := caseFrames(string(buf[:n]))
		b, _ := json.Marshal(hangInfo{why, culprit(fr), fr})
		say("HANG %d %s %s\n", curIdx.Load(), curOp.Load().(string), b)
		os.RemoveAll(dir)
		os.Exit(3)
	}
	sig := make(chan os.Signal, 1)
	signal.Notify(sig, syscall.SIGUSR1)
	go func() {
		<-sig
		giveUp("no return and no progress (wall clock limit of the parent)")
	}()
	go func() {
		for {
			time.Sleep(10 * time.Millisecond)
			if st := curStart.Load(); st != 0 {
				if used := selfCPU() - time.Duration(st); used > budget {
					giveUp(fmt.Sprintf("no return after %s of CPU time in one call", used.Round(time.Millisecond)))
				}
			}
		}
	}()
	begin := func(idx int, op string) {
		curIdx.Store(int64(idx))
		curOp.Store(op)
		say("BEGIN %d %s\n", idx, op)
		curStart.Store(int64(selfCPU()) + 1)
	}
	end := func() { curStart.Store(0) }
	idx := -1
	err = h.EachLine(in, func(line []byte) error {
		idx++
		if only >= 0 {
			if idx != only {
				return nil
			}
		} else if idx < start || (idx-start)%stride != 0 {
			return nil
		}
		var c graphCase
		if err := json.Unmarshal(line, &c); err != nil {
			return err
		}
		pdf := filepath.Join(dir, "g.pdf")
		if err := os.WriteFile(pdf, graphPDF(c), 0644); err != nil {
			return err
		}
		r := graphResult{Idx: idx, Outcome: "returned", Titles: []string{}, Listed: []string{}, ReadItems: []string{}, Stack: []string{}}
		t0 := time.Now()
		begin(idx, "export")
		js := filepath.Join(dir, "g.json")
		os.Remove(js)
		if err := api.ExportBookmarksFile(pdf, js, nil); err != nil {
			r.ExportErr = err.Error()
		} else if bms, err := readExport(js); err != nil {
			r.ExportErr = "unreadable export: " + err.Error()
		} else {
			flatTitles(bms, &r.Titles)
		}
		end()
		begin(idx, "list")
		if ss, err := api.ListBookmarksFile(pdf, nil); err != nil {
			r.ListErr = err.Error()
		} else {
			for _, s := range ss {
				r.Listed = append(r.Listed, strings.TrimSpace(s))
			}
		}
		end()
		// the reader itself, on the raw (not validated, not repaired) graph
		begin(idx, "read")
		if ctx, err := readRaw(pdf); err != nil {
			r.ReadErr = "read context: " + err.Error()
		} else if err := ctx.EnsurePageCount(); err != nil {
			r.ReadErr = "read context: " + err.Error()
		} else if cat, err := ctx.Catalog(); err != nil {
			r.ReadErr = "read context: " + err.Error()
		} else if od, err := ctx.DereferenceDict(cat["Outlines"]); err != nil || od == nil {
			r.ReadErr = fmt.Sprintf("read context: outlines: %v", err)
		} else if first := od.IndirectRefEntry("First"); first == nil {
			r.ReadErr = "no first item"
		} else if bms, err := pdfcpu.BookmarksForOutlineItem(ctx, first, nil); err != nil {
			r.ReadErr = err.Error()
		} else {
			var fl func(bs []pdfcpu.Bookmark)
			fl = func(bs []pdfcpu.Bookmark) {
				for _, b := range bs {
					r.ReadItems = append(r.ReadItems, b.Title)
					fl(b.Kids)
				}
			}
			fl(bms)
		}
		end()
		r.Ms = time.Since(t0).Milliseconds()
		b, _ := json.Marshal(r)
		say("END %d %s\n", idx, b)
		return nil
	})
	if err != nil {
		h.Die("robust child: %v", err)
	}
}

// runChild runs one child until it ends, reports a hang or dies.  It returns the index to restart from (-1: finished).
func runChild(exe, in string, cases []graphCase, results []*graphResult, start, stride, only int, budget, wallLimit time.Duration) int {
	args := []string{"bm-robust-child", "--in", in, "--start", strconv.Itoa(start), "--stride", strconv.Itoa(stride), "--only", strconv.Itoa(only),
		"--cpu-ms", strconv.Itoa(int(budget / time.Millisecond))}
	cmd := exec.Command(exe, args...)
	cmd.Env = append(os.Environ(), "GOMAXPROCS=2")
	stdout, err := cmd.StdoutPipe()
	if err != nil {
		h.Die("pipe: %v", err)
	}
	var stderr strings.Builder
	cmd.Stderr = &limitedWriter{sb: &stderr, max: 1 << 14}
	if err := cmd.Start(); err != nil {
		h.Die("start child: %v", err)
	}
	lines := make(chan string, 64)
	go func() {
		sc := bufio.NewScanner(stdout)
		sc.Buffer(make([]byte, 1<<20), 1<<26)
		for sc.Scan() {
			lines <- sc.Text()
		}
		close(lines)
	}()
	cur, op := start, "start"
	if only >= 0 {
		cur = only
	}
	step := stride
	hung := false
	signalled := false
	timer := time.NewTimer(wallLimit)
loop:
	for {
		select {
		case l, ok := <-lines:
			if !ok {
				break loop
			}
			if !timer.Stop() {
				select {
				case <-timer.C:
				default:
				}
			}
			timer.Reset(wallLimit)
			f := strings.SplitN(l, " ", 4)
			if len(f) < 3 || hung {
				continue // after a HANG report the process is exiting; whatever it still prints is void
			}
			i, _ := strconv.Atoi(f[1])
			switch f[0] {
			case "BEGIN":
				cur, op = i, f[2]
			case "END":
				var r graphResult
				if err := json.Unmarshal([]byte(strings.Join(f[2:], " ")), &r); err != nil {
					h.Die("child result: %v", err)
				}
				r.Case = cases[i]
				results[i] = &r
				cur, op = i+step, "start"
			case "HANG":
				var hi hangInfo
				if len(f) == 4 {
					json.Unmarshal([]byte(f[3]), &hi)
				}
				results[i] = &graphResult{Idx: i, Case: cases[i], Outcome: "hang", Op: f[2], Titles: []string{}, Listed: []string{}, ReadItems: []string{},
					Detail: hi.Why, Where: hi.Where, Stack: hi.Stack}
				cur = i
				hung = true
			}
		case <-timer.C:
			if signalled {
				cmd.Process.Kill()
			} else {
				cmd.Process.Signal(syscall.SIGUSR1)
				signalled = true
			}
			timer.Reset(10 * time.Second)
		}
	}
	timer.Stop()
	err = cmd.Wait()
	switch {
	case hung:
		return cur + step
	case err != nil && cur < len(cases) && op != "start":
		first := stderr.String()
		fr := caseFrames(first)
		if i := strings.IndexByte(first, '\n'); i > 0 {
			first = first[:i]
		}
		results[cur] = &graphResult{Idx: cur, Case: cases[cur], Outcome: "crash", Op: op, Titles: []string{}, Listed: []string{}, ReadItems: []string{},
			Detail: err.Error() + ": " + first, Where: culprit(fr), Stack: fr}
		return cur + step
	case err != nil:
		h.Die("robust child failed outside a case: %v %s", err, stderr.String())
	}
	return -1
}

// bmRobust drives the children and writes one result per case.  Every hang or crash is confirmed by running the case alone
// in a fresh process with three times the CPU budget; only confirmed ones are kept.
func bmRobust(in, out string, workers int, cpuBudget, wallLimit time.Duration) {
	var cases []graphCase
	if err := h.EachLine(in, func(line []byte) error {
		var c graphCase
		if err := json.Unmarshal(line, &c); err != nil {
			return err
		}
		cases = append(cases, c)
		return nil
	}); err != nil {
		h.Die("cases: %v", err)
	}
	results := make([]*graphResult, len(cases))
	exe, _ := os.Executable()
	var wg sync.WaitGroup
	for k := 0; k < workers; k++ {
		wg.Add(1)
		go func(k int) {
			defer wg.Done()
			for start := k; start >= 0 && start < len(cases); {
				start = runChild(exe, in, cases, results, start, workers, -1, cpuBudget, wallLimit)
			}
		}(k)
	}
	wg.Wait()
	unconfirmed := 0
	for i, r := range results {
		if r == nil {
			h.Die("no result for graph %d", i)
		}
		if r.Outcome == "returned" {
			continue
		}
		first := *r
		results[i] = nil
		runChild(exe, in, cases, results, i, 1, i, 3*cpuBudget, wallLimit)
		if results[i] == nil {
			results[i] = &first
		} else if results[i].Outcome == "returned" {
			unconfirmed++
		}
	}
	wr := h.NewW(out)
	defer wr.Close()
	sum := map[string]int{}
	agree := map[string]int{}
	for _, r := range results {
		sum[r.Outcome]++
		if r.Outcome == "returned" {
			k := "model=" + r.Case.Status + "/" + strconv.Itoa(len(r.Case.Out)) + " real="
			if r.ExportErr != "" {
				k += "error"
			} else {
				k += "ok/" + strconv.Itoa(len(r.Titles))
			}
			agree[k]++
		}
		wr.Put(r)
	}
	h.Summary(map[string]any{"cases": len(cases), "outcomes": sum, "matrix": agree, "unconfirmed": unconfirmed})
}

type limitedWriter struct {
	sb  *strings.Builder
	max int
}

func (l *limitedWriter) Write(p []byte) (int, error) {
	if l.sb.Len() < l.max {
		n := l.max - l.sb.Len()
		if n > len(p) {
			n = len(p)
		}
		l.sb.Write(p[:n])
	}
	return len(p), nil
}
