package main

import (
	"encoding/json"
	"fmt"
	"os"

	"github.com/pdfcpu/pdfcpu/pkg/api"
)

// probe: `bmformwm probe graph '<graph case json>' out.pdf [validate]` writes the raw outline graph document (C36 reproduction aid).
//        `bmformwm probe form create.json out.pdf export.json [fill.json out2.pdf export2.json]`
func probe() {
	switch os.Args[2] {
	case "graph":
		var c graphCase
		if err := json.Unmarshal([]byte(os.Args[3]), &c); err != nil {
			panic(err)
		}
		os.WriteFile(os.Args[4], graphPDF(c), 0644)
		if len(os.Args) > 5 {
			fmt.Println("validate:", api.ValidateFile(os.Args[4], nil))
		}
	case "formu": // like form, with a temporary config dir holding the user font Roboto-Regular
		d, _ := os.MkdirTemp("", "bmformwm-conf-")
		defer os.RemoveAll(d)
		fmt.Println("config:", api.EnsureDefaultConfigAt(d))
		fmt.Println("install:", api.InstallFonts([]string{repoPath("pkg/testdata/fonts/Roboto-Regular.ttf")}))
		fallthrough
	case "form":
		fmt.Println("create:", api.CreateFile("", os.Args[3], os.Args[4], nil))
		fmt.Println("export:", api.ExportFormFile(os.Args[4], os.Args[5], nil))
		if len(os.Args) > 6 {
			fmt.Println("fill:", api.FillFormFile(os.Args[4], os.Args[6], os.Args[7], nil))
			fmt.Println("export2:", api.ExportFormFile(os.Args[7], os.Args[8], nil))
		}
	}
}
