package main

import (
	"encoding/json"
	"fmt"
	"os"

	"github.com/pdfcpu/pdfcpu/pkg/api"
)

// probe: `bmformwm probe graph '<graph case json>' out.pdf [validate]` writes the raw outline graph document (C36 reproduction aid).
func probe() {
	switch os.Args[2] {
	case "graph":
		var c graphCase
		if err := json.Unmarshal([]byte(os.Args[3]), &c); err != nil {
			panic(err)
		}
		os.WriteFile(os.Args[4], graphPDF(c), 0644)
		if len(os.Args) > 5 {
			fmt.Println("validate:", api.ValidateFile(os.Args[4], nil))
		}
	}
}
