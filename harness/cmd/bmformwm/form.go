package main

// C37: the cases of spec/Forms.tla (initial form state + fill steps over the field table of spec/FormsModel.tla) are
// executed with the real api.CreateFile (form creation from pdfcpu's create JSON), api.ExportFormFile and
// api.FillFormFile; every step is recorded with its real pre and post state for validation by spec/FormsTrace.tla.

import (
	"encoding/json"
	"errors"
	"fmt"
	"os"
	"path/filepath"
	"sort"
	"strings"
	"sync"
	"sync/atomic"

	"github.com/pdfcpu/pdfcpu/pkg/api"
	"github.com/pdfcpu/pdfcpu/pkg/pdfcpu/model"
	"verif/harness/lib/h"
)

type fieldDef struct {
	Name   string   `json:"name"`
	Type   string   `json:"type"`
	Multi  bool     `json:"multi"`
	MaxLen int      `json:"maxlen"`
	Fmt    string   `json:"fmt"`
	Opts   []string `json:"opts"`
}

type fieldState struct {
	Locked bool     `json:"locked"`
	Val    []string `json:"val"`
}

type fieldOp struct {
	Present bool     `json:"present"`
	Val     []string `json:"val"`
	Lock    bool     `json:"lock"`
}

type formOp struct {
	Kind   string    `json:"kind"`
	Fields []fieldOp `json:"fields"`
}

type formCase struct {
	Focus string       `json:"focus"`
	Init  []fieldState `json:"init"`
	Ops   []formOp     `json:"ops"`
}

type formRecord struct {
	Case   int          `json:"case"`
	Step   int          `json:"step"`
	Kind   string       `json:"kind"`   // create | fill | sample
	OpKind string       `json:"opkind"` // set | subset | refill | same
	Focus  string       `json:"focus"`
	Op     []fieldOp    `json:"op"`
	Pre    []fieldState `json:"pre"`
	Post   []fieldState `json:"post"`
	Result string       `json:"result"`
}

// tokens of FormsModel.tla
var tokens = map[string]string{
	"@latin":  "Zoë über café",
	"@esc":    "a(b)c\\d)(",
	"@spaces": " lead trail ",
	"@lines":  "line one\nline two",
	"@astral": "Doe \U0001F600 \U0001D4B3 \U00020BB7", // emoji, mathematical script X, CJK extension B: surrogate pairs in UTF-16
	"@cjk":    "\u65E5\u672C\u8A9E \u30C6\u30AD\u30B9\u30C8",
	"@cyr":    "\u041F\u0440\u0438\u0432\u0435\u0442, \u043C\u0438\u0440",
}

func expand(s string) string {
	if v, ok := tokens[s]; ok {
		return v
	}
	return s
}

func expandAll(ss []string) []string {
	out := make([]string, len(ss))
	for i, s := range ss {
		out[i] = expand(s)
	}
	return out
}

func contract(s string) string {
	for k, v := range tokens {
		if s == v {
			return k
		}
	}
	return s
}

// createJSON renders pdfcpu's create JSON for a form with the given fields and initial state.
func createJSON(defs []fieldDef, st []fieldState) []byte {
	content := map[string][]any{}
	y := 780.0
	for i, f := range defs {
		s := st[i]
		y -= 60
		base := map[string]any{"id": f.Name, "pos": []float64{100, y}, "width": 150.0, "locked": s.Locked}
		switch f.Type {
		case "text":
			if len(s.Val) > 0 && s.Val[0] != "" {
				base["value"] = expand(s.Val[0])
			}
			if f.Multi {
				base["multiline"] = true
				base["height"] = 40.0
			}
			if f.MaxLen > 0 {
				base["maxlen"] = f.MaxLen
			}
			content["textfield"] = append(content["textfield"], base)
		case "date":
			base["format"] = f.Fmt
			if len(s.Val) > 0 && s.Val[0] != "" {
				base["value"] = s.Val[0]
			}
			content["datefield"] = append(content["datefield"], base)
		case "check":
			base["value"] = len(s.Val) > 0 && s.Val[0] == "t"
			base["width"] = 12.0
			content["checkbox"] = append(content["checkbox"], base)
		case "radio":
			base["orientation"] = "hor"
			base["width"] = 12.0
			if len(s.Val) > 0 && s.Val[0] != "" {
				base["value"] = s.Val[0]
			}
			base["buttons"] = map[string]any{"values": f.Opts, "label": map[string]any{"value": "x", "width": 60, "gap": 10, "pos": "right"}}
			content["radiobuttongroup"] = append(content["radiobuttongroup"], base)
		case "combo":
			base["options"] = expandAll(f.Opts)
			base["edit"] = false
			if len(s.Val) > 0 && s.Val[0] != "" {
				base["value"] = expand(s.Val[0])
			}
			content["combobox"] = append(content["combobox"], base)
		case "list":
			base["options"] = expandAll(f.Opts)
			base["multi"] = f.Multi
			base["height"] = 42.0
			if f.Multi {
				if len(s.Val) > 0 {
					base["values"] = expandAll(s.Val)
				}
			} else if len(s.Val) > 0 {
				base["value"] = expand(s.Val[0])
			}
			content["listbox"] = append(content["listbox"], base)
		}
	}
	doc := map[string]any{
		"paper": "A4P", "origin": "LowerLeft", "contentBox": false,
		"fonts": map[string]any{"input": map[string]any{"name": "Helvetica", "size": 12}, "label": map[string]any{"name": "Helvetica", "size": 12}},
		"pages": map[string]any{"1": map[string]any{"content": content}},
	}
	b, err := json.Marshal(doc)
	if err != nil {
		h.Die("marshal: %v", err)
	}
	return b
}

var groupOf = map[string]string{"text": "textfield", "date": "datefield", "check": "checkbox", "radio": "radiobuttongroup", "combo": "combobox", "list": "listbox"}

// readExport parses an export JSON into the generic form and projects it to the model's state (by field name).
func readFormExport(path string, defs []fieldDef) (map[string]any, []fieldState, error) {
	b, err := os.ReadFile(path)
	if err != nil {
		return nil, nil, err
	}
	var doc map[string]any
	if err := json.Unmarshal(b, &doc); err != nil {
		return nil, nil, err
	}
	forms, _ := doc["forms"].([]any)
	if len(forms) != 1 {
		return nil, nil, fmt.Errorf("%d forms in export", len(forms))
	}
	form, _ := forms[0].(map[string]any)
	st := make([]fieldState, len(defs))
	for i, f := range defs {
		g, e := locate(form, f.Type, f.Name)
		if e == nil {
			return nil, nil, fmt.Errorf("field %s (%s) missing in export", f.Name, groupOf[f.Type])
		}
		if g != groupOf[f.Type] {
			textAsDate.Add(1)
		}
		st[i] = projectField(f.Type, e)
	}
	return doc, st, nil
}

// txGroups: pdfcpu exports a text (Tx) field among the date fields when it carries a date format action OR when its value or
// default parses as a date; the group is a presentation detail, the model's state is the value.
var txGroups = []string{"textfield", "datefield"}

// locate finds the exported entry of a field: in the group of its type, and for Tx fields also in the other Tx group.
func locate(form map[string]any, typ, name string) (string, map[string]any) {
	g := groupOf[typ]
	if e := findField(form, g, name); e != nil {
		return g, e
	}
	if typ == "text" || typ == "date" {
		for _, og := range txGroups {
			if e := findField(form, og, name); e != nil {
				return og, e
			}
		}
	}
	return g, nil
}

var textAsDate atomic.Int64 // how often a text field was exported among the date fields

func findField(form map[string]any, group, name string) map[string]any {
	arr, _ := form[group].([]any)
	for _, x := range arr {
		if m, ok := x.(map[string]any); ok && m["name"] == name {
			return m
		}
	}
	return nil
}

func projectField(typ string, e map[string]any) fieldState {
	s := fieldState{Val: []string{}}
	s.Locked, _ = e["locked"].(bool)
	switch typ {
	case "check":
		if b, _ := e["value"].(bool); b {
			s.Val = []string{"t"}
		} else {
			s.Val = []string{"f"}
		}
	case "list":
		if arr, ok := e["values"].([]any); ok {
			for _, x := range arr {
				s.Val = append(s.Val, contract(fmt.Sprint(x)))
			}
		}
	default:
		v, _ := e["value"].(string)
		s.Val = []string{contract(v)}
	}
	return s
}

// fillJSON edits a copy of the exported JSON according to the op.
func fillJSON(doc map[string]any, defs []fieldDef, op []fieldOp) []byte {
	b, _ := json.Marshal(doc)
	var cp map[string]any
	json.Unmarshal(b, &cp)
	form := cp["forms"].([]any)[0].(map[string]any)
	for i, f := range defs {
		g, e := locate(form, f.Type, f.Name)
		o := op[i]
		if !o.Present {
			arr, _ := form[g].([]any)
			var keep []any
			for _, x := range arr {
				if m, ok := x.(map[string]any); ok && m["name"] == f.Name {
					continue
				}
				keep = append(keep, x)
			}
			if len(keep) == 0 {
				delete(form, g)
			} else {
				form[g] = keep
			}
			continue
		}
		if e == nil {
			h.Die("field %s missing in the JSON to edit", f.Name)
		}
		e["locked"] = o.Lock
		switch f.Type {
		case "check":
			e["value"] = len(o.Val) > 0 && o.Val[0] == "t"
		case "list":
			vs := []string{}
			for _, v := range o.Val {
				vs = append(vs, expand(v))
			}
			if len(vs) == 0 {
				delete(e, "values")
			} else {
				e["values"] = vs
			}
		default:
			v := ""
			if len(o.Val) > 0 {
				v = expand(o.Val[0])
			}
			e["value"] = v
		}
	}
	out, err := json.Marshal(cp)
	if err != nil {
		h.Die("marshal: %v", err)
	}
	return out
}

func fillResult(err error) string {
	switch {
	case err == nil:
		return "ok"
	case errors.Is(err, api.ErrNoFormFieldsAffected):
		return "noop"
	default:
		return "error: " + err.Error()
	}
}

func normStates(s []fieldState) []fieldState {
	for i := range s {
		if s[i].Val == nil {
			s[i].Val = []string{}
		}
	}
	return s
}

func normOp(o []fieldOp) []fieldOp {
	for i := range o {
		if o[i].Val == nil {
			o[i].Val = []string{}
		}
	}
	return o
}

// fconf: every third call uses the default configuration, the others write classic xref tables without object streams.
func fconf(n int) *model.Configuration {
	if n%3 == 0 {
		return nil
	}
	return plainConf()
}

func formRun(dir string, idx int, defs []fieldDef, c formCase, put func(formRecord)) error {
	cj := filepath.Join(dir, "create.json")
	if err := os.WriteFile(cj, createJSON(defs, c.Init), 0644); err != nil {
		return err
	}
	cur := filepath.Join(dir, "f0.pdf")
	os.Remove(cur)
	asked := make([]fieldOp, len(defs))
	for i, s := range c.Init {
		asked[i] = fieldOp{Present: true, Val: s.Val, Lock: s.Locked}
	}
	rec := formRecord{Case: idx, Step: 0, Kind: "create", Focus: c.Focus, Op: normOp(asked), Pre: normStates(append([]fieldState(nil), c.Init...)), Result: "ok"}
	if err := api.CreateFile("", cj, cur, fconf(idx)); err != nil {
		return fmt.Errorf("form creation failed: %w", err)
	}
	ex := filepath.Join(dir, "e0.json")
	os.Remove(ex)
	if err := api.ExportFormFile(cur, ex, nil); err != nil {
		rec.Result = "error: export: " + err.Error()
		rec.Post = rec.Pre
		put(rec)
		return nil
	}
	doc, st, err := readFormExport(ex, defs)
	if err != nil {
		rec.Result = "error: export: " + err.Error()
		rec.Post = rec.Pre
		put(rec)
		return nil
	}
	rec.Post = normStates(st)
	put(rec)
	for k, op := range c.Ops {
		// "refill" and "same" are defined on the current document (FormsModel!ExportOp): instantiate them with the real state
		if op.Kind == "refill" || op.Kind == "same" {
			fs := make([]fieldOp, len(defs))
			for i, s := range st {
				fs[i] = fieldOp{Present: true, Val: s.Val, Lock: s.Locked}
				if op.Kind == "same" && defs[i].Name == c.Focus {
					fs[i].Lock = !s.Locked
				}
			}
			op.Fields = fs
		}
		fj := filepath.Join(dir, fmt.Sprintf("fill%d.json", k+1))
		if err := os.WriteFile(fj, fillJSON(doc, defs, op.Fields), 0644); err != nil {
			return err
		}
		next := filepath.Join(dir, fmt.Sprintf("f%d.pdf", k+1))
		os.Remove(next)
		r := formRecord{Case: idx, Step: k + 1, Kind: "fill", OpKind: op.Kind, Focus: c.Focus, Op: normOp(op.Fields), Pre: normStates(st)}
		r.Result = fillResult(api.FillFormFile(cur, fj, next, fconf(idx+k+1)))
		if r.Result == "ok" {
			cur = next
		} else if _, e := os.Stat(next); e == nil {
			r.Result += " (but an output file was written)"
		}
		ex := filepath.Join(dir, fmt.Sprintf("e%d.json", k+1))
		os.Remove(ex)
		if err := api.ExportFormFile(cur, ex, nil); err != nil {
			r.Result = "error: export after fill: " + err.Error()
			r.Post = r.Pre
			put(r)
			return nil
		}
		doc2, st2, err := readFormExport(ex, defs)
		if err != nil {
			r.Result = "error: export after fill: " + err.Error()
			r.Post = r.Pre
			put(r)
			return nil
		}
		r.Post = normStates(st2)
		put(r)
		doc, st = doc2, st2
	}
	return nil
}

// formSamples: refill of the exported form samples (identity), recorded with their own field tables.
func formSamples(dir string, base int, put func(formRecord)) int {
	var files []string
	for _, pat := range []string{"pkg/samples/form/demo/english.pdf", "pkg/samples/form/primitives/*.pdf", "pkg/samples/form/fill/english.pdf", "pkg/samples/form/fill/person.pdf"} {
		m, _ := filepath.Glob(repoPath(pat))
		files = append(files, m...)
	}
	sort.Strings(files)
	n := 0
	for _, f := range files {
		ex := filepath.Join(dir, "s.json")
		os.Remove(ex)
		if err := api.ExportFormFile(f, ex, nil); err != nil {
			continue // not an exportable form in this sandbox (e.g. user fonts)
		}
		pre, err := genericState(ex)
		if err != nil {
			continue
		}
		out := filepath.Join(dir, "s.pdf")
		os.Remove(out)
		r := formRecord{Case: base + n, Step: 1, Kind: "sample", OpKind: "refill", Focus: filepath.Base(f), Op: []fieldOp{}, Pre: pre}
		r.Result = fillResult(api.FillFormFile(f, ex, out, nil))
		if strings.HasPrefix(r.Result, "error") && strings.Contains(r.Result, "not available") {
			continue // user font (Roboto ...) needed: outside the sandbox's repertoire
		}
		r.Post = pre
		if r.Result == "ok" {
			ex2 := filepath.Join(dir, "s2.json")
			os.Remove(ex2)
			if err := api.ExportFormFile(out, ex2, nil); err != nil {
				r.Result = "error: export after fill: " + err.Error()
			} else if post, err := genericState(ex2); err != nil {
				r.Result = "error: export after fill: " + err.Error()
			} else {
				r.Post = post
			}
		}
		put(r)
		n++
	}
	return n
}

// genericState projects every field of an export (any field table), ordered by group and id; the field identity is
// kept in the first element of val ("name=...").
func genericState(path string) ([]fieldState, error) {
	b, err := os.ReadFile(path)
	if err != nil {
		return nil, err
	}
	var doc map[string]any
	if err := json.Unmarshal(b, &doc); err != nil {
		return nil, err
	}
	forms, _ := doc["forms"].([]any)
	if len(forms) == 0 {
		return nil, errors.New("no forms")
	}
	form, _ := forms[0].(map[string]any)
	var out []fieldState
	for _, typ := range []string{"text", "date", "check", "radio", "combo", "list"} {
		arr, _ := form[groupOf[typ]].([]any)
		var part []fieldState
		for _, x := range arr {
			m, ok := x.(map[string]any)
			if !ok {
				continue
			}
			s := projectField(typ, m)
			s.Val = append([]string{fmt.Sprintf("%s:%v/%v", typ, m["id"], m["name"])}, s.Val...)
			part = append(part, s)
		}
		sort.Slice(part, func(i, j int) bool { return part[i].Val[0] < part[j].Val[0] })
		out = append(out, part...)
	}
	return out, nil
}

// userFonts switches to a temporary config dir and installs the user font pdfcpu falls back to for text its core fonts cannot
// encode (Roboto-Regular), so that non-Latin and supplementary-plane values can be filled.
func userFonts() func() {
	d, err := os.MkdirTemp("", "bmformwm-conf-")
	if err != nil {
		h.Die("tmp: %v", err)
	}
	if err := api.EnsureDefaultConfigAt(d); err != nil {
		h.Die("config dir: %v", err)
	}
	if err := api.InstallFonts([]string{repoPath("pkg/testdata/fonts/Roboto-Regular.ttf")}); err != nil {
		h.Die("install font: %v", err)
	}
	return func() { os.RemoveAll(d) }
}

func formReplay(in, fieldsFile, out string, workers int, samples bool) {
	defer userFonts()()
	var defs []fieldDef
	first := true
	if err := h.EachLine(fieldsFile, func(line []byte) error {
		if first {
			first = false
			return json.Unmarshal(line, &defs)
		}
		return nil
	}); err != nil || len(defs) == 0 {
		h.Die("field table: %v", err)
	}
	wr := h.NewW(out)
	defer wr.Close()
	var mu sync.Mutex
	n, steps := 0, 0
	results := map[string]int{}
	put := func(r formRecord) {
		mu.Lock()
		defer mu.Unlock()
		wr.Put(r)
		steps++
		k := r.Result
		if strings.HasPrefix(k, "error") {
			k = "error"
		}
		results[r.Kind+"/"+k]++
	}
	type job struct {
		idx  int
		line []byte
	}
	ch := make(chan job, 64)
	var wg sync.WaitGroup
	for i := 0; i < workers; i++ {
		wg.Add(1)
		go func() {
			defer wg.Done()
			dir, err := os.MkdirTemp("", "form-replay-")
			if err != nil {
				h.Die("tmp: %v", err)
			}
			defer os.RemoveAll(dir)
			for j := range ch {
				var c formCase
				if err := json.Unmarshal(j.line, &c); err != nil {
					h.Die("case: %v", err)
				}
				if err := formRun(dir, j.idx, defs, c, put); err != nil {
					h.Die("case %d: %v", j.idx, err)
				}
				mu.Lock()
				n++
				mu.Unlock()
			}
		}()
	}
	idx := 0
	err := h.EachLine(in, func(line []byte) error {
		idx++
		ch <- job{idx, append([]byte(nil), line...)}
		return nil
	})
	close(ch)
	wg.Wait()
	if err != nil {
		h.Die("replay: %v", err)
	}
	ns := 0
	if samples {
		dir, _ := os.MkdirTemp("", "form-samples-")
		ns = formSamples(dir, idx+1, put)
		os.RemoveAll(dir)
	}
	h.Summary(map[string]any{"cases": n, "records": steps, "samples": ns, "results": results, "text_exported_as_date": textAsDate.Load()})
}
