// c05: names an attacker controls never make pdfcpu create files outside the requested directory, and colliding
// attachment names are reported before anything is written.
//   names : every name over the class alphabet up to length L through the real sanitize.Path -> records for TLC (SafeName.tla)
//   e2e   : raw PDFs carrying hostile names (attachment /F /UF, bookmark titles, image resource names) -> real extraction /
//           bookmark split with the instrumented os package -> traces for spec/FSTrace.tla (NoEscape) + real-tree verdicts
package main

import (
	"encoding/hex"
	"fmt"
	"math/rand"
	"os"
	"sort"
	"strings"

	"github.com/pdfcpu/pdfcpu/pkg/api"
	"github.com/pdfcpu/pdfcpu/pkg/pdfcpu/sanitize"
	"verif/harness/lib/fsx"
	"verif/harness/lib/h"
	"verif/harness/lib/rawpdf"
)

// class alphabet: every byte class the sanitiser distinguishes
var alphabet = []string{"/", "\\", ".", " ", ":", "a", "C", "O", "N", "\x00", "\x01", "*", "\x7f", "\u00e9", "_"}

func codes(s string) []int {
	c := make([]int, len(s))
	for i := 0; i < len(s); i++ {
		c[i] = int(s[i])
	}
	return c
}

func enumerate(maxLen int, fn func(string)) {
	var rec func(prefix string, n int)
	rec = func(prefix string, n int) {
		if n == 0 {
			return
		}
		for _, a := range alphabet {
			s := prefix + a
			fn(s)
			rec(s, n-1)
		}
	}
	rec("", maxLen)
}

var stems = []string{"CON", "con.txt", "nul", "NUL.pdf", "com1", "LPT9.x", "aux", "PRN", "C:\\x", "c:/y", "..", "../..", "../../etc/passwd",
	"/abs/name", "a/../../b", "....//", ". .", "\\\\host\\share\\f", "a\x00b", "normal.txt", "COM0", "com10", "x:y", "\tTab", "~", "-rf"}

func names(out string, maxLen int) {
	w := h.NewW(out)
	defer w.Close()
	n, acc := 0, 0
	distinct := map[string]bool{}
	emit := func(s string) {
		o, err := sanitize.Path(s)
		n++
		if err == nil {
			acc++
			distinct[o] = true
		}
		w.Put(map[string]any{"in": codes(s), "ok": err == nil, "out": codes(o)})
	}
	enumerate(maxLen, emit)
	for _, s := range stems {
		emit(s)
		emit(s + "/")
		emit("x/" + s)
	}
	h.Summary(map[string]any{"names": n, "accepted": acc, "distinct_outputs": len(distinct)})
}

func hexs(s string) string { return "<" + hex.EncodeToString([]byte(s)) + ">" }

// attachDoc builds a PDF with embedded files whose file specification names are the given raw strings.
func attachDoc(fnames []string) []byte {
	keys := make([]string, len(fnames))
	for i := range fnames {
		keys[i] = fmt.Sprintf("key%04d", i)
	}
	return attachDocKeys(keys, fnames)
}

// attachDocKeys: name tree keys (must be sorted ascending by the caller) and file specification names are independent.
func attachDocKeys(keys, fnames []string) []byte {
	d := rawpdf.MarkerDoc([]rawpdf.PageSpec{{Marker: "P1", Rotate: -1}}, rawpdf.MarkerOpts{})
	var pairs []string
	for i, fn := range fnames {
		ef := d.AddStream("/Type /EmbeddedFile", []byte(fmt.Sprintf("content of attachment %d", i)))
		fs := d.Add(fmt.Sprintf("<< /Type /Filespec /F %s /UF %s /EF << /F %d 0 R >> >>", hexs(fn), hexs(fn), ef))
		pairs = append(pairs, fmt.Sprintf("%s %d 0 R", hexs(keys[i]), fs))
	}
	cat := d.Objs[d.Root-1]
	cat = strings.TrimSuffix(strings.TrimSpace(cat), ">>") + fmt.Sprintf(" /Names << /EmbeddedFiles << /Names [%s] >> >> >>", strings.Join(pairs, " "))
	d.Set(d.Root, cat)
	return d.Bytes()
}

// bookmarkDoc builds a 3-page PDF with top-level bookmarks carrying the given titles (page i+1).
func bookmarkDoc(titles []string) []byte {
	ps := []rawpdf.PageSpec{}
	for i := 0; i < len(titles)+1; i++ {
		ps = append(ps, rawpdf.PageSpec{Marker: fmt.Sprintf("P%d", i+1), Rotate: -1})
	}
	d := rawpdf.MarkerDoc(ps, rawpdf.MarkerOpts{})
	// find page object numbers: pages are the objects whose body starts with "<< /Type /Page "
	var pages []int
	for i, b := range d.Objs {
		if strings.HasPrefix(b, "<< /Type /Page /Parent") {
			pages = append(pages, i+1)
		}
	}
	outlines := d.Reserve()
	items := make([]int, len(titles))
	for i := range titles {
		items[i] = d.Reserve()
	}
	for i, t := range titles {
		body := fmt.Sprintf("<< /Title %s /Parent %d 0 R /Dest [%d 0 R /Fit]", hexs(t), outlines, pages[i])
		if i > 0 {
			body += fmt.Sprintf(" /Prev %d 0 R", items[i-1])
		}
		if i < len(titles)-1 {
			body += fmt.Sprintf(" /Next %d 0 R", items[i+1])
		}
		d.Set(items[i], body+" >>")
	}
	d.Set(outlines, fmt.Sprintf("<< /Type /Outlines /First %d 0 R /Last %d 0 R /Count %d >>", items[0], items[len(items)-1], len(items)))
	cat := d.Objs[d.Root-1]
	cat = strings.TrimSuffix(strings.TrimSpace(cat), ">>") + fmt.Sprintf(" /Outlines %d 0 R >>", outlines)
	d.Set(d.Root, cat)
	return d.Bytes()
}

// imageDoc builds a 1-page PDF using an image XObject under the given (raw) resource name.
func imageDoc(resName string) []byte {
	d := &rawpdf.Doc{}
	cat := d.Reserve()
	d.Root = cat
	pages := d.Reserve()
	img := d.AddStream("/Type /XObject /Subtype /Image /Width 2 /Height 2 /ColorSpace /DeviceGray /BitsPerComponent 8", []byte{0, 64, 128, 255})
	var enc strings.Builder
	for i := 0; i < len(resName); i++ {
		c := resName[i]
		if c > 32 && c < 127 && !strings.ContainsRune("#/%()<>[]{}", rune(c)) {
			enc.WriteByte(c)
		} else {
			fmt.Fprintf(&enc, "#%02X", c)
		}
	}
	content := d.AddStream("", []byte(fmt.Sprintf("q 10 0 0 10 0 0 cm /%s Do Q", enc.String())))
	page := d.Add(fmt.Sprintf("<< /Type /Page /Parent %d 0 R /MediaBox [0 0 100 100] /Contents %d 0 R /Resources << /XObject << /%s %d 0 R >> >> >>", pages, content, enc.String(), img))
	d.Set(pages, fmt.Sprintf("<< /Type /Pages /Count 1 /Kids [%d 0 R] >>", page))
	d.Set(cat, fmt.Sprintf("<< /Type /Catalog /Pages %d 0 R >>", pages))
	return d.Bytes()
}

type rec struct {
	T       int      `json:"t"`
	Kind    string   `json:"kind"`
	Names   [][]int  `json:"names"`
	Outcome string   `json:"outcome"`
	Err     string   `json:"err"`
	Created []string `json:"created"`
	Verdict string   `json:"verdict"`
	Why     string   `json:"why"`
	Key     string   `json:"key"`
}

func e2e(runs, trace string, tier string, seed int64) {
	rng := rand.New(rand.NewSource(seed))
	w := h.NewW(runs)
	tw := h.NewW(trace)
	defer w.Close()
	defer tw.Close()
	// hostile names: the stems + seeded names over the alphabet
	var pool []string
	pool = append(pool, stems...)
	enumerate(2, func(s string) { pool = append(pool, s) })
	nRandom := 60
	if tier == "thorough" {
		nRandom = 1500
	}
	for i := 0; i < nRandom; i++ {
		k := 3 + rng.Intn(6)
		var b strings.Builder
		for j := 0; j < k; j++ {
			b.WriteString(alphabet[rng.Intn(len(alphabet))])
		}
		pool = append(pool, b.String())
	}
	// Unicode look-alikes of separators and dots (full-width, small forms, leaders): whatever normalisation or folding the
	// code applies to a name must happen before it is judged safe, never after
	compatSyms := []string{"\uff0e", "\uff0f", "\uff3c", "\u2024", "\u2025", "\u2215", "\u2044", "\ufe52", "\uff1a", "\uff0e\uff0e", "\u2025\uff0f", "a", "..", "/"}
	compat := []string{"\uff0e\uff0e\uff0f\uff0e\uff0e\uff0fescaped", "\u2025\uff0f\u2025\uff0fescaped", "\uff0e\uff0e\uff3cescaped", "sub\uff0fescaped",
		"\uff0fabs\uff0fescaped", "\uff23\uff1a\uff3cx", "\u2024\u2024\u2215\u2024\u2024\u2215escaped", "\ufe52\ufe52\u2044escaped"}
	nCompat := 24
	if tier == "thorough" {
		nCompat = 400
	}
	for i := 0; i < nCompat; i++ {
		k := 2 + rng.Intn(4)
		var b strings.Builder
		for j := 0; j < k; j++ {
			b.WriteString(compatSyms[rng.Intn(len(compatSyms))])
		}
		compat = append(compat, b.String()+"escaped")
	}
	tid, viol, nruns, collisions := 0, 0, 0, 0
	run := func(kind string, nm []string, doc []byte, op func(in, out string) error, expectCollision bool) {
		nAttach := strings.Count(string(doc), "/Type /Filespec")
		sb := fsx.New()
		defer sb.Close()
		sb.Mkdir("w/x/out") // nested, so that ../../ stays inside the observed sandbox
		sb.Mkdir("sibling")
		sb.Put("sibling/keep.txt", []byte("keep"), 0644)
		in := sb.Put("in/in.pdf", doc, 0644)
		r := sb.Run(fsx.RunCfg{}, func() error { return op(in, sb.P("w/x/out")) })
		tid++
		nruns++
		rc := rec{T: tid, Kind: kind, Outcome: r.Outcome(), Verdict: "ok", Created: []string{}}
		if r.Err != nil {
			rc.Err = r.Err.Error()
			if len(rc.Err) > 300 {
				rc.Err = rc.Err[:300]
			}
		}
		for _, n := range nm {
			rc.Names = append(rc.Names, codes(n))
		}
		fail := func(key, why string) {
			if rc.Verdict == "ok" {
				rc.Verdict, rc.Key, rc.Why = "violation", kind+"|"+key, why
			}
		}
		for _, d := range fsx.Diff(r.Before, r.After) {
			name := d[1:]
			if j := strings.Index(name, "("); j >= 0 && d[0] == '~' {
				name = name[:j]
			}
			rc.Created = append(rc.Created, d)
			if d[0] != '+' || !strings.HasPrefix(name, "w/x/out/") || strings.Contains(name[8:], "/") {
				fail("escape", fmt.Sprintf("names %q: entry %s changed/created outside the output directory (or in a sub directory)", nm, d))
			}
		}
		sort.Strings(rc.Created)
		if r.Panicked {
			fail("panic", "operation panicked: "+r.PanicVal)
		}
		if kind == "attach" {
			if expectCollision {
				collisions++
				if r.Outcome() == "ok" {
					// no collision error: then every attachment must have its own file with its own content
					files := 0
					for _, d := range rc.Created {
						if d[0] == '+' {
							files++
						}
					}
					if files < nAttach {
						fail("silent overwrite", fmt.Sprintf("names %q map to the same file: %d attachments, %d files, no collision error", nm, nAttach, files))
					}
				} else if len(rc.Created) != 0 {
					fail("collision after writing", fmt.Sprintf("names %q: collision reported but files were already written: %v", nm, rc.Created))
				}
			}
		}
		for _, l := range r.Lines(fsx.Meta{T: tid, Name: kind, Prot: []string{"in/in.pdf", "sibling/keep.txt"}, DestDirs: []string{"w/x/out"}, Judge: []string{"c05"}}) {
			tw.Put(l)
		}
		w.Put(rc)
		if rc.Verdict == "violation" {
			viol++
		}
	}
	// single hostile attachment names, bookmark titles, image resource names
	for i, n := range pool {
		if strings.Contains(n, "\x00") && false {
			continue
		}
		run("attach", []string{n}, attachDoc([]string{n}), func(in, out string) error { return api.ExtractAttachmentsFile(in, out, nil, nil) }, false)
		if i%3 == 0 || tier == "thorough" {
			run("bookmark-split", []string{n, "second"}, bookmarkDoc([]string{n, "second"}), func(in, out string) error { return api.SplitFile(in, out, 0, nil) }, false)
			run("image", []string{n}, imageDoc(n), func(in, out string) error { return api.ExtractImagesFile(in, out, nil, nil) }, false)
		}
	}
	for _, n := range compat {
		run("attach", []string{n}, attachDoc([]string{n}), func(in, out string) error { return api.ExtractAttachmentsFile(in, out, nil, nil) }, false)
		run("bookmark-split", []string{n, "second"}, bookmarkDoc([]string{n, "second"}), func(in, out string) error { return api.SplitFile(in, out, 0, nil) }, false)
		run("image", []string{n}, imageDoc(n), func(in, out string) error { return api.ExtractImagesFile(in, out, nil, nil) }, false)
	}
	// the same name tree key twice (different streams, same file name): two attachments, one output name
	for _, dup := range [][]string{{"note.txt", "note.txt"}, {"a", "note.txt", "note.txt", "z"}} {
		fn := make([]string, len(dup))
		for i := range dup {
			fn[i] = "note.txt"
			if dup[i] != "note.txt" {
				fn[i] = dup[i] + ".txt"
			}
		}
		run("attach", []string{"note.txt", "note.txt"}, attachDocKeys(dup, fn), func(in, out string) error { return api.ExtractAttachmentsFile(in, out, nil, nil) }, true)
	}
	// hostile name-tree KEYS combined with file names the sanitiser rejects (the fallback name must be safe too)
	rejected := []string{".", "..", "../..", "", "a\x00b", "/", "\\", " . "}
	hostileKeys := []string{"../../escaped.txt", "sub/escaped.txt", "/abs/escaped.txt", "..", "C:\\x.txt", "plain.txt"}
	for _, k := range hostileKeys {
		for _, fn := range rejected {
			run("attach-key", []string{k, fn}, attachDocKeys([]string{k}, []string{fn}), func(in, out string) error { return api.ExtractAttachmentsFile(in, out, nil, nil) }, false)
		}
	}
	// a colliding pair separated by many other attachments (collision detection must span the whole extraction)
	for _, gap := range []int{1, 127, 130, 190} {
		names := []string{"a/zz.txt"}
		for i := 0; i < gap; i++ {
			names = append(names, fmt.Sprintf("filler%04d.txt", i))
		}
		names = append(names, "a_zz.txt")
		run("attach", []string{"a/zz.txt", "a_zz.txt", fmt.Sprintf("gap=%d", gap)}[:2], attachDoc(names), func(in, out string) error { return api.ExtractAttachmentsFile(in, out, nil, nil) }, true)
	}
	// pairs whose sanitised names coincide (collision candidates) and a few that do not
	var san []string
	byOut := map[string][]string{}
	for _, n := range pool {
		if o, err := sanitize.Path(n); err == nil {
			byOut[o] = append(byOut[o], n)
			san = append(san, n)
		}
	}
	keys := make([]string, 0, len(byOut))
	for k := range byOut {
		keys = append(keys, k)
	}
	sort.Strings(keys)
	pairs := 0
	maxPairs := 40
	if tier == "thorough" {
		maxPairs = 600
	}
	for _, k := range keys {
		g := byOut[k]
		for i := 0; i+1 < len(g) && pairs < maxPairs; i += 2 {
			if g[i] == g[i+1] {
				continue
			}
			pairs++
			run("attach", []string{g[i], g[i+1]}, attachDoc([]string{g[i], g[i+1]}), func(in, out string) error { return api.ExtractAttachmentsFile(in, out, nil, nil) }, true)
		}
	}
	for i := 0; i < 10 && len(san) > 1; i++ {
		a, b := san[rng.Intn(len(san))], san[rng.Intn(len(san))]
		oa, _ := sanitize.Path(a)
		ob, _ := sanitize.Path(b)
		run("attach", []string{a, b}, attachDoc([]string{a, b}), func(in, out string) error { return api.ExtractAttachmentsFile(in, out, nil, nil) }, strings.EqualFold(oa, ob))
	}
	h.Summary(map[string]any{"runs": nruns, "violations": viol, "collision_pairs": collisions, "pool": len(pool)})
}

func main() {
	api.DisableConfigDir()
	switch os.Args[1] {
	case "names":
		names(h.Arg("--out"), h.ArgInt("--len", 3))
	case "e2e":
		e2e(h.Arg("--runs"), h.Arg("--trace"), h.Arg("--tier"), int64(h.ArgInt("--seed", 1)))
	default:
		h.Die("usage: c05 names|e2e")
	}
}
