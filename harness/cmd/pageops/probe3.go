package main

import (
	"fmt"
	"os"
	"path/filepath"

	"github.com/pdfcpu/pdfcpu/pkg/api"
	"verif/harness/lib/proj"
	"verif/harness/lib/rawpdf"
)

func probe3() {
	dir, _ := os.MkdirTemp("", "pageops-probe-")
	defer os.RemoveAll(dir)
	f := filepath.Join(dir, "doc.pdf")
	os.WriteFile(f, rawpdf.Simple(7, "p"), 0644)
	ls := func(d string) {
		es, _ := os.ReadDir(d)
		for _, e := range es {
			m, err := proj.Markers(filepath.Join(d, e.Name()), nil)
			fmt.Printf("  %s %v %v\n", e.Name(), m, err)
		}
	}
	for _, span := range []int{1, 3, 7, 9} {
		o := filepath.Join(dir, fmt.Sprintf("s%d", span))
		os.Mkdir(o, 0755)
		fmt.Println("split", span, api.SplitFile(f, o, span, nil))
		ls(o)
	}
	for i, nrs := range [][]int{{2}, {3, 5}, {7}, {2, 3, 9}, {8}, {1}, {4, 4}} {
		o := filepath.Join(dir, fmt.Sprintf("n%d", i))
		os.Mkdir(o, 0755)
		fmt.Println("splitnr", nrs, api.SplitByPageNrFile(f, o, nrs, nil))
		ls(o)
	}
	a := filepath.Join(dir, "a.pdf")
	b := filepath.Join(dir, "b.pdf")
	c := filepath.Join(dir, "c.pdf")
	os.WriteFile(a, rawpdf.Simple(2, "a"), 0644)
	os.WriteFile(b, rawpdf.Simple(3, "b"), 0644)
	os.WriteFile(c, rawpdf.Simple(1, "c"), 0644)
	o := filepath.Join(dir, "m.pdf")
	sh := func(tag string, err error) {
		m, e2 := proj.Markers(o, nil)
		fmt.Printf("%s: %v -> %q %v\n", tag, err, m, e2)
	}
	sh("create abc", api.MergeCreateFile([]string{a, b, c}, o, false, nil))
	sh("create abc div", api.MergeCreateFile([]string{a, b, c}, o, true, nil))
	sh("create a", api.MergeCreateFile([]string{a}, o, true, nil))
	sh("create aa", api.MergeCreateFile([]string{a, a}, o, false, nil))
	sh("append b,c to m(=aa)", api.MergeAppendFile([]string{b, c}, o, true, nil))
	os.Remove(o)
	sh("append b,c to nonexist", api.MergeAppendFile([]string{b, c}, o, false, nil))
	sh("zip a b", api.MergeCreateZipFile(a, b, o, nil))
	sh("zip b a", api.MergeCreateZipFile(b, a, o, nil))
	sh("zip b c", api.MergeCreateZipFile(b, c, o, nil))
	sh("zip a a", api.MergeCreateZipFile(a, a, o, nil))
}
