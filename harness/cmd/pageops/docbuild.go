package main

import (
	"fmt"
	"strings"

	"github.com/pdfcpu/pdfcpu/pkg/pdfcpu/model"
	"verif/harness/lib/rawpdf"
)

// Box is [llx lly urx ury] or empty (absent).
type Box []int

func (b Box) pdf() string {
	return fmt.Sprintf("[%d %d %d %d]", b[0], b[1], b[2], b[3])
}

func (b Box) eq(o [4]int) bool {
	return len(b) == 4 && b[0] == o[0] && b[1] == o[1] && b[2] == o[2] && b[3] == o[3]
}

// PageIn / GroupIn / DocIn mirror the document tree of spec/Doc.tla (DocTree): a root Pages node with a MediaBox and an
// optional Rotate; groups are either intermediate Pages nodes (node=true) carrying optional inheritable attributes, or
// runs of pages that are direct kids of the root.
type PageIn struct {
	Mark  string `json:"mark"`
	Rot   int    `json:"rot"` // -1: no /Rotate entry
	Media Box    `json:"media"`
	Crop  Box    `json:"crop"`
}

type GroupIn struct {
	Node  bool     `json:"node"`
	Rot   int      `json:"rot"`
	Media Box      `json:"media"`
	Crop  Box      `json:"crop"`
	Pages []PageIn `json:"pages"`
}

type DocIn struct {
	Media  Box       `json:"media"`
	Rot    int       `json:"rot"`
	Groups []GroupIn `json:"groups"`
}

// ConfIn mirrors Doc!Conf: the configuration switches an API call runs with.
type ConfIn struct {
	Optimize bool `json:"optimize"`
	OptBW    bool `json:"optbw"`
	ResDicts bool `json:"resdicts"`
	DupCS    bool `json:"dupcs"`
	ObjStm   bool `json:"objstm"`
	XRefStm  bool `json:"xrefstm"`
}

// conf returns a fresh configuration (the API functions modify the one they are given); nil ConfIn = library defaults.
func (c *ConfIn) conf() *model.Configuration {
	if c == nil {
		return nil
	}
	m := model.NewDefaultConfiguration()
	m.Optimize = c.Optimize
	m.OptimizeBeforeWriting = c.OptBW
	m.OptimizeResourceDicts = c.ResDicts
	m.OptimizeDuplicateContentStreams = c.DupCS
	m.WriteObjectStream = c.ObjStm
	m.WriteXRefStream = c.XRefStm
	return m
}

type docExtras struct {
	info      string // info dict content
	catalog   string // extra catalog entries
	version   string
	bookmarks []int // pages the top-level bookmarks bm1, bm2, ... point at
}

// buildDoc emits the tree byte by byte with the raw emitter (independent of pdfcpu's writer).
func buildDoc(in DocIn, ex docExtras) []byte {
	d := &rawpdf.Doc{Version: ex.version}
	catalog := d.Reserve()
	d.Root = catalog
	font := d.Add("<< /Type /Font /Subtype /Type1 /BaseFont /Helvetica >>")
	root := d.Reserve()
	var pageObjs []int
	mkPage := func(parent int, p PageIn) int {
		c := d.AddStream("", []byte(rawpdf.MarkerContent(p.Mark)))
		body := fmt.Sprintf("<< /Type /Page /Parent %d 0 R /Contents %d 0 R /Resources << /Font << /F1 %d 0 R >> >>", parent, c, font)
		if len(p.Media) == 4 {
			body += " /MediaBox " + p.Media.pdf()
		}
		if len(p.Crop) == 4 {
			body += " /CropBox " + p.Crop.pdf()
		}
		if p.Rot >= 0 {
			body += fmt.Sprintf(" /Rotate %d", p.Rot)
		}
		n := d.Add(body + " >>")
		pageObjs = append(pageObjs, n)
		return n
	}
	var kids []string
	total := 0
	for _, g := range in.Groups {
		if !g.Node {
			for _, p := range g.Pages {
				kids = append(kids, fmt.Sprintf("%d 0 R", mkPage(root, p)))
				total++
			}
			continue
		}
		mid := d.Reserve()
		var refs []string
		for _, p := range g.Pages {
			refs = append(refs, fmt.Sprintf("%d 0 R", mkPage(mid, p)))
		}
		body := fmt.Sprintf("<< /Type /Pages /Parent %d 0 R /Count %d /Kids [%s]", root, len(refs), strings.Join(refs, " "))
		if len(g.Media) == 4 {
			body += " /MediaBox " + g.Media.pdf()
		}
		if len(g.Crop) == 4 {
			body += " /CropBox " + g.Crop.pdf()
		}
		if g.Rot >= 0 {
			body += fmt.Sprintf(" /Rotate %d", g.Rot)
		}
		d.Set(mid, body+" >>")
		kids = append(kids, fmt.Sprintf("%d 0 R", mid))
		total += len(refs)
	}
	rp := fmt.Sprintf("<< /Type /Pages /Count %d /Kids [%s] /MediaBox %s", total, strings.Join(kids, " "), in.Media.pdf())
	if in.Rot >= 0 {
		rp += fmt.Sprintf(" /Rotate %d", in.Rot)
	}
	d.Set(root, rp+" >>")
	if len(ex.bookmarks) > 0 {
		outl := d.Reserve()
		items := make([]int, len(ex.bookmarks))
		for i := range items {
			items[i] = d.Reserve()
		}
		for i, pg := range ex.bookmarks {
			body := fmt.Sprintf("<< /Title (bm%d) /Parent %d 0 R /Dest [%d 0 R /Fit]", i+1, outl, pageObjs[pg-1])
			if i > 0 {
				body += fmt.Sprintf(" /Prev %d 0 R", items[i-1])
			}
			if i < len(items)-1 {
				body += fmt.Sprintf(" /Next %d 0 R", items[i+1])
			}
			d.Set(items[i], body+" >>")
		}
		d.Set(outl, fmt.Sprintf("<< /Type /Outlines /First %d 0 R /Last %d 0 R /Count %d >>", items[0], items[len(items)-1], len(items)))
		ex.catalog += fmt.Sprintf(" /Outlines %d 0 R", outl)
	}
	d.Set(catalog, fmt.Sprintf("<< /Type /Catalog /Pages %d 0 R %s >>", root, ex.catalog))
	if ex.info != "" {
		d.Info = d.Add("<< " + ex.info + " >>")
	}
	return d.Bytes()
}
