package main

import (
	"fmt"
	"os"
	"path/filepath"

	"github.com/pdfcpu/pdfcpu/pkg/api"
	"github.com/pdfcpu/pdfcpu/pkg/pdfcpu/types"
	"verif/harness/lib/h"
	"verif/harness/lib/proj"
)

func show(tag, path string) {
	ps, err := proj.Pages(path, nil)
	if err != nil {
		fmt.Println(tag, "ERR", err)
		return
	}
	fmt.Print(tag, ": ")
	for _, p := range ps {
		fmt.Printf("[%s r%d m%v c%v hc=%v] ", p.Marker, p.Rot, p.Media, p.Crop, p.HasCrop)
	}
	fmt.Println()
}

func probe() {
	dir, _ := os.MkdirTemp("", "pageops-probe-")
	defer os.RemoveAll(dir)
	in := DocIn{Media: Box{0, 0, 595, 842}, Rot: 90, Groups: []GroupIn{
		{Node: false, Rot: -1, Pages: []PageIn{{Mark: "p1", Rot: -1, Media: Box{0, 0, 200, 300}}, {Mark: "p2", Rot: -1}}},
		{Node: true, Rot: 180, Media: Box{0, 0, 400, 500}, Crop: Box{10, 10, 300, 300}, Pages: []PageIn{{Mark: "p3", Rot: -1}, {Mark: "p4", Rot: 0, Crop: Box{5, 5, 100, 100}}}},
		{Node: true, Rot: -1, Pages: []PageIn{{Mark: "p5", Rot: 270}, {Mark: "p6", Rot: -1}}},
	}}
	f := filepath.Join(dir, "a.pdf")
	os.WriteFile(f, buildDoc(in, docExtras{}), 0644)
	show("orig", f)
	o := filepath.Join(dir, "o.pdf")
	fmt.Println("insert after all:", api.InsertPagesFile(f, o, nil, false, nil, nil))
	show("ins", o)
	fmt.Println("insert before 1,4:", api.InsertPagesFile(f, o, []string{"1", "4"}, true, nil, nil))
	show("ins", o)
	fmt.Println("trim 2-5:", api.TrimFile(f, o, []string{"2-5"}, nil))
	show("trim", o)
	os.Remove(o)
	fmt.Println("trim 9:", api.TrimFile(f, o, []string{"9"}, nil))
	st, err := os.Stat(o)
	if err == nil {
		fmt.Println("  out size", st.Size())
	} else {
		fmt.Println("  out:", err)
	}
	os.Remove(o)
	fmt.Println("trim nil:", api.TrimFile(f, o, nil, nil))
	st, err = os.Stat(o)
	if err == nil {
		fmt.Println("  out size", st.Size())
	} else {
		fmt.Println("  out:", err)
	}
	fmt.Println("rotate 90 3-5:", api.RotateFile(f, o, 90, []string{"3-5"}, nil))
	show("rot", o)
	fmt.Println("collect 4,3,3,1:", api.CollectFile(f, o, []string{"4", "3", "3", "1"}, nil))
	show("coll", o)
	fmt.Println("remove 1:", api.RemovePagesFile(f, o, []string{"1"}, nil))
	show("rem", o)
	fmt.Println("remove 9:", api.RemovePagesFile(f, o, []string{"9"}, nil))
	show("rem", o)
	fmt.Println("remove all:", api.RemovePagesFile(f, o, []string{"1-"}, nil))
	pb, err := api.PageBoundariesFromBoxList("crop")
	fmt.Println("removeboxes crop:", err, api.RemoveBoxesFile(f, o, nil, pb, nil))
	show("rmb", o)
	b, err := api.Box("20", types.POINTS)
	fmt.Println("crop 20:", err, api.CropFile(f, o, []string{"1-3"}, b, nil))
	show("crop", o)
	b, err = api.Box("[10 10 50 60]", types.POINTS)
	fmt.Println("crop rect:", err, api.CropFile(f, o, []string{"2,4"}, b, nil))
	show("crop", o)
	pb, err = api.PageBoundaries("media:[0 0 100 100], trim:[1 1 9 9]", types.POINTS)
	fmt.Println("addboxes:", err, api.AddBoxesFile(f, o, []string{"2,4"}, pb, nil))
	show("addb", o)
}

func main() {
	api.DisableConfigDir()
	if len(os.Args) < 2 {
		h.Die("usage: pageops c32|c33|c35 ...")
	}
	switch os.Args[1] {
	case "probe":
		probe()
	case "probe2":
		probe2()
	case "probe3":
		probe3()
	default:
		h.Die("usage: pageops c32|c33|c35 ...")
	}
}
