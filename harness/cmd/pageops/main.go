// pageops: replays TLC-generated behaviours of the abstract document machine (spec/Doc.tla) into the real pdfcpu API.
//
//	pageops c32 --in cases.ndjson --out mismatches.ndjson [--nt keys.txt] [--shard i --of k] [--mode bfs|sim]   page operations (Doc32.tla)
//	pageops c33 ...                                                                                          split / merge (Doc33.tla)
//	pageops c35 ...                                                                                          metadata edits (Doc35.tla)
//
// Every sub-command prints one "SUMMARY {json}" line; mismatches (one JSON object per line, with a stable "key") go to --out.
package main

import (
	"os"

	"github.com/pdfcpu/pdfcpu/pkg/api"
	"verif/harness/lib/h"
)

func main() {
	api.DisableConfigDir()
	if len(os.Args) < 2 {
		h.Die("usage: pageops c32|c33|c35 --in cases.ndjson --out mismatches.ndjson [--shard i --of k]")
	}
	switch os.Args[1] {
	case "c32":
		c32main()
	case "c33":
		c33main()
	case "c35":
		c35main()
	default:
		h.Die("usage: pageops c32|c33|c35 --in cases.ndjson --out mismatches.ndjson [--shard i --of k]")
	}
}
