package main

// c32: replay TLC-generated histories of page operations (spec/Doc32.tla) through the real
// api.*File functions and compare the projection of every intermediate document with the model.

import (
	"encoding/json"
	"fmt"
	"hash/fnv"
	"os"
	"path/filepath"
	"sort"
	"strings"

	"github.com/pdfcpu/pdfcpu/pkg/api"
	"github.com/pdfcpu/pdfcpu/pkg/pdfcpu/types"
	"verif/harness/lib/h"
	"verif/harness/lib/proj"
)

// xpage is a page as printed by the spec: <<mark, bid, rot, media, crop, trim, bleed, art>> (effective boxes).
type xpage struct {
	Mark                         string
	Bid, Rot                     int
	Media, Crop, Trim, Bleed, Art Box
}

func (p *xpage) UnmarshalJSON(b []byte) error {
	var raw []json.RawMessage
	if err := json.Unmarshal(b, &raw); err != nil {
		return err
	}
	if len(raw) != 8 {
		return fmt.Errorf("page tuple of %d elements", len(raw))
	}
	dst := []any{&p.Mark, &p.Bid, &p.Rot, &p.Media, &p.Crop, &p.Trim, &p.Bleed, &p.Art}
	for i, d := range dst {
		if err := json.Unmarshal(raw[i], d); err != nil {
			return err
		}
	}
	return nil
}

func (p xpage) MarshalJSON() ([]byte, error) {
	return json.Marshal([]any{p.Mark, p.Bid, p.Rot, p.Media, p.Crop, p.Trim, p.Bleed, p.Art})
}

type step32 struct {
	Op  string   `json:"op"`
	Sel []string `json:"sel"`
	N   int      `json:"n"`
	Txt string   `json:"txt"`
	Res string   `json:"res"`
	Chk bool     `json:"chk"`
	Exp []xpage  `json:"exp"`
}

func (s step32) key() string {
	return fmt.Sprintf("%s(%s;%d;%s)", s.Op, strings.Join(s.Sel, ","), s.N, s.Txt)
}

type case32 struct {
	N     int             `json:"n"`
	K     int             `json:"k"`
	Conf  *ConfIn         `json:"conf"`
	Tree  json.RawMessage `json:"tree"`
	Init  []xpage         `json:"init"`
	Steps []step32        `json:"steps"`
}

// apage is the projection of a real page.
type apage struct {
	Mark                         string
	Rot                          int
	Media, Crop, Trim, Bleed, Art [4]int
}

func rect4(r *types.Rectangle) [4]int {
	if r == nil {
		return [4]int{}
	}
	rd := func(f float64) int {
		if f < 0 {
			return int(f - 0.5)
		}
		return int(f + 0.5)
	}
	return [4]int{rd(r.LL.X), rd(r.LL.Y), rd(r.UR.X), rd(r.UR.Y)}
}

func project(path string) ([]apage, error) {
	ctx, err := proj.Context(path, nil)
	if err != nil {
		return nil, err
	}
	ps, err := proj.PagesOf(ctx)
	if err != nil {
		return nil, err
	}
	pbs, err := ctx.PageBoundaries(nil)
	if err != nil {
		return nil, err
	}
	if len(pbs) != len(ps) {
		return nil, fmt.Errorf("PageBoundaries returned %d entries for %d pages", len(pbs), len(ps))
	}
	out := make([]apage, len(ps))
	for i, p := range ps {
		if len(p.Markers) > 1 {
			return nil, fmt.Errorf("page %d carries %d markers", i+1, len(p.Markers))
		}
		out[i] = apage{Mark: p.Marker, Rot: p.Rot, Media: p.Media, Crop: p.Crop,
			Trim: rect4(pbs[i].TrimBox()), Bleed: rect4(pbs[i].BleedBox()), Art: rect4(pbs[i].ArtBox())}
	}
	return out, nil
}

func showPages(ps []apage) string {
	var b strings.Builder
	for i, p := range ps {
		if i > 0 {
			b.WriteString(" ")
		}
		fmt.Fprintf(&b, "[%q r%d m%v c%v t%v b%v a%v]", p.Mark, p.Rot, p.Media, p.Crop, p.Trim, p.Bleed, p.Art)
	}
	return b.String()
}

// compare returns "" or (detail, message) of the first difference; bases maps blank ids to their rotation at birth.
func compare(exp []xpage, act []apage, parentBases map[int]int) (bases map[int]int, detail, msg string) {
	bases = map[int]int{}
	for k, v := range parentBases {
		bases[k] = v
	}
	if len(exp) != len(act) {
		return bases, "count", fmt.Sprintf("expected %d pages, got %d", len(exp), len(act))
	}
	for i := range exp {
		if exp[i].Mark != act[i].Mark {
			return bases, "marker", fmt.Sprintf("page %d: expected marker %q, got %q", i+1, exp[i].Mark, act[i].Mark)
		}
	}
	for i, e := range exp {
		a := act[i]
		born := false
		if e.Bid != 0 {
			if _, ok := bases[e.Bid]; !ok {
				born = true
			}
		}
		pre := ""
		if born {
			pre = "blank-"
		}
		if !e.Media.eq(a.Media) {
			return bases, pre + "media", fmt.Sprintf("page %d (%q): expected MediaBox %v, got %v", i+1, e.Mark, e.Media, a.Media)
		}
		if !e.Crop.eq(a.Crop) {
			d := "crop"
			if a.Crop == a.Media {
				d = "crop:got=media"
			}
			return bases, pre + d, fmt.Sprintf("page %d (%q): expected CropBox %v, got %v", i+1, e.Mark, e.Crop, a.Crop)
		}
		if !e.Trim.eq(a.Trim) {
			return bases, pre + "trim", fmt.Sprintf("page %d (%q): expected TrimBox %v, got %v", i+1, e.Mark, e.Trim, a.Trim)
		}
		if !e.Bleed.eq(a.Bleed) {
			return bases, pre + "bleed", fmt.Sprintf("page %d (%q): expected BleedBox %v, got %v", i+1, e.Mark, e.Bleed, a.Bleed)
		}
		if !e.Art.eq(a.Art) {
			return bases, pre + "art", fmt.Sprintf("page %d (%q): expected ArtBox %v, got %v", i+1, e.Mark, e.Art, a.Art)
		}
		want := e.Rot
		if e.Bid != 0 {
			if born {
				// the rotation of a blank page at birth is not specified; remember it (a multiple of 90)
				if a.Rot%90 != 0 {
					return bases, "blank-rot", fmt.Sprintf("page %d: blank page with rotation %d", i+1, a.Rot)
				}
				bases[e.Bid] = ((a.Rot-e.Rot)%360 + 360) % 360
			}
			want = (bases[e.Bid] + e.Rot) % 360
		}
		if want != a.Rot {
			return bases, pre + "rot", fmt.Sprintf("page %d (%q): expected rotation %d, got %d", i+1, e.Mark, want, a.Rot)
		}
	}
	return bases, "", ""
}

type entry32 struct {
	path    string
	pages   []apage
	bases   map[int]int
	bad     bool // a violation was found here or in a prefix: descendants are skipped
	checked bool
	err     bool // the step was refused (error): path/pages are the parent's
}

type mism32 struct {
	Key   string `json:"key"`
	What  string `json:"what"`
	Case  any    `json:"case"`
	Got   string `json:"got"`
	Field string `json:"field"`
}

type runner32 struct {
	dir     string
	seq     int
	cache   map[string]*entry32
	order   []string
	w       *h.W
	stats   map[string]int
	ops     map[string]int
	nontriv map[string]bool
	maxKeep int
	refs    map[string]int
}

func (r *runner32) put(k string, e *entry32) {
	r.cache[k] = e
	r.refs[e.path]++
	r.order = append(r.order, k)
	for len(r.order) > r.maxKeep {
		old := r.order[0]
		r.order = r.order[1:]
		if oe, ok := r.cache[old]; ok {
			r.refs[oe.path]--
			if r.refs[oe.path] <= 0 {
				delete(r.refs, oe.path)
				os.Remove(oe.path)
			}
			delete(r.cache, old)
		}
	}
}

func applyOp(s step32, in, out string, cf *ConfIn) error {
	sel := s.Sel
	if len(sel) == 0 {
		sel = nil
	}
	switch s.Op {
	case "insert_before":
		return api.InsertPagesFile(in, out, sel, true, nil, cf.conf())
	case "insert_after":
		return api.InsertPagesFile(in, out, sel, false, nil, cf.conf())
	case "remove":
		return api.RemovePagesFile(in, out, sel, cf.conf())
	case "trim":
		return api.TrimFile(in, out, sel, cf.conf())
	case "collect":
		return api.CollectFile(in, out, sel, cf.conf())
	case "rotate":
		return api.RotateFile(in, out, s.N, sel, cf.conf())
	case "addboxes":
		pb, err := api.PageBoundaries(s.Txt, types.POINTS)
		if err != nil {
			h.Die("box definition %q rejected: %v", s.Txt, err)
		}
		return api.AddBoxesFile(in, out, sel, pb, cf.conf())
	case "removeboxes":
		pb, err := api.PageBoundariesFromBoxList(s.Txt)
		if err != nil {
			h.Die("box list %q rejected: %v", s.Txt, err)
		}
		return api.RemoveBoxesFile(in, out, sel, pb, cf.conf())
	case "crop":
		b, err := api.Box(s.Txt, types.POINTS)
		if err != nil {
			h.Die("box %q rejected: %v", s.Txt, err)
		}
		return api.CropFile(in, out, sel, b, cf.conf())
	}
	h.Die("unknown op %q", s.Op)
	return nil
}

func safeApplyOp(s step32, in, out string, cf *ConfIn) (err error, pan string) {
	defer func() {
		if x := recover(); x != nil {
			pan = fmt.Sprint(x)
		}
	}()
	return applyOp(s, in, out, cf), ""
}

func (r *runner32) report(c case32, upto int, op, detail, msg string, got []apage) {
	r.stats["mismatches"]++
	cc := c
	cc.Steps = append([]step32{}, c.Steps[:upto]...)
	for i := range cc.Steps {
		if i < upto-1 {
			cc.Steps[i].Exp = nil
		}
	}
	if r.stats["mismatches"] <= 400 {
		r.w.Put(mism32{Key: op + "|" + detail, What: msg, Case: cc, Got: showPages(got), Field: detail})
	}
}

func (r *runner32) run(c case32) {
	r.stats["cases"]++
	cj, _ := json.Marshal(c.Conf)
	tk := string(c.Tree) + string(cj)
	root, ok := r.cache[tk]
	if !ok {
		var in DocIn
		if err := json.Unmarshal(c.Tree, &in); err != nil {
			h.Die("tree: %v", err)
		}
		r.seq++
		p := filepath.Join(r.dir, fmt.Sprintf("t%d.pdf", r.seq))
		if err := os.WriteFile(p, buildDoc(in, docExtras{}), 0644); err != nil {
			h.Die("%v", err)
		}
		root = &entry32{path: p, bases: map[int]int{}, checked: true}
		r.refs[p] = 1 << 30 // never removed
		act, err := project(p)
		r.stats["trees"]++
		if err != nil {
			root.bad = true
			r.report(c, 0, "read", "unreadable", "generated document cannot be read: "+err.Error(), nil)
		} else {
			root.pages = act
			if _, d, m := compare(c.Init, act, nil); d != "" {
				root.bad = true
				r.report(c, 0, "read", d, "projection of the generated document: "+m, act)
			}
		}
		r.cache[tk] = root // never evicted
	}
	cur := root
	k := tk
	for i, s := range c.Steps {
		if cur.bad {
			r.stats["skipped_after_violation"]++
			return
		}
		k = k + "\x00" + s.key()
		e, ok := r.cache[k]
		if !ok {
			r.seq++
			out := filepath.Join(r.dir, fmt.Sprintf("s%d.pdf", r.seq))
			err, pan := safeApplyOp(s, cur.path, out, c.Conf)
			r.stats["api_calls"]++
			if pan != "" {
				e = &entry32{path: cur.path, pages: cur.pages, bases: cur.bases, bad: true, checked: true, err: true}
				os.Remove(out)
				r.report(c, i+1, s.Op, "panic", fmt.Sprintf("%s panicked: %s", s.key(), pan), cur.pages)
				r.put(k, e)
				cur = e
				continue
			}
			r.ops[s.Op]++
			e = &entry32{path: out, bases: cur.bases}
			if err != nil {
				e.err = true
				e.path, e.pages = cur.path, cur.pages
				if _, serr := os.Stat(out); serr == nil {
					os.Remove(out)
				}
				if s.Res == "ok" {
					e.bad, e.checked = true, true
					r.report(c, i+1, s.Op, "error", fmt.Sprintf("%s returned an error for a valid request: %v", s.key(), err), cur.pages)
				}
			} else {
				act, perr := project(out)
				if perr != nil {
					e.bad, e.checked = true, true
					d := "unreadable-output"
					if st, serr := os.Stat(out); serr == nil && st.Size() == 0 {
						d = "empty-output"
					}
					if s.Res == "refuse" {
						d = "refuse:" + d
					}
					r.report(c, i+1, s.Op, d, fmt.Sprintf("%s returned nil but its output cannot be read: %v", s.key(), perr), nil)
				} else {
					e.pages = act
				}
			}
			r.put(k, e)
		}
		if s.Chk && !e.checked {
			e.checked = true
			r.stats["steps_checked"]++
			if s.Res == "refuse" {
				r.stats["refusals"]++
				if !e.err {
					// succeeded although the request cannot be honoured: the document must be unchanged
					same := len(e.pages) == len(cur.pages)
					for j := 0; same && j < len(e.pages); j++ {
						same = e.pages[j] == cur.pages[j]
					}
					if !same {
						e.bad = true
						r.report(c, i+1, s.Op, "refuse:changed", s.key()+" cannot be honoured, returned nil and changed the document", e.pages)
					}
				}
			} else if !e.err {
				bases, d, m := compare(s.Exp, e.pages, cur.bases)
				e.bases = bases
				if d != "" {
					e.bad = true
					r.report(c, i+1, s.Op, d, s.key()+": "+m, e.pages)
				} else {
					same := len(e.pages) == len(cur.pages)
					for j := 0; same && j < len(e.pages); j++ {
						same = e.pages[j] == cur.pages[j]
					}
					if !same { // the step had an effect and it is the expected one
						hk := fnv.New64a()
						hk.Write([]byte(k))
						r.nontriv[fmt.Sprintf("%x", hk.Sum64())] = true
					}
				}
			}
		}
		cur = e
	}
}

func writeKeys(path string, keys map[string]bool) {
	if path == "" {
		return
	}
	ks := make([]string, 0, len(keys))
	for k := range keys {
		ks = append(ks, strings.ReplaceAll(k, "\n", " "))
	}
	sort.Strings(ks)
	if err := os.WriteFile(path, []byte(strings.Join(ks, "\n")+"\n"), 0644); err != nil {
		h.Die("%v", err)
	}
}

func shardOf(c case32, of int) int {
	hh := fnv.New32a()
	hh.Write(c.Tree)
	if cj, err := json.Marshal(c.Conf); err == nil {
		hh.Write(cj)
	}
	if len(c.Steps) > 0 {
		hh.Write([]byte(c.Steps[0].key()))
	}
	return int(hh.Sum32() % uint32(of))
}

func c32main() {
	in, out := h.Arg("--in"), h.Arg("--out")
	shard, of := h.ArgInt("--shard", 0), h.ArgInt("--of", 1)
	dir, err := os.MkdirTemp("", "verif-c32-")
	if err != nil {
		h.Die("%v", err)
	}
	defer os.RemoveAll(dir)
	r := &runner32{dir: dir, cache: map[string]*entry32{}, w: h.NewW(out), stats: map[string]int{}, ops: map[string]int{},
		nontriv: map[string]bool{}, maxKeep: h.ArgInt("--keep", 6000), refs: map[string]int{}}
	defer r.w.Close()
	var cases []case32
	total := 0
	err = h.EachLine(in, func(line []byte) error {
		total++
		var c case32
		if err := json.Unmarshal(line, &c); err != nil {
			return err
		}
		if shardOf(c, of) == shard {
			cases = append(cases, c)
		}
		return nil
	})
	if err != nil {
		h.Die("c32: %v", err)
	}
	// parents before children (exhaustive mode prints every state; only its last step carries the expectation)
	if h.Arg("--mode") != "sim" {
		sort.SliceStable(cases, func(i, j int) bool { return len(cases[i].Steps) < len(cases[j].Steps) })
	}
	for _, c := range cases {
		r.run(c)
	}
	writeKeys(h.Arg("--nt"), r.nontriv)
	sum := map[string]any{"lines": total, "nontrivial": len(r.nontriv), "ops": r.ops}
	for k, v := range r.stats {
		sum[k] = v
	}
	h.Summary(sum)
}
