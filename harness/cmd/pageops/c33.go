package main

// c33: replay the split / merge cases of spec/Doc33.tla with the real api.SplitFile, SplitByPageNrFile,
// MergeCreateFile, MergeAppendFile, MergeCreateZipFile and compare marker sequences; inputs must stay unchanged.

import (
	"crypto/sha256"
	"encoding/json"
	"fmt"
	"hash/fnv"
	"os"
	"path/filepath"
	"sort"
	"strings"

	"github.com/pdfcpu/pdfcpu/pkg/api"
	"verif/harness/lib/h"
	"verif/harness/lib/proj"
)

type part33 struct {
	From  int      `json:"from"`
	Thru  int      `json:"thru"`
	Marks []string `json:"marks"`
}

type case33 struct {
	Kind    string            `json:"kind"`
	Trees   []json.RawMessage `json:"trees"`
	Span    int               `json:"span"`
	Nrs     []int             `json:"nrs"`
	Mode    string            `json:"mode"`
	Divider bool              `json:"divider"`
	Res     string            `json:"res"`
	Parts   []part33          `json:"parts"`
	Exp     []string          `json:"exp"`
}

type mism33 struct {
	Key  string `json:"key"`
	What string `json:"what"`
	Case any    `json:"case"`
	Got  any    `json:"got"`
}

func fileHash(p string) string {
	b, err := os.ReadFile(p)
	if err != nil {
		return "ERR:" + err.Error()
	}
	return fmt.Sprintf("%x", sha256.Sum256(b))
}

func eqStrs(a, b []string) bool {
	if len(a) != len(b) {
		return false
	}
	for i := range a {
		if a[i] != b[i] {
			return false
		}
	}
	return true
}

// markersAndBlank returns the marker sequence; a page without marker must have no content at all (blank divider).
func markersStrict(path string) ([]string, error) {
	ps, err := proj.Pages(path, nil)
	if err != nil {
		return nil, err
	}
	out := make([]string, len(ps))
	for i, p := range ps {
		if len(p.Markers) > 1 {
			return nil, fmt.Errorf("page %d carries %d markers", i+1, len(p.Markers))
		}
		out[i] = p.Marker
		if p.Marker == "" && strings.TrimSpace(p.Content) != "" {
			out[i] = "<content without marker>"
		}
	}
	return out, nil
}

func c33main() {
	in, out := h.Arg("--in"), h.Arg("--out")
	shard, of := h.ArgInt("--shard", 0), h.ArgInt("--of", 1)
	root, err := os.MkdirTemp("", "verif-c33-")
	if err != nil {
		h.Die("%v", err)
	}
	defer os.RemoveAll(root)
	w := h.NewW(out)
	defer w.Close()
	stats := map[string]int{}
	kinds := map[string]int{}
	nontriv := map[string]bool{}
	total := 0
	bad := 0
	err = h.EachLine(in, func(line []byte) error {
		total++
		hh := fnv.New32a()
		hh.Write(line)
		if int(hh.Sum32()%uint32(of)) != shard {
			return nil
		}
		var c case33
		if err := json.Unmarshal(line, &c); err != nil {
			return err
		}
		stats["cases"]++
		dir := filepath.Join(root, fmt.Sprintf("c%d", total))
		if err := os.MkdirAll(filepath.Join(dir, "out"), 0755); err != nil {
			return err
		}
		defer os.RemoveAll(dir)
		fail := func(key, what string, got any) {
			bad++
			if bad <= 300 {
				w.Put(mism33{Key: key, What: what, Case: c, Got: got})
			}
		}
		// inputs
		var ins []string
		var orig [][]string
		for i, t := range c.Trees {
			var d DocIn
			if err := json.Unmarshal(t, &d); err != nil {
				return err
			}
			name := fmt.Sprintf("d%d.pdf", i+1)
			if c.Kind != "merge" {
				name = "doc.pdf"
			}
			p := filepath.Join(dir, name)
			if err := os.WriteFile(p, buildDoc(d, docExtras{}), 0644); err != nil {
				return err
			}
			ms, err := markersStrict(p)
			if err != nil {
				fail(c.Kind+"|input-unreadable", "generated input cannot be read: "+err.Error(), nil)
				return nil
			}
			ins = append(ins, p)
			orig = append(orig, ms)
		}
		before := make([]string, len(ins))
		for i, p := range ins {
			before[i] = fileHash(p)
		}
		unchanged := func(from int, label string) {
			for i := from; i < len(ins); i++ {
				if fileHash(ins[i]) != before[i] {
					fail(label+"|input-changed", fmt.Sprintf("input %d was modified by the operation", i+1), nil)
				}
			}
		}
		switch c.Kind {
		case "split", "splitnr":
			outDir := filepath.Join(dir, "out")
			var err error
			label := c.Kind
			if c.Kind == "split" {
				err = api.SplitFile(ins[0], outDir, c.Span, nil)
			} else {
				err = api.SplitByPageNrFile(ins[0], outDir, c.Nrs, nil)
			}
			kinds[label]++
			es, _ := os.ReadDir(outDir)
			var names []string
			for _, e := range es {
				names = append(names, e.Name())
			}
			if c.Res == "refuse" {
				stats["refusals"]++
				if err == nil || len(names) > 0 {
					fail(label+"|refuse", fmt.Sprintf("invalid request %v accepted (err=%v) or produced files", c.Nrs, err), names)
				}
				unchanged(0, label)
				return nil
			}
			if err != nil {
				fail(label+"|error", "valid request failed: "+err.Error(), names)
				return nil
			}
			// the names the API gives: <base>_<from>[-<thru>].pdf
			var want []string
			for _, p := range c.Parts {
				n := fmt.Sprintf("doc_%d-%d.pdf", p.From, p.Thru)
				if p.From == p.Thru {
					n = fmt.Sprintf("doc_%d.pdf", p.From)
				}
				want = append(want, n)
			}
			sw := append([]string{}, want...)
			sort.Strings(sw)
			sort.Strings(names)
			if !eqStrs(sw, names) {
				fail(label+"|names", fmt.Sprintf("expected parts %v", want), names)
				return nil
			}
			var concat []string
			for i, p := range c.Parts {
				ms, err := markersStrict(filepath.Join(outDir, want[i]))
				if err != nil {
					fail(label+"|part-unreadable", want[i]+": "+err.Error(), nil)
					return nil
				}
				if !eqStrs(ms, p.Marks) {
					fail(label+"|part-markers", fmt.Sprintf("%s: expected pages %v", want[i], p.Marks), ms)
					return nil
				}
				concat = append(concat, ms...)
			}
			if !eqStrs(concat, orig[0]) {
				fail(label+"|concat", "concatenation of the parts differs from the original page sequence", concat)
				return nil
			}
			unchanged(0, label)
			if len(c.Parts) > 1 {
				nontriv[fmt.Sprintf("%s|%d|%d|%v", c.Kind, len(orig[0]), c.Span, c.Nrs)] = true
			}
		case "merge":
			o := filepath.Join(dir, "out", "m.pdf")
			label := "merge-" + c.Mode
			kinds[label]++
			var err error
			from := 0
			switch c.Mode {
			case "create":
				err = api.MergeCreateFile(ins, o, c.Divider, nil)
			case "append":
				b, rerr := os.ReadFile(ins[0])
				if rerr != nil {
					return rerr
				}
				if werr := os.WriteFile(o, b, 0644); werr != nil {
					return werr
				}
				from = 1
				err = api.MergeAppendFile(ins[1:], o, c.Divider, nil)
			case "appendnew":
				err = api.MergeAppendFile(ins, o, c.Divider, nil)
			case "zip":
				err = api.MergeCreateZipFile(ins[0], ins[1], o, nil)
			default:
				h.Die("unknown merge mode %q", c.Mode)
			}
			if err != nil {
				fail(label+"|error", "merge failed: "+err.Error(), nil)
				return nil
			}
			ms, err := markersStrict(o)
			if err != nil {
				fail(label+"|output-unreadable", err.Error(), nil)
				return nil
			}
			if !eqStrs(ms, c.Exp) {
				fail(label+"|markers", fmt.Sprintf("expected page sequence %v", c.Exp), ms)
				return nil
			}
			unchanged(from, label)
			if len(ins) > 1 {
				var sz []int
				for _, m := range orig {
					sz = append(sz, len(m))
				}
				nontriv[fmt.Sprintf("%s|%v|%v", c.Mode, sz, c.Divider)] = true
			}
		default:
			h.Die("unknown case kind %q", c.Kind)
		}
		return nil
	})
	if err != nil {
		h.Die("c33: %v", err)
	}
	writeKeys(h.Arg("--nt"), nontriv)
	sum := map[string]any{"lines": total, "mismatches": bad, "kinds": kinds}
	for k, v := range stats {
		sum[k] = v
	}
	h.Summary(sum)
}
