package main

// c33: replay the split / merge cases of spec/Doc33.tla with the real api.SplitFile, SplitByPageNrFile,
// MergeCreateFile, MergeAppendFile, MergeCreateZipFile and compare marker sequences; inputs must stay unchanged.

import (
	"bytes"
	"crypto/sha256"
	"encoding/json"
	"fmt"
	"hash/fnv"
	"io"
	"os"
	"path/filepath"
	"sort"
	"strings"

	"github.com/pdfcpu/pdfcpu/pkg/api"
	"verif/harness/lib/h"
	"verif/harness/lib/proj"
)

type part33 struct {
	From  int      `json:"from"`
	Thru  int      `json:"thru"`
	Marks []string `json:"marks"`
}

type case33 struct {
	Kind    string            `json:"kind"`
	API     string            `json:"api"`  // "file" | "raw" (stream variant of the API)
	Conf    *ConfIn           `json:"conf"`
	Sel     []string          `json:"sel"`
	Trees   []json.RawMessage `json:"trees"`
	Span    int               `json:"span"`
	Nrs     []int             `json:"nrs"`
	Mode    string            `json:"mode"`
	Divider bool              `json:"divider"`
	Res     string            `json:"res"`
	Parts   []part33          `json:"parts"`
	Exp     []string          `json:"exp"`
}

type mism33 struct {
	Key  string `json:"key"`
	What string `json:"what"`
	Case any    `json:"case"`
	Got  any    `json:"got"`
}

func fileHash(p string) string {
	b, err := os.ReadFile(p)
	if err != nil {
		return "ERR:" + err.Error()
	}
	return fmt.Sprintf("%x", sha256.Sum256(b))
}

func eqStrs(a, b []string) bool {
	if len(a) != len(b) {
		return false
	}
	for i := range a {
		if a[i] != b[i] {
			return false
		}
	}
	return true
}

// markersAndBlank returns the marker sequence; a page without marker must have no content at all (blank divider).
func markersStrict(path string) ([]string, error) {
	ps, err := proj.Pages(path, nil)
	if err != nil {
		return nil, err
	}
	out := make([]string, len(ps))
	for i, p := range ps {
		if len(p.Markers) > 1 {
			return nil, fmt.Errorf("page %d carries %d markers", i+1, len(p.Markers))
		}
		out[i] = p.Marker
		if p.Marker == "" && strings.TrimSpace(p.Content) != "" {
			out[i] = "<content without marker>"
		}
	}
	return out, nil
}

func c33main() {
	in, out := h.Arg("--in"), h.Arg("--out")
	shard, of := h.ArgInt("--shard", 0), h.ArgInt("--of", 1)
	root, err := os.MkdirTemp("", "verif-c33-")
	if err != nil {
		h.Die("%v", err)
	}
	defer os.RemoveAll(root)
	w := h.NewW(out)
	defer w.Close()
	stats := map[string]int{}
	kinds := map[string]int{}
	nontriv := map[string]bool{}
	total := 0
	bad := 0
	err = h.EachLine(in, func(line []byte) error {
		total++
		hh := fnv.New32a()
		hh.Write(line)
		if int(hh.Sum32()%uint32(of)) != shard {
			return nil
		}
		var c case33
		if err := json.Unmarshal(line, &c); err != nil {
			return err
		}
		stats["cases"]++
		dir := filepath.Join(root, fmt.Sprintf("c%d", total))
		if err := os.MkdirAll(filepath.Join(dir, "out"), 0755); err != nil {
			return err
		}
		defer os.RemoveAll(dir)
		fail := func(key, what string, got any) {
			bad++
			if bad <= 300 {
				w.Put(mism33{Key: key, What: what, Case: c, Got: got})
			}
		}
		// inputs
		var ins []string
		var orig [][]string
		for i, t := range c.Trees {
			var d DocIn
			if err := json.Unmarshal(t, &d); err != nil {
				return err
			}
			name := fmt.Sprintf("d%d.pdf", i+1)
			if c.Kind != "merge" {
				name = "doc.pdf"
			}
			p := filepath.Join(dir, name)
			ex := docExtras{}
			if c.Kind == "splitbm" {
				ex.bookmarks = c.Nrs
			}
			if err := os.WriteFile(p, buildDoc(d, ex), 0644); err != nil {
				return err
			}
			ms, err := markersStrict(p)
			if err != nil {
				fail(c.Kind+"|input-unreadable", "generated input cannot be read: "+err.Error(), nil)
				return nil
			}
			ins = append(ins, p)
			orig = append(orig, ms)
		}
		before := make([]string, len(ins))
		for i, p := range ins {
			before[i] = fileHash(p)
		}
		unchanged := func(from int, label string) {
			for i := from; i < len(ins); i++ {
				if fileHash(ins[i]) != before[i] {
					fail(label+"|input-changed", fmt.Sprintf("input %d was modified by the operation", i+1), nil)
				}
			}
		}
		label := c.Kind
		if c.API == "raw" {
			label += "-raw"
		}
		// readParts reads a list of readers handed out by a stream API - only now, after the call has returned.
		readParts := func(rds []io.Reader, froms, thrus []int) bool {
			if len(rds) != len(c.Parts) {
				fail(label+"|count", fmt.Sprintf("expected %d parts, got %d", len(c.Parts), len(rds)), nil)
				return false
			}
			for i, rd := range rds {
				bb, err := io.ReadAll(rd)
				if err != nil {
					fail(label+"|part-unreadable", fmt.Sprintf("part %d: %v", i+1, err), nil)
					return false
				}
				pp := filepath.Join(dir, "out", fmt.Sprintf("part%d.pdf", i+1))
				if err := os.WriteFile(pp, bb, 0644); err != nil {
					h.Die("%v", err)
				}
				if froms[i] != c.Parts[i].From || thrus[i] != c.Parts[i].Thru {
					fail(label+"|names", fmt.Sprintf("part %d: expected pages %d-%d", i+1, c.Parts[i].From, c.Parts[i].Thru), []int{froms[i], thrus[i]})
					return false
				}
				ms, err := markersStrict(pp)
				if err != nil {
					fail(label+"|part-unreadable", fmt.Sprintf("part %d: %v", i+1, err), nil)
					return false
				}
				if !eqStrs(ms, c.Parts[i].Marks) {
					fail(label+"|part-markers", fmt.Sprintf("part %d (pages %d-%d): expected pages %v", i+1, froms[i], thrus[i], c.Parts[i].Marks), ms)
					return false
				}
			}
			return true
		}
		switch c.Kind {
		case "split", "splitnr", "splitbm":
			outDir := filepath.Join(dir, "out")
			var err error
			kinds[label]++
			if c.API == "raw" {
				f, oerr := os.Open(ins[0])
				if oerr != nil {
					return oerr
				}
				span := c.Span
				if c.Kind == "splitbm" {
					span = 0
				}
				pss, err := api.SplitRaw(f, span, c.Conf.conf())
				f.Close()
				if err != nil {
					fail(label+"|error", "valid request failed: "+err.Error(), nil)
					return nil
				}
				var rds []io.Reader
				var froms, thrus []int
				for _, ps := range pss {
					rds = append(rds, ps.Reader)
					froms = append(froms, ps.From)
					thrus = append(thrus, ps.Thru)
				}
				if readParts(rds, froms, thrus) {
					unchanged(0, label)
					if len(c.Parts) > 1 {
						nontriv[fmt.Sprintf("%s|%d|%d|%v", label, len(orig[0]), c.Span, c.Nrs)] = true
					}
				}
				return nil
			}
			switch c.Kind {
			case "split":
				err = api.SplitFile(ins[0], outDir, c.Span, c.Conf.conf())
			case "splitnr":
				err = api.SplitByPageNrFile(ins[0], outDir, c.Nrs, c.Conf.conf())
			case "splitbm":
				err = api.SplitFile(ins[0], outDir, 0, c.Conf.conf())
			}
			es, _ := os.ReadDir(outDir)
			var names []string
			for _, e := range es {
				names = append(names, e.Name())
			}
			if c.Res == "refuse" {
				stats["refusals"]++
				if err == nil || len(names) > 0 {
					fail(label+"|refuse", fmt.Sprintf("invalid request %v accepted (err=%v) or produced files", c.Nrs, err), names)
				}
				unchanged(0, label)
				return nil
			}
			if err != nil {
				fail(label+"|error", "valid request failed: "+err.Error(), names)
				return nil
			}
			// the names the API gives: <base>_<from>[-<thru>].pdf, <bookmark title>.pdf for the split along bookmarks
			var want []string
			for i, p := range c.Parts {
				n := fmt.Sprintf("doc_%d-%d.pdf", p.From, p.Thru)
				if p.From == p.Thru {
					n = fmt.Sprintf("doc_%d.pdf", p.From)
				}
				if c.Kind == "splitbm" {
					n = fmt.Sprintf("bm%d.pdf", i+1)
				}
				want = append(want, n)
			}
			sw := append([]string{}, want...)
			sort.Strings(sw)
			sort.Strings(names)
			if !eqStrs(sw, names) {
				fail(label+"|names", fmt.Sprintf("expected parts %v", want), names)
				return nil
			}
			var concat []string
			for i, p := range c.Parts {
				ms, err := markersStrict(filepath.Join(outDir, want[i]))
				if err != nil {
					fail(label+"|part-unreadable", want[i]+": "+err.Error(), nil)
					return nil
				}
				if !eqStrs(ms, p.Marks) {
					fail(label+"|part-markers", fmt.Sprintf("%s: expected pages %v", want[i], p.Marks), ms)
					return nil
				}
				concat = append(concat, ms...)
			}
			if c.Kind != "splitbm" && !eqStrs(concat, orig[0]) {
				fail(label+"|concat", "concatenation of the parts differs from the original page sequence", concat)
				return nil
			}
			unchanged(0, label)
			if len(c.Parts) > 1 {
				nontriv[fmt.Sprintf("%s|%d|%d|%v", label, len(orig[0]), c.Span, c.Nrs)] = true
			}
		case "extract":
			kinds[label]++
			f, oerr := os.Open(ins[0])
			if oerr != nil {
				return oerr
			}
			var rds []io.Reader
			var nrs []int
			sel := c.Sel
			if len(sel) == 0 {
				sel = nil
			}
			err := api.ExtractPages(f, sel, func(rd io.Reader, pageNr int) error {
				rds = append(rds, rd)
				nrs = append(nrs, pageNr)
				return nil
			}, c.Conf.conf())
			f.Close()
			if err != nil {
				fail(label+"|error", "valid request failed: "+err.Error(), nil)
				return nil
			}
			if readParts(rds, nrs, nrs) {
				unchanged(0, label)
				if len(c.Parts) > 0 && len(c.Parts) < len(orig[0]) {
					nontriv[fmt.Sprintf("%s|%d|%v", label, len(orig[0]), c.Sel)] = true
				}
			}
		case "merge":
			o := filepath.Join(dir, "out", "m.pdf")
			label = "merge-" + c.Mode
			if c.API == "raw" {
				label += "-raw"
			}
			kinds[label]++
			var err error
			from := 0
			switch c.Mode {
			case "create":
				if c.API == "raw" {
					var rsc []io.ReadSeeker
					var fs []*os.File
					for _, p := range ins {
						f, oerr := os.Open(p)
						if oerr != nil {
							return oerr
						}
						fs = append(fs, f)
						rsc = append(rsc, f)
					}
					var buf bytes.Buffer
					err = api.MergeRaw(rsc, &buf, c.Divider, c.Conf.conf())
					for _, f := range fs {
						f.Close()
					}
					if err == nil {
						if werr := os.WriteFile(o, buf.Bytes(), 0644); werr != nil {
							return werr
						}
					}
				} else {
					err = api.MergeCreateFile(ins, o, c.Divider, c.Conf.conf())
				}
			case "append":
				b, rerr := os.ReadFile(ins[0])
				if rerr != nil {
					return rerr
				}
				if werr := os.WriteFile(o, b, 0644); werr != nil {
					return werr
				}
				from = 1
				err = api.MergeAppendFile(ins[1:], o, c.Divider, c.Conf.conf())
			case "appendnew":
				err = api.MergeAppendFile(ins, o, c.Divider, c.Conf.conf())
			case "zip":
				err = api.MergeCreateZipFile(ins[0], ins[1], o, c.Conf.conf())
			default:
				h.Die("unknown merge mode %q", c.Mode)
			}
			if err != nil {
				fail(label+"|error", "merge failed: "+err.Error(), nil)
				return nil
			}
			ms, err := markersStrict(o)
			if err != nil {
				fail(label+"|output-unreadable", err.Error(), nil)
				return nil
			}
			if !eqStrs(ms, c.Exp) {
				fail(label+"|markers", fmt.Sprintf("expected page sequence %v", c.Exp), ms)
				return nil
			}
			unchanged(from, label)
			if len(ins) > 1 {
				var sz []int
				for _, m := range orig {
					sz = append(sz, len(m))
				}
				cj, _ := json.Marshal(c.Conf)
				nontriv[fmt.Sprintf("%s|%v|%v|%s", label, sz, c.Divider, cj)] = true
			}
		default:
			h.Die("unknown case kind %q", c.Kind)
		}
		return nil
	})
	if err != nil {
		h.Die("c33: %v", err)
	}
	writeKeys(h.Arg("--nt"), nontriv)
	sum := map[string]any{"lines": total, "mismatches": bad, "kinds": kinds}
	for k, v := range stats {
		sum[k] = v
	}
	h.Summary(sum)
}
