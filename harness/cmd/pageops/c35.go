package main

// c35: replay metadata edit histories of spec/Doc35.tla through the real add / remove / set / reset / list / extract
// *File functions and compare the listing (and extracted attachment bytes) with the model after every step.

import (
	"crypto/sha256"
	"encoding/json"
	"encoding/xml"
	"fmt"
	"hash/fnv"
	"os"
	"path/filepath"
	"regexp"
	"sort"
	"strconv"
	"strings"
	"unicode/utf16"

	"github.com/pdfcpu/pdfcpu/pkg/api"
	"github.com/pdfcpu/pdfcpu/pkg/cli"
	"github.com/pdfcpu/pdfcpu/pkg/pdfcpu/model"
	"github.com/pdfcpu/pdfcpu/pkg/pdfcpu/types"
	"verif/harness/lib/h"
	"verif/harness/lib/rawpdf"
)

type kv struct {
	K string `json:"k"`
	V string `json:"v"`
}

type attx struct {
	Name string `json:"name"`
	Desc string `json:"desc"`
	Data string `json:"data"`
}

type listing35 struct {
	Kw     []string `json:"kw"`
	Props  []kv     `json:"props"`
	Layout string   `json:"layout"`
	Mode   string   `json:"mode"`
	VP     []kv     `json:"vp"`
	Att    []attx   `json:"att"`
	Ext    []attx   `json:"ext"`
}

func (l *listing35) unesc() {
	unescAll(l.Kw)
	for i := range l.Props {
		l.Props[i].K, l.Props[i].V = unesc(l.Props[i].K), unesc(l.Props[i].V)
	}
	for i := range l.Att {
		l.Att[i].Name, l.Att[i].Desc = unesc(l.Att[i].Name), unesc(l.Att[i].Desc)
	}
	for i := range l.Ext {
		l.Ext[i].Name = unesc(l.Ext[i].Name)
	}
}

type step35 struct {
	Op   string          `json:"op"`
	Keys []string        `json:"keys"`
	Vals []string        `json:"vals"`
	Aux  []string        `json:"aux"`
	Res  string          `json:"res"`
	Chk  bool            `json:"chk"`
	Exp  json.RawMessage `json:"exp"`
}

var uRe = regexp.MustCompile(`<U\+([0-9A-F]{4,6})>`)

// unesc replaces the <U+XXXX> notation of the spec by the character itself.
func unesc(s string) string {
	return uRe.ReplaceAllStringFunc(s, func(m string) string {
		n, err := strconv.ParseInt(m[3:len(m)-1], 16, 32)
		if err != nil {
			return m
		}
		return string(rune(n))
	})
}

func unescAll(ss []string) {
	for i := range ss {
		ss[i] = unesc(ss[i])
	}
}

func (s step35) key() string {
	return fmt.Sprintf("%s(%q;%q;%q)", s.Op, s.Keys, s.Vals, s.Aux)
}

type case35 struct {
	Base  string          `json:"base"`
	Info  bool            `json:"info"`
	XMP   bool            `json:"xmp"`
	Std   bool            `json:"std"` // standard Info entries used as property names
	IKw   []string        `json:"ikw"` // keywords recorded in the Info dictionary
	XKw   []string        `json:"xkw"` // keywords recorded in the XMP metadata (pdf:Keywords)
	Init  json.RawMessage `json:"init"`
	Steps []step35        `json:"steps"`
}

// view is what the real listing functions return, normalised to sorted lines per family.
type view struct {
	Kw, Props, VP, Att []string
	Layout, Mode       string
}

func (v view) eq(o view) bool {
	return eqStrs(v.Kw, o.Kw) && eqStrs(v.Props, o.Props) && eqStrs(v.VP, o.VP) && eqStrs(v.Att, o.Att) && v.Layout == o.Layout && v.Mode == o.Mode
}

func sorted(ss []string) []string {
	out := append([]string{}, ss...)
	sort.Strings(out)
	return out
}

func expectedView(l listing35) view {
	v := view{Kw: sorted(l.Kw), Layout: l.Layout, Mode: l.Mode}
	for _, p := range l.Props {
		v.Props = append(v.Props, p.K+" = "+p.V)
	}
	for _, p := range l.VP {
		v.VP = append(v.VP, p.K+" = "+p.V)
	}
	for _, a := range l.Att {
		s := a.Name
		if a.Desc != "" {
			s = fmt.Sprintf("%s (%s)", a.Name, a.Desc)
		}
		v.Att = append(v.Att, s)
	}
	v.Props, v.VP, v.Att = sorted(v.Props), sorted(v.VP), sorted(v.Att)
	return v
}

func actualView(path string) (view, error) {
	var v view
	kw, err := cli.ListKeywordsFile(path, nil)
	if err != nil {
		return v, fmt.Errorf("list keywords: %w", err)
	}
	v.Kw = sorted(kw)
	pr, err := cli.ListPropertiesFile(path, nil)
	if err != nil {
		return v, fmt.Errorf("list properties: %w", err)
	}
	v.Props = sorted(pr)
	ly, err := api.ListPageLayoutFile(path, nil)
	if err != nil {
		return v, fmt.Errorf("list page layout: %w", err)
	}
	if len(ly) != 1 {
		return v, fmt.Errorf("list page layout returned %q", ly)
	}
	if !strings.HasPrefix(ly[0], "No page layout set") {
		v.Layout = ly[0]
	}
	md, err := api.ListPageModeFile(path, nil)
	if err != nil {
		return v, fmt.Errorf("list page mode: %w", err)
	}
	if len(md) != 1 {
		return v, fmt.Errorf("list page mode returned %q", md)
	}
	if !strings.HasPrefix(md[0], "No page mode set") {
		v.Mode = md[0]
	}
	vp, err := api.ListViewerPreferencesFile(path, false, false, nil)
	if err != nil {
		return v, fmt.Errorf("list viewer preferences: %w", err)
	}
	for i, l := range vp {
		if i == 0 && (l == "Viewer preferences:" || strings.HasPrefix(l, "No viewer preferences")) {
			continue
		}
		v.VP = append(v.VP, strings.TrimSpace(l))
	}
	v.VP = sorted(v.VP)
	at, err := cli.ListAttachmentsFile(path, nil)
	if err != nil {
		return v, fmt.Errorf("list attachments: %w", err)
	}
	v.Att = sorted(at)
	return v, nil
}

func (v view) String() string {
	return fmt.Sprintf("kw=%q props=%q layout=%q mode=%q vp=%q att=%q", v.Kw, v.Props, v.Layout, v.Mode, v.VP, v.Att)
}

func diffField(e, a view) string {
	switch {
	case !eqStrs(e.Kw, a.Kw):
		return "keywords"
	case !eqStrs(e.Props, a.Props):
		return "properties"
	case e.Layout != a.Layout:
		return "layout"
	case e.Mode != a.Mode:
		return "mode"
	case !eqStrs(e.VP, a.VP):
		return "viewerprefs"
	case !eqStrs(e.Att, a.Att):
		return "attachments"
	}
	return ""
}

func attBytes(id string) []byte {
	switch id {
	case "bin":
		b := make([]byte, 0, 300)
		for i := 0; i < 256; i++ {
			b = append(b, byte(i))
		}
		return append(b, 0, 0xff, '\r', '\n', 0)
	case "big":
		b := make([]byte, 70001)
		x := uint32(2463534242)
		for i := range b {
			x ^= x << 13
			x ^= x >> 17
			x ^= x << 5
			b[i] = byte(x)
		}
		return b
	case "empty":
		return []byte{}
	case "text":
		return []byte("hello\nworld\n% not a comment\nendstream\nendobj\n")
	case "orig":
		return []byte("original attachment \x00\x01\xfe bytes\r\nline 2")
	}
	h.Die("unknown attachment data id %q", id)
	return nil
}

func sha(b []byte) string { return fmt.Sprintf("%x", sha256.Sum256(b)) }

type entry35 struct {
	path    string
	v       view
	bad     bool
	checked bool
	err     bool
	extract map[string]string // att_extract: file name -> sha256 of what came out
	exterr  error
}

type runner35 struct {
	dir     string
	seq     int
	cache   map[string]*entry35
	order   []string
	refs    map[string]int
	maxKeep int
	w       *h.W
	stats   map[string]int
	ops     map[string]int
	nontriv map[string]bool
}

func (r *runner35) put(k string, e *entry35) {
	r.cache[k] = e
	r.refs[e.path]++
	r.order = append(r.order, k)
	for len(r.order) > r.maxKeep {
		old := r.order[0]
		r.order = r.order[1:]
		if oe, ok := r.cache[old]; ok {
			r.refs[oe.path]--
			if r.refs[oe.path] <= 0 {
				delete(r.refs, oe.path)
				os.Remove(oe.path)
			}
			delete(r.cache, old)
		}
	}
}

// vpKind classifies a viewer preference of the spec (Doc35!VPDomain).
func vpKind(k string) string {
	switch k {
	case "HideToolbar", "HideMenubar", "HideWindowUI", "FitWindow", "CenterWindow", "DisplayDocTitle", "PickTrayByPDFSize":
		return "bool"
	case "NonFullScreenPageMode", "Direction", "ViewArea", "ViewClip", "PrintArea", "PrintClip", "PrintScaling", "Duplex":
		return "name"
	case "NumCopies":
		return "int"
	case "PrintPageRange":
		return "ranges"
	}
	h.Die("unknown viewer preference %q", k)
	return ""
}

// rangeInts turns "1-2,4-6" into 1 2 4 6.
func rangeInts(v string) []int {
	var out []int
	for _, r := range strings.Split(v, ",") {
		for _, x := range strings.Split(r, "-") {
			n, err := strconv.Atoi(x)
			if err != nil {
				h.Die("page range %q: %v", v, err)
			}
			out = append(out, n)
		}
	}
	return out
}

// vpFrom builds the struct the way an API user does (route "struct").
func vpFrom(keys, vals []string) model.ViewerPreferences {
	vp := model.ViewerPreferences{}
	must := func(ok bool, k, v string) {
		if !ok {
			h.Die("viewer preference %s: value %q not known to the model package", k, v)
		}
	}
	for i, k := range keys {
		v := vals[i]
		b := v == "true"
		switch k {
		case "HideToolbar":
			vp.SetHideToolBar(b)
		case "HideMenubar":
			vp.SetHideMenuBar(b)
		case "HideWindowUI":
			vp.SetHideWindowUI(b)
		case "FitWindow":
			vp.SetFitWindow(b)
		case "CenterWindow":
			vp.SetCenterWindow(b)
		case "DisplayDocTitle":
			vp.SetDisplayDocTitle(b)
		case "PickTrayByPDFSize":
			vp.SetPickTrayByPDFSize(b)
		case "NonFullScreenPageMode":
			pm := model.PageModeFor(v)
			must(pm != nil, k, v)
			vp.NonFullScreenPageMode = (*model.NonFullScreenPageMode)(pm)
		case "Direction":
			vp.Direction = model.DirectionFor(v)
			must(vp.Direction != nil, k, v)
		case "ViewArea":
			vp.ViewArea = model.PageBoundaryFor(v)
			must(vp.ViewArea != nil, k, v)
		case "ViewClip":
			vp.ViewClip = model.PageBoundaryFor(v)
			must(vp.ViewClip != nil, k, v)
		case "PrintArea":
			vp.PrintArea = model.PageBoundaryFor(v)
			must(vp.PrintArea != nil, k, v)
		case "PrintClip":
			vp.PrintClip = model.PageBoundaryFor(v)
			must(vp.PrintClip != nil, k, v)
		case "PrintScaling":
			vp.PrintScaling = model.PrintScalingFor(v)
			must(vp.PrintScaling != nil, k, v)
		case "Duplex":
			vp.Duplex = model.PaperHandlingFor(v)
			must(vp.Duplex != nil, k, v)
		case "NumCopies":
			n, _ := strconv.Atoi(v)
			vp.SetNumCopies(n)
		case "PrintPageRange":
			vp.PrintPageRange = types.NewIntegerArray(rangeInts(v)...)
		default:
			h.Die("unknown viewer preference %q", k)
		}
	}
	return vp
}

// vpJSON renders the same request as the JSON document of the CLI route.
func vpJSON(keys, vals []string) []byte {
	m := map[string]any{}
	for i, k := range keys {
		jk := strings.ToLower(k[:1]) + k[1:]
		v := vals[i]
		switch vpKind(k) {
		case "bool":
			m[jk] = v == "true"
		case "name":
			m[jk] = v
		case "int":
			n, _ := strconv.Atoi(v)
			m[jk] = n
		case "ranges":
			m[jk] = rangeInts(v)
		}
	}
	b, err := json.Marshal(m)
	if err != nil {
		h.Die("%v", err)
	}
	return b
}

func nilIfEmpty(ss []string) []string {
	if len(ss) == 0 {
		return nil
	}
	return ss
}

// apply runs the step; for att_extract the result lands in e.extract.
func (r *runner35) apply(s step35, in, out string, e *entry35) error {
	switch s.Op {
	case "kw_add":
		return api.AddKeywordsFile(in, out, s.Keys, nil)
	case "kw_remove":
		return api.RemoveKeywordsFile(in, out, nilIfEmpty(s.Keys), nil)
	case "prop_add":
		m := map[string]string{}
		for i, k := range s.Keys {
			m[k] = s.Vals[i]
		}
		return api.AddPropertiesFile(in, out, m, nil)
	case "prop_remove":
		return api.RemovePropertiesFile(in, out, nilIfEmpty(s.Keys), nil)
	case "layout_set":
		pl := model.PageLayoutFor(s.Vals[0])
		if pl == nil {
			h.Die("unknown page layout %q", s.Vals[0])
		}
		return api.SetPageLayoutFile(in, out, *pl, nil)
	case "layout_reset":
		return api.ResetPageLayoutFile(in, out, nil)
	case "mode_set":
		pm := model.PageModeFor(s.Vals[0])
		if pm == nil {
			h.Die("unknown page mode %q", s.Vals[0])
		}
		return api.SetPageModeFile(in, out, *pm, nil)
	case "mode_reset":
		return api.ResetPageModeFile(in, out, nil)
	case "vp_set":
		return api.SetViewerPreferencesFile(in, out, vpFrom(s.Keys, s.Vals), nil)
	case "vp_setjson":
		return api.SetViewerPreferencesFileFromJSONBytes(in, out, vpJSON(s.Keys, s.Vals), nil)
	case "vp_reset":
		return api.ResetViewerPreferencesFile(in, out, nil)
	case "att_add":
		r.seq++
		src := filepath.Join(r.dir, fmt.Sprintf("src%d", r.seq))
		if err := os.MkdirAll(src, 0755); err != nil {
			h.Die("%v", err)
		}
		defer os.RemoveAll(src)
		var files []string
		for i, name := range s.Keys {
			p := filepath.Join(src, name)
			if err := os.WriteFile(p, attBytes(s.Vals[i]), 0644); err != nil {
				h.Die("%v", err)
			}
			if s.Aux[i] != "" {
				p += "," + s.Aux[i]
			}
			files = append(files, p)
		}
		return api.AddAttachmentsFile(in, out, files, false, nil)
	case "att_remove":
		return api.RemoveAttachmentsFile(in, out, nilIfEmpty(s.Keys), nil)
	case "att_extract":
		r.seq++
		dst := filepath.Join(r.dir, fmt.Sprintf("ext%d", r.seq))
		if err := os.MkdirAll(dst, 0755); err != nil {
			h.Die("%v", err)
		}
		defer os.RemoveAll(dst)
		e.exterr = api.ExtractAttachmentsFile(in, dst, nilIfEmpty(s.Keys), nil)
		e.extract = map[string]string{}
		es, _ := os.ReadDir(dst)
		for _, de := range es {
			b, err := os.ReadFile(filepath.Join(dst, de.Name()))
			if err != nil {
				h.Die("%v", err)
			}
			e.extract[de.Name()] = sha(b)
		}
		// the document itself is not touched by an extraction
		b, err := os.ReadFile(in)
		if err != nil {
			h.Die("%v", err)
		}
		if err := os.WriteFile(out, b, 0644); err != nil {
			h.Die("%v", err)
		}
		return nil
	}
	h.Die("unknown op %q", s.Op)
	return nil
}

func (r *runner35) safeApply(s step35, in, out string, e *entry35) (err error, pan string) {
	defer func() {
		if x := recover(); x != nil {
			pan = fmt.Sprint(x)
		}
	}()
	return r.apply(s, in, out, e), ""
}

func (r *runner35) report(c case35, upto int, key, msg string, got string) {
	r.stats["mismatches"]++
	cc := case35{Base: c.Base, Info: c.Info, XMP: c.XMP, Std: c.Std, IKw: c.IKw, XKw: c.XKw, Init: c.Init, Steps: append([]step35{}, c.Steps[:upto]...)}
	for i := range cc.Steps {
		if i < upto-1 {
			cc.Steps[i].Exp = nil
		}
	}
	if r.stats["mismatches"] <= 400 {
		r.w.Put(map[string]any{"key": key, "what": msg, "case": cc, "got": got})
	}
}

// pdfText renders a text string object: a literal for ASCII, UTF-16BE hex otherwise.
func pdfText(s string) string {
	ascii := true
	for _, r := range s {
		if r > 126 || r < 32 {
			ascii = false
		}
	}
	if ascii {
		rp := strings.NewReplacer("\\", "\\\\", "(", "\\(", ")", "\\)")
		return "(" + rp.Replace(s) + ")"
	}
	var b strings.Builder
	b.WriteString("<FEFF")
	for _, u := range utf16.Encode([]rune(s)) {
		fmt.Fprintf(&b, "%04X", u)
	}
	b.WriteString(">")
	return b.String()
}

// pdfName renders a name object with #xx escapes (ISO 32000 7.3.5).
func pdfName(s string) string {
	var b strings.Builder
	b.WriteByte('/')
	for i := 0; i < len(s); i++ {
		c := s[i]
		if c < '!' || c > '~' || strings.IndexByte("()<>[]{}/%#", c) >= 0 {
			fmt.Fprintf(&b, "#%02X", c)
		} else {
			b.WriteByte(c)
		}
	}
	return b.String()
}

func xmlEsc(s string) string {
	var b strings.Builder
	xml.EscapeText(&b, []byte(s))
	return b.String()
}

// baseDoc emits the initial document byte by byte from its description in the case: with or without an Info dictionary,
// with or without catalog XMP metadata repeating the keywords, and carrying the metadata state `init` already.
func baseDoc(c case35) []byte {
	var l listing35
	if err := json.Unmarshal(c.Init, &l); err != nil {
		h.Die("init listing: %v", err)
	}
	l.unesc()
	d := &rawpdf.Doc{}
	catalog := d.Reserve()
	d.Root = catalog
	font := d.Add("<< /Type /Font /Subtype /Type1 /BaseFont /Helvetica >>")
	pages := d.Reserve()
	var kids []string
	for i, m := range []string{"m1", "m2"} {
		cs := d.AddStream("", []byte(rawpdf.MarkerContent(m)))
		rot := ""
		if i == 1 {
			rot = " /Rotate 90"
		}
		kids = append(kids, fmt.Sprintf("%d 0 R", d.Add(fmt.Sprintf(
			"<< /Type /Page /Parent %d 0 R /Contents %d 0 R /Resources << /Font << /F1 %d 0 R >> >>%s >>", pages, cs, font, rot))))
	}
	d.Set(pages, fmt.Sprintf("<< /Type /Pages /Count %d /Kids [%s] /MediaBox [0 0 595 842] >>", len(kids), strings.Join(kids, " ")))
	cat := fmt.Sprintf("<< /Type /Catalog /Pages %d 0 R", pages)
	unescAll(c.IKw)
	unescAll(c.XKw)
	if !c.Info && (len(c.IKw) > 0 || len(l.Props) > 0) || !c.XMP && len(c.XKw) > 0 {
		h.Die("base %q: keywords/properties need an Info dictionary", c.Base)
	}
	if c.Info {
		info := "<< /Producer (verif raw emitter) /CreationDate (D:20200102030405Z) /Title (Base title) /Author (A. Uthor)"
		if len(c.IKw) > 0 {
			info += " /Keywords " + pdfText(strings.Join(sorted(c.IKw), "; "))
		}
		for _, p := range l.Props {
			info += " " + pdfName(p.K) + " " + pdfText(p.V)
		}
		d.Info = d.Add(info + " >>")
	}
	if c.XMP {
		x := `<?xpacket begin="" id="W5M0MpCehiHzreSzNTczkc9d"?>` + "\n" +
			`<x:xmpmeta xmlns:x="adobe:ns:meta/"><rdf:RDF xmlns:rdf="http://www.w3.org/1999/02/22-rdf-syntax-ns#">` +
			`<rdf:Description rdf:about="" xmlns:pdf="http://ns.adobe.com/pdf/1.3/" xmlns:dc="http://purl.org/dc/elements/1.1/" xmlns:xmp="http://ns.adobe.com/xap/1.0/">` + "\n" +
			`<pdf:Producer>verif raw emitter</pdf:Producer>` + "\n" +
			`<pdf:Keywords>` + xmlEsc(strings.Join(sorted(c.XKw), "; ")) + `</pdf:Keywords>` + "\n" +
			`<xmp:CreateDate>2020-01-02T03:04:05Z</xmp:CreateDate>` + "\n" +
			`<dc:title><rdf:Alt><rdf:li xml:lang="x-default">Base title</rdf:li></rdf:Alt></dc:title>` + "\n" +
			`<dc:subject><rdf:Bag>`
		for _, k := range sorted(c.XKw) {
			x += `<rdf:li>` + xmlEsc(k) + `</rdf:li>`
		}
		x += `</rdf:Bag></dc:subject>` + "\n" + `</rdf:Description></rdf:RDF></x:xmpmeta>` + "\n" + `<?xpacket end="w"?>`
		cat += fmt.Sprintf(" /Metadata %d 0 R", d.AddStream("/Type /Metadata /Subtype /XML", []byte(x)))
	}
	if l.Layout != "" {
		cat += " /PageLayout /" + l.Layout
	}
	if l.Mode != "" {
		cat += " /PageMode /" + l.Mode
	}
	if len(l.VP) > 0 {
		cat += " /ViewerPreferences <<"
		for _, p := range l.VP {
			switch vpKind(p.K) {
			case "bool", "int":
				cat += fmt.Sprintf(" /%s %s", p.K, p.V)
			case "name":
				cat += fmt.Sprintf(" /%s /%s", p.K, p.V)
			case "ranges":
				cat += fmt.Sprintf(" /%s [", p.K)
				for _, n := range rangeInts(p.V) {
					cat += fmt.Sprintf(" %d", n)
				}
				cat += " ]"
			}
		}
		cat += " >>"
	}
	if len(l.Att) > 0 {
		atts := append([]attx{}, l.Att...)
		sort.Slice(atts, func(i, j int) bool { return atts[i].Name < atts[j].Name })
		names := ""
		for _, a := range atts {
			data := attBytes(a.Data)
			ef := d.AddStream(fmt.Sprintf("/Type /EmbeddedFile /Params << /Size %d >>", len(data)), data)
			fs := fmt.Sprintf("<< /Type /Filespec /F %s /UF %s /EF << /F %d 0 R >>", pdfText(a.Name), pdfText(a.Name), ef)
			if a.Desc != "" {
				fs += " /Desc " + pdfText(a.Desc)
			}
			names += fmt.Sprintf(" %s %d 0 R", pdfText(a.Name), d.Add(fs+" >>"))
		}
		cat += fmt.Sprintf(" /Names << /EmbeddedFiles << /Names [%s ] >> >>", names)
	}
	d.Set(catalog, cat+" >>")
	return d.Bytes()
}

func (r *runner35) run(c case35) {
	r.stats["cases"]++
	tk := "base:" + c.Base
	root, ok := r.cache[tk]
	if !ok {
		p := filepath.Join(r.dir, c.Base+".pdf")
		if err := os.WriteFile(p, baseDoc(c), 0644); err != nil {
			h.Die("%v", err)
		}
		root = &entry35{path: p, checked: true}
		r.refs[p] = 1 << 30
		v, err := actualView(p)
		if err != nil {
			root.bad = true
			r.report(c, 0, "read|unreadable", "base document cannot be listed: "+err.Error(), "")
		} else {
			root.v = v
			var il listing35
			if err := json.Unmarshal(c.Init, &il); err != nil {
				h.Die("init listing: %v", err)
			}
			il.unesc()
			if iv := expectedView(il); !v.eq(iv) {
				root.bad = true
				r.report(c, 0, "read|"+diffField(iv, v), "the initial document does not list as its description says: expected "+iv.String(), v.String())
			}
		}
		r.cache[tk] = root
	}
	cur := root
	k := tk
	for i, s := range c.Steps {
		if cur.bad {
			r.stats["skipped_after_violation"]++
			return
		}
		k = k + "\x00" + s.key()
		e, ok := r.cache[k]
		if !ok {
			r.seq++
			out := filepath.Join(r.dir, fmt.Sprintf("s%d.pdf", r.seq))
			e = &entry35{path: out}
			err, pan := r.safeApply(s, cur.path, out, e)
			r.stats["api_calls"]++
			if pan != "" {
				e.bad, e.checked, e.err = true, true, true
				e.path, e.v = cur.path, cur.v
				os.Remove(out)
				r.report(c, i+1, s.Op+"|panic", fmt.Sprintf("%s panicked: %s", s.key(), pan), cur.v.String())
				r.put(k, e)
				cur = e
				continue
			}
			r.ops[s.Op]++
			if err != nil {
				e.err = true
				e.path, e.v = cur.path, cur.v
				if _, serr := os.Stat(out); serr == nil {
					os.Remove(out)
				}
				if s.Res == "ok" {
					e.bad, e.checked = true, true
					r.report(c, i+1, s.Op+"|error", fmt.Sprintf("%s returned an error for a valid request: %v", s.key(), err), cur.v.String())
				}
			} else {
				v, verr := actualView(out)
				if verr != nil {
					e.bad, e.checked = true, true
					r.report(c, i+1, s.Op+"|unreadable-output", fmt.Sprintf("%s returned nil but the result cannot be listed: %v", s.key(), verr), "")
				} else {
					e.v = v
				}
			}
			r.put(k, e)
		}
		if s.Chk && !e.checked {
			e.checked = true
			r.stats["steps_checked"]++
			var l listing35
			if err := json.Unmarshal(s.Exp, &l); err != nil {
				h.Die("expected listing: %v", err)
			}
			l.unesc()
			ev := expectedView(l)
			switch {
			case s.Res == "refuse":
				r.stats["refusals"]++
				if !e.err && !e.v.eq(cur.v) {
					e.bad = true
					r.report(c, i+1, s.Op+"|refuse:changed", s.key()+" cannot be honoured, returned nil and changed the document", e.v.String())
				} else if s.Op == "att_extract" && len(e.extract) > 0 {
					e.bad = true
					r.report(c, i+1, s.Op+"|refuse:extracted", s.key()+": nothing to extract, but files appeared", fmt.Sprint(e.extract))
				}
			case e.err:
			default:
				if f := diffField(ev, e.v); f != "" {
					e.bad = true
					r.report(c, i+1, s.Op+"|"+f, fmt.Sprintf("%s: listing differs in %s; expected %s", s.key(), f, ev.String()), e.v.String())
					break
				}
				if s.Op == "att_extract" {
					want := map[string]string{}
					for _, x := range l.Ext {
						want[x.Name] = sha(attBytes(x.Data))
					}
					if e.exterr != nil {
						e.bad = true
						r.report(c, i+1, s.Op+"|error", fmt.Sprintf("%s failed: %v", s.key(), e.exterr), "")
						break
					}
					if len(want) != len(e.extract) {
						e.bad = true
						r.report(c, i+1, s.Op+"|files", fmt.Sprintf("%s: expected files %v", s.key(), keysOf(want)), fmt.Sprint(keysOf(e.extract)))
						break
					}
					for n, hsh := range want {
						got, ok := e.extract[n]
						if !ok {
							e.bad = true
							r.report(c, i+1, s.Op+"|files", fmt.Sprintf("%s: expected files %v", s.key(), keysOf(want)), fmt.Sprint(keysOf(e.extract)))
							break
						}
						if got != hsh {
							e.bad = true
							r.report(c, i+1, s.Op+"|bytes", fmt.Sprintf("%s: extracted bytes of %q differ from the bytes that were added", s.key(), n), got)
							break
						}
					}
				}
				if !e.bad && !(e.v.eq(cur.v) && s.Op != "att_extract") {
					hh := fnv.New64a()
					hh.Write([]byte(k))
					r.nontriv[fmt.Sprintf("%x", hh.Sum64())] = true
				}
			}
		}
		cur = e
	}
}

func keysOf(m map[string]string) []string {
	var ks []string
	for k := range m {
		ks = append(ks, k)
	}
	sort.Strings(ks)
	return ks
}

func c35main() {
	in, out := h.Arg("--in"), h.Arg("--out")
	shard, of := h.ArgInt("--shard", 0), h.ArgInt("--of", 1)
	dir, err := os.MkdirTemp("", "verif-c35-")
	if err != nil {
		h.Die("%v", err)
	}
	defer os.RemoveAll(dir)
	r := &runner35{dir: dir, cache: map[string]*entry35{}, refs: map[string]int{}, maxKeep: h.ArgInt("--keep", 8000), w: h.NewW(out),
		stats: map[string]int{}, ops: map[string]int{}, nontriv: map[string]bool{}}
	defer r.w.Close()
	var cases []case35
	total := 0
	err = h.EachLine(in, func(line []byte) error {
		total++
		var c case35
		if err := json.Unmarshal(line, &c); err != nil {
			return err
		}
		for i := range c.Steps {
			unescAll(c.Steps[i].Keys)
			unescAll(c.Steps[i].Vals)
			unescAll(c.Steps[i].Aux)
		}
		hh := fnv.New32a()
		hh.Write([]byte(c.Base))
		if len(c.Steps) > 0 {
			hh.Write([]byte(c.Steps[0].key()))
		}
		if int(hh.Sum32()%uint32(of)) == shard {
			cases = append(cases, c)
		}
		return nil
	})
	if err != nil {
		h.Die("c35: %v", err)
	}
	if h.Arg("--mode") != "sim" {
		sort.SliceStable(cases, func(i, j int) bool { return len(cases[i].Steps) < len(cases[j].Steps) })
	}
	for _, c := range cases {
		r.run(c)
	}
	writeKeys(h.Arg("--nt"), r.nontriv)
	sum := map[string]any{"lines": total, "ops": r.ops}
	for k, v := range r.stats {
		sum[k] = v
	}
	h.Summary(sum)
}
