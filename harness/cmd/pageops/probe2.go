package main

import (
	"fmt"
	"os"
	"path/filepath"

	"github.com/pdfcpu/pdfcpu/pkg/api"
	"github.com/pdfcpu/pdfcpu/pkg/cli"
	"github.com/pdfcpu/pdfcpu/pkg/pdfcpu/model"
	"verif/harness/lib/rawpdf"
)

func probe2() {
	dir, _ := os.MkdirTemp("", "pageops-probe-")
	defer os.RemoveAll(dir)
	f := filepath.Join(dir, "a.pdf")
	os.WriteFile(f, rawpdf.Simple(2, "p"), 0644)
	kw := func(tag string) {
		ss, err := cli.ListKeywordsFile(f, nil)
		fmt.Printf("%s: kw=%q err=%v\n", tag, ss, err)
	}
	kw("init")
	fmt.Println(api.AddKeywordsFile(f, "", []string{"alpha", "Zoë ✓", "two words", "a,b", " pad ", "(par\\en)", "x;y", "alpha"}, nil))
	kw("add")
	fmt.Println(api.RemoveKeywordsFile(f, "", []string{"a,b"}, nil))
	kw("rm a,b")
	fmt.Println(api.RemoveKeywordsFile(f, "", []string{"a", "nonexist"}, nil))
	kw("rm a,nonexist")
	fmt.Println(api.RemoveKeywordsFile(f, "", []string{" pad", "Zoë ✓"}, nil))
	kw("rm pad,zoe")
	fmt.Println(api.RemoveKeywordsFile(f, "", nil, nil))
	kw("rm all")
	fmt.Println(api.RemoveKeywordsFile(f, "", nil, nil))
	kw("rm all again")
	fmt.Println(api.AddKeywordsFile(f, "", []string{"a, ,b"}, nil))
	kw("add 'a, ,b'")

	pr := func(tag string) {
		ss, err := cli.ListPropertiesFile(f, nil)
		fmt.Printf("%s: props=%q err=%v\n", tag, ss, err)
	}
	pr("init")
	for _, k := range []string{"My Key", "Ключ", "a#1", "a/b", "a(b)", "a#20b", "x%y", "tab\tkey", "end#"} {
		g := filepath.Join(dir, "k.pdf")
		os.WriteFile(g, rawpdf.Simple(1, "p"), 0644)
		e1 := api.AddPropertiesFile(g, "", map[string]string{k: "val"}, nil)
		ss, e2 := cli.ListPropertiesFile(g, nil)
		e3 := api.RemovePropertiesFile(g, "", []string{k}, nil)
		ss2, e4 := cli.ListPropertiesFile(g, nil)
		fmt.Printf("key %q: add=%v list=%q %v rm=%v list=%q %v\n", k, e1, ss, e2, e3, ss2, e4)
	}
	fmt.Println(api.AddPropertiesFile(f, "", map[string]string{"Title": "T1", "Custom": "Zoë ✓ (x) \\ y", "My Key": "v = 1", "Ключ": "значение"}, nil))
	pr("add")
	fmt.Println(api.AddPropertiesFile(f, "", map[string]string{"Custom": "second", "Author": "me"}, nil))
	pr("add2")
	fmt.Println(api.RemovePropertiesFile(f, "", []string{"My Key"}, nil))
	pr("rm My Key")
	fmt.Println(api.RemovePropertiesFile(f, "", []string{"Ключ"}, nil))
	pr("rm cyr")
	fmt.Println(api.RemovePropertiesFile(f, "", []string{"Title", "nonexist"}, nil))
	pr("rm title,nonexist")
	fmt.Println(api.RemovePropertiesFile(f, "", []string{"nonexist"}, nil))
	pr("rm nonexist")
	fmt.Println(api.RemovePropertiesFile(f, "", nil, nil))
	pr("rm all")
	fmt.Println(api.RemovePropertiesFile(f, "", nil, nil))
	pr("rm all again")

	lay := func(tag string) {
		a, e1 := api.ListPageLayoutFile(f, nil)
		b, e2 := api.ListPageModeFile(f, nil)
		c, e3 := api.ListViewerPreferencesFile(f, false, false, nil)
		fmt.Printf("%s: layout=%q %v mode=%q %v vp=%q %v\n", tag, a, e1, b, e2, c, e3)
	}
	lay("init")
	fmt.Println(api.SetPageLayoutFile(f, "", model.PageLayoutTwoColumnLeft, nil), api.SetPageModeFile(f, "", model.PageModeUseOutlines, nil))
	vp := model.ViewerPreferences{}
	vp.SetHideToolBar(true)
	vp.Direction = model.DirectionFor("R2L")
	vp.SetNumCopies(3)
	fmt.Println(api.SetViewerPreferencesFile(f, "", vp, nil))
	lay("set")
	vp = model.ViewerPreferences{}
	vp.SetHideToolBar(false)
	fmt.Println(api.SetViewerPreferencesFile(f, "", vp, nil))
	lay("set2")
	fmt.Println(api.ResetPageLayoutFile(f, "", nil), api.ResetPageModeFile(f, "", nil), api.ResetViewerPreferencesFile(f, "", nil))
	lay("reset")
	fmt.Println(api.ResetPageLayoutFile(f, "", nil), api.ResetPageModeFile(f, "", nil), api.ResetViewerPreferencesFile(f, "", nil))
	lay("reset again")

	att := func(tag string) {
		ss, err := cli.ListAttachmentsFile(f, nil)
		fmt.Printf("%s: att=%q err=%v\n", tag, ss, err)
	}
	adir := filepath.Join(dir, "att")
	os.Mkdir(adir, 0755)
	names := []string{"plain.txt", "Zoë ✓.bin", "sp ace (1).dat"}
	for i, n := range names {
		os.WriteFile(filepath.Join(adir, n), []byte(fmt.Sprintf("content-%d\x00\xff", i)), 0644)
	}
	att("init")
	fmt.Println(api.AddAttachmentsFile(f, "", []string{filepath.Join(adir, names[0]), filepath.Join(adir, names[1]) + ",Beschreibung ü", filepath.Join(adir, names[2])}, false, nil))
	att("add")
	os.WriteFile(filepath.Join(adir, names[0]), []byte("NEW"), 0644)
	fmt.Println(api.AddAttachmentsFile(f, "", []string{filepath.Join(adir, names[0])}, false, nil))
	att("add dup")
	x := filepath.Join(dir, "x")
	os.Mkdir(x, 0755)
	fmt.Println(api.ExtractAttachmentsFile(f, x, nil, nil))
	es, _ := os.ReadDir(x)
	for _, e := range es {
		b, _ := os.ReadFile(filepath.Join(x, e.Name()))
		fmt.Printf("  extracted %q = %q\n", e.Name(), b)
	}
	fmt.Println(api.ExtractAttachmentsFile(f, x, []string{"nonexist"}, nil))
	fmt.Println(api.RemoveAttachmentsFile(f, "", []string{"plain.txt", "nonexist"}, nil))
	att("rm plain,nonexist")
	fmt.Println(api.RemoveAttachmentsFile(f, "", []string{"Zoë ✓.bin"}, nil))
	att("rm zoe")
	fmt.Println(api.RemoveAttachmentsFile(f, "", nil, nil))
	att("rm all")
	fmt.Println(api.RemoveAttachmentsFile(f, "", nil, nil))
	att("rm all again")
	fmt.Println(api.ExtractAttachmentsFile(f, x, nil, nil))
}
