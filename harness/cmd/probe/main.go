package main

import (
	"encoding/json"
	"fmt"
	"os"

	"github.com/pdfcpu/pdfcpu/pkg/api"
	"verif/harness/lib/proj"
	"verif/harness/lib/rawpdf"
)

func main() {
	api.DisableConfigDir()
	d, _ := os.MkdirTemp("", "probe")
	defer os.RemoveAll(d)
	ps := []rawpdf.PageSpec{{Marker: "A", Rotate: -1}, {Marker: "B", Rotate: 90, MediaBox: "[0 0 200 300]"}, {Marker: "C", Rotate: -1, Streams: 3}, {Marker: "D", Rotate: 270, CropBox: "[10 10 100 100]"}, {Marker: "E", Rotate: -1}}
	doc := rawpdf.MarkerDoc(ps, rawpdf.MarkerOpts{Fanout: 2, InheritRotate: 180, InfoDict: "/Title (T)"})
	p := d + "/m.pdf"
	os.WriteFile(p, doc.Bytes(), 0644)
	if err := api.ValidateFile(p, nil); err != nil {
		fmt.Println("validate:", err)
	}
	pp, err := proj.Pages(p, nil)
	fmt.Println(err)
	b, _ := json.Marshal(pp)
	fmt.Println(string(b))
	if err := api.RotateFile(p, d+"/r.pdf", 90, []string{"1-2"}, nil); err != nil {
		fmt.Println(err)
	}
	pp, err = proj.Pages(d+"/r.pdf", nil)
	b, _ = json.Marshal(pp)
	fmt.Println(err, string(b))
}
