package main

import (
	"fmt"
	"os"

	"github.com/pdfcpu/pdfcpu/pkg/api"
	"github.com/pdfcpu/pdfcpu/pkg/font"
	"verif/harness/lib/fontgen"
	"verif/harness/lib/fsx"
)

func main() {
	api.DisableConfigDir()
	sb := fsx.New()
	defer sb.Close()
	sb.Mkdir("fonts")
	r := fontgen.Roboto()
	sb.Put("src/a.ttf", r, 0644)
	sb.Put("src/b.ttf", fontgen.Renamed(r, "Roboto-RegulaB"), 0644)
	sb.Put("src/c.ttc", fontgen.Collection(fontgen.Renamed(r, "Roboto-RegulaC"), fontgen.Renamed(r, "Roboto-RegulaD")), 0644)
	font.UserFontDir = sb.P("fonts")
	res := sb.Run(fsx.RunCfg{}, func() error { _, err := font.InstallTrueTypeFont(sb.P("fonts"), sb.P("src/a.ttf")); return err })
	fmt.Println("single:", res.Err, len(res.Events))
	for _, e := range res.Events {
		fmt.Printf("  %d %s %s %s n=%d w=%d %s h=%d\n", e.I, e.Op, e.A, e.B, e.N, e.W, e.R, e.H)
	}
	res = sb.Run(fsx.RunCfg{}, func() error { _, err := font.InstallTrueTypeCollection(sb.P("fonts"), sb.P("src/c.ttc")); return err })
	fmt.Println("ttc:", res.Err, len(res.Events))
	for _, e := range res.Events {
		fmt.Printf("  %d %s %s %s n=%d w=%d %s h=%d\n", e.I, e.Op, e.A, e.B, e.N, e.W, e.R, e.H)
	}
	res = sb.Run(fsx.RunCfg{}, func() error { return api.InstallFonts([]string{sb.P("src/a.ttf"), sb.P("src/b.ttf")}) })
	fmt.Println("batch:", res.Err, len(res.Events))
	for _, e := range res.Events {
		fmt.Printf("  %d %s %s %s n=%d w=%d %s h=%d\n", e.I, e.Op, e.A, e.B, e.N, e.W, e.R, e.H)
	}
	fmt.Println(fsx.Diff(res.Before, res.After))
	_ = os.Stdout
}
