package main

import (
	"fmt"
	"os"

	"github.com/pdfcpu/pdfcpu/pkg/api"
	"github.com/pdfcpu/pdfcpu/pkg/pdfcpu"
	"verif/harness/lib/rawpdf"
)

func main() {
	api.DisableConfigDir()
	dir, _ := os.MkdirTemp("", "c39probe")
	defer os.RemoveAll(dir)
	in := dir + "/in.pdf"
	os.WriteFile(in, rawpdf.Simple(3, "p"), 0644)
	bms := []pdfcpu.Bookmark{{PageFrom: 1, Title: "one"}, {PageFrom: 2, Title: "two"}}
	out := dir + "/bm.pdf"
	fmt.Println("add:", api.AddBookmarksFile(in, out, bms, true, nil))
	fmt.Println("validate:", api.ValidateFile(out, nil))
	out2 := dir + "/rm.pdf"
	fmt.Println("remove:", api.RemoveBookmarksFile(out, out2, nil))
	fmt.Println("validate:", api.ValidateFile(out2, nil))
	n, err := api.PageCountFile(out2)
	fmt.Println("pages:", n, err)
}
