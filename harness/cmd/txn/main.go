// txn: batch installers (fonts, font collections, font batches, certificates) of the REAL pdfcpu code under
// single (and double) injected file-system failures, judged on real directory trees (C06), with crash-point
// snapshots of publication (C02, F2) and os-call traces for the durability monitor (C07, spec/FSTrace.tla).
package main

import (
	"crypto/ecdsa"
	"crypto/elliptic"
	"crypto/rand"
	"crypto/x509"
	"crypto/x509/pkix"
	"encoding/pem"
	"fmt"
	"math/big"
	mrand "math/rand"
	"os"
	"sort"
	"strings"
	"time"

	"github.com/pdfcpu/pdfcpu/pkg/api"
	"github.com/pdfcpu/pdfcpu/pkg/font"
	"github.com/pdfcpu/pdfcpu/pkg/pdfcpu/model"
	"verif/harness/lib/fontgen"
	"verif/harness/lib/fsx"
	"verif/harness/lib/h"
)

type scenario struct {
	Name    string
	Dir     string                       // target directory (rel)
	Setup   func(sb *fsx.Sandbox)        // un-observed preparation (sources, pre-existing targets)
	Run     func(sb *fsx.Sandbox) error  // the installer call
	BadAt   int                          // > 0: an invalid input sits at this position of the batch: the call must fail cleanly
	Heavy   bool                         // thorough tier only
	Chdir   string                       // run with this sandbox directory as the current directory
	Slow    bool                         // each run takes seconds: only a few seeded fault points
	Durable bool                         // font representation: judged by NeverTorn / DurableOnOk (C07)
}

var roboto []byte

func names(i int) string { return []string{"Roboto-Regular", "Roboto-RegulaB", "Roboto-RegulaC", "Roboto-RegulaD", "Roboto-RegulaE"}[i] }

func fontBytes(i int) []byte {
	if i == 0 {
		return roboto
	}
	return fontgen.Renamed(roboto, names(i))
}

func preinstall(sb *fsx.Sandbox, idx ...int) {
	for _, i := range idx {
		p := sb.Put(fmt.Sprintf("pre/f%d.ttf", i), fontBytes(i), 0644)
		if _, err := font.InstallTrueTypeFont(sb.P("fonts"), p); err != nil {
			panic(err)
		}
	}
	os.RemoveAll(sb.P("pre"))
}

func certPEM(cn string) []byte {
	key, _ := ecdsa.GenerateKey(elliptic.P256(), rand.Reader)
	tmpl := &x509.Certificate{SerialNumber: big.NewInt(time.Now().UnixNano()), Subject: pkix.Name{CommonName: cn},
		NotBefore: time.Now().Add(-time.Hour), NotAfter: time.Now().Add(24 * time.Hour), IsCA: true, BasicConstraintsValid: true,
		KeyUsage: x509.KeyUsageCertSign}
	der, err := x509.CreateCertificate(rand.Reader, tmpl, tmpl, &key.PublicKey, key)
	if err != nil {
		panic(err)
	}
	return pem.EncodeToMemory(&pem.Block{Type: "CERTIFICATE", Bytes: der})
}

func scenarios() []scenario {
	var ss []scenario
	fontsDir := func(sb *fsx.Sandbox) { sb.Mkdir("fonts"); font.UserFontDir = sb.P("fonts") }
	// single font
	for _, pre := range []bool{false, true} {
		pre := pre
		ss = append(ss, scenario{Name: fmt.Sprintf("font.InstallTrueTypeFont/pre=%v", pre), Dir: "fonts", Durable: true,
			Setup: func(sb *fsx.Sandbox) {
				fontsDir(sb)
				sb.Put("src/a.ttf", fontBytes(0), 0644)
				if pre {
					preinstall(sb, 0)
				}
			},
			Run: func(sb *fsx.Sandbox) error { _, err := font.InstallTrueTypeFont(sb.P("fonts"), sb.P("src/a.ttf")); return err }})
	}
	// retry: an install that failed is simply tried again; once the retry reports success the font must be durable
	// (a first attempt may have published the file and failed while flushing the directory)
	for _, pre := range []bool{false, true} {
		pre := pre
		ss = append(ss, scenario{Name: fmt.Sprintf("font.InstallTrueTypeFont/retry/pre=%v", pre), Dir: "fonts", Durable: true,
			Setup: func(sb *fsx.Sandbox) {
				fontsDir(sb)
				sb.Put("src/a.ttf", fontBytes(0), 0644)
				if pre {
					preinstall(sb, 0)
				}
			},
			Run: func(sb *fsx.Sandbox) error {
				_, err := font.InstallTrueTypeFont(sb.P("fonts"), sb.P("src/a.ttf"))
				if err != nil {
					_, err = font.InstallTrueTypeFont(sb.P("fonts"), sb.P("src/a.ttf"))
				}
				return err
			}})
	}
	// collections: n members, pre-existing subsets
	for _, c := range []struct {
		n   int
		pre []int
	}{{2, nil}, {2, []int{1}}, {2, []int{1, 2}}, {3, []int{2}}} {
		c := c
		ss = append(ss, scenario{Name: fmt.Sprintf("font.InstallTrueTypeCollection/n=%d/pre=%v", c.n, c.pre), Dir: "fonts", Durable: true, Heavy: c.n == 3,
			Setup: func(sb *fsx.Sandbox) {
				fontsDir(sb)
				var members [][]byte
				for i := 1; i <= c.n; i++ {
					members = append(members, fontBytes(i))
				}
				sb.Put("src/c.ttc", fontgen.Collection(members...), 0644)
				preinstall(sb, c.pre...)
			},
			Run: func(sb *fsx.Sandbox) error {
				_, err := font.InstallTrueTypeCollection(sb.P("fonts"), sb.P("src/c.ttc"))
				return err
			}})
	}
	// a collection whose member names differ but sanitize to the same file name, the file being installed already:
	// the second member is a duplicate and the whole install must fail leaving the installed font alone
	ss = append(ss, scenario{Name: "font.InstallTrueTypeCollection/n=2/clash/pre=true", Dir: "fonts", Durable: true, BadAt: 2,
		Setup: func(sb *fsx.Sandbox) {
			fontsDir(sb)
			sb.Put("src/c.ttc", fontgen.Collection(fontgen.Renamed(roboto, "Roboto:Regular"), fontgen.Renamed(roboto, "Roboto?Regular")), 0644)
			p := sb.Put("pre/f.ttf", fontgen.Renamed(roboto, "Roboto_Regular"), 0644)
			if _, err := font.InstallTrueTypeFont(sb.P("fonts"), p); err != nil {
				panic(err)
			}
			os.RemoveAll(sb.P("pre"))
		},
		Run: func(sb *fsx.Sandbox) error {
			_, err := font.InstallTrueTypeCollection(sb.P("fonts"), sb.P("src/c.ttc"))
			return err
		}})
	// api batches: inputs, pre-existing, bad member
	for _, c := range []struct {
		in    []int
		pre   []int
		bad   int
		heavy bool
	}{{[]int{0}, nil, 0, false}, {[]int{0, 1}, []int{0}, 0, false}, {[]int{0, 1, 2}, []int{1}, 0, true}, {[]int{0, 1}, []int{0}, 2, false}, {[]int{0, 1, 2}, []int{0, 2}, 3, true}} {
		c := c
		ss = append(ss, scenario{Name: fmt.Sprintf("api.InstallFonts/in=%v/pre=%v/bad=%d", c.in, c.pre, c.bad), Dir: "fonts", BadAt: c.bad, Heavy: c.heavy, Durable: true,
			Setup: func(sb *fsx.Sandbox) {
				fontsDir(sb)
				for j, i := range c.in {
					b := fontBytes(i)
					if c.bad == j+1 {
						b = b[:len(b)/3] // truncated font discovered mid-batch
					}
					sb.Put(fmt.Sprintf("src/f%d.ttf", j), b, 0644)
				}
				preinstall(sb, c.pre...)
			},
			Run: func(sb *fsx.Sandbox) error {
				var files []string
				for j := range c.in {
					files = append(files, sb.P(fmt.Sprintf("src/f%d.ttf", j)))
				}
				return api.InstallFonts(files)
			}})
	}
	// certificates
	for _, c := range []struct {
		n   int
		pre []int
		bad int
	}{{1, nil, 0}, {2, []int{1}, 0}, {3, []int{0, 2}, 0}, {2, []int{0}, 2}} {
		c := c
		ss = append(ss, scenario{Name: fmt.Sprintf("api.ImportCertificates/n=%d/pre=%v/bad=%d", c.n, c.pre, c.bad), Dir: "certs", BadAt: c.bad,
			Setup: func(sb *fsx.Sandbox) {
				sb.Mkdir("certs")
				model.TrustedCertDir = sb.P("certs")
				for i := 0; i < c.n; i++ {
					b := certPEM(fmt.Sprintf("verif-%d", i))
					if c.bad == i+1 {
						b = []byte("-----BEGIN CERTIFICATE-----\nnot base64 at all\n-----END CERTIFICATE-----\n")
					}
					sb.Put(fmt.Sprintf("src/c%d.pem", i), b, 0644)
				}
				for _, i := range c.pre {
					sb.Put(fmt.Sprintf("certs/c%d.p7c", i), []byte(fmt.Sprintf("previous certificate bundle %d", i)), 0644)
				}
			},
			Run: func(sb *fsx.Sandbox) error {
				var files []string
				for i := 0; i < c.n; i++ {
					files = append(files, sb.P(fmt.Sprintf("src/c%d.pem", i)))
				}
				_, err := api.ImportCertificates(files)
				return err
			}})
	}
	// cheat sheets (written to the current directory): a batch, and a batch naming the same font twice
	for _, c := range []struct {
		names []string
		pre   bool
		bad   int
	}{{[]string{"Roboto-Regular"}, true, 0}, {[]string{"Roboto-Regular", "Roboto-Regular"}, true, 2}, {[]string{"Roboto-Regular", "Roboto-Regular"}, false, 2}} {
		c := c
		run := func(sb *fsx.Sandbox) error { return api.CreateCheatSheetsUserFonts(c.names) }
		ss = append(ss, scenario{Name: fmt.Sprintf("api.CreateCheatSheetsUserFonts/names=%d/pre=%v/bad=%d", len(c.names), c.pre, c.bad), Dir: "sheets", BadAt: c.bad, Slow: true, Chdir: "sheets",
			Setup: func(sb *fsx.Sandbox) {
				fontsDir(sb)
				sb.Mkdir("sheets")
				preinstall(sb, 0)
				if err := font.ReloadUserFonts(); err != nil {
					panic(err)
				}
				if c.pre {
					wd, _ := os.Getwd()
					os.Chdir(sb.P("sheets"))
					err := api.CreateCheatSheetsUserFonts([]string{"Roboto-Regular"})
					os.Chdir(wd)
					if err != nil {
						panic(err)
					}
				}
			},
			Run: run})
	}
	return ss
}

type runRec struct {
	T       int      `json:"t"`
	Op      string   `json:"op"`
	Cfg     string   `json:"cfg"`
	K       int      `json:"k"`
	K2      int      `json:"k2"`
	Kind    string   `json:"kind"`
	At      string   `json:"at"`
	At2     string   `json:"at2"`
	N       int      `json:"n"`
	Outcome string   `json:"outcome"`
	Err     string   `json:"err"`
	Diff    []string `json:"diff"`
	Verdict string   `json:"verdict"`
	Why     string   `json:"why"`
	Key     string   `json:"key"`
}

func errStr(r *fsx.Result) string {
	if r.Panicked {
		return "panic: " + r.PanicVal
	}
	if r.Err != nil {
		s := r.Err.Error()
		if len(s) > 600 {
			s = s[:600]
		}
		return s
	}
	return ""
}

func baseName(p string) string { return p[strings.LastIndex(p, "/")+1:] }

func callClass(at string) string {
	f := strings.Fields(at)
	if len(f) < 2 {
		return at
	}
	p := f[1]
	role := "target"
	switch {
	case strings.Contains(p, "backup"):
		role = "backup"
	case strings.Contains(p, "#"):
		role = "staging"
	case strings.HasPrefix(p, "src/"):
		role = "source"
	case p == "fonts" || p == "certs":
		role = "dir"
	}
	return f[0] + ":" + role
}

// judge decides a run from the real trees. targets = names the fault-free run publishes.
func judge(sc *scenario, targets []string, r *fsx.Result, rec *runRec) {
	before, after := r.Canon.Snap(r.Before), r.Canon.Snap(r.After)
	rec.Diff = fsx.Diff(before, after)
	if rec.Diff == nil {
		rec.Diff = []string{}
	}
	excused := func(name string) bool {
		// an entry whose own removal (or whose parent's removal) was made to fail necessarily remains
		for _, at := range []string{rec.At, rec.At2} {
			faulted := strings.Fields(at)
			if len(faulted) == 2 && (faulted[0] == "remove" || faulted[0] == "removeall") {
				if name == faulted[1] || strings.HasPrefix(name, faulted[1]+"/") {
					return true
				}
			}
		}
		return false
	}
	fail := func(key, why string) {
		if rec.Verdict == "ok" {
			rec.Verdict, rec.Key, rec.Why = "violation", strings.Split(sc.Name, "/")[0]+"|"+key+"|"+callClass(rec.At), why
		}
	}
	rec.Verdict = "ok"
	leftovers := []string{}
	for name := range after {
		b := baseName(name)
		if _, was := before[name]; !was && strings.HasPrefix(b, ".") && !excused(name) {
			leftovers = append(leftovers, name)
		}
	}
	sort.Strings(leftovers)
	if r.Outcome() == "ok" {
		if sc.BadAt > 0 {
			fail("invalid member accepted", "a batch with an invalid member reported success")
		}
		for _, t := range targets {
			a, ok := after[t]
			b, was := r.Before[t]
			if !ok {
				fail("success without target", "installer reported success but "+t+" is missing")
			} else if was && a.Ino == b.Ino && a.Sha == b.Sha {
				fail("success without publication", "installer reported success but "+t+" still is the previous file")
			}
		}
		if len(leftovers) > 0 {
			fail("leftover after success", "installer reported success but staging/backup entries remain: "+strings.Join(leftovers, " "))
		}
		return
	}
	// failure: everything must be as before
	var bad []string
	for _, d := range rec.Diff {
		name := d[1:]
		if j := strings.Index(name, "("); j >= 0 && d[0] == '~' {
			name = name[:j]
		}
		if d[0] == '+' && excused(name) {
			continue
		}
		bad = append(bad, d)
	}
	if len(bad) == 0 {
		return
	}
	// not restored. Acceptable only if a rollback step itself failed and the error says where the backup is kept.
	rollbackStepFailed := rec.K2 > 0 || (sc.BadAt > 0 && rec.K > 0) // without an injected fault no rollback step has a reason to fail
	if rollbackStepFailed {
		mentions := false
		fullErr := ""
		if r.Err != nil {
			fullErr = r.Err.Error()
		}
		for name := range r.After { // real (not canonicalised) names
			parts := strings.Split(name, "/")
			if len(parts) >= 2 && strings.Contains(parts[1], "backup") && strings.Contains(fullErr, parts[1]) {
				mentions = true
			}
		}
		if mentions {
			rec.Verdict = "ok"
			return
		}
	}
	allPublished := true
	for _, t := range targets {
		a, ok := after[t]
		b, was := r.Before[t]
		if !ok || (was && a.Ino == b.Ino && a.Sha == b.Sha) {
			allPublished = false
		}
	}
	if allPublished && len(leftovers) == 0 {
		fail("error after complete publication", "installer returned an error although every target was published and nothing was rolled back: "+strings.Join(bad, " "))
		return
	}
	fail("not restored", "installer failed ("+r.Outcome()+") but the directory is neither fully published nor restored: "+strings.Join(bad, " "))
}

func main() {
	api.DisableConfigDir()
	roboto = fontgen.Roboto()
	mode := os.Args[1]
	w := h.NewW(h.Arg("--runs"))
	tw := h.NewW(h.Arg("--trace"))
	defer w.Close()
	defer tw.Close()
	tier := h.Arg("--tier")
	rng := mrand.New(mrand.NewSource(int64(h.ArgInt("--seed", 1))))
	only := h.Arg("--only")
	tid, runs, viol, points := 0, 0, 0, 0
	skipped := []string{}
	for _, sc := range scenarios() {
		sc := sc
		if sc.Heavy && tier != "thorough" {
			continue
		}
		if sc.Slow && mode != "c06" {
			continue
		}
		if only != "" && !strings.Contains(sc.Name, only) {
			continue
		}
		exec := func(cfg fsx.RunCfg) (*fsx.Sandbox, fsx.Result) {
			sb := fsx.New()
			sc.Setup(sb)
			if sc.Chdir != "" {
				wd, _ := os.Getwd()
				os.Chdir(sb.P(sc.Chdir))
				defer os.Chdir(wd)
			}
			r := sb.Run(cfg, func() error { return sc.Run(sb) })
			return sb, r
		}
		sb, base := exec(fsx.RunCfg{Snapshots: mode == "c02"})
		if (base.Outcome() == "ok") == (sc.BadAt > 0) {
			skipped = append(skipped, sc.Name+": unexpected fault-free outcome "+base.Outcome()+" "+errStr(&base))
			sb.Close()
			continue
		}
		var targets []string
		for _, d := range fsx.Diff(base.Canon.Snap(base.Before), base.Canon.Snap(base.After)) {
			name := d[1:]
			if j := strings.Index(name, "("); j >= 0 {
				name = name[:j]
			}
			if strings.HasPrefix(name, sc.Dir+"/") && !strings.HasPrefix(baseName(name), ".") && d[0] != '-' {
				targets = append(targets, name)
			}
		}
		judgeTags := []string{}
		if sc.Durable {
			judgeTags = append(judgeTags, "c07")
		}
		emit := func(r *fsx.Result, name string) {
			for _, l := range r.Lines(fsx.Meta{T: tid, Name: name, Prot: targets, Outs: targets, DestDirs: []string{sc.Dir}, Judge: judgeTags}) {
				tw.Put(l)
			}
		}
		switch mode {
		case "c02":
			// crash points of publication: every snapshot; a replaced target must be old or new, never absent / partial
			tid++
			rec := runRec{T: tid, Op: sc.Name, Cfg: "crash", Kind: "crash", N: len(base.Events), Outcome: base.Outcome(), Verdict: "ok", Diff: []string{}}
			for k, sn := range base.Snaps {
				points++
				at := ""
				if k < len(base.Events) {
					at = base.Events[k].Op + " " + base.Events[k].A
				}
				for _, t := range targets {
					b, was := base.Before[t]
					if !was {
						continue // only replaced targets are subject to C02
					}
					e, ok := sn[t]
					state := "OTHER"
					switch {
					case !ok:
						state = "ABSENT"
					case e.Sha == b.Sha && e.Size == b.Size:
						state = "OLD"
					case e.Sha == base.After[t].Sha:
						state = "NEW"
					}
					if state != "OLD" && state != "NEW" && rec.Verdict == "ok" {
						rec.Verdict, rec.K, rec.At = "finding", k+1, at
						rec.Key = "F2|" + strings.Split(sc.Name, "/")[0] + "|replaced target " + state + " between backup and publish"
						rec.Why = fmt.Sprintf("a kill before call %d (%s) leaves %s %s: the old file was moved to a hidden backup before the new one is renamed in", k+1, at, t, state)
					}
				}
			}
			emit(&base, sc.Name+"/crash")
			w.Put(rec)
			runs++
		case "c06", "c07":
			tid++
			if mode == "c07" {
				emit(&base, sc.Name+"/success")
			} else {
				rec := runRec{T: tid, Op: sc.Name, Cfg: "nofault", Kind: "none", N: len(base.Events), Outcome: base.Outcome(), Err: errStr(&base)}
				judge(&sc, targets, &base, &rec)
				emit(&base, sc.Name+"/nofault")
				w.Put(rec)
				runs++
				if rec.Verdict == "violation" {
					viol++
				}
			}
			n := len(base.Events)
			var ks []int
			if tier == "thorough" {
				for k := 1; k <= n; k++ {
					ks = append(ks, k)
				}
			} else {
				// quick: every call that is not a plain write (writes of one staged file are equivalent fault points), plus 2 seeded writes
				for k := 1; k <= n; k++ {
					if !strings.HasPrefix(base.Events[k-1].Op, "write") {
						ks = append(ks, k)
					}
				}
				for i := 0; i < 2; i++ {
					ks = append(ks, 1+rng.Intn(n))
				}
				sort.Ints(ks)
			}
			if sc.Slow && tier != "thorough" {
				// seconds per run: the publication phase (renames, directory syncs, removals) plus two seeded calls
				var s2 []int // quick: only the fault-free run is judged (seconds per run)
				ks = s2
			}
			if mode == "c07" {
				// durability is judged on the fault-free trace and on a seeded sample of faulted ones
				var s2 []int
				for i := 0; i < 6 && len(ks) > 0; i++ {
					s2 = append(s2, ks[rng.Intn(len(ks))])
				}
				ks = s2
			}
			for _, k := range ks {
				k2s := []int{0}
				if tier == "thorough" && mode == "c06" && (sc.Name == "api.InstallFonts/in=[0 1]/pre=[0]/bad=0" || strings.HasPrefix(sc.Name, "api.ImportCertificates/n=2")) {
					// a seeded sample of second-fault positions after k (the full quadratic space takes too long)
					for j := 0; j < 14; j++ {
						k2s = append(k2s, k+1+rng.Intn(n+6-k))
					}
				}
				for _, k2 := range k2s {
					sbx, r := exec(fsx.RunCfg{FaultAt: k, Kind: "error", FaultAt2: k2, Kind2: "error"})
					tid++
					rec := runRec{T: tid, Op: sc.Name, Cfg: "fault", K: k, K2: k2, Kind: "error", N: len(r.Events), Outcome: r.Outcome(), Err: errStr(&r)}
					if k <= len(r.Events) {
						rec.At = r.Events[k-1].Op + " " + r.Events[k-1].A
					}
					if k2 > 0 && k2 <= len(r.Events) {
						rec.At2 = r.Events[k2-1].Op + " " + r.Events[k2-1].A
					}
					judge(&sc, targets, &r, &rec)
					emit(&r, fmt.Sprintf("%s/fault@%d,%d", sc.Name, k, k2))
					w.Put(rec)
					runs++
					if rec.Verdict == "violation" {
						viol++
					}
					sbx.Close()
				}
			}
		}
		sb.Close()
	}
	h.Summary(map[string]any{"runs": runs, "violations": viol, "skipped": skipped, "crash_points": points, "scenarios": len(scenarios())})
}
