// c42: runs the real safemath.AddInt / MultiplyInt / MultiplyInt64 on every case class of the small-width
// model (spec/SafeMath.tla) instantiated at the real width, plus seeded random pairs, and records operands
// and results as little-endian base-4096 limb sequences for validation by TLC (spec/SafeMathTrace.tla).
package main

import (
	"math/big"
	"math/rand"
	"os"
	"strconv"

	"github.com/pdfcpu/pdfcpu/pkg/pdfcpu/safemath"
	"verif/harness/lib/h"
)

type rec struct {
	Fn   string `json:"fn"`
	Kind string `json:"kind"`
	W    int    `json:"w"`
	ANeg bool   `json:"aneg"`
	A    []int  `json:"a"`
	BNeg bool   `json:"bneg"`
	B    []int  `json:"b"`
	OK   bool   `json:"ok"`
	RNeg bool   `json:"rneg"`
	R    []int  `json:"r"`
	As   string `json:"as"`
	Bs   string `json:"bs"`
	Rs   string `json:"rs"`
}

// limbs of |x| (two's complement safe for MinInt64), 6 limbs of 12 bits
func limbs(x int64) (bool, []int) {
	neg := x < 0
	u := uint64(x)
	if neg {
		u = ^u + 1
	}
	out := make([]int, 6)
	for i := 0; i < 6; i++ {
		out[i] = int(u & 0xfff)
		u >>= 12
	}
	return neg, out
}

type fn struct {
	name, kind string
	w          int
	call       func(a, b int64) (int64, error)
}

func fns() []fn {
	iw := strconv.IntSize
	return []fn{
		{"AddInt", "add", iw, func(a, b int64) (int64, error) { r, e := safemath.AddInt(int(a), int(b)); return int64(r), e }},
		{"MultiplyInt", "mul", iw, func(a, b int64) (int64, error) { r, e := safemath.MultiplyInt(int(a), int(b)); return int64(r), e }},
		{"MultiplyInt64", "mul", 64, func(a, b int64) (int64, error) { return safemath.MultiplyInt64(a, b) }},
	}
}

type gen struct {
	w    *h.W
	seen map[string]bool
	n    int
}

func (g *gen) run(f fn, a, b int64) {
	max := int64(1)<<(f.w-1) - 1
	min := -max - 1
	if a < min || a > max || b < min || b > max {
		return
	}
	key := f.name + "|" + strconv.FormatInt(a, 10) + "|" + strconv.FormatInt(b, 10)
	if g.seen[key] {
		return
	}
	g.seen[key] = true
	r, err := f.call(a, b)
	an, al := limbs(a)
	bn, bl := limbs(b)
	rn, rl := limbs(r)
	g.w.Put(rec{f.name, f.kind, f.w, an, al, bn, bl, err == nil, rn, rl,
		strconv.FormatInt(a, 10), strconv.FormatInt(b, 10), strconv.FormatInt(r, 10)})
	g.n++
}

// randBits returns a uniformly random value with exactly k significant bits (k in 1..w-1).
func randBits(rng *rand.Rand, k int) int64 {
	if k <= 0 {
		return 0
	}
	v := rng.Uint64()>>(64-uint(k)) | 1<<(uint(k)-1)
	return int64(v)
}

func divisors(max int64) []int64 {
	// trial division up to 2^21; a remaining cofactor is treated as one more factor
	type pf struct {
		p int64
		e int
	}
	var fs []pf
	n := max
	for p := int64(2); p < 1<<21 && p*p <= n; p++ {
		e := 0
		for n%p == 0 {
			n /= p
			e++
		}
		if e > 0 {
			fs = append(fs, pf{p, e})
		}
	}
	if n > 1 {
		fs = append(fs, pf{n, 1})
	}
	ds := []int64{1}
	for _, f := range fs {
		cur := len(ds)
		pp := int64(1)
		for i := 0; i < f.e; i++ {
			pp *= f.p
			for j := 0; j < cur; j++ {
				ds = append(ds, ds[j]*pp)
			}
		}
	}
	return ds
}

func main() {
	if len(os.Args) < 2 || os.Args[1] != "run" {
		h.Die("usage: c42 run --out f --n N --seed S [--kstep K --gridrand R]")
	}
	n := h.ArgInt("--n", 2000)
	kstep := h.ArgInt("--kstep", 1) // spacing of the powers of two in the operand grid
	nrand := h.ArgInt("--gridrand", 40)
	rng := rand.New(rand.NewSource(int64(h.ArgInt("--seed", 1))))
	g := &gen{w: h.NewW(h.Arg("--out")), seen: map[string]bool{}}
	defer g.w.Close()
	perFn := map[string]int{}
	for _, f := range fns() {
		start := g.n
		max := int64(1)<<(f.w-1) - 1
		min := -max - 1
		// grid of operand values
		grid := []int64{min, min + 1, -max / 2, -3, -2, -1, 0, 1, 2, 3, 5, 7, 10, 4095, 4096, 4097, max / 2, max/2 + 1, max - 1, max}
		for k := 1; k < f.w-1; k += kstep {
			p := int64(1) << uint(k)
			grid = append(grid, p-1, p, p+1, -p)
		}
		sq := new(big.Int).Sqrt(big.NewInt(max)).Int64()
		grid = append(grid, sq-1, sq, sq+1)
		for i := 0; i < nrand; i++ {
			v := randBits(rng, 1+rng.Intn(f.w-1))
			grid = append(grid, v, -v)
		}
		// sign classes and extremes: all pairs of a small core
		core := []int64{min, min + 1, -randBits(rng, 1+rng.Intn(f.w-2)), -1, 0, 1, 2, randBits(rng, 1+rng.Intn(f.w-2)), max - 1, max}
		for _, a := range core {
			for _, b := range core {
				g.run(f, a, b)
			}
		}
		for _, b := range grid {
			for _, a := range core {
				g.run(f, a, b)
				g.run(f, b, a)
			}
			if f.kind == "add" {
				if b >= 0 {
					for d := int64(-2); d <= 2; d++ {
						a := max - b + d // never wraps: 0 <= b <= max, |d| <= 2 is filtered by run's range check
						if a >= 0 && (d <= 0 || a > 0) && a-d == max-b {
							g.run(f, a, b)
							g.run(f, b, a)
						}
					}
				}
			} else if b > 0 {
				q := max / b
				for d := int64(-2); d <= 2; d++ {
					a := q + d
					if a >= 0 && (d <= 0 || a > q) {
						g.run(f, a, b)
						g.run(f, b, a)
					}
				}
			}
		}
		if f.kind == "mul" {
			for _, d := range divisors(max) {
				g.run(f, d, max/d)
				g.run(f, d, max/d+1)
				if max/d > 1 {
					g.run(f, d, max/d-1)
				}
			}
		}
		// seeded random pairs: bit lengths chosen so that results fall on both sides of the boundary
		for g.n-start < n {
			ka := rng.Intn(f.w)
			var kb int
			switch rng.Intn(4) {
			case 0:
				kb = rng.Intn(f.w)
			case 1:
				kb = f.w - 1 - ka + rng.Intn(3) - 1 // products near 2^(w-1)
			case 2:
				kb = f.w - ka + rng.Intn(8) // products that wrap once or several times
			default:
				kb = ka
			}
			if kb < 0 {
				kb = 0
			}
			if kb > f.w-1 {
				kb = f.w - 1
			}
			a, b := randBits(rng, ka), randBits(rng, kb)
			if rng.Intn(8) == 0 {
				a = -a
			}
			if rng.Intn(8) == 0 {
				b = -b
			}
			if f.kind == "mul" && a > 0 && rng.Intn(3) == 0 {
				b = max/a + int64(rng.Intn(5)) - 2
			}
			if f.kind == "add" && a >= 0 && rng.Intn(3) == 0 {
				b = max - a + int64(rng.Intn(5)) - 2
				if b < 0 && a < 2 {
					b = max
				}
			}
			g.run(f, a, b)
		}
		perFn[f.name] = g.n - start
	}
	h.Summary(map[string]any{"records": g.n, "per_fn": perFn, "intsize": strconv.IntSize})
}
