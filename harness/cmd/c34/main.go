// c34: runs the real api.NUpFile / api.GridFile / api.BookletFile on rawpdf marker documents for the cases enumerated by
// TLC (spec/ImposeGen.tla) and reads back, with pdfcpu's reader, the number of output pages and for every output page
// the source pages placed on it in content order (form XObject invocations resolved to the marker text inside the
// form).  Records are judged by TLC (spec/ImposeTrace.tla).
package main

import (
	"fmt"
	"encoding/json"
	"io"
	"os"
	"path/filepath"
	"regexp"
	"strconv"

	"github.com/pdfcpu/pdfcpu/pkg/api"
	"github.com/pdfcpu/pdfcpu/pkg/pdfcpu"
	"github.com/pdfcpu/pdfcpu/pkg/pdfcpu/model"
	"github.com/pdfcpu/pdfcpu/pkg/pdfcpu/types"
	"verif/harness/lib/h"
	"verif/harness/lib/proj"
	"verif/harness/lib/rawpdf"
)

type tcase struct {
	Kind    string `json:"kind"`
	K       int    `json:"k"`
	N       int    `json:"n"`
	BType   string `json:"btype"`
	Binding string `json:"binding"`
	Orient  string `json:"orient"`
	MF      bool   `json:"mf"`
	Folio   int    `json:"folio"`
	Rows    int    `json:"rows"`
	Cols    int    `json:"cols"`
	First   int    `json:"first"`
	Step    int    `json:"step"`
}

type rec struct {
	ID       int     `json:"id"`
	Kind     string  `json:"kind"`
	K        int     `json:"k"`
	N        int     `json:"n"`
	MF       bool    `json:"mf"`
	Folio    int     `json:"folio"`
	Sel      []int   `json:"sel"`
	Accepted bool    `json:"accepted"`
	Panic    bool    `json:"panic"`
	Err      string  `json:"err"`
	Slots    []int   `json:"slots"`
	Pages    [][]int `json:"pages"`
	Desc     string  `json:"desc"`
}

var doRe = regexp.MustCompile(`/([A-Za-z0-9_.]+)\s+Do\b`)
var tjRe = regexp.MustCompile(`\(m([0-9]+)\)\s*Tj`)

var docCache = map[int]string{}

func markerDoc(dir string, n int) string {
	if p, ok := docCache[n]; ok {
		return p
	}
	ps := make([]rawpdf.PageSpec, n)
	for i := range ps {
		ps[i] = rawpdf.PageSpec{Marker: "m" + strconv.Itoa(i+1), Rotate: -1}
	}
	fan := 0
	if n > 12 {
		fan = 7
	}
	p := filepath.Join(dir, fmt.Sprintf("in%d.pdf", n))
	if err := os.WriteFile(p, rawpdf.MarkerDoc(ps, rawpdf.MarkerOpts{Fanout: fan}).Bytes(), 0o644); err != nil {
		h.Die("write input: %v", err)
	}
	docCache[n] = p
	return p
}

// placed returns for every page of the file the source page numbers of the form XObjects painted, in content order.
func placed(path string) ([][]int, error) {
	ctx, err := proj.Context(path, nil)
	if err != nil {
		return nil, fmt.Errorf("read output: %w", err)
	}
	if err := ctx.EnsurePageCount(); err != nil {
		return nil, err
	}
	out := [][]int{}
	for i := 1; i <= ctx.PageCount; i++ {
		pg := []int{}
		d, _, inh, err := ctx.PageDict(i, false)
		if err != nil || d == nil {
			return nil, fmt.Errorf("output page %d: %v", i, err)
		}
		r, err := pdfcpu.ExtractPageContent(ctx, i)
		if err != nil {
			return nil, fmt.Errorf("output page %d content: %w", i, err)
		}
		content := ""
		if r != nil {
			b, _ := io.ReadAll(r)
			content = string(b)
		}
		var xobjs types.Dict
		if inh != nil && inh.Resources != nil {
			if o, ok := inh.Resources.Find("XObject"); ok {
				xobjs, _ = ctx.DereferenceDict(o)
			}
		}
		for _, m := range doRe.FindAllStringSubmatch(content, -1) {
			if xobjs == nil {
				return nil, fmt.Errorf("output page %d paints %s without XObject resources", i, m[1])
			}
			o, ok := xobjs.Find(m[1])
			if !ok {
				return nil, fmt.Errorf("output page %d paints unknown XObject %s", i, m[1])
			}
			sd, _, err := ctx.DereferenceStreamDict(o)
			if err != nil || sd == nil {
				return nil, fmt.Errorf("output page %d XObject %s: %v", i, m[1], err)
			}
			if err := sd.Decode(); err != nil {
				return nil, fmt.Errorf("output page %d XObject %s decode: %w", i, m[1], err)
			}
			mm := tjRe.FindAllStringSubmatch(string(sd.Content), -1)
			if len(mm) != 1 {
				pg = append(pg, -1)
				continue
			}
			n, _ := strconv.Atoi(mm[0][1])
			pg = append(pg, n)
		}
		out = append(out, pg)
	}
	return out, nil
}

func selection(c tcase) ([]int, []string) {
	pages := make([]int, c.K)
	strs := make([]string, c.K)
	for i := range pages {
		pages[i] = c.First + c.Step*i
		strs[i] = strconv.Itoa(pages[i])
	}
	if c.Step == 1 && c.K > 1 {
		return pages, []string{fmt.Sprintf("%d-%d", pages[0], pages[c.K-1])}
	}
	return pages, strs
}

func runCase(dir string, id int, c tcase) (r rec) {
	pages, sel := selection(c)
	r = rec{ID: id, Kind: c.Kind, K: c.K, N: c.N, MF: c.MF, Folio: c.Folio, Sel: pages, Slots: []int{}, Pages: [][]int{}}
	in := markerDoc(dir, pages[len(pages)-1]+1) // one more page than selected: the last page is never selected
	out := filepath.Join(dir, "out.pdf")
	os.Remove(out)
	defer func() {
		if e := recover(); e != nil {
			r.Panic, r.Err, r.Pages = true, fmt.Sprintf("panic: %v", e), [][]int{}
		}
	}()
	var nup *model.NUp
	var err error
	switch c.Kind {
	case "nup":
		r.Desc = fmt.Sprintf("nup %d", c.N)
		nup, err = api.PDFNUpConfig(c.N, "", nil)
	case "grid":
		r.Desc = fmt.Sprintf("grid %dx%d", c.Rows, c.Cols)
		nup, err = api.PDFGridConfig(c.Rows, c.Cols, "", nil)
	case "bookletfile":
		r.Desc = fmt.Sprintf("papersize:A4%s, btype:%s, binding:%s", c.Orient, c.BType, c.Binding)
		if c.MF {
			r.Desc += fmt.Sprintf(", multifolio:on, foliosize:%d", c.Folio)
		}
		nup, err = api.PDFBookletConfig(c.N, r.Desc, nil)
	default:
		h.Die("unknown case kind %q", c.Kind)
	}
	if err != nil {
		r.Err = err.Error()
		return r
	}
	r.Accepted = true
	switch c.Kind {
	case "nup":
		err = api.NUpFile([]string{in}, out, sel, nup, nil)
	case "grid":
		err = api.GridFile([]string{in}, out, sel, nup, nil)
	case "bookletfile":
		err = api.BookletFile([]string{in}, out, sel, nup, nil)
	}
	if err != nil {
		r.Err = err.Error()
		return r
	}
	pp, err := placed(out)
	if err != nil {
		r.Err = err.Error()
		return r
	}
	r.Pages = pp
	return r
}

func main() {
	api.DisableConfigDir()
	if len(os.Args) < 2 || os.Args[1] != "run" {
		h.Die("usage: c34 run --cases f --out f")
	}
	dir, err := os.MkdirTemp("", "c34-")
	if err != nil {
		h.Die("%v", err)
	}
	defer os.RemoveAll(dir)
	w := h.NewW(h.Arg("--out"))
	defer w.Close()
	id, n, acc := 0, 0, 0
	err = h.EachLine(h.Arg("--cases"), func(line []byte) error {
		id++
		var c tcase
		if err := json.Unmarshal(line, &c); err != nil {
			return err
		}
		if c.Kind == "booklet" {
			return nil
		}
		r := runCase(dir, id, c)
		w.Put(r)
		n++
		if r.Accepted {
			acc++
		}
		return nil
	})
	if err != nil {
		h.Die("run: %v", err)
	}
	h.Summary(map[string]any{"lines": id, "cases": n, "accepted": acc})
}
