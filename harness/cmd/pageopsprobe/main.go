package main

import (
	"fmt"
	"os"
	"path/filepath"

	"github.com/pdfcpu/pdfcpu/pkg/api"
	"github.com/pdfcpu/pdfcpu/pkg/pdfcpu/types"
	"verif/harness/lib/rawpdf"
)

func main() {
	api.DisableConfigDir()
	dir, _ := os.MkdirTemp("", "pp-")
	defer os.RemoveAll(dir)
	f := filepath.Join(dir, "a.pdf")
	os.WriteFile(f, rawpdf.Simple(2, "p"), 0644)
	for _, s := range []string{"trim:10, art:crop", "bleed:5 10 15 20, trim:media", "art:crop", "trim:10", "art:trim", "crop:10, trim:5"} {
		func() {
			defer func() {
				if x := recover(); x != nil {
					fmt.Println(s, "PANIC", x)
				}
			}()
			pb, err := api.PageBoundaries(s, types.POINTS)
			if err != nil {
				fmt.Println(s, "parse err", err)
				return
			}
			o := filepath.Join(dir, "o.pdf")
			err = api.AddBoxesFile(f, o, nil, pb, nil)
			ss, _ := api.ListBoxesFile(o, []string{"1"}, nil, nil)
			fmt.Println(s, "->", err, ss)
		}()
	}
}
