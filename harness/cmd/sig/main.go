// sig: harness for the signature properties C27 (tampering), C28 (coverage), C29 (removal).
//
// The only adbe.x509.rsa_sha1 sample carries a certificate with a negative serial number, which crypto/x509 rejects by
// default since Go 1.23; accepting it lets the validator reach the digest check on that sample.
//
//go:debug x509negativeserial=1
package main

import (
	"fmt"
	"os"

	"verif/harness/lib/h"
)

func baseline() {
	e := newEnv()
	defer e.close()
	docs := append(e.sampleDocs(), e.synthDocs()...)
	for _, d := range docs {
		fmt.Printf("%s F=%d\n", d.ID, len(d.Bytes))
		for _, s := range d.Sigs {
			fmt.Printf("   %s %s br=%v gap=[%d,%d) covers=%v base=%+v\n", s.Key, s.SubFilter, s.BR, s.GapLo, s.GapHi,
				s.BR[0] == 0 && s.BR[1] == s.GapLo && s.BR[2] == s.GapHi && s.BR[2]+s.BR[3] == len(d.Bytes), s.Base)
		}
	}
}

func main() {
	if len(os.Args) < 2 {
		h.Die("usage: sig baseline|c27|c28|c29 ...")
	}
	switch os.Args[1] {
	case "baseline":
		baseline()
	case "c27":
		runC27()
	case "c27hist":
		runC27Hist()
	case "geom":
		runGeom()
	case "c28":
		runC28()
	case "c29":
		runC29()
	default:
		h.Die("usage: sig baseline|c27|c28|c29 ...")
	}
}
