// c27: tamper with signed bytes / the signature value / the byte-range values of signed documents, run the real
// validation on every variant and record what it reported. TLC (spec/SigTrace.tla) judges every record.
package main

import (
	"bytes"
	"crypto/sha1"
	"crypto/sha256"
	"crypto/sha512"
	"encoding/hex"
	"encoding/json"
	"fmt"
	"math/rand"
	"sort"
	"strings"
	"sync"
	"time"

	"github.com/pdfcpu/pdfcpu/pkg/pdfcpu/pkcs7"
	"verif/harness/lib/h"
)

// edit is one member of the /Contents and /ByteRange edit families enumerated by TLC (spec/SigEdits.tla).
type edit struct {
	Family string `json:"family"` // hexval | hexcase | brval
	Region string `json:"region"` // sigvalue | digest | other | pad   (hex families)
	Pos    int    `json:"pos"`    // position step inside the region (0..steps-1)
	Steps  int    `json:"steps"`
	Delta  int    `json:"delta"` // hexval: new digit = old + delta mod 16; brval: value shift
	Idx    int    `json:"idx"`   // brval: 1..4
}

type rec27 struct {
	ID      int    `json:"id"`
	Doc     string `json:"doc"`
	Synth   bool   `json:"synth"`
	Sig     string `json:"sig"`
	Kind    string `json:"kind"` // intact | probe | flip | hexval | hexcase | brval
	Off     int    `json:"off"`
	Bit     int    `json:"bit"`
	Region  string `json:"region"`
	Delta   int    `json:"delta"`
	A       int    `json:"a"`
	B       int    `json:"b"`
	C       int    `json:"c"`
	D       int    `json:"d"`
	F       int    `json:"f"`
	GapLo   int    `json:"gaplo"`
	GapHi   int    `json:"gaphi"`
	Status  string `json:"status"`
	Reason  string `json:"reason"`
	DocMod  string `json:"docmod"`
	BStatus string `json:"bstatus"`
	BReason string `json:"breason"`
	BDocMod string `json:"bdocmod"`
}

type span struct{ lo, hi int } // byte indexes into the decoded /Contents value

// hexMap decodes the hex string at [gapLo,gapHi) and returns the value bytes plus, per value byte, the file offsets of
// its two hex digits.
func hexMap(b []byte, gapLo, gapHi int) ([]byte, [][2]int) {
	var val []byte
	var pos [][2]int
	var digs []int
	for i := gapLo + 1; i < gapHi-1; i++ {
		c := b[i]
		if (c >= '0' && c <= '9') || (c >= 'a' && c <= 'f') || (c >= 'A' && c <= 'F') {
			digs = append(digs, i)
		}
	}
	for i := 0; i+1 < len(digs); i += 2 {
		v, err := hex.DecodeString(string([]byte{b[digs[i]], b[digs[i+1]]}))
		if err != nil {
			break
		}
		val = append(val, v[0])
		pos = append(pos, [2]int{digs[i], digs[i+1]})
	}
	return val, pos
}

// derTotal returns the length of the first DER/BER TLV (definite length only; 0 if it cannot be determined).
func derTotal(v []byte) int {
	if len(v) < 2 {
		return 0
	}
	l := int(v[1])
	if l < 0x80 {
		return 2 + l
	}
	n := l & 0x7f
	if n == 0 || n > 4 || len(v) < 2+n {
		return 0
	}
	x := 0
	for i := 0; i < n; i++ {
		x = x<<8 | int(v[2+i])
	}
	if 2+n+x > len(v) {
		return 0
	}
	return 2 + n + x
}

func signedBytes(b []byte, br [4]int) []byte {
	var s []byte
	if br[0]+br[1] <= len(b) && br[2]+br[3] <= len(b) {
		s = append(s, b[br[0]:br[0]+br[1]]...)
		s = append(s, b[br[2]:br[2]+br[3]]...)
	}
	return s
}

// regions locates, inside the decoded signature value, the parts that are cryptographically bound: the signature
// octets and the document digest; "other" is the rest of the DER object, "pad" what follows the DER object.
func regions(d *doc, s sigInfo, val []byte) map[string][]span {
	out := map[string][]span{}
	total := derTotal(val)
	if total == 0 {
		return out
	}
	if total < len(val) {
		out["pad"] = []span{{total, len(val)}}
	}
	der := val[:total]
	var bound []span
	if s.SubFilter == "adbe.x509.rsa_sha1" {
		hdr := 2
		if der[1] >= 0x80 {
			hdr = 2 + int(der[1]&0x7f)
		}
		out["sigvalue"] = []span{{hdr, total}}
		bound = out["sigvalue"]
	} else if p7, err := pkcs7.Parse(der); err == nil && len(p7.Signers) > 0 {
		ed := p7.Signers[0].EncryptedDigest
		if i := bytes.Index(der, ed); i >= 0 && len(ed) >= 32 {
			out["sigvalue"] = []span{{i, i + len(ed)}}
			bound = append(bound, out["sigvalue"]...)
		}
		data := signedBytes(d.Bytes, s.BR)
		h1 := sha1.Sum(data)
		h2 := sha256.Sum256(data)
		h3 := sha512.Sum384(data)
		h4 := sha512.Sum512(data)
		for _, dg := range [][]byte{h1[:], h2[:], h3[:], h4[:]} {
			if i := bytes.Index(der, dg); i >= 0 {
				out["digest"] = []span{{i, i + len(dg)}}
				bound = append(bound, out["digest"]...)
				break
			}
		}
	}
	sort.Slice(bound, func(i, j int) bool { return bound[i].lo < bound[j].lo })
	cur := 0
	for _, sp := range bound {
		if sp.lo > cur {
			out["other"] = append(out["other"], span{cur, sp.lo})
		}
		cur = sp.hi
	}
	if cur < total {
		out["other"] = append(out["other"], span{cur, total})
	}
	return out
}

func spanLen(ss []span) int {
	n := 0
	for _, s := range ss {
		n += s.hi - s.lo
	}
	return n
}

func spanAt(ss []span, k int) int {
	for _, s := range ss {
		if k < s.hi-s.lo {
			return s.lo + k
		}
		k -= s.hi - s.lo
	}
	return -1
}

const hexDigits = "0123456789ABCDEF"

type job struct {
	rec  rec27
	doc  *doc
	make func() []byte // the tampered file (nil: intact)
}

func runC27() {
	out := h.Arg("--out")
	thorough := h.Arg("--tier") == "thorough"
	seed := int64(h.ArgInt("--seed", 1))
	workers := h.ArgInt("--workers", 8)
	nflip := h.ArgInt("--flips", 60)              // quick: random covered offsets per signature
	maxExh := h.ArgInt("--exhaustive", 61440)     // thorough: files up to this size get every covered offset
	cpuBudget := float64(h.ArgInt("--cpu", 2400)) // thorough: CPU seconds for stride-sampled (large) documents
	maxStride := h.ArgInt("--maxstride", 12000)   // thorough: at most this many offsets per signature of a large document
	var edits []edit
	if err := h.EachLine(h.Arg("--edits"), func(l []byte) error {
		var e edit
		if err := json.Unmarshal(l, &e); err != nil {
			return err
		}
		edits = append(edits, e)
		return nil
	}); err != nil {
		h.Die("edits: %v", err)
	}
	e := newEnv()
	defer e.close()
	docs := append(e.sampleDocs(), e.synthDocs()...)
	rng := rand.New(rand.NewSource(seed))

	var jobs []job
	skipped := map[string]int{}
	add := func(d *doc, s sigInfo, r rec27, mk func() []byte) {
		r.ID = len(jobs) + 1
		r.Doc, r.Synth, r.Sig = d.ID, d.Synth, s.Key
		r.A, r.B, r.C, r.D = s.BR[0], s.BR[1], s.BR[2], s.BR[3]
		r.F, r.GapLo, r.GapHi = len(d.Bytes), s.GapLo, s.GapHi
		r.BStatus, r.BReason, r.BDocMod = s.Base.Status, s.Base.Reason, s.Base.DocMod
		if r.Region == "" {
			r.Region = "none"
		}
		jobs = append(jobs, job{rec: r, doc: d, make: mk})
	}
	flipJob := func(d *doc, off, bit int) func() []byte {
		return func() []byte {
			b := append([]byte(nil), d.Bytes...)
			b[off] ^= 1 << uint(bit)
			return b
		}
	}
	// measure the cost of one validation per document (for the stride of large documents)
	cost := map[string]float64{}
	for _, d := range docs {
		t := time.Now()
		e.validate(d.Bytes, d.Synth)
		cost[d.ID] = time.Since(t).Seconds()
	}
	nLarge := 0
	for _, d := range docs {
		if len(d.Bytes) > maxExh {
			nLarge += len(d.Sigs)
		}
	}
	for _, d := range docs {
		for _, s := range d.Sigs {
			if s.GapLo < 0 {
				skipped["no-contents:"+d.ID]++
				continue
			}
			add(d, s, rec27{Kind: "intact", Off: 0}, nil)
			e1, e2 := s.BR[0]+s.BR[1], s.BR[2]+s.BR[3]
			covered := func(k int) int { // k-th covered byte
				if k < s.BR[1] {
					return s.BR[0] + k
				}
				return s.BR[2] + (k - s.BR[1])
			}
			ncov := s.BR[1] + s.BR[3]
			if e2 > len(d.Bytes) || e1 > len(d.Bytes) || ncov == 0 {
				skipped["bad-range:"+d.ID]++
				continue
			}
			// probes first: they establish (in the spec) whether this signature reacts to tampering at all
			for i := 1; i <= 6; i++ {
				add(d, s, rec27{Kind: "probe", Off: covered(ncov * i / 7), Bit: rng.Intn(8)}, nil)
				j := &jobs[len(jobs)-1]
				j.make = flipJob(d, j.rec.Off, j.rec.Bit)
			}
			seen := map[int]bool{}
			addFlip := func(off int) {
				if off < 0 || off >= len(d.Bytes) || seen[off] {
					return
				}
				seen[off] = true
				bit := rng.Intn(8)
				add(d, s, rec27{Kind: "flip", Off: off, Bit: bit}, flipJob(d, off, bit))
			}
			// structure boundaries of the ranges
			for _, o := range []int{s.BR[0], s.BR[0] + 1, e1 - 2, e1 - 1, s.BR[2], s.BR[2] + 1, e2 - 2, e2 - 1} {
				if (o >= s.BR[0] && o < e1) || (o >= s.BR[2] && o < e2) {
					addFlip(o)
				}
			}
			// the text of this signature's own /ByteRange and the bytes around /Contents
			for _, o := range []int{s.BRPos - 1, s.BRPos + s.BRLen, s.GapLo - 1, s.GapHi} {
				if (o >= s.BR[0] && o < e1) || (o >= s.BR[2] && o < e2) {
					addFlip(o)
				}
			}
			switch {
			case !thorough:
				for i := 0; i < nflip; i++ {
					addFlip(covered(rng.Intn(ncov)))
				}
			case len(d.Bytes) <= maxExh:
				for k := 0; k < ncov; k++ {
					addFlip(covered(k))
				}
			default:
				n := int(cpuBudget / float64(nLarge) / (cost[d.ID] + 0.002))
				if n > maxStride {
					n = maxStride
				}
				if n > ncov {
					n = ncov
				}
				if n < 200 {
					n = 200
				}
				stride := float64(ncov) / float64(n)
				ph := rng.Float64() * stride
				for k := 0; k < n; k++ {
					addFlip(covered(int(ph+float64(k)*stride) % ncov))
				}
			}
			// a few offsets outside the signed ranges (no expectation: class gap / beyond)
			for i := 0; i < 3; i++ {
				if s.GapHi-s.GapLo > 4 {
					addFlip(s.GapLo + 1 + rng.Intn(s.GapHi-s.GapLo-2))
				}
				if e2 < len(d.Bytes) {
					addFlip(e2 + rng.Intn(len(d.Bytes)-e2))
				}
			}
			// edit families from TLC
			val, pos := hexMap(d.Bytes, s.GapLo, s.GapHi)
			regs := regions(d, s, val)
			for _, ed := range edits {
				ed := ed
				switch ed.Family {
				case "hexval", "hexcase":
					ss := regs[ed.Region]
					n := spanLen(ss)
					if n == 0 {
						skipped[ed.Family+":no-region-"+ed.Region]++
						continue
					}
					k := spanAt(ss, (n*ed.Pos)/ed.Steps)
					nib := ed.Pos % 2
					if ed.Family == "hexval" {
						off := pos[k][nib]
						old := strings.IndexByte(hexDigits, strings.ToUpper(string(d.Bytes[off]))[0])
						nd := hexDigits[(old+ed.Delta)%16]
						if d.Bytes[off] >= 'a' && d.Bytes[off] <= 'f' || (bytes.ContainsAny(d.Bytes[s.GapLo:s.GapHi], "abcdef") && !bytes.ContainsAny(d.Bytes[s.GapLo:s.GapHi], "ABCDEF")) {
							nd = strings.ToLower(string(nd))[0]
						}
						if ed.Region == "pad" && (nd == '0' || d.Bytes[off] != '0') {
							// the pad family is "a non-zero digit replaces a padding zero"
							skipped["hexval:pad-not-zero-to-nonzero"]++
							continue
						}
						add(d, s, rec27{Kind: "hexval", Off: off, Region: ed.Region, Delta: ed.Delta}, func() []byte {
							b := append([]byte(nil), d.Bytes...)
							b[off] = nd
							return b
						})
					} else {
						// toggle the case of the first hex letter at or after the chosen value byte
						off := -1
						end := ss[len(ss)-1].hi
						for kk := k; kk < end && kk < len(pos) && off < 0; kk++ {
							for _, o := range pos[kk] {
								c := d.Bytes[o]
								if (c >= 'a' && c <= 'f') || (c >= 'A' && c <= 'F') {
									off = o
									break
								}
							}
						}
						if off < 0 {
							skipped["hexcase:no-letter-"+ed.Region]++
							continue
						}
						add(d, s, rec27{Kind: "hexcase", Off: off, Region: ed.Region}, func() []byte {
							b := append([]byte(nil), d.Bytes...)
							b[off] ^= 0x20
							return b
						})
					}
				case "brval":
					tok := s.BRTok[ed.Idx-1]
					old := s.BR[ed.Idx-1]
					nv := old + ed.Delta
					txt := fmt.Sprintf("%d", nv)
					if nv < 0 || len(txt) != tok[1]-tok[0] {
						skipped["brval:digit-count"]++
						continue
					}
					add(d, s, rec27{Kind: "brval", Off: tok[0], Region: fmt.Sprintf("br%d", ed.Idx), Delta: ed.Delta}, func() []byte {
						b := append([]byte(nil), d.Bytes...)
						copy(b[tok[0]:tok[1]], txt)
						return b
					})
				}
			}
		}
	}

	// execute
	res := make([]rec27, len(jobs))
	var mu sync.Mutex
	t0 := time.Now()
	parallel(len(jobs), workers, func(i int) {
		j := jobs[i]
		b := j.doc.Bytes
		if j.make != nil {
			b = j.make()
		}
		v := e.verdictFor(b, j.doc.Synth, j.rec.Sig)
		r := j.rec
		r.Status, r.Reason, r.DocMod = v.Status, v.Reason, v.DocMod
		mu.Lock()
		res[i] = r
		mu.Unlock()
	})
	w := h.NewW(out)
	kinds := map[string]int{}
	for _, r := range res {
		w.Put(r)
		kinds[r.Kind]++
	}
	w.Close()
	var info []map[string]any
	for _, d := range docs {
		for _, s := range d.Sigs {
			info = append(info, map[string]any{"doc": d.ID, "sig": s.Key, "subfilter": s.SubFilter, "size": len(d.Bytes),
				"covered": s.BR[1] + s.BR[3], "exhaustive": thorough && len(d.Bytes) <= maxExh,
				"base": s.Base, "validate_ms": int(cost[d.ID] * 1000)})
		}
	}
	h.Summary(map[string]any{"records": len(res), "kinds": kinds, "skipped": skipped, "docs": info,
		"exec_s": time.Since(t0).Seconds(), "edits": len(edits)})
}
