// c29: build the document structures enumerated by TLC (spec/SigRemove.tla) with the raw emitter, run the real
// api.RemoveSignaturesFile inside the recording sandbox, re-read the output with pdfcpu and compare its object graph with
// the post-state predicted by the model. The real signed samples are run through the same comparison.
package main

import (
	"encoding/json"
	"errors"
	"fmt"
	"os"
	"sort"
	"strings"
	"sync"
	"time"

	"github.com/pdfcpu/pdfcpu/pkg/api"
	"github.com/pdfcpu/pdfcpu/pkg/pdfcpu/model"
	"github.com/pdfcpu/pdfcpu/pkg/pdfcpu/types"
	"verif/harness/lib/fsx"
	"verif/harness/lib/h"
	"verif/harness/lib/proj"
	"verif/harness/lib/rawpdf"
)

type entry29 struct {
	Sh   string `json:"sh"`
	P    int    `json:"p"`
	Q    int    `json:"q"`
	V    bool   `json:"v"`
	HasP bool   `json:"hasP"`
	Tx   bool   `json:"tx"`
}

type case29 struct {
	NP         int        `json:"np"`
	Fields     []entry29  `json:"fields"`
	Perms      []string   `json:"perms"`
	Oth        string     `json:"oth"`    // name of the configuration of other annotations
	Others     []other29  `json:"others"` // the other annotations: page + "subtype:id" (id i..: indirect object, d..: direct dictionary)
	Ind        []string   `json:"ind"`    // entries stored as indirect objects: perms | acro | fields | kids
	SF         int        `json:"sf"`     // /SigFlags of a document without signature fields (-1: absent)
	Outcome    string     `json:"outcome"`
	SigFields  []string   `json:"sigfields"`
	KeepFields []string   `json:"keepfields"`
	KeepAnnots [][]string `json:"keepannots"`
}

type other29 struct {
	Pg   int    `json:"pg"`
	Name string `json:"name"`
}

type mism29 struct {
	Key  string `json:"key"`
	What string `json:"what"`
	Case any    `json:"case"`
	Got  any    `json:"got"`
}

const placeholderSig = "/Filter /Adobe.PPKLite /SubFilter /adbe.pkcs7.detached /ByteRange [0 10 20 10] /Contents <3003020100> /M (D:20260101000000Z)"

func (c case29) indirect(what string) bool {
	for _, x := range c.Ind {
		if x == what {
			return true
		}
	}
	return false
}

// build29 emits the document of a case.
func build29(c case29) []byte {
	ps := make([]rawpdf.PageSpec, c.NP)
	for i := range ps {
		ps[i] = rawpdf.PageSpec{Marker: fmt.Sprintf("R-%d", i+1), Rotate: -1}
	}
	d := rawpdf.MarkerDoc(ps, rawpdf.MarkerOpts{})
	const font = 2
	page := func(p int) int { return 5 + 2*(p-1) }
	annots := make([][]int, c.NP+1)
	var top []int
	firstSigDict := 0
	hasSig := false
	rect := func(i, k int) string { return fmt.Sprintf("[%d %d %d %d]", 20+70*k, 100+40*i, 80+70*k, 130+40*i) }
	pref := func(e entry29, p int) string {
		if e.HasP {
			return fmt.Sprintf(" /P %d 0 R", page(p))
		}
		return ""
	}
	kidsArr := func(refs string) string { // "[a 0 R b 0 R]" inline or as an object of its own
		if c.indirect("kids") {
			return fmt.Sprintf("%d 0 R", d.Add("["+refs+"]"))
		}
		return "[" + refs + "]"
	}
	sigDict := func(e entry29) string {
		if !e.V {
			return ""
		}
		n := d.Add("<< /Type /Sig " + placeholderSig + " >>")
		if firstSigDict == 0 {
			firstSigDict = n
		}
		return fmt.Sprintf(" /V %d 0 R", n)
	}
	for idx, e := range c.Fields {
		i := idx + 1
		if e.Sh != "tx" {
			hasSig = true
		}
		switch e.Sh {
		case "sigM":
			n := d.Add(fmt.Sprintf("<< /Type /Annot /Subtype /Widget /FT /Sig /T (s%d) /Rect %s /F 4%s%s >>", i, rect(i, 0), pref(e, e.P), sigDict(e)))
			annots[e.P] = append(annots[e.P], n)
			top = append(top, n)
		case "sigK", "sigK2":
			f := d.Reserve()
			pgs := []int{e.P}
			if e.Sh == "sigK2" {
				pgs = []int{e.P, e.Q}
			}
			var kids []string
			for k, p := range pgs {
				w := d.Add(fmt.Sprintf("<< /Type /Annot /Subtype /Widget /Parent %d 0 R /Rect %s /F 4%s >>", f, rect(i, k), pref(e, p)))
				annots[p] = append(annots[p], w)
				kids = append(kids, fmt.Sprintf("%d 0 R", w))
			}
			d.Set(f, fmt.Sprintf("<< /FT /Sig /T (s%d)%s /Kids %s >>", i, sigDict(e), kidsArr(strings.Join(kids, " "))))
			top = append(top, f)
		case "grp":
			g := d.Reserve()
			s := d.Add(fmt.Sprintf("<< /Type /Annot /Subtype /Widget /Parent %d 0 R /FT /Sig /T (s) /Rect %s /F 4%s%s >>", g, rect(i, 0), pref(e, e.P), sigDict(e)))
			annots[e.P] = append(annots[e.P], s)
			kids := fmt.Sprintf("%d 0 R", s)
			if e.Tx {
				t := d.Add(fmt.Sprintf("<< /Type /Annot /Subtype /Widget /Parent %d 0 R /FT /Tx /T (t) /Rect %s /F 4 /P %d 0 R /DA (/Helv 10 Tf 0 g) >>", g, rect(i, 1), page(e.P)))
				annots[e.P] = append(annots[e.P], t)
				kids += fmt.Sprintf(" %d 0 R", t)
			}
			d.Set(g, fmt.Sprintf("<< /T (g%d) /Kids %s >>", i, kidsArr(kids)))
			top = append(top, g)
		case "grp3":
			g := d.Reserve()
			hh := d.Reserve()
			s := d.Add(fmt.Sprintf("<< /Type /Annot /Subtype /Widget /Parent %d 0 R /FT /Sig /T (s) /Rect %s /F 4%s%s >>", hh, rect(i, 0), pref(e, e.P), sigDict(e)))
			annots[e.P] = append(annots[e.P], s)
			d.Set(hh, fmt.Sprintf("<< /Parent %d 0 R /T (h) /Kids %s >>", g, kidsArr(fmt.Sprintf("%d 0 R", s))))
			d.Set(g, fmt.Sprintf("<< /T (g%d) /Kids %s >>", i, kidsArr(fmt.Sprintf("%d 0 R", hh))))
			top = append(top, g)
		case "grpFT":
			g := d.Reserve()
			s := d.Add(fmt.Sprintf("<< /Type /Annot /Subtype /Widget /Parent %d 0 R /T (s) /Rect %s /F 4%s%s >>", g, rect(i, 0), pref(e, e.P), sigDict(e)))
			annots[e.P] = append(annots[e.P], s)
			d.Set(g, fmt.Sprintf("<< /FT /Sig /T (g%d) /Kids %s >>", i, kidsArr(fmt.Sprintf("%d 0 R", s))))
			top = append(top, g)
		case "tx":
			n := d.Add(fmt.Sprintf("<< /Type /Annot /Subtype /Widget /FT /Tx /T (t%d) /Rect %s /F 4 /P %d 0 R /DA (/Helv 10 Tf 0 g) >>", i, rect(i, 0), page(e.P)))
			annots[e.P] = append(annots[e.P], n)
			top = append(top, n)
		}
	}
	// other annotations: direct dictionaries go in front of the widgets, indirect ones behind them
	front := make([][]string, c.NP+1)
	back := make([][]string, c.NP+1)
	for k, o := range c.Others {
		parts := strings.SplitN(o.Name, ":", 2)
		if len(parts) != 2 || o.Pg < 1 || o.Pg > c.NP {
			h.Die("bad other annotation %+v", o)
		}
		r := fmt.Sprintf("[%d %d %d %d]", 300, 300+30*k, 360, 320+30*k)
		body := ""
		switch parts[0] {
		case "link":
			body = fmt.Sprintf("<< /Type /Annot /Subtype /Link /NM (%s) /Rect %s /Border [0 0 0] /A << /S /URI /URI (http://example.com/) >> >>", parts[1], r)
		case "text":
			body = fmt.Sprintf("<< /Type /Annot /Subtype /Text /NM (%s) /Rect %s /Contents (note %s) >>", parts[1], r, parts[1])
		default:
			h.Die("unknown annotation subtype %s", parts[0])
		}
		if strings.HasPrefix(parts[1], "i") {
			back[o.Pg] = append(back[o.Pg], fmt.Sprintf("%d 0 R", d.Add(body)))
		} else {
			front[o.Pg] = append(front[o.Pg], body)
		}
	}
	for p := 1; p <= c.NP; p++ {
		refs := append([]string{}, front[p]...)
		for _, n := range annots[p] {
			refs = append(refs, fmt.Sprintf("%d 0 R", n))
		}
		refs = append(refs, back[p]...)
		if len(refs) == 0 {
			continue
		}
		d.Set(page(p), strings.TrimSuffix(d.Objs[page(p)-1], " >>")+" /Annots ["+strings.Join(refs, " ")+"] >>")
	}
	extra := ""
	if len(top) > 0 || c.SF >= 0 {
		var refs []string
		for _, n := range top {
			refs = append(refs, fmt.Sprintf("%d 0 R", n))
		}
		sf := ""
		if hasSig {
			sf = " /SigFlags 3"
		} else if c.SF >= 0 {
			sf = fmt.Sprintf(" /SigFlags %d", c.SF) // stale flag of a document without signature fields
		}
		farr := "[" + strings.Join(refs, " ") + "]"
		if c.indirect("fields") {
			farr = fmt.Sprintf("%d 0 R", d.Add(farr))
		}
		af := fmt.Sprintf("<< /Fields %s%s /DA (/Helv 10 Tf 0 g) /DR << /Font << /Helv %d 0 R >> >> >>", farr, sf, font)
		if c.indirect("acro") {
			af = fmt.Sprintf("%d 0 R", d.Add(af))
		}
		extra += " /AcroForm " + af
	}
	if len(c.Perms) > 0 {
		var pe []string
		for _, p := range c.Perms {
			switch p {
			case "DocMDP":
				// certification: the reference dictionary lives in the signature dictionary of the first signed field
				sd := d.Objs[firstSigDict-1]
				d.Set(firstSigDict, strings.TrimSuffix(sd, " >>")+" /Reference [<< /Type /SigRef /TransformMethod /DocMDP /TransformParams << /Type /TransformParams /P 2 /V /1.2 >> >>] >>")
				pe = append(pe, fmt.Sprintf("/DocMDP %d 0 R", firstSigDict))
			case "UR3":
				n := d.Add("<< /Type /Sig " + placeholderSig + " /Reference [<< /Type /SigRef /TransformMethod /UR3 /TransformParams << /Type /TransformParams /V /2.2 /Document [/FullSave] >> >>] >>")
				pe = append(pe, fmt.Sprintf("/UR3 %d 0 R", n))
			}
		}
		pd := "<< " + strings.Join(pe, " ") + " >>"
		if c.indirect("perms") {
			pd = fmt.Sprintf("%d 0 R", d.Add(pd))
		}
		extra += " /Perms " + pd
	}
	d.Set(d.Root, strings.TrimSuffix(d.Objs[d.Root-1], " >>")+extra+" >>")
	return d.Bytes()
}

// post29 is the projection of a document onto what the model talks about.
type post29 struct {
	Pages      []string   `json:"pages"`      // marker (or content digest) per page
	Perms      bool       `json:"perms"`      // catalog has /Perms
	SigFlags   bool       `json:"sigflags"`   // AcroForm has /SigFlags
	SigDicts   int        `json:"sigdicts"`   // dictionaries with /ByteRange or /Type /Sig|/DocTimeStamp|/SigRef in the file
	SigFields  []string   `json:"sigfields"`  // terminal fields of type Sig in the field tree
	Fields     []string   `json:"fields"`     // other terminal fields
	SigWidgets [][]string `json:"sigwidgets"` // per page: widgets of signature fields
	Annots     [][]string `json:"annots"`     // per page: all other annotations (field name or subtype)
}

func nameOf(ctx *model.Context, d types.Dict) (string, string) { // qualified name, field type (own or inherited)
	var parts []string
	ft := ""
	seen := 0
	for cur := d; cur != nil && seen < 16; seen++ {
		if sl := cur.StringLiteralEntry("T"); sl != nil {
			parts = append([]string{sl.Value()}, parts...)
		} else if hl := cur.HexLiteralEntry("T"); hl != nil {
			parts = append([]string{hl.Value()}, parts...)
		}
		if ft == "" {
			if n := cur.NameEntry("FT"); n != nil {
				ft = *n
			}
		}
		pr := cur.IndirectRefEntry("Parent")
		if pr == nil {
			break
		}
		nd, err := ctx.DereferenceDict(*pr)
		if err != nil {
			break
		}
		cur = nd
	}
	return strings.Join(parts, "."), ft
}

func project29(path string, pageDigest bool) (*post29, error) {
	ctx, err := proj.Context(path, nil)
	if err != nil {
		return nil, err
	}
	p := &post29{SigFields: []string{}, Fields: []string{}}
	pgs, err := proj.PagesOf(ctx)
	if err != nil {
		return nil, err
	}
	for _, pg := range pgs {
		if pageDigest {
			p.Pages = append(p.Pages, fmt.Sprintf("%v|%d|%v|%x", pg.Markers, pg.Rot, pg.Media, len(proj.NormContent(pg.Content))))
		} else {
			p.Pages = append(p.Pages, pg.Marker)
		}
	}
	root, err := ctx.Catalog()
	if err != nil {
		return nil, err
	}
	_, p.Perms = root.Find("Perms")
	if o, ok := root.Find("AcroForm"); ok {
		af, err := ctx.DereferenceDict(o)
		if err == nil && af != nil {
			_, p.SigFlags = af.Find("SigFlags")
			var walk func(o types.Object, depth int)
			walk = func(o types.Object, depth int) {
				fd, err := ctx.DereferenceDict(o)
				if err != nil || fd == nil || depth > 8 {
					return
				}
				kids := fd.ArrayEntry("Kids")
				fieldKids := 0
				for _, k := range kids {
					kd, err := ctx.DereferenceDict(k)
					if err == nil && kd != nil {
						if _, ok := kd.Find("T"); ok {
							fieldKids++
						}
					}
				}
				if fieldKids > 0 {
					for _, k := range kids {
						walk(k, depth+1)
					}
					return
				}
				name, ft := nameOf(ctx, fd)
				if ft == "Sig" {
					p.SigFields = append(p.SigFields, name)
				} else {
					p.Fields = append(p.Fields, name)
				}
			}
			if fo, ok := af.Find("Fields"); ok {
				arr, _ := ctx.DereferenceArray(fo)
				for _, f := range arr {
					walk(f, 0)
				}
			}
		}
	}
	for i := 1; i <= ctx.PageCount; i++ {
		sw, an := []string{}, []string{}
		pd, _, _, err := ctx.PageDict(i, false)
		if err == nil && pd != nil {
			if o, ok := pd.Find("Annots"); ok {
				arr, _ := ctx.DereferenceArray(o)
				for _, a := range arr {
					ad, err := ctx.DereferenceDict(a)
					if err != nil || ad == nil {
						continue
					}
					st := ""
					if n := ad.Subtype(); n != nil {
						st = *n
					}
					if st == "Widget" {
						name, ft := nameOf(ctx, ad)
						if ft == "Sig" {
							sw = append(sw, name)
						} else {
							an = append(an, name)
						}
					} else {
						// every other entry of /Annots, indirect reference or direct dictionary: subtype[:name]
						nm := strings.ToLower(st)
						if sl := ad.StringLiteralEntry("NM"); sl != nil {
							nm += ":" + sl.Value()
						}
						an = append(an, nm)
					}
				}
			}
		}
		sort.Strings(sw)
		sort.Strings(an)
		p.SigWidgets = append(p.SigWidgets, sw)
		p.Annots = append(p.Annots, an)
	}
	for _, e := range ctx.Table {
		if e == nil || e.Free || e.Object == nil {
			continue
		}
		var dd types.Dict
		switch o := e.Object.(type) {
		case types.Dict:
			dd = o
		case types.StreamDict:
			dd = o.Dict
		}
		if dd == nil {
			continue
		}
		p.SigDicts += countSigDicts(dd, 0)
	}
	sort.Strings(p.SigFields)
	sort.Strings(p.Fields)
	return p, nil
}

// countSigDicts counts signature dictionaries in d and its direct (non-indirect) descendants.
func countSigDicts(d types.Dict, depth int) int {
	n := 0
	_, br := d.Find("ByteRange")
	t := d.Type()
	if br || (t != nil && (*t == "Sig" || *t == "DocTimeStamp" || *t == "SigRef")) {
		n++
	}
	if depth > 6 {
		return n
	}
	for _, v := range d {
		switch o := v.(type) {
		case types.Dict:
			n += countSigDicts(o, depth+1)
		case types.Array:
			for _, x := range o {
				if xd, ok := x.(types.Dict); ok {
					n += countSigDicts(xd, depth+1)
				}
			}
		}
	}
	return n
}

// annotDiffKind names what differs between the expected and the actual other annotations of a page:
// lost/extra x direct (inline dictionary) / indirect (reference) / widget (of a non-signature field).
func annotDiffKind(want, got []string) string {
	cnt := map[string]int{}
	for _, w := range want {
		cnt[w]++
	}
	for _, g := range got {
		cnt[g]--
	}
	kinds := map[string]bool{}
	for n, k := range cnt {
		if k == 0 {
			continue
		}
		form := "widget"
		if i := strings.Index(n, ":"); i >= 0 && i+1 < len(n) {
			if n[i+1] == 'd' {
				form = "direct"
			} else {
				form = "indirect"
			}
		}
		if k > 0 {
			kinds["lost:"+form] = true
		} else {
			kinds["extra:"+form] = true
		}
	}
	var ks []string
	for k := range kinds {
		ks = append(ks, k)
	}
	sort.Strings(ks)
	return strings.Join(ks, ",")
}

func sortedCopy(s []string) []string {
	o := append([]string{}, s...)
	sort.Strings(o)
	return o
}

func eqS(a, b []string) bool {
	if len(a) != len(b) {
		return false
	}
	for i := range a {
		if a[i] != b[i] {
			return false
		}
	}
	return true
}

// entryKey names the structural cause of one entry (signedness does not matter for removal).
func entryKey(e entry29) string {
	k := e.Sh
	if e.Sh != "tx" {
		if !e.HasP {
			k += ":noP"
		}
		if e.Tx {
			k += ":+tx"
		}
	}
	return k
}

// offenders maps qualified field names found in the output back to the entries they came from.
func offenders(c case29, names []string) []string {
	set := map[string]bool{}
	for _, n := range names {
		first := strings.SplitN(n, ".", 2)[0]
		var i int
		if len(first) > 1 {
			fmt.Sscanf(first[1:], "%d", &i)
		}
		if i >= 1 && i <= len(c.Fields) {
			e := c.Fields[i-1]
			k := entryKey(e)
			// shapes whose removal works with an inline /Kids array get a key of their own when /Kids is an indirect object
			if c.indirect("kids") && (k == "sigK" || k == "grp" || k == "grpFT") {
				k += ":indirectKids"
			}
			set[k] = true
		} else {
			set["?"+n] = true
		}
	}
	var ks []string
	for k := range set {
		ks = append(ks, k)
	}
	sort.Strings(ks)
	return ks
}

func shapeKey(c case29) string {
	var s []string
	for _, e := range c.Fields {
		k := e.Sh
		if e.Sh != "tx" {
			if !e.V {
				k += ":unsigned"
			}
			if !e.HasP {
				k += ":noP"
			}
			if e.Tx {
				k += ":+tx"
			}
		}
		s = append(s, k)
	}
	return strings.Join(s, ",")
}

// removeIn runs the real RemoveSignaturesFile on data inside a fresh sandbox.
// record: arm the os-call recorder and snapshot the directory (needed to judge "writes nothing").
func removeIn(data []byte, record bool) (err error, outExists bool, touchedOut bool, diff []string, outPath string, sb *fsx.Sandbox) {
	sb = fsx.New()
	in := sb.Put("in.pdf", data, 0644)
	out := sb.P("out.pdf")
	conf := model.NewDefaultConfiguration()
	if !record {
		func() {
			defer func() {
				if r := recover(); r != nil {
					err = fmt.Errorf("panic: %v", r)
				}
			}()
			err = api.RemoveSignaturesFile(in, out, conf)
		}()
		_, statErr := os.Stat(out)
		return err, statErr == nil, false, nil, out, sb
	}
	res := sb.Run(fsx.RunCfg{}, func() error { return api.RemoveSignaturesFile(in, out, conf) })
	err = res.Err
	if res.Panicked {
		err = fmt.Errorf("panic: %s", res.PanicVal)
	}
	_, statErr := os.Stat(out)
	outExists = statErr == nil
	// "writes nothing": no byte is ever written to the output name (pdfcpu reserves a new output name with an exclusive
	// create and removes it again on failure; that transient empty file is not counted), and nothing remains afterwards.
	for _, ev := range res.Events {
		if os.Getenv("SIG_DEBUG") != "" {
			fmt.Fprintf(os.Stderr, "  ev %+v\n", ev)
		}
		if (ev.A == "out.pdf" || ev.B == "out.pdf") && (ev.Op == "write" || ev.Op == "writeat" || ev.Op == "readfrom" || ev.Op == "rename") && (ev.W > 0 || ev.Op == "rename") {
			touchedOut = true
		}
	}
	return err, outExists, touchedOut, fsx.Diff(res.Before, res.After), out, sb
}

var sandboxMu sync.Mutex // the os recorder is process-global: one sandboxed run at a time

func runCase29(c case29) []mism29 {
	var ms []mism29
	fail := func(key, what string, got any) {
		ms = append(ms, mism29{Key: key, What: what, Case: c, Got: got})
	}
	data := build29(c)
	if c.Outcome == "nosig" {
		sandboxMu.Lock()
	}
	err, outExists, touched, diff, out, sb := removeIn(data, c.Outcome == "nosig")
	if c.Outcome == "nosig" {
		sandboxMu.Unlock()
	}
	defer sb.Close()
	if keep := os.Getenv("SIG_KEEP"); keep != "" {
		os.WriteFile(keep+"/in.pdf", data, 0644)
		if b, e := os.ReadFile(out); e == nil {
			os.WriteFile(keep+"/out.pdf", b, 0644)
		}
	}
	sk := shapeKey(c)
	permKey := strings.Join(sortedCopy(c.Perms), "+")
	permBase := permKey
	if c.indirect("perms") {
		permKey += ":indirect"
	}
	if c.Outcome == "nosig" {
		if !errors.Is(err, api.ErrNoSignatures) {
			fail("nosig-error", fmt.Sprintf("document without signatures (fields [%s], /SigFlags %d): expected the no-signatures error, got %v", sk, c.SF, err), fmt.Sprint(err))
		}
		if outExists || touched || len(diff) > 0 {
			fail("nosig-wrote", fmt.Sprintf("document without signatures (fields [%s], /SigFlags %d): output written=%v exists=%v, directory changes %v", sk, c.SF, touched, outExists, diff), diff)
		}
		// in place (no output name): the input must stay untouched
		sandboxMu.Lock()
		sb2 := fsx.New()
		in2 := sb2.Put("in.pdf", data, 0644)
		res2 := sb2.Run(fsx.RunCfg{}, func() error { return api.RemoveSignaturesFile(in2, "", model.NewDefaultConfiguration()) })
		sandboxMu.Unlock()
		if !errors.Is(res2.Err, api.ErrNoSignatures) || res2.Panicked {
			fail("nosig-error", fmt.Sprintf("document without signatures (fields [%s], /SigFlags %d, in place): expected the no-signatures error, got %v", sk, c.SF, res2.Err), fmt.Sprint(res2.Err))
		}
		if d2 := fsx.Diff(res2.Before, res2.After); len(d2) > 0 {
			fail("nosig-wrote", fmt.Sprintf("document without signatures (fields [%s], /SigFlags %d, in place): directory changes %v", sk, c.SF, d2), d2)
		}
		sb2.Close()
		return ms
	}
	if err != nil {
		key := "error|" + sk + "|perms=" + permKey
		if errors.Is(err, api.ErrNoSignatures) {
			key = "refused-as-unsigned|no signature field, perms=" + permBase
			if len(c.SigFields) > 0 {
				key = "refused-as-unsigned|" + sk
			}
		}
		fail(key, fmt.Sprintf("removing signatures from a signed document (fields [%s], perms %s) failed: %v", sk, permKey, err), fmt.Sprint(err))
		return ms
	}
	p, perr := project29(out, false)
	if perr != nil {
		fail("unreadable-output|"+sk, fmt.Sprintf("output cannot be read back: %v", perr), fmt.Sprint(perr))
		return ms
	}
	if p.Perms {
		fail("perms-left|"+permKey, "catalog still has /Perms ("+permKey+") after removing signatures", p)
	}
	if p.SigFlags {
		fail("sigflags-left", "AcroForm still has /SigFlags after removing signatures ("+sk+")", p)
	}
	if len(p.SigFields) > 0 {
		for _, o := range offenders(c, p.SigFields) {
			fail("sig-field-left|"+o, fmt.Sprintf("signature fields %v still in the field tree (fields [%s])", p.SigFields, sk), p)
		}
	}
	nw := 0
	var wn []string
	for _, w := range p.SigWidgets {
		nw += len(w)
		wn = append(wn, w...)
	}
	if nw > 0 {
		for _, o := range offenders(c, wn) {
			fail("sig-widget-left|"+o, fmt.Sprintf("widget annotations of signature fields still on pages (and through them %d signature dictionaries): %v (fields [%s])", p.SigDicts, p.SigWidgets, sk), p)
		}
	}
	if p.SigDicts > 0 && nw == 0 && len(p.SigFields) == 0 && !p.Perms {
		fail("sig-dict-left|"+sk, fmt.Sprintf("%d signature dictionaries still in the file (%s, perms %s)", p.SigDicts, sk, permKey), p)
	}
	if !eqS(p.Fields, sortedCopy(c.KeepFields)) {
		var lost []string
		have := map[string]bool{}
		for _, f := range p.Fields {
			have[f] = true
		}
		for _, f := range c.KeepFields {
			if !have[f] {
				lost = append(lost, f)
			}
		}
		k := strings.Join(offenders(c, lost), ",")
		if len(lost) == 0 {
			k = "extra"
		}
		fail("field-lost|"+k, fmt.Sprintf("non-signature fields: expected %v, got %v (fields [%s])", sortedCopy(c.KeepFields), p.Fields, sk), p)
	}
	for i := 0; i < c.NP; i++ {
		var got []string
		if i < len(p.Annots) {
			got = p.Annots[i]
		}
		if !eqS(got, sortedCopy(c.KeepAnnots[i])) {
			fail("annot-changed|"+annotDiffKind(sortedCopy(c.KeepAnnots[i]), got), fmt.Sprintf("page %d: other annotations expected %v, got %v (fields [%s])", i+1, sortedCopy(c.KeepAnnots[i]), got, sk), p)
			break
		}
	}
	want := make([]string, c.NP)
	for i := range want {
		want[i] = fmt.Sprintf("R-%d", i+1)
	}
	if !eqS(p.Pages, want) {
		fail("pages-changed|"+sk, fmt.Sprintf("pages: expected %v, got %v", want, p.Pages), p)
	}
	return ms
}

// sample29 runs a real signed sample: afterwards nothing signature-related, everything else as before.
func sample29(path, id string) []mism29 {
	var ms []mism29
	fail := func(key, what string, got any) {
		ms = append(ms, mism29{Key: key, What: what, Case: map[string]any{"sample": id}, Got: got})
	}
	data, err := os.ReadFile(path)
	if err != nil {
		h.Die("read %s: %v", path, err)
	}
	before, berr := project29(path, true)
	if berr != nil {
		fail("sample-unreadable|"+id, fmt.Sprintf("sample cannot be projected: %v", berr), nil)
		return ms
	}
	rerr, _, _, _, out, sb := removeIn(data, false)
	defer sb.Close()
	if rerr != nil {
		what := "error"
		if errors.Is(rerr, api.ErrNoSignatures) {
			what = "refused-as-unsigned"
		}
		fail(what+"|sample:"+id, fmt.Sprintf("removing signatures from signed sample %s (perms=%v, %d signature dictionaries, signature fields %v) failed: %v",
			id, before.Perms, before.SigDicts, before.SigFields, rerr), fmt.Sprint(rerr))
		return ms
	}
	p, perr := project29(out, true)
	if perr != nil {
		fail("unreadable-output|sample:"+id, fmt.Sprintf("output cannot be read back: %v", perr), nil)
		return ms
	}
	if p.Perms {
		fail("perms-left|sample:"+id, "catalog still has /Perms after removing signatures", p)
	}
	if p.SigFlags {
		fail("sigflags-left|sample:"+id, "AcroForm still has /SigFlags", p)
	}
	if len(p.SigFields) > 0 {
		fail("sig-field-left|sample:"+id, fmt.Sprintf("signature fields %v still in the field tree", p.SigFields), p)
	}
	nw := 0
	for _, w := range p.SigWidgets {
		nw += len(w)
	}
	if nw > 0 {
		fail("sig-widget-left|sample:"+id, fmt.Sprintf("widgets of signature fields still on pages: %v", p.SigWidgets), p)
	}
	if p.SigDicts > 0 && nw == 0 && len(p.SigFields) == 0 && !p.Perms {
		fail("sig-dict-left|sample:"+id, fmt.Sprintf("%d signature dictionaries still in the file", p.SigDicts), p)
	}
	if !eqS(p.Fields, before.Fields) {
		fail("field-lost|sample:"+id, fmt.Sprintf("non-signature fields: before %v, after %v", before.Fields, p.Fields), p)
	}
	if !eqS(p.Pages, before.Pages) {
		fail("pages-changed|sample:"+id, fmt.Sprintf("pages differ: before %v, after %v", before.Pages, p.Pages), p)
	}
	for i := range before.Annots {
		var got []string
		if i < len(p.Annots) {
			got = p.Annots[i]
		}
		if !eqS(got, before.Annots[i]) {
			fail("annot-changed|sample:"+id, fmt.Sprintf("page %d: other annotations before %v, after %v", i+1, before.Annots[i], got), p)
			break
		}
	}
	return ms
}

func runC29() {
	api.DisableConfigDir()
	var cases []case29
	if err := h.EachLine(h.Arg("--cases"), func(l []byte) error {
		var c case29
		if err := json.Unmarshal(l, &c); err != nil {
			return err
		}
		cases = append(cases, c)
		return nil
	}); err != nil {
		h.Die("cases: %v", err)
	}
	t0 := time.Now()
	w := h.NewW(h.Arg("--out"))
	bad, nosig, nontrivial := 0, 0, map[string]bool{}
	perKey := map[string]int{}
	put := func(ms []mism29) {
		for _, m := range ms {
			bad++
			perKey[m.Key]++
			if perKey[m.Key] <= 2 {
				w.Put(m)
			}
		}
	}
	shard, of := h.ArgInt("--shard", 0), h.ArgInt("--of", 1)
	done := 0
	for ci, c := range cases {
		if ci%of != shard {
			continue
		}
		done++
		if c.Outcome == "nosig" {
			nosig++
		} else {
			fj, _ := json.Marshal(c.Fields)
			nontrivial[string(fj)+"|"+strings.Join(sortedCopy(c.Perms), "+")+fmt.Sprint(c.Oth, c.NP, sortedCopy(c.Ind), c.SF)] = true
		}
		put(runCase29(c))
	}
	// real samples
	ns := 0
	if h.Arg("--samples") != "no" && shard == 0 {
		files := sampleFiles()
		for _, f := range files {
			ns++
			put(sample29(f[0], f[1]))
		}
	}
	w.Close()
	h.Summary(map[string]any{"cases": done, "samples": ns, "mismatches": bad, "nosig_cases": nosig,
		"nontrivial": len(nontrivial), "keys": perKey, "exec_s": time.Since(t0).Seconds()})
}
