// c27hist: execute the validation histories enumerated by TLC (spec/SigHist.tla): the files of a history are validated
// consecutively, in this one process, through the real api.ValidateSignaturesRaw; one record per step. TLC
// (spec/SigHistTrace.tla) judges every verdict on its own.
package main

import (
	"bytes"
	"encoding/json"
	"time"

	"verif/harness/lib/h"
)

type hist27 struct {
	Kind     string   `json:"kind"`
	Size     string   `json:"size"`
	Steps    []string `json:"steps"`
	MayClaim []bool   `json:"mayclaim"`
}

type histRec struct {
	HID      int    `json:"hid"`
	Idx      int    `json:"idx"`
	Kind     string `json:"kind"`
	Size     string `json:"size"`
	Step     string `json:"step"`
	Prev     string `json:"prev"` // the file this process validated immediately before (possibly the end of the previous history)
	Tampered bool   `json:"tampered"`
	MayClaim bool   `json:"mayclaim"`
	Off      int    `json:"off"`
	A        int    `json:"a"`
	B        int    `json:"b"`
	C        int    `json:"c"`
	D        int    `json:"d"`
	F        int    `json:"f"`
	GapLo    int    `json:"gaplo"`
	GapHi    int    `json:"gaphi"`
	Status   string `json:"status"`
	Reason   string `json:"reason"`
	DocMod   string `json:"docmod"`
}

// padFor: the size classes of the signed ranges. "large" is above 1 MiB.
func padFor(size string) int {
	if size == "large" {
		return 1<<20 + 200000
	}
	return 0
}

type fixture struct {
	docs map[string]*doc // "A", "B"
	off  map[string]int  // "1": an offset inside the first signed range, "2": inside the second
}

func (e *env) fixture(kind, size string) *fixture {
	fx := &fixture{docs: map[string]*doc{}, off: map[string]int{}}
	for _, v := range []string{"A", "B"} {
		b, _, err := e.pki.signOpts(kind, 1, "", rangeSpec{}, docOpts{Variant: v, Pad: padFor(size)})
		if err != nil {
			h.Die("sign %s/%s/%s: %v", kind, size, v, err)
		}
		d := &doc{ID: "hist/" + kind + "/" + size + "/" + v, Synth: true, Kind: kind, Bytes: b}
		if err := e.describe(d); err != nil || len(d.Sigs) != 1 {
			h.Die("describe %s: %v (%d signatures)", d.ID, err, len(d.Sigs))
		}
		fx.docs[v] = d
	}
	a, b := fx.docs["A"], fx.docs["B"]
	if len(a.Bytes) != len(b.Bytes) || a.Sigs[0].BR != b.Sigs[0].BR {
		h.Die("%s/%s: documents A and B differ in geometry", kind, size)
	}
	s := a.Sigs[0]
	// a byte of the first range that does not disturb the structure: inside the padding stream if there is one,
	// else inside the page text; of the second range: the generation number of the free xref entry
	if p := bytes.Index(a.Bytes, []byte("/Type /VerifPad")); p >= 0 {
		fx.off["1"] = p + 200 + padFor(size)/2
	} else {
		fx.off["1"] = bytes.Index(a.Bytes, []byte(" Td (")) + 7
	}
	q := bytes.Index(a.Bytes[s.BR[2]:], []byte(" 65535 f"))
	if q < 0 {
		h.Die("no free xref entry behind the signature")
	}
	fx.off["2"] = s.BR[2] + q + 2
	return fx
}

func runC27Hist() {
	var cases []hist27
	if err := h.EachLine(h.Arg("--cases"), func(l []byte) error {
		var c hist27
		if err := json.Unmarshal(l, &c); err != nil {
			return err
		}
		cases = append(cases, c)
		return nil
	}); err != nil {
		h.Die("cases: %v", err)
	}
	e := newEnv()
	defer e.close()
	fxs := map[string]*fixture{}
	w := h.NewW(h.Arg("--out"))
	t0 := time.Now()
	steps, tampered, large := 0, 0, 0
	prev := "nothing"
	for hid, c := range cases {
		k := c.Kind + "/" + c.Size
		fx := fxs[k]
		if fx == nil {
			fx = e.fixture(c.Kind, c.Size)
			fxs[k] = fx
		}
		// the steps of one history are consecutive validations in this process (no other validation in between)
		for i, st := range c.Steps {
			if len(st) < 2 {
				h.Die("bad step %q", st)
			}
			d := fx.docs[st[1:2]]
			if d == nil {
				h.Die("bad step %q", st)
			}
			s := d.Sigs[0]
			r := histRec{HID: hid + 1, Idx: i + 1, Kind: c.Kind, Size: c.Size, Step: st, Prev: prev, Tampered: st[0] == 't', MayClaim: c.MayClaim[i],
				A: s.BR[0], B: s.BR[1], C: s.BR[2], D: s.BR[3], F: len(d.Bytes), GapLo: s.GapLo, GapHi: s.GapHi}
			b := d.Bytes
			if r.Tampered {
				r.Off = fx.off[st[2:]]
				b = append([]byte(nil), d.Bytes...)
				b[r.Off] ^= 1
				tampered++
			}
			v := e.verdictFor(b, true, s.Key)
			r.Status, r.Reason, r.DocMod = v.Status, v.Reason, v.DocMod
			w.Put(r)
			prev = c.Kind + "/" + c.Size + "/" + st
			steps++
			if c.Size == "large" {
				large++
			}
		}
	}
	w.Close()
	h.Summary(map[string]any{"histories": len(cases), "steps": steps, "tampered_steps": tampered, "large_steps": large,
		"exec_s": time.Since(t0).Seconds()})
}
