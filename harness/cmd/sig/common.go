package main

import (
	"bytes"
	"fmt"
	"os"
	"path/filepath"
	"regexp"
	"sort"
	"strconv"
	"strings"
	"sync"

	"github.com/pdfcpu/pdfcpu/pkg/api"
	"github.com/pdfcpu/pdfcpu/pkg/pdfcpu/model"
	"github.com/pdfcpu/pdfcpu/pkg/pdfcpu/types"
	"verif/harness/lib/h"
)

func repoDir() string {
	if r := os.Getenv("VERIF_REPO"); r != "" {
		return r
	}
	return "/repo"
}

// env is the per-process validation environment: a private pdfcpu config dir (trust store) and the private PKI.
type env struct {
	dir string
	pki *pki
}

func newEnv() *env {
	d, err := os.MkdirTemp("", "verif-sig-")
	if err != nil {
		h.Die("tmp: %v", err)
	}
	e := &env{dir: d}
	e.pki = newPKI(d)
	if err := api.EnsureDefaultConfigAt(d); err != nil {
		h.Die("config dir: %v", err)
	}
	return e
}

func (e *env) close() {
	if e.pki != nil && e.pki.srv != nil {
		e.pki.srv.Close()
	}
	os.RemoveAll(e.dir)
}

// conf: real samples are validated offline (no resolver in the sandbox); synthetic documents fetch their CRL from the
// harness's own server on 127.0.0.1 (allow-listed), which is what lets them reach "valid".
func (e *env) conf(synth bool) *model.Configuration {
	c := model.NewDefaultConfiguration()
	c.Offline = !synth
	if synth {
		c.AllowedRevocationHosts = []string{"127.0.0.1"}
		c.TimeoutCRL = 5
		c.TimeoutOCSP = 5
		c.PreferredCertRevocationChecker = model.CRL
	}
	return c
}

var statusName = map[model.SignatureStatus]string{
	model.SignatureStatusUnknown: "unknown", model.SignatureStatusValid: "valid", model.SignatureStatusInvalid: "invalid",
}

var reasonName = map[model.SignatureReason]string{
	model.SignatureReasonUnknown: "none", model.SignatureReasonDocNotModified: "docNotModified",
	model.SignatureReasonDocModified: "docModified", model.SignatureReasonSignatureForged: "forged",
	model.SignatureReasonSigningTimeInvalid: "signingTimeInvalid", model.SignatureReasonTimestampTokenInvalid: "timestampTokenInvalid",
	model.SignatureReasonCertInvalid: "certInvalid", model.SignatureReasonCertNotTrusted: "certNotTrusted",
	model.SignatureReasonCertExpired: "certExpired", model.SignatureReasonCertRevoked: "certRevoked",
	model.SignatureReasonInternal: "internal", model.SignatureReasonSelfSignedCertErr: "selfSignedCertErr",
	model.SignatureReasonCertRevocationUnknown: "certRevocationUnknown", model.SignatureReasonMalformed: "malformed",
	model.SignatureReasonUnsupported: "unsupported",
}

func triName(i int) string {
	switch i {
	case model.False:
		return "false"
	case model.True:
		return "true"
	}
	return "unknown"
}

// verdict is what the validator reported for one signature.
type verdict struct {
	Status string `json:"status"` // valid | unknown | invalid | absent (no result for the signature) | error (API error)
	Reason string `json:"reason"`
	DocMod string `json:"docmod"` // false | true | unknown
}

func sigKey(typ, objNr int) string { return fmt.Sprintf("%d:%d", typ, objNr) }

// validate runs the real api.ValidateSignaturesRaw (all signatures) and returns verdicts by signature key.
func (e *env) validate(b []byte, synth bool) (map[string]verdict, error) {
	rs, err := api.ValidateSignaturesRaw(bytes.NewReader(b), true, e.conf(synth))
	if err != nil {
		return nil, err
	}
	m := map[string]verdict{}
	for _, r := range rs {
		k := sigKey(r.Type, r.ObjNr)
		v := verdict{statusName[r.Status], reasonName[r.Reason], triName(r.DocModified)}
		if v.Status == "" {
			v.Status = fmt.Sprintf("status%d", r.Status)
		}
		if v.Reason == "" {
			v.Reason = fmt.Sprintf("reason%d", r.Reason)
		}
		if !r.Signed {
			v = verdict{"absent", "none", "unknown"}
		}
		m[k] = v
	}
	return m, nil
}

func (e *env) verdictFor(b []byte, synth bool, key string) verdict {
	m, err := e.validate(b, synth)
	if err != nil {
		return verdict{"error", "none", "unknown"}
	}
	if v, ok := m[key]; ok {
		return v
	}
	return verdict{"absent", "none", "unknown"}
}

// sigInfo is the measured geometry of one signature of a document.
type sigInfo struct {
	Key          string
	SubFilter    string
	BR           [4]int
	BRPos, BRLen int       // text between [ and ] of this signature's /ByteRange in the file
	BRTok        [4][2]int // absolute [start,end) of each number token
	GapLo, GapHi int       // extent of the <...> hex string of /Contents ([GapLo,GapHi)), -1 if not found
	Base         verdict
}

type doc struct {
	ID    string
	Synth bool
	Kind  string
	Bytes []byte
	Sigs  []sigInfo
}

var brRe = regexp.MustCompile(`/ByteRange\s*\[([0-9\s]*)\]`)

// measure finds every /ByteRange array in the raw bytes and the hex string that starts at its first range end.
func measure(b []byte) []sigInfo {
	var out []sigInfo
	for _, m := range brRe.FindAllSubmatchIndex(b, -1) {
		s := sigInfo{BRPos: m[2], BRLen: m[3] - m[2], GapLo: -1, GapHi: -1}
		txt := b[m[2]:m[3]]
		n := 0
		for i := 0; i < len(txt) && n < 4; {
			if txt[i] < '0' || txt[i] > '9' {
				i++
				continue
			}
			j := i
			for j < len(txt) && txt[j] >= '0' && txt[j] <= '9' {
				j++
			}
			v, _ := strconv.Atoi(string(txt[i:j]))
			s.BR[n] = v
			s.BRTok[n] = [2]int{m[2] + i, m[2] + j}
			n++
			i = j
		}
		if n != 4 {
			continue
		}
		out = append(out, s)
	}
	return out
}

// contentsExtent locates the hex string of the /Contents entry belonging to the signature dictionary that holds
// the /ByteRange at brPos: the nearest "/Contents" followed by '<' (not "<<") within the same dictionary neighbourhood.
func contentsExtent(b []byte, brPos int) (int, int) {
	best, bestDist := -1, 1<<60
	idx := 0
	for {
		k := bytes.Index(b[idx:], []byte("/Contents"))
		if k < 0 {
			break
		}
		p := idx + k
		idx = p + 9
		q := p + 9
		for q < len(b) && (b[q] == ' ' || b[q] == '\n' || b[q] == '\r' || b[q] == '\t') {
			q++
		}
		if q >= len(b) || b[q] != '<' || (q+1 < len(b) && b[q+1] == '<') {
			continue
		}
		d := p - brPos
		if d < 0 {
			d = -d
		}
		if d < bestDist {
			best, bestDist = q, d
		}
	}
	if best < 0 {
		return -1, -1
	}
	e := bytes.IndexByte(b[best:], '>')
	if e < 0 {
		return -1, -1
	}
	return best, best + e + 1
}

// describe reads the document with the real reader to bind signature keys (type:objNr) to their /ByteRange values,
// then attaches the geometry measured on the raw bytes.
func (e *env) describe(d *doc) error {
	conf := e.conf(d.Synth)
	conf.Cmd = model.VALIDATESIGNATURES
	ctx, err := api.ReadValidateAndOptimize(bytes.NewReader(d.Bytes), conf)
	if err != nil {
		return err
	}
	raw := measure(d.Bytes)
	brOf := func(sd types.Dict) ([4]int, bool) {
		var v [4]int
		arr := sd.ArrayEntry("ByteRange")
		if len(arr) != 4 {
			return v, false
		}
		for i, o := range arr {
			n, ok := o.(types.Integer)
			if !ok {
				return v, false
			}
			v[i] = n.Value()
		}
		return v, true
	}
	attach := func(key string, sd types.Dict) {
		br, ok := brOf(sd)
		if !ok {
			return
		}
		for _, r := range raw {
			if r.BR == br {
				r.Key = key
				if n := sd.NameEntry("SubFilter"); n != nil {
					r.SubFilter = *n
				}
				r.GapLo, r.GapHi = contentsExtent(d.Bytes, r.BRPos)
				d.Sigs = append(d.Sigs, r)
				return
			}
		}
	}
	if ctx.URSignature != nil {
		attach(sigKey(model.SigTypeUR, 0), ctx.URSignature)
	}
	var incs []int
	for k := range ctx.Signatures {
		incs = append(incs, k)
	}
	sort.Ints(incs)
	for _, inc := range incs {
		var objs []int
		for o := range ctx.Signatures[inc] {
			objs = append(objs, o)
		}
		sort.Ints(objs)
		for _, o := range objs {
			s := ctx.Signatures[inc][o]
			fd, err := ctx.DereferenceDict(*types.NewIndirectRef(o, 0))
			if err != nil || fd == nil {
				continue
			}
			ir := fd.IndirectRefEntry("V")
			if ir == nil {
				continue
			}
			sd, err := ctx.DereferenceDict(*ir)
			if err != nil || sd == nil {
				continue
			}
			attach(sigKey(s.Type, o), sd)
		}
	}
	base, err := e.validate(d.Bytes, d.Synth)
	if err != nil {
		return err
	}
	for i := range d.Sigs {
		if v, ok := base[d.Sigs[i].Key]; ok {
			d.Sigs[i].Base = v
		} else {
			d.Sigs[i].Base = verdict{"absent", "none", "unknown"}
		}
	}
	return nil
}

// sampleDocs loads the real signed samples.
func (e *env) sampleDocs() []*doc {
	files, _ := filepath.Glob(filepath.Join(repoDir(), "pkg/samples/signatures/*/*.pdf"))
	sort.Strings(files)
	var out []*doc
	for _, f := range files {
		b, err := os.ReadFile(f)
		if err != nil {
			h.Die("read %s: %v", f, err)
		}
		d := &doc{ID: strings.TrimPrefix(f, filepath.Join(repoDir(), "pkg/samples/signatures")+"/"), Bytes: b, Kind: "sample"}
		if err := e.describe(d); err != nil {
			h.Die("describe %s: %v", f, err)
		}
		out = append(out, d)
	}
	return out
}

var synthKinds = []string{"pkcs7", "cades", "sha1", "x509", "dts"}

// synthDocs builds one correctly signed document per kind.
func (e *env) synthDocs() []*doc {
	var out []*doc
	for i, k := range synthKinds {
		b, _, err := e.pki.sign(k, 1+i%2, "", rangeSpec{})
		if err != nil {
			h.Die("sign %s: %v", k, err)
		}
		d := &doc{ID: "synth/" + k, Synth: true, Kind: k, Bytes: b}
		if err := e.describe(d); err != nil {
			h.Die("describe synth %s: %v", k, err)
		}
		out = append(out, d)
	}
	return out
}

// parallel runs fn(i) for i in [0,n) on w workers.
func parallel(n, w int, fn func(i int)) {
	if w < 1 {
		w = 1
	}
	var wg sync.WaitGroup
	ch := make(chan int, 1024)
	for k := 0; k < w; k++ {
		wg.Add(1)
		go func() {
			defer wg.Done()
			for i := range ch {
				fn(i)
			}
		}()
	}
	for i := 0; i < n; i++ {
		ch <- i
	}
	close(ch)
	wg.Wait()
}

// sampleFiles lists the real signed samples as (path, id).
func sampleFiles() [][2]string {
	files, _ := filepath.Glob(filepath.Join(repoDir(), "pkg/samples/signatures/*/*.pdf"))
	sort.Strings(files)
	var out [][2]string
	for _, f := range files {
		out = append(out, [2]string{f, strings.TrimPrefix(f, filepath.Join(repoDir(), "pkg/samples/signatures")+"/")})
	}
	return out
}
