// c28: apply the manipulation cases enumerated by TLC (spec/SigCover.tla) to the real signed samples and to synthetic
// documents (re-signed over the manipulated ranges with the harness's own key), run the real validation and record the
// verdict together with the geometry measured on the file that was validated. TLC (spec/SigCoverTrace.tla) judges.
package main

import (
	"encoding/json"
	"fmt"
	"os"
	"path/filepath"
	"strings"
	"sync"
	"time"

	"github.com/pdfcpu/pdfcpu/pkg/api"
	"github.com/pdfcpu/pdfcpu/pkg/pdfcpu/color"
	"github.com/pdfcpu/pdfcpu/pkg/pdfcpu/model"
	"github.com/pdfcpu/pdfcpu/pkg/pdfcpu/types"
	"verif/harness/lib/h"
)

const tail10 = "\n%VERIFAPP" // 10 bytes appended after %%EOF

func tailOf(n int) string {
	if n == 10 {
		return tail10
	}
	return ""
}

// coverKinds: signature profile x /Type of the signature dictionary x role (field value / direct usage-rights entry).
func coverKinds() []string {
	var ks []string
	for _, p := range synthKinds {
		for _, t := range []string{"Sig", "DocTimeStamp"} {
			ks = append(ks, p+"@"+t)
		}
		ks = append(ks, p+"@Sig#ur3")
	}
	return ks
}

func pagesOf(kind string) int {
	for k, kk := range coverKinds() {
		if kk == kind {
			return 1 + k%2
		}
	}
	return 1
}

// closers: for every later '>' byte within the next bytes behind the hex string, the widening C of the gap that makes it
// end exactly on that byte (C = position + 1 - gapHi).
func closers(b []byte, gapHi int) []int {
	out := []int{}
	for p := gapHi; p < len(b) && p < gapHi+24 && len(out) < 3; p++ {
		if b[p] == '>' {
			out = append(out, p+1-gapHi)
		}
	}
	return out
}

// coverDocs: the samples plus, per synthetic kind and tail, one correctly signed document.
func (e *env) coverDocs() []*doc {
	docs := e.sampleDocs()
	for _, k := range coverKinds() {
		for _, t := range []int{0, 10} {
			b, _, err := e.pki.sign(k, pagesOf(k), tailOf(t), rangeSpec{})
			if err != nil {
				h.Die("sign %s: %v", k, err)
			}
			d := &doc{ID: fmt.Sprintf("synth/%s/t%d", k, t), Synth: true, Kind: k, Bytes: b}
			if err := e.describe(d); err != nil {
				h.Die("describe %s: %v", d.ID, err)
			}
			if len(d.Sigs) != 1 {
				h.Die("%s: %d signatures", d.ID, len(d.Sigs))
			}
			out := d
			docs = append(docs, out)
		}
	}
	return docs
}

type geomLine struct {
	Doc   string `json:"doc"`
	Sig   string `json:"sig"`
	Synth bool   `json:"synth"`
	F     int    `json:"f"`
	A     int    `json:"a"`
	B     int    `json:"b"`
	C     int    `json:"c"`
	D     int    `json:"d"`
	GapLo int    `json:"gaplo"`
	GapHi int    `json:"gaphi"`
	GT    []int  `json:"gt"` // gap widenings that end exactly on a later '>' byte
}

func runGeom() {
	e := newEnv()
	defer e.close()
	w := h.NewW(h.Arg("--out"))
	n := 0
	for _, d := range e.coverDocs() {
		for _, s := range d.Sigs {
			if s.GapLo < 0 {
				continue
			}
			w.Put(geomLine{d.ID, s.Key, d.Synth, len(d.Bytes), s.BR[0], s.BR[1], s.BR[2], s.BR[3], s.GapLo, s.GapHi, closers(d.Bytes, s.GapHi)})
			n++
		}
	}
	w.Close()
	h.Summary(map[string]any{"signatures": n})
}

type case28 struct {
	Doc     string `json:"doc"`
	Sig     string `json:"sig"`
	Fam     string `json:"fam"`
	P1      int    `json:"p1"`
	P2      int    `json:"p2"`
	P3      int    `json:"p3"`
	P4      int    `json:"p4"`
	PA      int    `json:"pa"`
	PB      int    `json:"pb"`
	PC      int    `json:"pc"`
	PD      int    `json:"pd"`
	PF      int    `json:"pf"`
	PCovers bool   `json:"pcovers"`
}

type rec28 struct {
	case28
	ID     int    `json:"id"`
	Synth  bool   `json:"synth"`
	DTS    bool   `json:"dts"`
	A      int    `json:"a"`
	B      int    `json:"b"`
	C      int    `json:"c"`
	D      int    `json:"d"`
	F      int    `json:"f"`
	GapLo  int    `json:"gaplo"`
	GapHi  int    `json:"gaphi"`
	Status string `json:"status"`
	Reason string `json:"reason"`
	DocMod string `json:"docmod"`
}

// increment appends a real incremental update (a text annotation on page 1) using the real API.
func (e *env) increment(b []byte, dir string, id int) ([]byte, error) {
	p := filepath.Join(dir, fmt.Sprintf("inc-%d.pdf", id))
	if err := os.WriteFile(p, b, 0644); err != nil {
		return nil, err
	}
	defer os.Remove(p)
	ar := model.NewTextAnnotation(*types.NewRectangle(10, 10, 60, 60), 0, "verif", "verif-inc", "", 0, &color.Gray, "verif", nil, nil, "", "", 0, 0, 0, true, "Comment")
	conf := e.conf(false)
	if err := api.AddAnnotationsFile(p, "", []string{"1"}, ar, conf, true); err != nil {
		return nil, err
	}
	return os.ReadFile(p)
}

func setBR(b []byte, s sigInfo, br [4]int) ([]byte, bool) {
	out := append([]byte(nil), b...)
	for i := 0; i < 4; i++ {
		if br[i] == s.BR[i] {
			continue
		}
		txt := fmt.Sprint(br[i])
		if br[i] < 0 || len(txt) != s.BRTok[i][1]-s.BRTok[i][0] {
			return nil, false
		}
		copy(out[s.BRTok[i][0]:], txt)
	}
	return out, true
}

func runC28() {
	workers := h.ArgInt("--workers", 8)
	e := newEnv()
	defer e.close()
	docs := map[string]*doc{}
	for _, d := range e.coverDocs() {
		docs[d.ID] = d
	}
	var cases []case28
	if err := h.EachLine(h.Arg("--cases"), func(l []byte) error {
		var c case28
		if err := json.Unmarshal(l, &c); err != nil {
			return err
		}
		cases = append(cases, c)
		return nil
	}); err != nil {
		h.Die("cases: %v", err)
	}
	recs := make([]*rec28, len(cases))
	skipped := map[string]int{}
	var mu sync.Mutex
	skip := func(why string) {
		mu.Lock()
		skipped[why]++
		mu.Unlock()
	}
	t0 := time.Now()
	parallel(len(cases), workers, func(i int) {
		c := cases[i]
		d := docs[c.Doc]
		if d == nil {
			h.Die("unknown document %s", c.Doc)
		}
		var s *sigInfo
		for k := range d.Sigs {
			if d.Sigs[k].Key == c.Sig {
				s = &d.Sigs[k]
			}
		}
		if s == nil {
			h.Die("unknown signature %s of %s", c.Sig, c.Doc)
		}
		var b []byte
		switch c.Fam {
		case "intact":
			b = d.Bytes
		case "append":
			b = append(append([]byte(nil), d.Bytes...), []byte(strings.Repeat("\n", c.P1))...)
			if c.P1 > 1 {
				copy(b[len(d.Bytes):], "%appended by verif")
			}
		case "incr":
			var err error
			if b, err = e.increment(d.Bytes, e.dir, i); err != nil {
				skip("incr:" + c.Doc + ": api refused")
				return
			}
		case "brshift", "gapmove", "overlap":
			var ok bool
			if b, ok = setBR(d.Bytes, *s, [4]int{c.PA, c.PB, c.PC, c.PD}); !ok {
				skip(c.Fam + ":digit-count")
				return
			}
		case "resign":
			parts := strings.Split(c.Doc, "/") // synth/<kind>/t<tail>
			tail := 0
			fmt.Sscanf(parts[2], "t%d", &tail)
			pages := pagesOf(parts[1])
			var err error
			if b, _, err = e.pki.sign(parts[1], pages, tailOf(tail), rangeSpec{c.P1, c.P2, c.P3, c.P4}); err != nil {
				skip("resign:" + parts[1] + ": " + err.Error())
				return
			}
		default:
			h.Die("unknown family %s", c.Fam)
		}
		r := &rec28{case28: c, ID: i + 1, Synth: d.Synth, DTS: s.SubFilter == "ETSI.RFC3161" && strings.HasPrefix(s.Key, "3:")}
		// measure what is really in the file now
		found := false
		for _, ms := range measure(b) {
			if ms.BRPos == s.BRPos {
				r.A, r.B, r.C, r.D = ms.BR[0], ms.BR[1], ms.BR[2], ms.BR[3]
				found = true
			}
		}
		if !found {
			h.Die("%s: byte range not found after %s", c.Doc, c.Fam)
		}
		r.F = len(b)
		r.GapLo, r.GapHi = contentsExtent(b, s.BRPos)
		v := e.verdictFor(b, d.Synth, s.Key)
		r.Status, r.Reason, r.DocMod = v.Status, v.Reason, v.DocMod
		recs[i] = r
	})
	w := h.NewW(h.Arg("--out"))
	fams := map[string]int{}
	claims, validNoCover := 0, 0
	for _, r := range recs {
		if r == nil {
			continue
		}
		w.Put(r)
		fams[r.Fam]++
		if r.DocMod == "false" || r.Reason == "docNotModified" {
			claims++
		}
		cov := r.A == 0 && r.A+r.B == r.GapLo && r.C == r.GapHi && r.C+r.D == r.F
		if r.Status == "valid" && !cov {
			validNoCover++
		}
	}
	w.Close()
	h.Summary(map[string]any{"cases": len(cases), "records": w.N, "families": fams, "skipped": skipped,
		"unmodified_claims": claims, "valid_without_cover": validNoCover, "exec_s": time.Since(t0).Seconds()})
}
