// synth.go: an independent producer of genuinely signed PDF documents (own DER/CMS encoder, own PDF bytes via rawpdf),
// with a private PKI whose root lives in a temporary pdfcpu trust directory and whose CRL is served from 127.0.0.1.
// The real samples' certificates are expired, so only these documents can reach Status "valid" in the sandbox.
package main

import (
	"bytes"
	"crypto"
	"crypto/rand"
	"crypto/rsa"
	"crypto/sha1"
	"crypto/sha256"
	"crypto/x509"
	"crypto/x509/pkix"
	"encoding/asn1"
	"encoding/hex"
	"encoding/pem"
	"fmt"
	"math/big"
	"net"
	"net/http"
	"os"
	"path/filepath"
	"sort"
	"strings"
	"time"

	"verif/harness/lib/h"
	"verif/harness/lib/rawpdf"
)

// ---------------------------------------------------------------------------------- DER helpers

func derLen(n int) []byte {
	if n < 128 {
		return []byte{byte(n)}
	}
	var b []byte
	for x := n; x > 0; x >>= 8 {
		b = append([]byte{byte(x)}, b...)
	}
	return append([]byte{0x80 | byte(len(b))}, b...)
}

func tlv(tag byte, parts ...[]byte) []byte {
	var c []byte
	for _, p := range parts {
		c = append(c, p...)
	}
	out := append([]byte{tag}, derLen(len(c))...)
	return append(out, c...)
}

func seq(parts ...[]byte) []byte { return tlv(0x30, parts...) }

// setOf sorts the encoded elements (DER SET OF).
func setOf(tag byte, elems ...[]byte) []byte {
	s := append([][]byte(nil), elems...)
	sort.Slice(s, func(i, j int) bool { return bytes.Compare(s[i], s[j]) < 0 })
	return tlv(tag, s...)
}

func mustMarshal(v any) []byte {
	b, err := asn1.Marshal(v)
	if err != nil {
		h.Die("asn1: %v", err)
	}
	return b
}

func oid(o ...int) []byte       { return mustMarshal(asn1.ObjectIdentifier(o)) }
func octets(b []byte) []byte    { return tlv(0x04, b) }
func integer(i *big.Int) []byte { return mustMarshal(i) }

var (
	oData       = []int{1, 2, 840, 113549, 1, 7, 1}
	oSignedData = []int{1, 2, 840, 113549, 1, 7, 2}
	oTSTInfo    = []int{1, 2, 840, 113549, 1, 9, 16, 1, 4}
	oContentTyp = []int{1, 2, 840, 113549, 1, 9, 3}
	oMsgDigest  = []int{1, 2, 840, 113549, 1, 9, 4}
	oSigCertV2  = []int{1, 2, 840, 113549, 1, 9, 16, 2, 47}
	oSHA256     = []int{2, 16, 840, 1, 101, 3, 4, 2, 1}
	oRSA        = []int{1, 2, 840, 113549, 1, 1, 1}
)

func algID(o []int) []byte { return seq(oid(o...), []byte{0x05, 0x00}) }

// ---------------------------------------------------------------------------------- PKI

type pki struct {
	caKey, key      *rsa.PrivateKey
	ca, leaf, tsa   *x509.Certificate
	crl             []byte
	confDir, crlURL string
	srv             *http.Server
}

func newPKI(confDir string) *pki {
	p := &pki{confDir: confDir}
	var err error
	if p.caKey, err = rsa.GenerateKey(rand.Reader, 2048); err != nil {
		h.Die("rsa: %v", err)
	}
	if p.key, err = rsa.GenerateKey(rand.Reader, 2048); err != nil {
		h.Die("rsa: %v", err)
	}
	ln, err := net.Listen("tcp", "127.0.0.1:0")
	if err != nil {
		h.Die("listen: %v", err)
	}
	// constant-length URL whatever the port, so that the certificates (and with them the adbe.x509.rsa_sha1 documents,
	// which embed them in /Cert) have the same size in every process
	port := ln.Addr().(*net.TCPAddr).Port
	p.crlURL = fmt.Sprintf("http://127.0.0.1:%d/%sca.crl", port, strings.Repeat("x", 5-len(fmt.Sprint(port))))
	now := time.Now()
	caT := &x509.Certificate{
		SerialNumber: big.NewInt(1), Subject: pkix.Name{CommonName: "Verif Root", Organization: []string{"verif"}},
		NotBefore: now.Add(-24 * time.Hour), NotAfter: now.Add(240 * time.Hour),
		KeyUsage: x509.KeyUsageCertSign | x509.KeyUsageCRLSign, BasicConstraintsValid: true, IsCA: true,
	}
	caDER, err := x509.CreateCertificate(rand.Reader, caT, caT, &p.caKey.PublicKey, p.caKey)
	if err != nil {
		h.Die("ca: %v", err)
	}
	p.ca, _ = x509.ParseCertificate(caDER)
	leafT := &x509.Certificate{
		SerialNumber: big.NewInt(1001), Subject: pkix.Name{CommonName: "Verif Signer", Organization: []string{"verif"}},
		NotBefore: now.Add(-time.Hour), NotAfter: now.Add(200 * time.Hour),
		KeyUsage: x509.KeyUsageDigitalSignature | x509.KeyUsageContentCommitment, BasicConstraintsValid: true,
		CRLDistributionPoints: []string{p.crlURL},
	}
	leafDER, err := x509.CreateCertificate(rand.Reader, leafT, p.ca, &p.key.PublicKey, p.caKey)
	if err != nil {
		h.Die("leaf: %v", err)
	}
	p.leaf, _ = x509.ParseCertificate(leafDER)
	// TSA: the extended key usage must be exactly id-kp-timeStamping and the extension critical.
	eku := seq(oid(1, 3, 6, 1, 5, 5, 7, 3, 8))
	tsaT := &x509.Certificate{
		SerialNumber: big.NewInt(1002), Subject: pkix.Name{CommonName: "Verif TSA", Organization: []string{"verif"}},
		NotBefore: now.Add(-time.Hour), NotAfter: now.Add(200 * time.Hour),
		KeyUsage: x509.KeyUsageDigitalSignature, BasicConstraintsValid: true,
		CRLDistributionPoints: []string{p.crlURL},
		ExtraExtensions:       []pkix.Extension{{Id: asn1.ObjectIdentifier{2, 5, 29, 37}, Critical: true, Value: eku}},
	}
	tsaDER, err := x509.CreateCertificate(rand.Reader, tsaT, p.ca, &p.key.PublicKey, p.caKey)
	if err != nil {
		h.Die("tsa: %v", err)
	}
	p.tsa, _ = x509.ParseCertificate(tsaDER)
	p.crl, err = x509.CreateRevocationList(rand.Reader, &x509.RevocationList{
		Number: big.NewInt(1), ThisUpdate: now.Add(-time.Hour), NextUpdate: now.Add(100 * time.Hour),
	}, p.ca, p.caKey)
	if err != nil {
		h.Die("crl: %v", err)
	}
	mux := http.NewServeMux()
	mux.HandleFunc("/", func(w http.ResponseWriter, r *http.Request) {
		w.Header().Set("Content-Type", "application/pkix-crl")
		w.Write(p.crl)
	})
	p.srv = &http.Server{Handler: mux}
	go p.srv.Serve(ln)
	// trust store: <confDir>/pdfcpu/certs/verif-root.pem
	certDir := filepath.Join(confDir, "pdfcpu", "certs")
	if err := os.MkdirAll(certDir, 0755); err != nil {
		h.Die("certdir: %v", err)
	}
	pemBytes := pem.EncodeToMemory(&pem.Block{Type: "CERTIFICATE", Bytes: caDER})
	if err := os.WriteFile(filepath.Join(certDir, "verif-root.pem"), pemBytes, 0644); err != nil {
		h.Die("trust: %v", err)
	}
	return p
}

// ---------------------------------------------------------------------------------- CMS

type cmsOpts struct {
	cert        *x509.Certificate
	contentType []int  // eContentType
	eContent    []byte // nil: detached
	msgDigest   []byte // SHA-256 of the signed content (detached: of the byte ranges; else of eContent)
	essV2       bool   // add signing-certificate-v2
}

func (p *pki) cms(o cmsOpts) []byte {
	attrs := [][]byte{
		seq(oid(oContentTyp...), tlv(0x31, oid(o.contentType...))),
		seq(oid(oMsgDigest...), tlv(0x31, octets(o.msgDigest))),
	}
	if o.essV2 {
		hsh := sha256.Sum256(o.cert.Raw)
		attrs = append(attrs, seq(oid(oSigCertV2...), tlv(0x31, seq(seq(seq(octets(hsh[:])))))))
	}
	signedAttrsSet := setOf(0x31, attrs...)
	dg := sha256.Sum256(signedAttrsSet)
	sigv, err := rsa.SignPKCS1v15(rand.Reader, p.key, crypto.SHA256, dg[:])
	if err != nil {
		h.Die("sign: %v", err)
	}
	signedAttrs := append([]byte{0xA0}, signedAttrsSet[1:]...) // [0] IMPLICIT
	si := seq(
		integer(big.NewInt(1)),
		seq(o.cert.RawIssuer, integer(o.cert.SerialNumber)),
		algID(oSHA256),
		signedAttrs,
		algID(oRSA),
		octets(sigv),
	)
	eci := seq(oid(o.contentType...))
	ver := int64(1)
	if o.eContent != nil {
		eci = seq(oid(o.contentType...), tlv(0xA0, octets(o.eContent)))
	}
	if fmt.Sprint(o.contentType) != fmt.Sprint(oData) {
		ver = 3
	}
	sd := seq(
		integer(big.NewInt(ver)),
		tlv(0x31, algID(oSHA256)),
		eci,
		tlv(0xA0, o.cert.Raw, p.ca.Raw),
		tlv(0x31, si),
	)
	return seq(oid(oSignedData...), tlv(0xA0, sd))
}

func (p *pki) tstInfo(imprint []byte) []byte {
	gt := mustMarshal(time.Now().UTC().Add(-time.Minute).Truncate(time.Second))
	// force GeneralizedTime
	var rv asn1.RawValue
	asn1.Unmarshal(gt, &rv)
	if rv.Tag != asn1.TagGeneralizedTime {
		gt = tlv(0x18, []byte(time.Now().UTC().Add(-time.Minute).Format("20060102150405Z")))
	}
	return seq(
		integer(big.NewInt(1)),
		oid(1, 2, 3, 4, 1),
		seq(algID(oSHA256), octets(imprint)),
		integer(big.NewInt(4242)),
		gt,
	)
}

// ---------------------------------------------------------------------------------- signed PDF

// hexLen is the number of hex digits reserved for /Contents (adbe.x509.rsa_sha1 does not tolerate padding:
// the value is a bare DER OCTET STRING holding the 2048-bit PKCS#1 signature).
func hexLen(kind string) int {
	if parseKind(kind).Profile == "x509" {
		return 2 * (4 + 256)
	}
	return 8192
}

// sdoc is a signed synthetic document.
type sdoc struct {
	Kind  string // pkcs7 | cades | sha1 | x509 | dts
	Bytes []byte
}

// A kind names the signature of a synthetic document: <profile>[@<dict type>][#ur3].
//
//	profile   pkcs7 | cades | sha1 | x509 | dts : the /SubFilter and the matching signature value
//	dict type /Type of the signature dictionary: Sig or DocTimeStamp (default: DocTimeStamp for dts, else Sig)
//	#ur3      the signature dictionary is the DIRECT value of /Perms /UR3 in the catalog (usage rights signature)
//	          instead of the /V of a signature field
type kindSpec struct {
	Profile, DictType string
	UR3               bool
}

func parseKind(kind string) kindSpec {
	k := kindSpec{}
	if i := strings.Index(kind, "#"); i >= 0 {
		k.UR3 = kind[i+1:] == "ur3"
		kind = kind[:i]
	}
	if i := strings.Index(kind, "@"); i >= 0 {
		k.DictType = kind[i+1:]
		kind = kind[:i]
	}
	k.Profile = kind
	if k.DictType == "" {
		k.DictType = "Sig"
		if k.Profile == "dts" {
			k.DictType = "DocTimeStamp"
		}
	}
	return k
}

var subFilter = map[string]string{
	"pkcs7": "adbe.pkcs7.detached", "cades": "ETSI.CAdES.detached", "sha1": "adbe.pkcs7.sha1",
	"x509": "adbe.x509.rsa_sha1", "dts": "ETSI.RFC3161",
}

// rangeSpec gives the ranges to sign relative to the true geometry: a = A; a+b = gapLo+E1; c = gapHi+C; c+d = F+E2.
type rangeSpec struct{ A, E1, C, E2 int }

// unsignedPDF emits the document with placeholders; tail is appended after %%EOF.
// docOpts varies the fixture: Variant is one letter drawn on every page (documents that differ only in Variant have the
// same length), Pad the size of an extra stream placed in front of the signature dictionary, i.e. inside the first
// signed range (0: none), so that the signed ranges can be made larger than any internal buffer threshold.
type docOpts struct {
	Variant string
	Pad     int
}

func padData(n int) []byte {
	line := []byte("verif padding of the signed range 0123456789 abcdefghijklmnopqrstuvwxyz\n")
	b := make([]byte, 0, n+len(line))
	for len(b) < n {
		b = append(b, line...)
	}
	return b[:n]
}

func (p *pki) unsignedPDF(kind string, pages int, tail string, o docOpts) []byte {
	v := o.Variant
	if v == "" {
		v = "S"
	}
	ps := make([]rawpdf.PageSpec, pages)
	for i := range ps {
		ps[i] = rawpdf.PageSpec{Marker: fmt.Sprintf("%s-%s-%d", v, kind, i+1), Rotate: -1}
	}
	d := rawpdf.MarkerDoc(ps, rawpdf.MarkerOpts{})
	// MarkerDoc: 1 catalog, 2 font, 3 root pages, then per page: content, page
	if o.Pad > 0 {
		d.AddStream("/Type /VerifPad", padData(o.Pad))
	}
	ks := parseKind(kind)
	extra := ""
	if ks.Profile == "x509" {
		extra = " /Cert [<" + hex.EncodeToString(p.leaf.Raw) + "> <" + hex.EncodeToString(p.ca.Raw) + ">]"
	}
	sigBody := fmt.Sprintf("<< /Type /%s /Filter /Adobe.PPKLite /SubFilter /%s%s /M (D:20260101000000Z)%%s /ByteRange [%s] /Contents <%s> >>",
		ks.DictType, subFilter[ks.Profile], extra, strings.Repeat(" ", 43), strings.Repeat("0", hexLen(kind)))
	cat := d.Objs[d.Root-1]
	if ks.UR3 {
		ref := " /Reference [<< /Type /SigRef /TransformMethod /UR3 /TransformParams << /Type /TransformParams /V /2.2 /Document [/FullSave] >> >>]"
		// the validator only looks at usage rights when the form announces signatures (/SigFlags bit 1); pdfcpu drops an
		// AcroForm without fields, so the form carries one text field
		tx := d.Add("<< /Type /Annot /Subtype /Widget /FT /Tx /T (note) /Rect [20 100 120 130] /F 4 /P 5 0 R /DA (/Helv 10 Tf 0 g) >>")
		d.Set(5, strings.TrimSuffix(d.Objs[4], " >>")+fmt.Sprintf(" /Annots [%d 0 R] >>", tx))
		d.Set(d.Root, strings.TrimSuffix(cat, " >>")+fmt.Sprintf(" /AcroForm << /Fields [%d 0 R] /SigFlags 1 /DA (/Helv 10 Tf 0 g) /DR << /Font << /Helv 2 0 R >> >> >>", tx)+
			" /Perms << /UR3 "+fmt.Sprintf(sigBody, ref)+" >> >>")
		return append(d.Bytes(), tail...)
	}
	field := d.Reserve()
	sigd := d.Reserve()
	firstPage := 5
	d.Set(field, fmt.Sprintf("<< /Type /Annot /Subtype /Widget /FT /Sig /T (Signature1) /Rect [0 0 0 0] /F 132 /P %d 0 R /V %d 0 R >>", firstPage, sigd))
	d.Set(sigd, fmt.Sprintf(sigBody, ""))
	pg := d.Objs[firstPage-1]
	d.Set(firstPage, strings.TrimSuffix(pg, " >>")+fmt.Sprintf(" /Annots [%d 0 R] >>", field))
	d.Set(d.Root, strings.TrimSuffix(cat, " >>")+fmt.Sprintf(" /AcroForm << /Fields [%d 0 R] /SigFlags 3 >> >>", field))
	return append(d.Bytes(), tail...)
}

type geom struct {
	F, GapLo, GapHi int // gap = [GapLo, GapHi) = the hex string including < and >
	BRPos, BRLen    int // position/length of the text between [ and ] of /ByteRange
	BR              [4]int
}

// sign fills /ByteRange and /Contents so that the signature verifies over exactly the ranges given by rs.
func (p *pki) sign(kind string, pages int, tail string, rs rangeSpec) ([]byte, geom, error) {
	return p.signOpts(kind, pages, tail, rs, docOpts{})
}

func (p *pki) signOpts(kind string, pages int, tail string, rs rangeSpec, o docOpts) ([]byte, geom, error) {
	b := p.unsignedPDF(kind, pages, tail, o)
	var g geom
	i := bytes.Index(b, []byte("/ByteRange ["))
	j := bytes.Index(b, []byte("/Contents <"))
	if i < 0 || j < 0 {
		return nil, g, fmt.Errorf("placeholders not found")
	}
	g.BRPos, g.BRLen = i+len("/ByteRange ["), 43
	g.GapLo = j + len("/Contents ")
	g.GapHi = g.GapLo + hexLen(kind) + 2
	g.F = len(b)
	a := rs.A
	e1 := g.GapLo + rs.E1
	c := g.GapHi + rs.C
	e2 := g.F + rs.E2
	if a < 0 || e1 < a || c < 0 || e2 < c {
		return nil, g, fmt.Errorf("negative range")
	}
	g.BR = [4]int{a, e1 - a, c, e2 - c}
	br := fmt.Sprintf("%d %d %d %d", g.BR[0], g.BR[1], g.BR[2], g.BR[3])
	if len(br) > g.BRLen {
		return nil, g, fmt.Errorf("byte range text too long")
	}
	copy(b[g.BRPos:], br)
	// The ranges may reach into the hex string by at most 2 characters on each side: those characters are constant
	// ('<', '3' of the leading 0x30 and the padding '0', '>'), so the signed bytes do not depend on the signature.
	prof := parseKind(kind).Profile
	if e1 > g.GapLo+2 || c < g.GapHi-2 || (prof == "x509" && c < g.GapHi-1) {
		return nil, g, fmt.Errorf("ranges would cover the signature value")
	}
	first := byte('3') // 0x30 SEQUENCE
	if prof == "x509" {
		first = '0' // 0x04 OCTET STRING
	}
	b[g.GapLo+1] = first
	signed := func() []byte {
		var s []byte
		clip := func(lo, hi int) {
			if lo > len(b) {
				lo = len(b)
			}
			if hi > len(b) {
				hi = len(b)
			}
			if lo < hi {
				s = append(s, b[lo:hi]...)
			}
		}
		clip(a, e1)
		clip(c, e2)
		return s
	}()
	var val []byte
	switch prof {
	case "pkcs7", "cades":
		dg := sha256.Sum256(signed)
		val = p.cms(cmsOpts{cert: p.leaf, contentType: oData, msgDigest: dg[:], essV2: prof == "cades"})
	case "sha1":
		d1 := sha1.Sum(signed)
		dg := sha256.Sum256(d1[:])
		val = p.cms(cmsOpts{cert: p.leaf, contentType: oData, eContent: d1[:], msgDigest: dg[:]})
	case "dts":
		imp := sha256.Sum256(signed)
		tst := p.tstInfo(imp[:])
		dg := sha256.Sum256(tst)
		val = p.cms(cmsOpts{cert: p.tsa, contentType: oTSTInfo, eContent: tst, msgDigest: dg[:], essV2: true})
	case "x509":
		d1 := sha1.Sum(signed)
		sv, err := rsa.SignPKCS1v15(rand.Reader, p.key, crypto.SHA1, d1[:])
		if err != nil {
			return nil, g, err
		}
		val = octets(sv)
	default:
		return nil, g, fmt.Errorf("unknown kind %s", kind)
	}
	hx := strings.ToUpper(hex.EncodeToString(val))
	if len(hx) > hexLen(kind)-4 && !(prof == "x509" && len(hx) == hexLen(kind)) {
		return nil, g, fmt.Errorf("signature value size %d does not fit %d", len(hx), hexLen(kind))
	}
	if hx[0] != first {
		return nil, g, fmt.Errorf("unexpected DER start")
	}
	copy(b[g.GapLo+1:], hx)
	return b, g, nil
}
